package conform

import (
	"bytes"
	"fmt"
	"runtime"
	"strconv"
	"strings"
	"sync"
	"time"

	"github.com/hashicorp/memberlist"
)

// Event is one entry of the global log of a scenario run: a delegate callback
// at a node, a harness operation ("op"), a packet carrying a user payload
// ("wire-user") or a line of memberlist's own log ("mlog"). G is a global
// sequence number taken under one mutex (so it is consistent with real time),
// Seq the sequence number within the node instance.
type Event struct {
	G     int     `json:"g"`
	T     float64 `json:"t_ms"`
	Node  string  `json:"node,omitempty"`
	Inst  int     `json:"inst,omitempty"`
	Seq   int     `json:"seq,omitempty"`
	Gid   int64   `json:"gid,omitempty"`
	Kind  string  `json:"kind"`
	Peer  string  `json:"peer,omitempty"`
	State string  `json:"state,omitempty"`
	Data  string  `json:"data,omitempty"`
}

func (e Event) Inst_() string { return fmt.Sprintf("%s#%d", e.Node, e.Inst) }

func (e Event) String() string {
	var sb strings.Builder
	fmt.Fprintf(&sb, "g=%d t=%.1fms ", e.G, e.T)
	if e.Node != "" {
		fmt.Fprintf(&sb, "%s#%d/%d ", e.Node, e.Inst, e.Seq)
	}
	if e.Gid != 0 {
		fmt.Fprintf(&sb, "gid=%d ", e.Gid)
	}
	sb.WriteString(e.Kind)
	if e.Peer != "" {
		sb.WriteString(" " + e.Peer)
	}
	if e.State != "" {
		sb.WriteString(" [" + e.State + "]")
	}
	if e.Data != "" {
		sb.WriteString(" " + e.Data)
	}
	return sb.String()
}

type Recorder struct {
	mu     sync.Mutex
	start  time.Time
	events []Event
	seq    map[string]int
}

func NewRecorder() *Recorder { return &Recorder{start: time.Now(), seq: map[string]int{}} }

func (r *Recorder) Add(e Event) int {
	r.mu.Lock()
	defer r.mu.Unlock()
	e.G = len(r.events) + 1
	e.T = float64(time.Since(r.start).Microseconds()) / 1000
	if e.Node != "" {
		k := e.Inst_()
		r.seq[k]++
		e.Seq = r.seq[k]
	}
	r.events = append(r.events, e)
	return e.G
}

func (r *Recorder) Events() []Event {
	r.mu.Lock()
	defer r.mu.Unlock()
	return append([]Event(nil), r.events...)
}

func goid() int64 {
	var buf [64]byte
	n := runtime.Stack(buf[:], false)
	// "goroutine 123 ["
	f := bytes.Fields(buf[:n])
	if len(f) < 2 {
		return 0
	}
	id, _ := strconv.ParseInt(string(f[1]), 10, 64)
	return id
}

// Note: the State field of the *memberlist.Node handed to the event delegate is
// not maintained by memberlist v0.5.4 (it always reads "alive": nodeState has its
// own State field that shadows it), so it is not recorded.

// recDelegate is a plain recording memberlist.Delegate + EventDelegate +
// ConflictDelegate. It keeps the set of nodes currently held alive (derived
// from the notifications only) so that scenarios can wait on it.
type recDelegate struct {
	rec  *Recorder
	name string
	inst int
	meta []byte

	mu          sync.Mutex
	held        map[string]bool
	everLeft    map[string]int // NotifyLeave count per node
	lsN         int
	queue       *memberlist.TransmitLimitedQueue
	seen        map[string]int // user payload -> arrivals
	arrivals    []string
	rebroadcast bool
}

func (d *recDelegate) ev(kind, peer, state, data string) {
	d.rec.Add(Event{Node: d.name, Inst: d.inst, Gid: goid(), Kind: kind, Peer: peer, State: state, Data: data})
}

// --- memberlist.EventDelegate

func (d *recDelegate) NotifyJoin(n *memberlist.Node) {
	d.mu.Lock()
	d.held[n.Name] = true
	d.mu.Unlock()
	d.ev("NotifyJoin", n.Name, "", "meta="+string(n.Meta))
}

func (d *recDelegate) NotifyLeave(n *memberlist.Node) {
	d.mu.Lock()
	delete(d.held, n.Name)
	d.everLeft[n.Name]++
	d.mu.Unlock()
	d.ev("NotifyLeave", n.Name, "", "")
}

func (d *recDelegate) NotifyUpdate(n *memberlist.Node) {
	d.ev("NotifyUpdate", n.Name, "", "meta="+string(n.Meta))
}

// --- memberlist.ConflictDelegate

func (d *recDelegate) NotifyConflict(existing, other *memberlist.Node) {
	d.ev("NotifyConflict", existing.Name, "", fmt.Sprintf("%s vs %s", existing.Address(), other.Address()))
}

// --- memberlist.Delegate

func (d *recDelegate) NodeMeta(limit int) []byte { return d.meta }

func (d *recDelegate) NotifyMsg(b []byte) {
	s := string(b) // copies
	d.mu.Lock()
	d.seen[s]++
	first := d.seen[s] == 1
	d.arrivals = append(d.arrivals, s)
	rb := d.rebroadcast
	d.mu.Unlock()
	d.ev("NotifyMsg", "", "", s)
	if first && rb {
		// as serf does: a message seen for the first time is queued for re-broadcast
		d.queue.QueueBroadcast(&userBroadcast{msg: []byte(s)})
	}
}

func (d *recDelegate) GetBroadcasts(overhead, limit int) [][]byte {
	out := d.queue.GetBroadcasts(overhead, limit)
	if len(out) > 0 {
		var ids []string
		for _, m := range out {
			ids = append(ids, string(m))
		}
		d.ev("GetBroadcasts", "", "", strings.Join(ids, ","))
	}
	return out
}

// LocalState returns "LS:<name>#<inst>:<n>:<join>" so that a merged buffer
// identifies the LocalState call that produced it.
func (d *recDelegate) LocalState(join bool) []byte {
	d.mu.Lock()
	d.lsN++
	n := d.lsN
	d.mu.Unlock()
	s := fmt.Sprintf("LS:%s#%d:%d:%v", d.name, d.inst, n, join)
	d.ev("LocalState", "", fmt.Sprintf("join=%v", join), s)
	return []byte(s)
}

func (d *recDelegate) MergeRemoteState(buf []byte, join bool) {
	d.ev("MergeRemoteState", "", fmt.Sprintf("join=%v", join), string(buf))
}

func (d *recDelegate) holds(name string) bool {
	d.mu.Lock()
	defer d.mu.Unlock()
	return d.held[name]
}

func (d *recDelegate) leaves(name string) int {
	d.mu.Lock()
	defer d.mu.Unlock()
	return d.everLeft[name]
}

func (d *recDelegate) arrivalsOf() []string {
	d.mu.Lock()
	defer d.mu.Unlock()
	return append([]string(nil), d.arrivals...)
}

type userBroadcast struct{ msg []byte }

func (b *userBroadcast) Invalidates(memberlist.Broadcast) bool { return false }
func (b *userBroadcast) Message() []byte                       { return b.msg }
func (b *userBroadcast) Finished()                             {}

// logWriter turns memberlist's log output into "mlog" events (DEBUG lines are dropped).
type logWriter struct {
	rec  *Recorder
	name string
	inst int
	mu   sync.Mutex
	buf  []byte
}

func (w *logWriter) Write(p []byte) (int, error) {
	w.mu.Lock()
	w.buf = append(w.buf, p...)
	var lines []string
	for {
		i := bytes.IndexByte(w.buf, '\n')
		if i < 0 {
			break
		}
		lines = append(lines, string(w.buf[:i]))
		w.buf = w.buf[i+1:]
	}
	w.mu.Unlock()
	for _, l := range lines {
		if strings.Contains(l, "[DEBUG]") {
			continue
		}
		if i := strings.Index(l, "memberlist: "); i >= 0 {
			l = l[i+len("memberlist: "):]
		}
		w.rec.Add(Event{Node: w.name, Inst: w.inst, Kind: "mlog", Data: l})
	}
	return len(p), nil
}
