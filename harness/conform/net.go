// Package conform validates the memberlist contract assumed by the cluster
// checks C01/C02 (DESIGN.md §2.3, clauses (a)-(f)) against LIVE
// hashicorp/memberlist: scripted scenarios on 2-4 real memberlist instances
// connected by an in-memory transport, plain recording delegates, and a checker
// that tests every recorded callback trace for inclusion in the contract
// language. Nothing here runs under the controlled scheduler: memberlist is not
// instrumented, goroutines and (short) timers are real.
package conform

import (
	"bytes"
	"errors"
	"fmt"
	"net"
	"strings"
	"sync"
	"sync/atomic"
	"time"

	"github.com/hashicorp/memberlist"
)

// Net is an in-memory packet + stream network. Reachability is decided per
// pair of node names by the partition side of each name.
type Net struct {
	mu     sync.Mutex
	byAddr map[string]*Transport
	side   map[string]int
	rec    *Recorder
	marks  []string // user payload markers looked for in packets

	Packets, PacketsDropped, Dials, DialsFailed int64
}

func NewNet(rec *Recorder) *Net {
	return &Net{byAddr: map[string]*Transport{}, side: map[string]int{}, rec: rec}
}

func (n *Net) reach(a, b string) bool {
	n.mu.Lock()
	defer n.mu.Unlock()
	return n.side[a] == n.side[b]
}

// SetSides puts every listed name on the side given by its group index; names
// not listed are on side 0.
func (n *Net) SetSides(groups [][]string) {
	n.mu.Lock()
	defer n.mu.Unlock()
	n.side = map[string]int{}
	for i, g := range groups {
		for _, name := range g {
			n.side[name] = i
		}
	}
}

func (n *Net) AddMark(m string) {
	n.mu.Lock()
	n.marks = append(n.marks, m)
	n.mu.Unlock()
}

func (n *Net) lookup(addr string) *Transport {
	n.mu.Lock()
	defer n.mu.Unlock()
	return n.byAddr[addr]
}

// Transport implements memberlist.Transport.
type Transport struct {
	net      *Net
	name     string
	inst     int
	ip       net.IP
	port     int
	addr     string
	packetCh chan *memberlist.Packet
	streamCh chan net.Conn
	down     int32
}

func (n *Net) NewTransport(name string, inst, idx int) *Transport {
	t := &Transport{net: n, name: name, inst: inst, ip: net.IPv4(10, 0, 0, byte(idx)), port: 7946,
		packetCh: make(chan *memberlist.Packet, 4096), streamCh: make(chan net.Conn, 256)}
	t.addr = fmt.Sprintf("%s:%d", t.ip.String(), t.port)
	n.mu.Lock()
	n.byAddr[t.addr] = t // a restarted node takes over the address of its predecessor
	n.mu.Unlock()
	return t
}

func (t *Transport) Addr() string { return t.addr }

func (t *Transport) FinalAdvertiseAddr(string, int) (net.IP, int, error) { return t.ip, t.port, nil }

func (t *Transport) WriteTo(b []byte, addr string) (time.Time, error) {
	now := time.Now()
	if atomic.LoadInt32(&t.down) == 1 {
		return now, errors.New("transport shut down")
	}
	atomic.AddInt64(&t.net.Packets, 1)
	dest := t.net.lookup(addr)
	why := ""
	switch {
	case dest == nil:
		why = "no-such-address"
	case atomic.LoadInt32(&dest.down) == 1:
		why = "dest-down"
	case !t.net.reach(t.name, dest.name):
		why = "partition"
	}
	destName := "?"
	if dest != nil {
		destName = dest.name
	}
	// packets that carry user payloads are part of the trace (clause (d)); the
	// event is recorded before the hand-over so that it precedes the receiver's NotifyMsg
	t.net.mu.Lock()
	marks := t.net.marks
	t.net.mu.Unlock()
	var ids []string
	for _, m := range marks {
		if bytes.Contains(b, []byte(m)) {
			ids = append(ids, m)
		}
	}
	if len(ids) > 0 {
		st := "delivered"
		if why != "" {
			st = "dropped:" + why
		}
		t.net.rec.Add(Event{Node: t.name, Inst: t.inst, Kind: "wire-user", Peer: destName, State: st, Data: strings.Join(ids, ",")})
	}
	if why == "" {
		cp := append([]byte(nil), b...)
		select {
		case dest.packetCh <- &memberlist.Packet{Buf: cp, From: &net.UDPAddr{IP: t.ip, Port: t.port}, Timestamp: now}:
		default:
			why = "queue-full"
		}
	}
	if why != "" {
		atomic.AddInt64(&t.net.PacketsDropped, 1)
	}
	return now, nil // datagrams are lost silently
}

func (t *Transport) PacketCh() <-chan *memberlist.Packet { return t.packetCh }
func (t *Transport) StreamCh() <-chan net.Conn           { return t.streamCh }

func (t *Transport) DialTimeout(addr string, timeout time.Duration) (net.Conn, error) {
	atomic.AddInt64(&t.net.Dials, 1)
	fail := func(why string) (net.Conn, error) {
		atomic.AddInt64(&t.net.DialsFailed, 1)
		return nil, fmt.Errorf("dial %s: %s", addr, why)
	}
	if atomic.LoadInt32(&t.down) == 1 {
		return fail("transport shut down")
	}
	dest := t.net.lookup(addr)
	if dest == nil || atomic.LoadInt32(&dest.down) == 1 {
		return fail("connection refused")
	}
	if !t.net.reach(t.name, dest.name) {
		return fail("i/o timeout (partition)")
	}
	p1, p2 := net.Pipe()
	c1 := &pconn{Conn: p1, n: t.net, a: dest.name, b: t.name, remote: &net.TCPAddr{IP: t.ip, Port: t.port}}
	c2 := &pconn{Conn: p2, n: t.net, a: t.name, b: dest.name, remote: &net.TCPAddr{IP: dest.ip, Port: dest.port}}
	select {
	case dest.streamCh <- c1:
	default:
		p1.Close()
		p2.Close()
		return fail("accept queue full")
	}
	return c2, nil
}

func (t *Transport) Shutdown() error {
	atomic.StoreInt32(&t.down, 1)
	return nil
}

// pconn is one end of a pipe that dies when its two owners are partitioned.
type pconn struct {
	net.Conn
	n      *Net
	a, b   string
	remote net.Addr
}

var errCut = errors.New("connection reset (partition)")

func (c *pconn) Read(p []byte) (int, error) {
	if !c.n.reach(c.a, c.b) {
		c.Conn.Close()
		return 0, errCut
	}
	return c.Conn.Read(p)
}

func (c *pconn) Write(p []byte) (int, error) {
	if !c.n.reach(c.a, c.b) {
		c.Conn.Close()
		return 0, errCut
	}
	return c.Conn.Write(p)
}

func (c *pconn) RemoteAddr() net.Addr { return c.remote }
