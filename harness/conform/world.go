package conform

import (
	"fmt"
	"sort"
	"strings"
	"sync"
	"sync/atomic"
	"time"

	"github.com/hashicorp/memberlist"
)

// Timing used by every scenario (small intervals, generous waits).
const (
	probeInterval    = 50 * time.Millisecond
	probeTimeout     = 25 * time.Millisecond
	gossipInterval   = 20 * time.Millisecond
	pushPullInterval = 200 * time.Millisecond
	suspicionMult    = 3
	suspicionMaxMult = 2
	tcpTimeout       = 500 * time.Millisecond
	waitDeadline     = 10 * time.Second
	drainTime        = 600 * time.Millisecond // > retransmit limit * gossip interval + suspicion timeout
)

// Node is one live memberlist instance.
type Node struct {
	Name string
	Inst int
	ML   *memberlist.Memberlist
	d    *recDelegate
	tr   *Transport
	ml   atomic.Value // *memberlist.Memberlist, for the queue's NumNodes
	down bool
	left bool
}

func (n *Node) Holds(name string) bool { return n.d.holds(name) }
func (n *Node) Addr() string           { return n.Name + "/" + n.tr.Addr() }

// World is one scenario run.
type World struct {
	Rec   *Recorder
	Net   *Net
	mu    sync.Mutex
	nodes []*Node
	insts map[string]int
	idx   map[string]int
	Obs   []string          // observations (normalised text, aggregated over runs)
	Facts map[string]string // scenario-specific answers
}

type inconclusive struct{ reason string }

func NewWorld() *World {
	rec := NewRecorder()
	return &World{Rec: rec, Net: NewNet(rec), insts: map[string]int{}, idx: map[string]int{}, Facts: map[string]string{}}
}

func (w *World) op(node *Node, what, data string) {
	e := Event{Kind: "op:" + what, Data: data, Gid: goid()}
	if node != nil {
		e.Node, e.Inst = node.Name, node.Inst
	}
	w.Rec.Add(e)
}

func (w *World) Observe(format string, a ...interface{}) {
	w.Obs = append(w.Obs, fmt.Sprintf(format, a...))
}

// Start creates a live memberlist named name (a second Start of the same name
// is a restart: new instance, same address).
func (w *World) Start(name string, opts ...func(*memberlist.Config)) *Node {
	return w.StartMeta(name, "m1", opts...)
}

// StartMeta is Start with the node meta data given (serf: the encoded tags).
func (w *World) StartMeta(name, meta string, opts ...func(*memberlist.Config)) *Node {
	w.mu.Lock()
	w.insts[name]++
	inst := w.insts[name]
	if w.idx[name] == 0 {
		w.idx[name] = len(w.idx) + 1
	}
	idx := w.idx[name]
	w.mu.Unlock()

	n := &Node{Name: name, Inst: inst}
	n.tr = w.Net.NewTransport(name, inst, idx)
	n.d = &recDelegate{rec: w.Rec, name: name, inst: inst, meta: []byte(meta), held: map[string]bool{}, everLeft: map[string]int{}, seen: map[string]int{}, rebroadcast: true}
	n.d.queue = &memberlist.TransmitLimitedQueue{
		NumNodes: func() int {
			if ml, ok := n.ml.Load().(*memberlist.Memberlist); ok && ml != nil {
				return ml.NumMembers()
			}
			return 1
		},
		RetransmitMult: 4,
	}
	c := memberlist.DefaultLANConfig()
	c.Name = name
	c.Transport = n.tr
	c.Delegate = n.d
	c.Events = n.d
	c.Conflict = n.d
	c.ProbeInterval = probeInterval
	c.ProbeTimeout = probeTimeout
	c.GossipInterval = gossipInterval
	c.PushPullInterval = pushPullInterval
	c.SuspicionMult = suspicionMult
	c.SuspicionMaxTimeoutMult = suspicionMaxMult
	c.TCPTimeout = tcpTimeout
	c.EnableCompression = false
	c.LogOutput = &logWriter{rec: w.Rec, name: name, inst: inst}
	for _, o := range opts {
		o(c)
	}
	w.op(n, "create", fmt.Sprintf("addr=%s meta=%s", n.tr.Addr(), n.d.meta))
	ml, err := memberlist.Create(c)
	if err != nil {
		panic(inconclusive{"memberlist.Create failed: " + err.Error()})
	}
	n.ML = ml
	n.ml.Store(ml)
	w.mu.Lock()
	w.nodes = append(w.nodes, n)
	w.mu.Unlock()
	return n
}

// Join is memberlist.Join against the given nodes (what Serf.Join and serf's
// reconnect do).
func (w *World) Join(n *Node, targets ...*Node) (int, error) {
	var addrs, names []string
	for _, t := range targets {
		addrs = append(addrs, t.Addr())
		names = append(names, t.Name)
	}
	w.op(n, "join-call", strings.Join(names, ","))
	k, err := n.ML.Join(addrs)
	w.op(n, "join-ret", fmt.Sprintf("ok=%d err=%v", k, err))
	return k, err
}

func (w *World) Leave(n *Node) error {
	w.op(n, "leave-call", "")
	err := n.ML.Leave(2 * time.Second)
	n.left = true
	w.op(n, "leave-ret", fmt.Sprintf("err=%v", err))
	return err
}

func (w *World) Shutdown(n *Node) {
	if n.down {
		return
	}
	n.down = true
	w.op(n, "shutdown-call", "")
	n.ML.Shutdown()
	w.op(n, "shutdown-ret", "")
}

// Partition separates the groups from each other. "begin" is logged before the
// network changes and "applied" after, so that the interval in which
// unreachability is certain lies inside the one in which it is possible.
func (w *World) Partition(groups ...[]string) {
	var gs []string
	for _, g := range groups {
		gs = append(gs, strings.Join(g, ","))
	}
	w.op(nil, "partition-begin", strings.Join(gs, "|"))
	w.Net.SetSides(groups)
	w.op(nil, "partition-applied", strings.Join(gs, "|"))
}

func (w *World) Heal() {
	w.op(nil, "heal-begin", "")
	w.Net.SetSides(nil)
	w.op(nil, "heal-done", "")
}

// QueueUser queues one user broadcast at n (as serf queues an intent).
func (w *World) QueueUser(n *Node, id string) {
	w.Net.AddMark(id)
	w.op(n, "queue-user", id)
	n.d.mu.Lock()
	n.d.seen[id]++ // the origin does not re-queue its own message
	n.d.mu.Unlock()
	n.d.queue.QueueBroadcast(&userBroadcast{msg: []byte(id)})
}

// Wait polls cond until it holds or the deadline passes; a miss ends the
// scenario as inconclusive (never as a mismatch).
func (w *World) Wait(what string, cond func() bool) time.Duration {
	d, ok := w.WaitFor(what, waitDeadline, cond)
	if !ok {
		panic(inconclusive{fmt.Sprintf("%s not reached within %v", what, waitDeadline)})
	}
	return d
}

// WaitFor is an observation window: it reports whether cond came to hold.
func (w *World) WaitFor(what string, max time.Duration, cond func() bool) (time.Duration, bool) {
	start := time.Now()
	for {
		if cond() {
			d := time.Since(start)
			w.op(nil, "reached", fmt.Sprintf("%s after %.0fms", what, float64(d.Microseconds())/1000))
			return d, true
		}
		if time.Since(start) > max {
			w.op(nil, "not-reached", fmt.Sprintf("%s within %v", what, max))
			return time.Since(start), false
		}
		time.Sleep(3 * time.Millisecond)
	}
}

// Settle lets the system run (an observation window, never an oracle).
func (w *World) Settle(d time.Duration, why string) {
	w.op(nil, "settle", fmt.Sprintf("%v: %s", d, why))
	time.Sleep(d)
}

func mesh(nodes ...*Node) func() bool {
	return func() bool {
		for _, a := range nodes {
			for _, b := range nodes {
				if a != b && !a.Holds(b.Name) {
					return false
				}
			}
		}
		return true
	}
}

// Form starts the named nodes, joins each to the first and waits for the full mesh.
func (w *World) Form(names ...string) []*Node {
	var ns []*Node
	for _, name := range names {
		ns = append(ns, w.Start(name))
	}
	for _, n := range ns[1:] {
		if _, err := w.Join(n, ns[0]); err != nil {
			panic(inconclusive{"formation join failed: " + err.Error()})
		}
	}
	w.Wait("formation: full mesh of "+strings.Join(names, ","), mesh(ns...))
	return ns
}

func (w *World) Teardown() {
	w.mu.Lock()
	ns := append([]*Node(nil), w.nodes...)
	w.mu.Unlock()
	w.op(nil, "teardown", "")
	for _, n := range ns {
		w.Shutdown(n)
	}
	time.Sleep(20 * time.Millisecond)
}

// callbacksAbout returns the compact sequence of membership callbacks about
// subject at node instance (name, inst) with global sequence number > after.
func callbacksAbout(evs []Event, node string, inst int, subject string, after int) []string {
	var out []string
	for _, e := range evs {
		if e.G <= after || e.Node != node || e.Inst != inst || e.Peer != subject {
			continue
		}
		switch e.Kind {
		case "NotifyJoin", "NotifyLeave", "NotifyUpdate":
			out = append(out, strings.TrimPrefix(e.Kind, "Notify"))
		}
	}
	return out
}

func lastOp(evs []Event, what, node string, inst int) int {
	g := 0
	for _, e := range evs {
		if e.Kind == "op:"+what && (node == "" || (e.Node == node && e.Inst == inst)) {
			g = e.G
		}
	}
	return g
}

func sortedKeys(m map[string]int) []string {
	var ks []string
	for k := range m {
		ks = append(ks, k)
	}
	sort.Strings(ks)
	return ks
}
