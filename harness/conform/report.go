package conform

import (
	"encoding/json"
	"fmt"
	"io"
	"os"
	"path/filepath"
	"sort"
	"strings"
	"time"
)

type Inconclusive struct {
	Run    int    `json:"run"`
	Reason string `json:"reason"`
}

type ScenarioReport struct {
	Scenario       string         `json:"scenario"`
	About          string         `json:"about"`
	Runs           int            `json:"runs"`
	Conclusive     int            `json:"conclusive_runs"`
	Inconclusive   []Inconclusive `json:"inconclusive,omitempty"`
	TracesChecked  int            `json:"traces_checked"`
	Callbacks      int            `json:"callbacks_checked"`
	Mismatches     []Mismatch     `json:"mismatches"`
	FalsePositives []Mismatch     `json:"false_positive_detections,omitempty"`
	Findings       []*Finding     `json:"model_findings,omitempty"`
	Observations   map[string]int `json:"observations"` // text -> number of runs it was made in
	Patterns       map[string]int `json:"patterns,omitempty"`
	Stats          map[string]int `json:"stats"`
	WallMS         int64          `json:"wall_ms"`
	SampleTrace    []string       `json:"sample_trace,omitempty"`
}

type Verdict struct {
	Clause     string   `json:"clause"`
	Statement  string   `json:"statement"`
	Verdict    string   `json:"verdict"` // confirmed | contradicted | not exercised | mixed
	Checked    int      `json:"checked"`
	Mismatches int      `json:"mismatches"`
	Notes      []string `json:"notes,omitempty"`
}

type Report struct {
	Subject   string            `json:"subject"`
	Tier      string            `json:"tier"`
	Timing    map[string]string `json:"timing"`
	Scenarios []*ScenarioReport `json:"scenarios"`
	Verdicts  []Verdict         `json:"clause_verdicts"`
	Model     []*Finding        `json:"model_findings"`
	WallS     float64           `json:"wall_s"`
}

// runOne executes one scenario run on a fresh world and checks its traces.
func runOne(sc Scenario) (w *World, status, reason string, res *CheckResult) {
	w = NewWorld()
	status = "ok"
	func() {
		defer func() {
			if r := recover(); r != nil {
				if inc, ok := r.(inconclusive); ok {
					status, reason = "inconclusive", inc.reason
					return
				}
				panic(r)
			}
		}()
		sc.Run(w)
	}()
	w.Teardown()
	res = Check(w.Rec.Events())
	return
}

// Run executes every scenario (quick: once, thorough: 5 times), checks all
// traces and writes <root>/conform/REPORT.json.
func Run(tier, root string, out io.Writer) (*Report, error) {
	runs := 1
	if tier == "thorough" {
		runs = 5
	}
	only := os.Getenv("CONFORM_ONLY")
	start := time.Now()
	rep := &Report{Subject: "github.com/hashicorp/memberlist v0.5.4 (live, in-memory transport) vs. the memberlist contract of DESIGN.md §2.3", Tier: tier,
		Timing: map[string]string{"ProbeInterval": probeInterval.String(), "ProbeTimeout": probeTimeout.String(), "GossipInterval": gossipInterval.String(),
			"PushPullInterval": pushPullInterval.String(), "SuspicionMult": fmt.Sprint(suspicionMult), "SuspicionMaxTimeoutMult": fmt.Sprint(suspicionMaxMult),
			"TCPTimeout": tcpTimeout.String(), "wait deadline": waitDeadline.String(), "other": "memberlist.DefaultLANConfig (GossipToTheDeadTime 30s, RetransmitMult 4, GossipNodes 3, IndirectChecks 3)"}}
	for _, sc := range Scenarios() {
		if only != "" && !strings.Contains(sc.Name, only) {
			continue
		}
		sr := &ScenarioReport{Scenario: sc.Name, About: sc.About, Observations: map[string]int{}, Patterns: map[string]int{}, Stats: map[string]int{}, Mismatches: []Mismatch{}}
		t0 := time.Now()
		fmap := map[string]*Finding{}
		for r := 1; r <= runs; r++ {
			w, status, reason, res := runOne(sc)
			sr.Runs++
			if status == "ok" {
				sr.Conclusive++
			} else {
				sr.Inconclusive = append(sr.Inconclusive, Inconclusive{Run: r, Reason: reason})
			}
			sr.TracesChecked += res.Traces
			sr.Callbacks += res.Callbacks
			sr.Mismatches = append(sr.Mismatches, res.Mismatches...)
			sr.FalsePositives = append(sr.FalsePositives, res.FalsePositives...)
			for _, f := range res.Findings {
				if g := fmap[f.ID]; g != nil {
					g.Count += f.Count
				} else {
					cp := *f
					fmap[f.ID] = &cp
				}
			}
			seen := map[string]bool{}
			for _, o := range w.Obs {
				if !seen[o] {
					seen[o] = true
					sr.Observations[o]++
				}
			}
			seen = map[string]bool{}
			for _, p := range res.Patterns {
				if !seen[p] {
					seen[p] = true
					sr.Patterns[p]++
				}
			}
			for k, v := range res.Stats {
				sr.Stats[k] += v
			}
			if r == 1 {
				for _, e := range w.Rec.Events() {
					if e.Kind == "wire-user" && sc.Name != "user-broadcast" && sc.Name != "partition-heal-2-late" {
						continue
					}
					sr.SampleTrace = append(sr.SampleTrace, e.String())
				}
				if len(sr.SampleTrace) > 700 {
					sr.SampleTrace = append(sr.SampleTrace[:700], fmt.Sprintf("... %d more events", len(sr.SampleTrace)-700))
				}
			}
			if os.Getenv("CONFORM_TRACE") != "" {
				for _, e := range w.Rec.Events() {
					fmt.Fprintln(out, "   ", e.String())
				}
			}
		}
		for _, id := range sortedFindingIDs(fmap) {
			sr.Findings = append(sr.Findings, fmap[id])
		}
		sr.WallMS = time.Since(t0).Milliseconds()
		rep.Scenarios = append(rep.Scenarios, sr)
		fmt.Fprintf(out, "conform: %-36s runs=%d conclusive=%d traces=%d callbacks=%d mismatches=%d false-positive-detections=%d wall=%.1fs\n",
			sc.Name, sr.Runs, sr.Conclusive, sr.TracesChecked, sr.Callbacks, len(sr.Mismatches), len(sr.FalsePositives), float64(sr.WallMS)/1000)
		for _, inc := range sr.Inconclusive {
			fmt.Fprintf(out, "conform:   run %d inconclusive: %s\n", inc.Run, inc.Reason)
		}
	}
	rep.verdicts()
	rep.WallS = time.Since(start).Seconds()
	rep.summary(out)
	dir := filepath.Join(root, "conform")
	if err := os.MkdirAll(dir, 0o755); err != nil {
		return rep, err
	}
	b, _ := json.MarshalIndent(rep, "", " ")
	if only != "" {
		return rep, nil // partial runs do not overwrite the report
	}
	return rep, os.WriteFile(filepath.Join(dir, "REPORT.json"), append(b, '\n'), 0o644)
}

func sortedFindingIDs(m map[string]*Finding) []string {
	var ids []string
	for id := range m {
		ids = append(ids, id)
	}
	sort.Strings(ids)
	return ids
}

func (rep *Report) stat(k string) int {
	n := 0
	for _, s := range rep.Scenarios {
		n += s.Stats[k]
	}
	return n
}

func (rep *Report) mism(clause string) (n int, first *Mismatch) {
	for _, s := range rep.Scenarios {
		for i := range s.Mismatches {
			if s.Mismatches[i].Clause == clause {
				if first == nil {
					first = &s.Mismatches[i]
				}
				n++
			}
		}
	}
	return
}

// obsCount sums, over all scenarios, the runs in which an observation containing all the given parts was made.
func (rep *Report) obsCount(parts ...string) int {
	n := 0
	for _, s := range rep.Scenarios {
		for o, k := range s.Observations {
			ok := true
			for _, p := range parts {
				if !strings.Contains(o, p) {
					ok = false
				}
			}
			if ok {
				n += k
			}
		}
	}
	return n
}

func (rep *Report) patterns(prefix string) []string {
	agg := map[string]int{}
	for _, s := range rep.Scenarios {
		for p, k := range s.Patterns {
			if strings.HasPrefix(p, prefix) {
				agg[p] += k
			}
		}
	}
	var out []string
	for _, p := range sortedKeys(agg) {
		out = append(out, fmt.Sprintf("%s  [%d run(s)]", p, agg[p]))
	}
	return out
}

func (rep *Report) verdicts() {
	// model findings aggregated over scenarios
	fm := map[string]*Finding{}
	for _, s := range rep.Scenarios {
		for _, f := range s.Findings {
			if g := fm[f.ID]; g != nil {
				g.Count += f.Count
			} else {
				cp := *f
				cp.Detail = "[" + s.Scenario + "] " + cp.Detail
				fm[f.ID] = &cp
			}
		}
	}
	for _, id := range sortedFindingIDs(fm) {
		rep.Model = append(rep.Model, fm[id])
	}
	fcount := func(id string) int {
		if f := fm[id]; f != nil {
			return f.Count
		}
		return 0
	}
	fp := 0
	for _, s := range rep.Scenarios {
		fp += len(s.FalsePositives)
	}
	verdict := func(checked, mism int) string {
		switch {
		case checked == 0:
			return "not exercised"
		case mism > 0:
			return "contradicted"
		}
		return "confirmed"
	}

	na, _ := rep.mism("a")
	ca := rep.stat("NotifyJoin checked") + rep.stat("NotifyUpdate checked")
	va := Verdict{Clause: "a", Statement: "NotifyJoin(j) at i only if j was started and i does not currently hold j alive", Checked: ca, Mismatches: na, Verdict: verdict(ca, na)}
	if k := fcount("join-of-down-node"); k > 0 {
		va.Notes = append(va.Notes, fmt.Sprintf("stricter wording of DESIGN.md ('j is up, reachable') does NOT hold live: %d NotifyJoin for a node that was down at that instant (stale alive entry handed on by push/pull or gossip of a node that had not yet detected the death)", k))
	}
	rep.Verdicts = append(rep.Verdicts, va)

	nb, _ := rep.mism("b")
	cb := rep.stat("NotifyLeave checked")
	vb := Verdict{Clause: "b", Statement: "NotifyLeave(j) at i only if i holds j alive and j was down, had left or was unreachable from i at some point since", Checked: cb, Mismatches: nb, Verdict: verdict(cb, nb)}
	if fp > 0 {
		vb.Notes = append(vb.Notes, fmt.Sprintf("%d dead notification(s) for a node that was up, had not left and was reachable all the time: SWIM false positives (timing/load); kept apart from mismatches; in the model they correspond to a cut followed by a heal", fp))
	}
	if nb > 0 {
		k := 0
		for _, s := range rep.Scenarios {
			for _, m := range s.Mismatches {
				if m.Rule == "b3-second-hand-death" {
					k++
				}
			}
		}
		vb.Notes = append(vb.Notes, fmt.Sprintf("%d of the mismatches are SECOND-HAND deaths: after a heal, the death declaration of a node that had been cut off from j reached a node i that never was, and i applied it at once (NotifyLeave(j), followed by NotifyJoin(j) once j refuted)", k))
	}
	if k := fcount("leave-of-running-node"); k > 0 {
		vb.Notes = append(vb.Notes, fmt.Sprintf("stricter guard of the model (mlleave disabled while the subject is up and reachable) does NOT hold live: %d NotifyLeave for a node that had done its memberlist-level Leave but was still running and reachable (peers learn it before Leave even returns)", k))
	}
	rep.Verdicts = append(rep.Verdicts, vb)

	nc, _ := rep.mism("c")
	cc := rep.stat("MergeRemoteState checked")
	vc := Verdict{Clause: "c", Statement: "push/pull only between up, mutually reachable nodes; each side produces its LocalState before it merges the peer's; node-table merge precedes the user-state merge", Checked: cc, Mismatches: nc, Verdict: verdict(cc, nc)}
	vc.Notes = append(vc.Notes, fmt.Sprintf("%d exchanges merged on both sides (%d with the join flag), %d on one side only, %d sessions never reached the user merge; %d sessions had node-table notifications, all before the user-state merge",
		rep.stat("push/pull exchanges merged on both sides"), rep.stat("push/pull exchanges with join flag"), rep.stat("push/pull exchanges merged on one side only"), rep.stat("push/pull sessions without user-state merge (failed or cut)"), rep.stat("push/pull sessions with node-table notifications before the user-state merge")))
	if k := fcount("user-merge-before-alive"); k > 0 {
		vc.Notes = append(vc.Notes, fmt.Sprintf("CONTRADICTS the model's order (learnAlive on both sides, then MergeRemoteState): %d user-state merges from a node the merging side did not hold alive; the alive notification came later or never", k))
		vc.Notes = append(vc.Notes, rep.patterns("user-state merge")...)
	}
	if k := fcount("pushpull-declares-dead"); k > 0 {
		vc.Notes = append(vc.Notes, fmt.Sprintf("CONTRADICTS 'push/pull merges alive nodes only': %d NotifyLeave inside a push/pull", k))
		vc.Notes = append(vc.Notes, rep.patterns("push/pull declared")...)
	} else {
		vc.Notes = append(vc.Notes, "no NotifyLeave was ever raised inside a push/pull")
	}
	if k := rep.stat("merged a state whose producer is down by now") + rep.stat("callbacks after Shutdown returned"); k > 0 {
		vc.Notes = append(vc.Notes, fmt.Sprintf("%d callbacks ran after the node's Shutdown had returned / merged a state whose producer had shut down meanwhile (in-flight goroutines; the model's crash is instantaneous)", k))
	}
	if fcount("pushpull-to-not-held") == 0 {
		vc.Notes = append(vc.Notes, "every periodic (join=false) push/pull was initiated towards a node the initiator held alive (the model's pushpull guard)")
	}
	if k := fcount("pushpull-to-not-held"); k > 0 {
		vc.Notes = append(vc.Notes, fmt.Sprintf("%d periodic push/pulls whose initiator did not hold the responder alive when it produced its LocalState", k))
	}
	rep.Verdicts = append(rep.Verdicts, vc)

	nd, _ := rep.mism("d")
	cd := rep.stat("NotifyMsg checked") + rep.stat("user packets")
	vd := Verdict{Clause: "d", Statement: "user messages leave a node only through GetBroadcasts and arrive in any order, duplicated, or never", Checked: cd, Mismatches: nd, Verdict: verdict(cd, nd)}
	vd.Notes = append(vd.Notes, fmt.Sprintf("seen live: duplicates in %d run(s), reordering in %d run(s), loss in %d run(s)", rep.obsCount("(d) duplicates: yes"), rep.obsCount("(d) reordering: yes"), rep.obsCount("(d) loss")-rep.obsCount("(d) loss: none")))
	if k := fcount("user-msg-to-not-held"); k > 0 {
		vd.Notes = append(vd.Notes, fmt.Sprintf("model guard 'deliver a->b only if a holds b alive' does NOT hold live: %d user packets went to a node the sender did not hold alive; delivered across mutual death in %d run(s)", k, rep.obsCount("reached B although A and B held each other dead")))
	}
	rep.Verdicts = append(rep.Verdicts, vd)

	lateNo, lateYes := rep.obsCount("late heal", "did NOT"), rep.obsCount("late heal", "ALONE")
	earlyNo, earlyYes := rep.obsCount("early heal", "did NOT"), rep.obsCount("early heal", "ALONE")
	ve := Verdict{Clause: "e", Statement: "after heal connected nodes converge; a pair that declared each other dead is re-connected only by a Join from above (serf's reconnect) or through a third node, not by memberlist alone",
		Checked: lateNo + lateYes + earlyNo + earlyYes}
	switch {
	case ve.Checked == 0:
		ve.Verdict = "not exercised"
	case lateYes+earlyYes == 0:
		ve.Verdict = "confirmed"
	case lateNo+earlyNo == 0:
		ve.Verdict = "contradicted"
	default:
		ve.Verdict = "contradicted in part (depends on when the heal happens)"
	}
	ve.Mismatches = lateYes + earlyYes
	ve.Notes = append(ve.Notes,
		fmt.Sprintf("heal AFTER the dead/suspect broadcasts left the retransmit queues (2 nodes): memberlist alone re-connected in %d run(s), did not in %d run(s)", lateYes, lateNo),
		fmt.Sprintf("heal AT the moment the deaths were declared (3 nodes): memberlist alone re-connected in %d run(s), did not in %d run(s)", earlyYes, earlyNo),
		fmt.Sprintf("explicit Join (stand-in for serf's reconnect) re-connected the pair in %d run(s): the join's user-state merge comes first, the alive notifications only after both refuted their death and gossiped it 'to the recently dead'", rep.obsCount("after an explicit Join A->B the pair re-connected")),
		fmt.Sprintf("death older than GossipToTheDeadTime (memberlist forgets the dead node): one Join re-connected like a first contact in %d run(s), needed a second Join in %d run(s)", rep.obsCount("one explicit Join re-connected"), rep.obsCount("ONE successful Join left both sides")),
		fmt.Sprintf("through a third node: re-connected in %d run(s), not within 5s in %d run(s)", rep.obsCount("third node", "re-connected without any Join"), rep.obsCount("third node", "did NOT")),
		fmt.Sprintf("a side that still held the other alive (leave-during-partition: C->A) was re-connected by memberlist alone in %d run(s)", rep.obsCount("re-connected by memberlist alone")))
	rep.Verdicts = append(rep.Verdicts, ve)

	rb := fcount("restart-before-death")
	vf := Verdict{Clause: "f", Statement: "a node is restarted only after its death was reported everywhere (so peers see NotifyLeave, later NotifyJoin)", Checked: rb + rep.obsCount("(f) peer saw about B")}
	switch {
	case vf.Checked == 0:
		vf.Verdict = "not exercised"
	case rb > 0:
		vf.Verdict = "contradicted (not enforced by memberlist: other orders observed)"
		vf.Mismatches = rb
	default:
		vf.Verdict = "confirmed"
	}
	vf.Notes = append(vf.Notes, "the clause is an assumption about the environment; live memberlist accepts a restart at any time. What the peers see:")
	vf.Notes = append(vf.Notes, rep.patterns("restart under the same name")...)
	for _, s := range rep.Scenarios {
		for _, o := range sortedKeys(s.Observations) {
			if strings.HasPrefix(o, "(f) at the joined node") || strings.HasPrefix(o, "(f) after heal") || strings.HasPrefix(o, "(f) the left-but-running") {
				vf.Notes = append(vf.Notes, fmt.Sprintf("[%s] %s  [%d run(s)]", s.Scenario, o, s.Observations[o]))
			}
		}
	}
	rep.Verdicts = append(rep.Verdicts, vf)
}

func (rep *Report) summary(out io.Writer) {
	fmt.Fprintf(out, "\n==== memberlist contract conformance (%s tier, live memberlist v0.5.4) ====\n", rep.Tier)
	tr, cb, mm, inc, runs := 0, 0, 0, 0, 0
	for _, s := range rep.Scenarios {
		tr += s.TracesChecked
		cb += s.Callbacks
		mm += len(s.Mismatches)
		inc += len(s.Inconclusive)
		runs += s.Runs
	}
	fmt.Fprintf(out, "%d scenarios, %d runs (%d inconclusive), %d per-node traces, %d callbacks checked, %d mismatches against the contract language\n", len(rep.Scenarios), runs, inc, tr, cb, mm)
	for _, v := range rep.Verdicts {
		fmt.Fprintf(out, "\n(%s) %s\n    verdict: %s (checked %d, mismatches %d)\n", v.Clause, v.Statement, strings.ToUpper(v.Verdict), v.Checked, v.Mismatches)
		for _, n := range v.Notes {
			fmt.Fprintf(out, "    - %s\n", n)
		}
	}
	for _, s := range rep.Scenarios {
		byRule := map[string]int{}
		for _, m := range s.Mismatches {
			byRule[m.Rule]++
		}
		shown := map[string]bool{}
		for _, m := range s.Mismatches {
			if shown[m.Rule] {
				continue // the report file has all of them
			}
			shown[m.Rule] = true
			fmt.Fprintf(out, "\nMISMATCH clause (%s) rule %s in %s (x%d, first shown) at %s: %s\n", m.Clause, m.Rule, s.Scenario, byRule[m.Rule], m.Node, m.Detail)
			for _, l := range m.Excerpt {
				fmt.Fprintf(out, "      %s\n", l)
			}
		}
		for _, m := range s.FalsePositives {
			fmt.Fprintf(out, "\nfalse-positive detection (timing, not a mismatch) in %s at %s: %s\n", s.Scenario, m.Node, m.Detail)
		}
	}
	if len(rep.Model) > 0 {
		fmt.Fprintf(out, "\n---- live behaviour the C01/C02 model does not produce (findings about the MODEL, not serf defects) ----\n")
		for _, f := range rep.Model {
			fmt.Fprintf(out, "\n%s (x%d): %s\n", f.ID, f.Count, f.Detail)
			ex := f.Excerpt
			if len(ex) > 9 {
				ex = ex[len(ex)-9:]
			}
			for _, l := range ex {
				fmt.Fprintf(out, "      %s\n", l)
			}
		}
	}
	fmt.Fprintf(out, "\n---- observations per scenario ----\n")
	for _, s := range rep.Scenarios {
		for _, o := range sortedKeys(s.Observations) {
			fmt.Fprintf(out, "[%s] %s  [%d/%d run(s)]\n", s.Scenario, o, s.Observations[o], s.Runs)
		}
	}
	fmt.Fprintf(out, "\nconform: report written to conform/REPORT.json; wall %.1fs\n", rep.WallS)
}
