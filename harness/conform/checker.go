package conform

import (
	"fmt"
	"sort"
	"strings"
)

// Contract language checked for every recorded trace (DESIGN.md §2.3 as
// restated for live runs):
//
//	(a) NotifyJoin(j) at i only if j was started and i does not hold j alive
//	(b) NotifyLeave(j) at i only if i holds j alive and j was down, had left or
//	    was unreachable from i at some point since i began to hold it
//	(c) a user-state merge at i of a state produced by j: the state was produced
//	    by a LocalState call of j, i and j were mutually reachable at some point
//	    between that call and the merge, i produced its own LocalState for the
//	    exchange before merging, node-table notifications of the exchange come
//	    before the user-state merge
//	(d) a user message that arrives was queued by somebody before; a user payload
//	    appears on the wire only after a GetBroadcasts that returned it
//
// (e) and (f) are scenario-level questions (what reconnects a pair, what a
// restart looks like); the checker only collects the facts for them.
//
// Beyond the language above the checker evaluates the *guards of the model as
// implemented* in checks/cluster.go and reports every live behaviour the model
// would not produce as a Finding (a statement about the model, not a mismatch):
//
//	user-merge-before-alive   MergeRemoteState(from j) at i while i does not hold j alive
//	leave-of-running-node     NotifyLeave(j) while j runs and is reachable (j did its memberlist-level leave)
//	pushpull-declares-dead    NotifyLeave inside a push/pull (between LocalState and MergeRemoteState)
//	join-of-down-node         NotifyJoin(j) while j is down (stale alive passed on by a third node)
//	user-msg-to-not-held      user payload sent to a node the sender does not hold alive
//	restart-before-death      a node restarts while peers still hold its predecessor alive
//	pushpull-to-not-held      a periodic push/pull whose initiator does not hold the responder alive

type Mismatch struct {
	Clause  string   `json:"clause"`
	Rule    string   `json:"rule"`
	Node    string   `json:"node"`
	Detail  string   `json:"detail"`
	Excerpt []string `json:"trace_excerpt"`
}

type Finding struct {
	ID      string   `json:"id"`
	Count   int      `json:"count"`
	Detail  string   `json:"detail"`
	Excerpt []string `json:"trace_excerpt"`
}

type CheckResult struct {
	Traces         int            `json:"traces"`
	Callbacks      int            `json:"callbacks"`
	Mismatches     []Mismatch     `json:"mismatches"`
	FalsePositives []Mismatch     `json:"false_positive_detections"`
	Findings       []*Finding     `json:"findings"`
	Stats          map[string]int `json:"stats"`
	Patterns       []string       `json:"patterns"` // normalised facts ("restart: peer saw [...]")
}

type truth struct {
	started    bool
	inst       int
	status     string // up | stopping | down
	leftCalled bool
}

type holdInfo struct {
	since int
	cond  bool // the subject was down, had left or was unreachable from the holder at some point since
	why   string
	any   bool // the subject was partitioned from SOME node at some point since
}

type session struct {
	node    string
	inst    int
	gid     int64
	lsID    string
	join    bool
	gLS     int
	gMerge  int
	merged  string
	heldAt  map[string]bool
	notifs  []Event
	aborted bool
}

type instState struct {
	name     string
	inst     int
	held     map[string]*holdInfo
	open     map[int64]*session
	gb       map[string]bool
	nCB      int
	afterEnd int
}

type checker struct {
	evs      []Event
	res      *CheckResult
	truth    map[string]*truth
	insts    map[string]*instState
	order    []*instState
	possible bool
	certain  bool
	certG    int
	side     map[string]int
	lsEvent  map[string]Event
	queued   map[string]int
	sessions []*session
	byLS     map[string]*session
	findings map[string]*Finding
	restarts []restartRec
	mergeNH  []mergeNotHeld
}

type restartRec struct {
	name    string
	g       int
	holders []*instState
	others  []*instState
}

type mergeNotHeld struct {
	at   *instState
	from string
	g    int
	join bool
	subj string
}

func Check(evs []Event) *CheckResult {
	c := &checker{evs: evs, res: &CheckResult{Stats: map[string]int{}}, truth: map[string]*truth{}, insts: map[string]*instState{},
		side: map[string]int{}, lsEvent: map[string]Event{}, queued: map[string]int{}, byLS: map[string]*session{}, findings: map[string]*Finding{}}
	for _, e := range evs {
		c.step(e)
	}
	c.post()
	for _, is := range c.order {
		if is.nCB > 0 {
			c.res.Traces++
		}
		c.res.Callbacks += is.nCB
	}
	ids := make([]string, 0, len(c.findings))
	for id := range c.findings {
		ids = append(ids, id)
	}
	sort.Strings(ids)
	for _, id := range ids {
		c.res.Findings = append(c.res.Findings, c.findings[id])
	}
	sort.Strings(c.res.Patterns)
	return c.res
}

func (c *checker) inst(e Event) *instState {
	k := e.Inst_()
	is := c.insts[k]
	if is == nil {
		is = &instState{name: e.Node, inst: e.Inst, held: map[string]*holdInfo{}, open: map[int64]*session{}, gb: map[string]bool{}}
		c.insts[k] = is
		c.order = append(c.order, is)
	}
	return is
}

func (c *checker) separated(a, b string) bool { return c.side[a] != c.side[b] }

func (c *checker) allNodes() []string {
	var out []string
	for n := range c.truth {
		out = append(out, n)
	}
	return out
}

// subjectState describes the ground truth of a node name right now.
func (c *checker) subjectState(n string) string {
	t := c.truth[n]
	switch {
	case t == nil:
		return "never started"
	case t.status == "up" && t.leftCalled:
		return "running, has left"
	case t.status == "up":
		return "running"
	case t.leftCalled:
		return "down, had left"
	}
	return "down"
}

// cutOff: the current partition separates j from at least one started node.
func (c *checker) cutOff(j string) bool {
	for n, t := range c.truth {
		if t.started && n != j && c.separated(n, j) {
			return true
		}
	}
	return false
}

func (c *checker) excerpt(g int, k int, wire bool, nodes ...string) []string {
	want := map[string]bool{}
	for _, n := range nodes {
		want[n] = true
	}
	var sel []Event
	for _, e := range c.evs {
		if e.G > g+4 {
			break
		}
		if e.Kind == "wire-user" && !wire {
			continue
		}
		if strings.HasPrefix(e.Kind, "op:") {
			if e.Kind == "op:reached" || e.Kind == "op:settle" {
				continue
			}
			sel = append(sel, e)
			continue
		}
		if want[e.Node] {
			sel = append(sel, e)
		}
	}
	if len(sel) > k {
		sel = sel[len(sel)-k:]
	}
	out := make([]string, len(sel))
	for i, e := range sel {
		out[i] = e.String()
	}
	return out
}

func (c *checker) mismatch(clause, rule string, e Event, detail string, nodes ...string) {
	c.res.Mismatches = append(c.res.Mismatches, Mismatch{Clause: clause, Rule: rule, Node: e.Inst_(), Detail: detail,
		Excerpt: c.excerpt(e.G, 16, clause == "d", append(nodes, e.Node)...)})
}

func (c *checker) finding(id string, e Event, detail string, nodes ...string) {
	f := c.findings[id]
	if f == nil {
		f = &Finding{ID: id, Detail: detail, Excerpt: c.excerpt(e.G, 14, id == "user-msg-to-not-held", append(nodes, e.Node)...)}
		c.findings[id] = f
	}
	f.Count++
}

func (c *checker) holdersOf(name string, f func(is *instState, h *holdInfo)) {
	for _, is := range c.order {
		if h := is.held[name]; h != nil {
			t := c.truth[is.name]
			if t != nil && t.inst == is.inst && t.status != "down" {
				f(is, h)
			}
		}
	}
}

func (c *checker) step(e Event) {
	switch {
	case strings.HasPrefix(e.Kind, "op:"):
		c.op(e)
		return
	case e.Kind == "mlog":
		return
	case e.Kind == "wire-user":
		is := c.inst(e)
		for _, id := range strings.Split(e.Data, ",") {
			if !is.gb[id] {
				c.mismatch("d", "d2-on-the-wire-without-GetBroadcasts", e, fmt.Sprintf("packet %s->%s carries user payload %q that no GetBroadcasts of %s returned", e.Node, e.Peer, id, e.Inst_()))
			}
		}
		c.res.Stats["user packets"]++
		if is.held[e.Peer] == nil {
			c.res.Stats["user packets to a node the sender does not hold alive"]++
			c.finding("user-msg-to-not-held", e, fmt.Sprintf("%s sent user payload %s to %s [%s] although %s does not hold %s alive (gossip to the recently dead / piggy-back on ping or ack); the model's deliver guard requires view[dest]==alive", e.Inst_(), e.Data, e.Peer, e.State, e.Node, e.Peer), e.Peer)
		}
		return
	}
	is := c.inst(e)
	is.nCB++
	if t := c.truth[e.Node]; t != nil && (t.inst != e.Inst || t.status == "down") {
		c.res.Stats["callbacks after Shutdown returned"]++
	}
	switch e.Kind {
	case "NotifyJoin":
		j := e.Peer
		t := c.truth[j]
		if t == nil || !t.started {
			c.mismatch("a", "a1-join-of-never-started-node", e, fmt.Sprintf("NotifyJoin(%s) at %s but %s was never started", j, e.Inst_(), j))
		}
		if is.held[j] != nil {
			c.mismatch("a", "a2-join-while-held-alive", e, fmt.Sprintf("NotifyJoin(%s) at %s which already holds %s alive (since g=%d)", j, e.Inst_(), j, is.held[j].since))
		}
		c.res.Stats["NotifyJoin checked"]++
		h := &holdInfo{since: e.G}
		if t != nil {
			switch {
			case t.status != "up":
				h.cond, h.why = true, "down"
				if j != e.Node {
					c.res.Stats["NotifyJoin of a node that is down at that time"]++
					c.finding("join-of-down-node", e, fmt.Sprintf("NotifyJoin(%s) at %s while %s is down (stale alive state handed on by a node that had not yet detected the death); the model's mljoin guard requires the subject to be up", j, e.Inst_(), j))
				}
			case t.leftCalled:
				h.cond, h.why = true, "left"
			case c.possible && c.separated(e.Node, j):
				h.cond, h.why = true, "unreachable"
			}
		}
		h.any = c.possible && c.cutOff(j)
		is.held[j] = h
		if s := is.open[e.Gid]; s != nil {
			s.notifs = append(s.notifs, e)
		}
	case "NotifyLeave":
		j := e.Peer
		h := is.held[j]
		c.res.Stats["NotifyLeave checked"]++
		if h == nil {
			c.mismatch("b", "b1-leave-of-node-not-held-alive", e, fmt.Sprintf("NotifyLeave(%s) at %s which does not hold %s alive", j, e.Inst_(), j))
		} else if !h.cond && h.any {
			c.mismatch("b", "b3-second-hand-death", e, fmt.Sprintf("NotifyLeave(%s) at %s although %s was up, had not left and was reachable from %s during the whole time %s held it (since g=%d); %s had been cut off from ANOTHER node, whose death declaration reached %s by gossip after the heal and was applied at once (same incarnation). The model enables mlleave(k,x) only while x is down or unreachable from k", j, e.Inst_(), j, e.Node, e.Node, h.since, j, e.Node), c.allNodes()...)
		} else if !h.cond {
			c.res.FalsePositives = append(c.res.FalsePositives, Mismatch{Clause: "b", Rule: "b2-dead-notification-for-up-reachable-node", Node: e.Inst_(),
				Detail:  fmt.Sprintf("NotifyLeave(%s) at %s although %s was up, had not left and was reachable from everybody during the whole time %s held it (since g=%d): a false positive of SWIM failure detection (timing)", j, e.Inst_(), j, e.Node, h.since),
				Excerpt: c.excerpt(e.G, 16, false, e.Node, j)})
		}
		if t := c.truth[j]; t != nil && j != e.Node && t.status == "up" && t.leftCalled && !(c.possible && c.separated(e.Node, j)) {
			c.res.Stats["NotifyLeave of a node that still runs and is reachable (it has left at memberlist level)"]++
			c.finding("leave-of-running-node", e, fmt.Sprintf("NotifyLeave(%s) at %s while %s is still running and reachable (memberlist-level Leave done, Shutdown not yet called); the model's mlleave guard forbids a dead notification for an up, reachable node", j, e.Inst_(), j), j)
		}
		delete(is.held, j)
		if s := is.open[e.Gid]; s != nil {
			s.notifs = append(s.notifs, e)
			st := "down"
			if t := c.truth[j]; t != nil && t.status == "up" {
				st = "running"
				if t.leftCalled {
					st = "running, has left"
				}
			} else if t != nil && t.leftCalled {
				st = "down, had left"
			}
			c.res.Stats["NotifyLeave inside a push/pull"]++
			c.res.Patterns = append(c.res.Patterns, fmt.Sprintf("push/pull declared a held-alive node dead: subject was %s", st))
			c.finding("pushpull-declares-dead", e, fmt.Sprintf("NotifyLeave(%s) at %s inside a push/pull (after its LocalState, before its MergeRemoteState; subject %s): the remote table listed %s as left and memberlist applies that at once; the model's pushPull only ever adds alive nodes", j, e.Inst_(), st, j), j)
		}
	case "NotifyUpdate":
		c.res.Stats["NotifyUpdate checked"]++
		if is.held[e.Peer] == nil {
			c.mismatch("a", "a3-update-of-node-not-held-alive", e, fmt.Sprintf("NotifyUpdate(%s) at %s which does not hold it alive", e.Peer, e.Inst_()))
		}
		if s := is.open[e.Gid]; s != nil {
			s.notifs = append(s.notifs, e)
		}
	case "NotifyConflict":
		c.res.Stats["NotifyConflict"]++
	case "LocalState":
		if s := is.open[e.Gid]; s != nil {
			s.aborted = true // the exchange it belonged to never reached the user-state merge
			c.res.Stats["push/pull sessions without user-state merge (failed or cut)"]++
		}
		s := &session{node: e.Node, inst: e.Inst, gid: e.Gid, lsID: e.Data, join: e.State == "join=true", gLS: e.G, heldAt: map[string]bool{}}
		for n := range is.held {
			s.heldAt[n] = true
		}
		is.open[e.Gid] = s
		c.sessions = append(c.sessions, s)
		c.byLS[e.Data] = s
		c.lsEvent[e.Data] = e
		c.res.Stats["LocalState calls"]++
	case "MergeRemoteState":
		c.res.Stats["MergeRemoteState checked"]++
		s := is.open[e.Gid]
		if s == nil {
			c.mismatch("c", "c1-user-merge-without-own-LocalState-before-it", e, fmt.Sprintf("MergeRemoteState(%s) at %s: no LocalState was produced by this exchange before the merge", e.Data, e.Inst_()))
		} else {
			s.gMerge, s.merged = e.G, e.Data
			delete(is.open, e.Gid)
			if (e.State == "join=true") != s.join {
				c.mismatch("c", "c3-join-flag-differs", e, fmt.Sprintf("exchange at %s: LocalState join=%v but MergeRemoteState %s", e.Inst_(), s.join, e.State))
			}
		}
		from, finst := parseLS(e.Data)
		ls, ok := c.lsEvent[e.Data]
		if !ok {
			c.mismatch("c", "c2-merged-state-nobody-produced", e, fmt.Sprintf("MergeRemoteState(%s) at %s: no LocalState call returned this buffer", e.Data, e.Inst_()))
			return
		}
		if c.certain && c.certG < ls.G && c.separated(e.Node, from) {
			c.mismatch("c", "c2-push-pull-across-partition", e, fmt.Sprintf("%s merged %s although %s and %s were partitioned during the whole exchange (partition applied at g=%d)", e.Inst_(), e.Data, e.Node, from, c.certG), from)
		}
		if t := c.truth[from]; t != nil && (t.inst != finst || t.status == "down") {
			c.res.Stats["merged a state whose producer is down by now"]++
		}
		if from != e.Node && is.held[from] == nil {
			c.res.Stats["user-state merge from a node not held alive"]++
			c.mergeNH = append(c.mergeNH, mergeNotHeld{at: is, from: from, g: e.G, join: e.State == "join=true", subj: c.subjectState(from)})
			c.finding("user-merge-before-alive", e, fmt.Sprintf("MergeRemoteState(%s) at %s while %s does not hold %s alive: the node-table merge of this exchange did NOT make %s alive at %s (its alive claim was not newer than the death %s had recorded); the model's join/pushPull does learnAlive on both sides before the user-state merge", e.Data, e.Inst_(), e.Node, from, from, e.Node, e.Node), from)
		}
	case "NotifyMsg":
		c.res.Stats["NotifyMsg checked"]++
		if g, ok := c.queued[e.Data]; !ok || g > e.G {
			c.mismatch("d", "d1-message-nobody-queued", e, fmt.Sprintf("NotifyMsg(%q) at %s: nobody queued this payload before", e.Data, e.Inst_()))
		}
	case "GetBroadcasts":
		for _, id := range strings.Split(e.Data, ",") {
			is.gb[id] = true
		}
	}
}

func parseLS(s string) (name string, inst int) {
	// LS:<name>#<inst>:<n>:<join>
	p := strings.Split(s, ":")
	if len(p) < 4 || p[0] != "LS" {
		return "", 0
	}
	q := strings.Split(p[1], "#")
	if len(q) != 2 {
		return p[1], 0
	}
	fmt.Sscanf(q[1], "%d", &inst)
	return q[0], inst
}

func (c *checker) op(e Event) {
	switch e.Kind {
	case "op:create":
		prev := c.truth[e.Node]
		if prev != nil {
			r := restartRec{name: e.Node, g: e.G}
			for _, is := range c.order {
				t := c.truth[is.name]
				if is.name == e.Node || t == nil || t.inst != is.inst || t.status != "up" {
					continue
				}
				if is.held[e.Node] != nil {
					r.holders = append(r.holders, is)
				} else {
					r.others = append(r.others, is)
				}
			}
			c.restarts = append(c.restarts, r)
		}
		c.truth[e.Node] = &truth{started: true, inst: e.Inst, status: "up"}
		c.inst(e)
	case "op:leave-call":
		if t := c.truth[e.Node]; t != nil {
			t.leftCalled = true
		}
		c.holdersOf(e.Node, func(_ *instState, h *holdInfo) { h.cond, h.why = true, "left" })
	case "op:shutdown-call":
		if t := c.truth[e.Node]; t != nil && t.inst == e.Inst {
			t.status = "stopping"
		}
		c.holdersOf(e.Node, func(_ *instState, h *holdInfo) { h.cond, h.why = true, "down" })
	case "op:shutdown-ret":
		if t := c.truth[e.Node]; t != nil && t.inst == e.Inst {
			t.status = "down"
		}
	case "op:partition-begin":
		c.possible = true
		c.side = map[string]int{}
		for i, g := range strings.Split(e.Data, "|") {
			for _, n := range strings.Split(g, ",") {
				c.side[n] = i
			}
		}
		for _, is := range c.order {
			for j, h := range is.held {
				if c.separated(is.name, j) {
					h.cond, h.why = true, "unreachable"
				}
				if c.cutOff(j) {
					h.any = true
				}
			}
		}
	case "op:partition-applied":
		c.certain, c.certG = true, e.G
	case "op:heal-begin":
		c.certain = false
	case "op:heal-done":
		c.possible = false
		c.side = map[string]int{}
	case "op:queue-user":
		c.queued[e.Data] = e.G
	}
}

func (c *checker) post() {
	// push/pull exchanges: pair the two sessions of an exchange
	done := map[*session]bool{}
	for _, s := range c.sessions {
		if s.merged == "" || done[s] {
			continue
		}
		t := c.byLS[s.merged]
		if t == nil || t.merged != s.lsID {
			c.res.Stats["push/pull exchanges merged on one side only"]++
			continue
		}
		done[s], done[t] = true, true
		ini, rsp := s, t
		if t.gLS < s.gLS {
			ini, rsp = t, s
		}
		c.res.Stats["push/pull exchanges merged on both sides"]++
		if ini.join {
			c.res.Stats["push/pull exchanges with join flag"]++
		}
		// (c): the responder produced its LocalState before it merged the initiator's state
		if !(rsp.gLS < rsp.gMerge) || !(ini.gLS < rsp.gLS) {
			c.res.Mismatches = append(c.res.Mismatches, Mismatch{Clause: "c", Rule: "c4-responder-merged-before-producing-its-state", Node: fmt.Sprintf("%s#%d", rsp.node, rsp.inst),
				Detail: fmt.Sprintf("exchange %s <-> %s: initiator LocalState g=%d, responder LocalState g=%d, responder merge g=%d", ini.lsID, rsp.lsID, ini.gLS, rsp.gLS, rsp.gMerge), Excerpt: c.excerpt(rsp.gMerge, 12, false, rsp.node, ini.node)})
		}
		c.res.Stats["responder LocalState precedes its merge (checked exchanges)"]++
		if !ini.join && !ini.heldAt[rsp.node] {
			c.res.Stats["periodic push/pull whose initiator did not hold the responder alive"]++
			c.finding("pushpull-to-not-held", c.lsEvent[ini.lsID], fmt.Sprintf("periodic push/pull %s -> %s while the initiator does not hold the responder alive", ini.node, rsp.node), rsp.node)
		}
	}
	for _, s := range c.sessions {
		if len(s.notifs) > 0 && s.merged != "" {
			c.res.Stats["push/pull sessions with node-table notifications before the user-state merge"]++
		}
	}
	// user-state merge from a node not held alive: does the alive notification follow?
	for _, m := range c.mergeNH {
		follow := "never followed by NotifyJoin(subject) in this run"
		for _, e := range c.evs {
			if e.G > m.g && e.Node == m.at.name && e.Inst == m.at.inst && e.Kind == "NotifyJoin" && e.Peer == m.from {
				how := "on the packet handler (gossip)"
				for _, s := range c.sessions {
					if s.node == e.Node && s.inst == e.Inst && s.gid == e.Gid && s.gLS < e.G && (s.gMerge == 0 || s.gMerge > e.G) {
						how = "inside a later push/pull"
					}
				}
				follow = "NotifyJoin(subject) follows later " + how
				break
			}
		}
		c.res.Patterns = append(c.res.Patterns, fmt.Sprintf("user-state merge (join=%v) from a node not held alive (sender %s): %s", m.join, m.subj, follow))
	}
	// (f) restarts
	for _, r := range c.restarts {
		for _, is := range r.holders {
			seq := callbacksAbout(c.evs, is.name, is.inst, r.name, r.g)
			c.res.Stats["restart while a peer still holds the predecessor alive"]++
			c.res.Patterns = append(c.res.Patterns, fmt.Sprintf("restart under the same name BEFORE the death was reported at the peer: peer then saw %v", seq))
			c.finding("restart-before-death", c.evs[r.g-1], fmt.Sprintf("%s restarted while %s#%d still held it alive; callbacks about %s at that peer afterwards: %v (the model restarts a node only after its death was reported everywhere)", r.name, is.name, is.inst, r.name, seq))
		}
		for _, is := range r.others {
			seq := callbacksAbout(c.evs, is.name, is.inst, r.name, r.g)
			c.res.Patterns = append(c.res.Patterns, fmt.Sprintf("restart under the same name AFTER the death was reported at the peer: peer then saw %v", seq))
		}
	}
}
