package conform

import (
	"fmt"
	"strings"
	"time"

	"github.com/hashicorp/memberlist"
)

type Scenario struct {
	Name  string
	About string
	Run   func(w *World)
}

func Scenarios() []Scenario {
	return []Scenario{
		{"join-chain", "A; B joins A; C joins B; D joins C; wait for the full mesh", scJoinChain},
		{"graceful-leave", "A,B,C formed; B does memberlist Leave, waits, then Shutdown", scGracefulLeave},
		{"crash", "A,B,C formed; B is shut down without leave", scCrash},
		{"join-holder-of-crashed", "A,B formed; B crashes; a fresh C joins A at once (A still lists B alive)", scStaleAlive},
		{"partition-heal-2-late", "A|B until both declared each other dead and the queues drained; heal; watch; user broadcast; explicit Join A->B", scPartition2Late},
		{"partition-heal-2-dead-forgotten", "as before with GossipToTheDeadTime=1ms (stands for a death older than 30s: memberlist then forgets the dead node): explicit Join A->B", scPartition2NoGossipToDead},
		{"partition-heal-3-early", "A|B,C; heal the moment all cross-partition deaths are declared; watch whether memberlist alone reconnects", scPartition3Early},
		{"reconnect-through-third-node", "A,B mutually dead, healed and quiet; a fresh C joins both", scThirdNode},
		{"leave-during-partition", "C (never suspects on its own) cut off from A,B; B leaves without shutting down; heal; C still lists B alive", scLeaveDuringPartition},
		{"restart-quick", "A,B,C; B crashes and a new B (same name, address, meta) joins A before anybody noticed", scRestartQuick},
		{"restart-quick-new-meta", "as restart-quick but the new B has different meta data (serf: tags)", scRestartQuickMeta},
		{"restart-after-death", "A,B,C; B crashes; after A and C reported it dead a new B joins A", scRestartAfterDeath},
		{"restart-after-leave", "A,B,C; B leaves gracefully and shuts down; after A and C reported it gone a new B joins A", scRestartAfterLeave},
		{"user-broadcast", "A,B,C,D; A queues u1 then u2 (transmit-limited queue, receivers re-broadcast on first sight)", scUserBroadcast},
		{"pushpull-periodic", "A,B,C with periodic push/pull every 100ms; after a while B crashes while the syncs go on", scPushPullPeriodic},
	}
}

func scJoinChain(w *World) {
	a, b, c, d := w.Start("A"), w.Start("B"), w.Start("C"), w.Start("D")
	mustJoin(w, b, a)
	mustJoin(w, c, b)
	mustJoin(w, d, c)
	w.Wait("full mesh A,B,C,D", mesh(a, b, c, d))
	w.Settle(400*time.Millisecond, "periodic push/pulls")
	evs := w.Rec.Events()
	// what the joiner's callbacks look like for its join
	w.Observe("joiner D: callbacks on the Join goroutine: %s", kindsOnGid(evs, "D", 1, lastOpGid(evs, "join-call", "D", 1)))
}

func mustJoin(w *World, n *Node, targets ...*Node) {
	if k, err := w.Join(n, targets...); err != nil || k == 0 {
		panic(inconclusive{fmt.Sprintf("join of %s failed: %v", n.Name, err)})
	}
}

func scGracefulLeave(w *World) {
	ns := w.Form("A", "B", "C")
	a, b, c := ns[0], ns[1], ns[2]
	if err := w.Leave(b); err != nil {
		panic(inconclusive{"memberlist Leave timed out: " + err.Error()})
	}
	w.Wait("A and C report B gone", func() bool { return !a.Holds("B") && !c.Holds("B") })
	w.Settle(100*time.Millisecond, "leave propagate delay (B still running)")
	w.Shutdown(b)
	w.Settle(400*time.Millisecond, "does anybody see B alive again?")
	evs := w.Rec.Events()
	leaveRet := lastOp(evs, "leave-ret", "B", 1)
	shut := lastOp(evs, "shutdown-call", "B", 1)
	for _, p := range []string{"A", "C"} {
		for _, e := range evs {
			if e.Node == p && e.Kind == "NotifyLeave" && e.Peer == "B" {
				when := "after B's Shutdown"
				if e.G < leaveRet {
					when = "before B's memberlist Leave returned (B running)"
				} else if e.G < shut {
					when = "after Leave returned, before Shutdown (B running)"
				}
				w.Observe("peer got NotifyLeave(B) %s", when)
			}
		}
		if seq := callbacksAbout(evs, p, 1, "B", leaveRet); len(seq) > 0 {
			w.Observe("callbacks about B at a peer after B's Leave returned: %v", seq)
		}
	}
	w.Observe("leaver B itself saw about itself: %v", callbacksAbout(evs, "B", 1, "B", lastOp(evs, "leave-call", "B", 1)))
}

func scCrash(w *World) {
	ns := w.Form("A", "B", "C")
	a, b, c := ns[0], ns[1], ns[2]
	w.Shutdown(b)
	w.Wait("A and C report B dead", func() bool { return !a.Holds("B") && !c.Holds("B") })
	w.Settle(300*time.Millisecond, "aftermath")
	evs := w.Rec.Events()
	for _, p := range []string{"A", "C"} {
		w.Observe("crash: peer saw about B: %v", callbacksAbout(evs, p, 1, "B", lastOp(evs, "shutdown-call", "B", 1)))
	}
}

func scStaleAlive(w *World) {
	ns := w.Form("A", "B")
	a, b := ns[0], ns[1]
	w.Shutdown(b)
	c := w.Start("C")
	mustJoin(w, c, a)
	w.Wait("C and A hold each other", mesh(a, c))
	w.Wait("A reports B dead", func() bool { return !a.Holds("B") })
	w.Wait("C does not hold B (reported dead, or never learnt)", func() bool { return !c.Holds("B") })
	evs := w.Rec.Events()
	w.Observe("fresh node C (created after B's Shutdown returned) saw about B: %v", callbacksAbout(evs, "C", 1, "B", 0))
}

// mutualDeath partitions the groups and waits until every node has reported
// every node on the other side dead.
func mutualDeath(w *World, all []*Node, groups ...[]string) {
	w.Partition(groups...)
	side := map[string]int{}
	for i, g := range groups {
		for _, n := range g {
			side[n] = i
		}
	}
	w.Wait("all cross-partition deaths reported", func() bool {
		for _, x := range all {
			for _, y := range all {
				if side[x.Name] != side[y.Name] && x.Holds(y.Name) {
					return false
				}
			}
		}
		return true
	})
}

func howReconnected(evs []Event, after int) string {
	var how []string
	seen := map[string]bool{}
	for _, e := range evs {
		if e.G <= after || e.Kind != "mlog" {
			continue
		}
		k := ""
		switch {
		case strings.Contains(e.Data, "Refuting a suspect message"):
			k = "a node refuted a suspect message about itself"
		case strings.Contains(e.Data, "Refuting a dead message"):
			k = "a node refuted a dead message about itself"
		case strings.Contains(e.Data, "Refuting an alive message"):
			k = "a node refuted an alive message about itself"
		}
		if k != "" && !seen[k] {
			seen[k] = true
			how = append(how, k)
		}
	}
	if len(how) == 0 {
		return "no refutation logged"
	}
	return strings.Join(how, "; ")
}

func scPartition2Late(w *World) {
	ns := w.Form("A", "B")
	a, b := ns[0], ns[1]
	mutualDeath(w, ns, []string{"A"}, []string{"B"})
	w.Settle(drainTime, "let the dead/suspect broadcasts leave the retransmit queues")
	w.Heal()
	healed := lastOp(w.Rec.Events(), "heal-done", "", 0)
	_, auto := w.WaitFor("A and B hold each other alive again with nothing above memberlist retrying", 1500*time.Millisecond, mesh(a, b))
	if auto {
		w.Observe("(e) late heal, 2 nodes: memberlist ALONE re-connected the pair (%s)", howReconnected(w.Rec.Events(), healed))
	} else {
		w.Observe("(e) late heal, 2 nodes: memberlist alone did NOT re-connect the pair within 1.5s (30 probe intervals, 7 push/pull intervals)")
		// a user broadcast while both hold each other dead
		w.QueueUser(a, "u-dead")
		_, got := w.WaitFor("B receives A's user broadcast while both hold each other dead", 500*time.Millisecond, func() bool {
			for _, m := range b.d.arrivalsOf() {
				if m == "u-dead" {
					return true
				}
			}
			return false
		})
		if got && !a.Holds("B") && !b.Holds("A") {
			w.Observe("(d) a user broadcast queued at A reached B although A and B held each other dead (gossip to the recently dead)")
		} else if !got {
			w.Observe("(d) a user broadcast queued at A did not reach B while A and B held each other dead")
		}
		mustJoin(w, a, b) // what serf's reconnect does for a member it lists as failed
		w.Wait("A and B hold each other alive after the explicit Join", mesh(a, b))
		evs := w.Rec.Events()
		w.Observe("(e) after an explicit Join A->B the pair re-connected (%s)", howReconnected(evs, lastOp(evs, "join-call", "A", 1)))
	}
	w.Settle(200*time.Millisecond, "aftermath")
}

func scPartition2NoGossipToDead(w *World) {
	opt := func(c *memberlist.Config) { c.GossipToTheDeadTime = time.Millisecond }
	a, b := w.Start("A", opt), w.Start("B", opt)
	mustJoin(w, b, a)
	w.Wait("formation", mesh(a, b))
	ns := []*Node{a, b}
	mutualDeath(w, ns, []string{"A"}, []string{"B"})
	w.Settle(drainTime, "let the queues drain")
	w.Heal()
	jc := lastOp(w.Rec.Events(), "heal-done", "", 0)
	mustJoin(w, a, b)
	_, ok := w.WaitFor("A and B hold each other alive after ONE explicit Join (dead node forgotten)", 700*time.Millisecond, mesh(a, b))
	if ok {
		evs := w.Rec.Events()
		order := "NotifyJoin inside the push/pull, BEFORE the user-state merge (the model's order)"
		for _, p := range [][2]string{{"A", "B"}, {"B", "A"}} {
			gJ, gM := 0, 0
			for _, e := range evs {
				if e.G > jc && e.Node == p[0] && e.Kind == "NotifyJoin" && e.Peer == p[1] && gJ == 0 {
					gJ = e.G
				}
				if e.G > jc && e.Node == p[0] && e.Kind == "MergeRemoteState" && gM == 0 {
					gM = e.G
				}
			}
			if gM != 0 && (gJ == 0 || gM < gJ) {
				order = "user-state merge BEFORE NotifyJoin on at least one side"
			}
		}
		w.Observe("(e) death older than GossipToTheDeadTime (the dead node was forgotten): one explicit Join re-connected the pair like a first contact: %s", order)
	} else {
		w.Observe("(e) death older than GossipToTheDeadTime: ONE successful Join left both sides holding each other dead (A holds B: %v, B holds A: %v)", a.Holds("B"), b.Holds("A"))
		mustJoin(w, a, b)
		w.Wait("A and B hold each other alive after the SECOND explicit Join", mesh(a, b))
		w.Observe("(e) death older than GossipToTheDeadTime: the SECOND Join re-connected the pair")
	}
}

func scPartition3Early(w *World) {
	ns := w.Form("A", "B", "C")
	a, b, c := ns[0], ns[1], ns[2]
	mutualDeath(w, ns, []string{"A"}, []string{"B", "C"})
	w.Heal()
	healed := lastOp(w.Rec.Events(), "heal-done", "", 0)
	_, auto := w.WaitFor("full mesh again with nothing above memberlist retrying", 2*time.Second, mesh(a, b, c))
	if auto {
		w.Observe("(e) early heal (at the moment the deaths were declared), 3 nodes: memberlist ALONE re-connected everybody (%s)", howReconnected(w.Rec.Events(), healed))
	} else {
		w.Observe("(e) early heal, 3 nodes: memberlist alone did NOT re-connect within 2s (A holds B:%v C:%v; B holds A:%v; C holds A:%v)", a.Holds("B"), a.Holds("C"), b.Holds("A"), c.Holds("A"))
		mustJoin(w, a, b)
		w.Wait("full mesh after explicit Join A->B", mesh(a, b, c))
		w.Observe("(e) early heal, 3 nodes: an explicit Join A->B restored the full mesh")
	}
}

func scThirdNode(w *World) {
	ns := w.Form("A", "B")
	a, b := ns[0], ns[1]
	mutualDeath(w, ns, []string{"A"}, []string{"B"})
	w.Settle(drainTime, "let the queues drain")
	w.Heal()
	if _, auto := w.WaitFor("pair re-connected on its own", 400*time.Millisecond, mesh(a, b)); auto {
		panic(inconclusive{"the pair re-connected on its own before the third node arrived"})
	}
	c := w.Start("C")
	mustJoin(w, c, a, b)
	cj := lastOp(w.Rec.Events(), "join-call", "C", 1)
	_, ok := w.WaitFor("A and B hold each other alive through C (no Join between A and B)", 5*time.Second, mesh(a, b, c))
	if !ok {
		w.Observe("(e) third node: a fresh C joined both A and B, but A and B did NOT re-connect within 5s (A holds B: %v, B holds A: %v)", a.Holds("B"), b.Holds("A"))
		panic(inconclusive{"A and B did not re-connect through the third node within 5s"})
	}
	w.Observe("(e) third node: after a fresh C joined both, A and B re-connected without any Join between them (%s)", howReconnected(w.Rec.Events(), cj))
}

func scLeaveDuringPartition(w *World) {
	slow := func(c *memberlist.Config) {
		// C never suspects anybody on its own: it does not probe within the scenario
		c.ProbeInterval = 30 * time.Second
		c.ProbeTimeout = time.Second
		c.PushPullInterval = 150 * time.Millisecond
	}
	a, b := w.Start("A"), w.Start("B")
	c := w.Start("C", slow)
	mustJoin(w, b, a)
	mustJoin(w, c, a)
	w.Wait("formation", mesh(a, b, c))
	w.Partition([]string{"A", "B"}, []string{"C"})
	w.Wait("A and B report C dead", func() bool { return !a.Holds("C") && !b.Holds("C") })
	if !c.Holds("A") || !c.Holds("B") {
		panic(inconclusive{"C declared a peer dead although it does not probe"})
	}
	if err := w.Leave(b); err != nil {
		panic(inconclusive{"Leave timed out"})
	}
	w.Wait("A reports B gone", func() bool { return !a.Holds("B") })
	w.Settle(drainTime, "let the queues drain")
	if !c.Holds("B") {
		panic(inconclusive{"C lost B during the partition"})
	}
	w.Heal()
	healed := lastOp(w.Rec.Events(), "heal-done", "", 0)
	w.Wait("C reports B gone", func() bool { return !c.Holds("B") })
	w.Wait("A and C hold each other alive again", mesh(a, c))
	w.Settle(500*time.Millisecond, "B has left but still runs: is it ever seen alive again?")
	evs := w.Rec.Events()
	w.Observe("(f) after heal C (which still listed the left node B alive, same incarnation) saw about B: %v", callbacksAbout(evs, "C", 1, "B", healed))
	w.Observe("(f) after heal A (which had B as left) saw about B: %v (empty = the left state won over C's alive claim)", callbacksAbout(evs, "A", 1, "B", healed))
	w.Observe("(f) the left-but-running node B saw about itself after heal: %v", callbacksAbout(evs, "B", 1, "B", healed))
	w.Observe("(e) A and C (A had C dead, C had A alive) re-connected by memberlist alone (%s)", howReconnected(evs, healed))
	w.Shutdown(b)
}

func restartScenario(w *World, meta string, afterDeath, leaveFirst bool) {
	ns := w.Form("A", "B", "C")
	a, b, c := ns[0], ns[1], ns[2]
	if leaveFirst {
		if err := w.Leave(b); err != nil {
			panic(inconclusive{"Leave timed out"})
		}
	}
	w.Shutdown(b)
	if afterDeath {
		w.Wait("A and C report B dead", func() bool { return !a.Holds("B") && !c.Holds("B") })
		w.Settle(200*time.Millisecond, "quiet")
	}
	b2 := w.StartMeta("B", meta)
	mustJoin(w, b2, a)
	w.Wait("new B holds A and C; A and C hold B", mesh(a, b2, c))
	w.Settle(700*time.Millisecond, "does anybody report B dead / alive / updated later?")
	evs := w.Rec.Events()
	cr := lastOp(evs, "create", "B", 2)
	for _, p := range []string{"A", "C"} {
		w.Observe("(f) peer saw about B after the new instance was created: %v", callbacksAbout(evs, p, 1, "B", cr))
	}
	// order at the node that was joined: user-state merge of the new B's state vs. alive notification
	gMerge, gJoin := 0, 0
	for _, e := range evs {
		if e.G > cr && e.Node == "A" && e.Kind == "MergeRemoteState" && strings.HasPrefix(e.Data, "LS:B#2:") && gMerge == 0 {
			gMerge = e.G
		}
		if e.G > cr && e.Node == "A" && e.Kind == "NotifyJoin" && e.Peer == "B" && gJoin == 0 {
			gJoin = e.G
		}
	}
	switch {
	case gJoin == 0:
		w.Observe("(f) at the joined node A: MergeRemoteState(join) of the new B's state, no NotifyJoin(B) at all")
	case gMerge < gJoin:
		w.Observe("(f) at the joined node A: MergeRemoteState(join) of the new B's state came BEFORE NotifyJoin(B)")
	default:
		w.Observe("(f) at the joined node A: NotifyJoin(B) came before MergeRemoteState(join) of the new B's state")
	}
}

func scRestartQuick(w *World)      { restartScenario(w, "m1", false, false) }
func scRestartQuickMeta(w *World)  { restartScenario(w, "m2", false, false) }
func scRestartAfterDeath(w *World) { restartScenario(w, "m1", true, false) }
func scRestartAfterLeave(w *World) { restartScenario(w, "m1", true, true) }

func scUserBroadcast(w *World) {
	one := func(c *memberlist.Config) { c.GossipNodes = 1 } // spreading takes several rounds
	var ns []*Node
	for _, name := range []string{"A", "B", "C", "D"} {
		ns = append(ns, w.Start(name, one))
	}
	for _, n := range ns[1:] {
		mustJoin(w, n, ns[0])
	}
	w.Wait("formation", mesh(ns...))
	a := ns[0]
	w.QueueUser(a, "u1")
	w.Settle(30*time.Millisecond, "u1 has been sent at least once before u2 is queued")
	w.QueueUser(a, "u2")
	has := func(n *Node, id string) bool {
		for _, m := range n.d.arrivalsOf() {
			if m == id {
				return true
			}
		}
		return false
	}
	_, all := w.WaitFor("B,C,D received u1 and u2", 5*time.Second, func() bool {
		for _, n := range ns[1:] {
			if !has(n, "u1") || !has(n, "u2") {
				return false
			}
		}
		return true
	})
	w.Settle(500*time.Millisecond, "late duplicates")
	dups, reord, never := 0, 0, 0
	for _, n := range ns {
		arr := n.d.arrivalsOf()
		cnt := map[string]int{}
		first := map[string]int{}
		for i, m := range arr {
			cnt[m]++
			if cnt[m] == 1 {
				first[m] = i
			}
		}
		for _, k := range cnt {
			if k > 1 {
				dups += k - 1
			}
		}
		if cnt["u1"] > 0 && cnt["u2"] > 0 && first["u2"] < first["u1"] {
			reord++
		}
		if n != a {
			for _, id := range []string{"u1", "u2"} {
				if cnt[id] == 0 {
					never++
				}
			}
		}
		if n == a && len(arr) > 0 {
			w.Observe("(d) the origin A got its own broadcasts back (re-broadcast by the receivers)")
		}
	}
	w.Facts["duplicates"] = fmt.Sprint(dups)
	if dups > 0 {
		w.Observe("(d) duplicates: yes (a node received the same payload more than once)")
	} else {
		w.Observe("(d) duplicates: none seen")
	}
	if reord > 0 {
		w.Observe("(d) reordering: yes (a node received u2 before u1 although A queued u1 first)")
	} else {
		w.Observe("(d) reordering: none seen")
	}
	if !all || never > 0 {
		w.Observe("(d) loss: some (node,payload) pair never arrived within 5s")
	} else {
		w.Observe("(d) loss: none in a connected cluster, every payload reached every other node")
	}
	// second phase: a message queued while D is briefly unreachable (shorter than failure detection)
	d := ns[3]
	w.Partition([]string{"A", "B", "C"}, []string{"D"})
	w.QueueUser(a, "u3")
	w.Settle(160*time.Millisecond, "u3 spends its retransmissions while D is cut off")
	w.Heal()
	w.QueueUser(a, "u4")
	_, got4 := w.WaitFor("D received u4", 3*time.Second, func() bool { return has(d, "u4") })
	w.Settle(500*time.Millisecond, "does u3 still reach D?")
	switch {
	case !got4:
		w.Observe("(d) after a short cut: u4 (queued after the heal) did not reach D within 3s")
	case !has(d, "u3"):
		w.Observe("(d) loss + gap: D received u4 but NEVER u3 (queued while D was cut off for 160ms; every holder had spent its retransmissions)")
	default:
		arr := d.d.arrivalsOf()
		i3, i4 := -1, -1
		for i, m := range arr {
			if m == "u3" && i3 < 0 {
				i3 = i
			}
			if m == "u4" && i4 < 0 {
				i4 = i
			}
		}
		if i4 < i3 {
			w.Observe("(d) reordering: yes, D received u4 before u3 although A queued u3 first (u3 was queued while D was cut off)")
		} else {
			w.Observe("(d) after a short cut D still received u3 before u4")
		}
	}
}

func scPushPullPeriodic(w *World) {
	opt := func(c *memberlist.Config) { c.PushPullInterval = 100 * time.Millisecond }
	a, b, c := w.Start("A", opt), w.Start("B", opt), w.Start("C", opt)
	mustJoin(w, b, a)
	mustJoin(w, c, a)
	w.Wait("formation", mesh(a, b, c))
	w.Settle(1200*time.Millisecond, "periodic push/pulls in a healthy cluster")
	w.Shutdown(b)
	w.Wait("A and C report B dead", func() bool { return !a.Holds("B") && !c.Holds("B") })
	w.Settle(500*time.Millisecond, "push/pulls after the death")
	evs := w.Rec.Events()
	for _, e := range evs {
		if e.Kind == "LocalState" && e.State == "join=false" {
			w.Observe("content: LocalState(join=false) buffers are handed unchanged to the peer's MergeRemoteState(join=false); join flag travels with the exchange")
			break
		}
	}
}

func lastOpGid(evs []Event, what, node string, inst int) int64 {
	var gid int64
	for _, e := range evs {
		if e.Kind == "op:"+what && e.Node == node && e.Inst == inst {
			gid = e.Gid
		}
	}
	return gid
}

func kindsOnGid(evs []Event, node string, inst int, gid int64) string {
	var out []string
	for _, e := range evs {
		if e.Node == node && e.Inst == inst && e.Gid == gid && !strings.HasPrefix(e.Kind, "op:") && e.Kind != "mlog" {
			// names are dropped and repetitions merged so that the text is the same in every run
			if len(out) > 0 && strings.TrimSuffix(out[len(out)-1], "+") == e.Kind {
				out[len(out)-1] = e.Kind + "+"
				continue
			}
			out = append(out, e.Kind)
		}
	}
	return strings.Join(out, " ")
}
