// vcheck runs one property check: vcheck <ID> <quick|thorough> [--replay file]
package main

import (
	"verifharness/vc"

	_ "verifharness/checks"
)

func main() { vc.Main() }
