// Package vc is the driver shared by all property checks: registry, process
// sharding, merging of worker reports, known-findings matching, evidence files,
// replay artefacts and exit codes.
package vc

import (
	"hash/fnv"
	"bufio"
	"bytes"
	"crypto/sha1"
	"encoding/json"
	"fmt"
	"os"
	"os/exec"
	"path/filepath"
	"runtime"
	"runtime/debug"
	"sort"
	"strconv"
	"strings"
	"sync"
	"time"

	"github.com/hashicorp/serf/zzverif/vsched"
)

// Root is the framework directory (VERIF_ROOT, default /verif).
var Root = func() string {
	if r := os.Getenv("VERIF_ROOT"); r != "" {
		return r
	}
	return "/verif"
}()

// Check describes one property check.
type Check struct {
	ID          string
	Level       string // exploration | fault_enumeration | model_checking
	Rule        string // how cases are enumerated, what counts as non-trivial
	Assumptions []string
	// Run does the work of one shard and fills ctx.Report.
	Run func(ctx *Ctx)
	// Serial makes the parent run the check in a single process (the check
	// manages its own worker pool, e.g. BFS).
	Serial bool
}

var registry = map[string]*Check{}

var gcBallast []byte

func Register(c *Check) { registry[c.ID] = c }

// Violation as reported by a shard.
type Violation struct {
	Scenario  string      `json:"scenario"`
	Signature string      `json:"signature"`
	Message   string      `json:"message"`
	Replay    interface{} `json:"replay,omitempty"`
}

// Scenario statistics (one Explore call, one enumeration, one BFS).
type Scenario struct {
	Name        string         `json:"name"`
	Kind        string         `json:"kind"` // schedules | cases | states | crash_images | faults
	Bound       int            `json:"bound,omitempty"`
	Evaluations int            `json:"evaluations"`
	Nontrivial  int            `json:"nontrivial"`
	States      int            `json:"states,omitempty"`
	Transitions int            `json:"transitions,omitempty"`
	Outcomes    map[string]int `json:"outcomes,omitempty"`
	CapHits     int            `json:"cap_hits,omitempty"`
	MaxPoints   int            `json:"max_points,omitempty"`
	Exhaustive  bool           `json:"exhaustive"`
	StopReason  string         `json:"stop_reason,omitempty"`
	Samples     []interface{}  `json:"samples,omitempty"`
	StateKeys   []uint64       `json:"state_keys,omitempty"` // sorted hashes of canonical states (merged, then replaced by States)
	stateSet    map[uint64]struct{}
}

// Report is what a shard returns to the parent.
type Report struct {
	Scenarios  []*Scenario `json:"scenarios"`
	Violations []Violation `json:"violations"`
	Notes      []string    `json:"notes,omitempty"`
	HarnessErr string      `json:"harness_err,omitempty"`
}

// Ctx is handed to Check.Run.
type Ctx struct {
	ID       string
	Tier     string
	Seed     int64
	Shard    int
	NShards  int
	Deadline time.Time
	Report   *Report
	Replay   json.RawMessage // non-nil: replay this artefact only
	start    time.Time
}

func (c *Ctx) Thorough() bool { return c.Tier == "thorough" }

// Mine reports whether case number i belongs to this shard.
func (c *Ctx) Mine(i int) bool { return c.NShards <= 1 || i%c.NShards == c.Shard }

func (c *Ctx) Note(format string, a ...interface{}) {
	c.Report.Notes = append(c.Report.Notes, fmt.Sprintf(format, a...))
}

func (c *Ctx) Fail(format string, a ...interface{}) {
	if c.Report.HarnessErr == "" {
		c.Report.HarnessErr = fmt.Sprintf(format, a...)
	}
}

func (c *Ctx) Violation(scn, sig, msg string, replay interface{}) {
	for _, v := range c.Report.Violations {
		if v.Signature == sig {
			return
		}
	}
	c.Report.Violations = append(c.Report.Violations, Violation{Scenario: scn, Signature: sig, Message: msg, Replay: replay})
}

// Scn returns (creating it) the statistics record of a scenario.
func (c *Ctx) Scn(name, kind string) *Scenario {
	for _, s := range c.Report.Scenarios {
		if s.Name == name {
			return s
		}
	}
	s := &Scenario{Name: name, Kind: kind, Outcomes: map[string]int{}, Exhaustive: true}
	c.Report.Scenarios = append(c.Report.Scenarios, s)
	return s
}

// ExploreOpts configures Ctx.Explore.
type ExploreOpts struct {
	Name    string
	Bound   int
	EnvFree bool
	// FreeSwitches: classic preemption bounding (switches at blocking points are free);
	// default is delay bounding (every non-default scheduling choice costs one).
	FreeSwitches bool
	MaxSteps     int
	MaxExecs     int
}

// SchedReplay is the replay artefact of a schedule violation.
type SchedReplay struct {
	Scenario string `json:"scenario"`
	Choices  []int  `json:"choices"`
}

// Explore runs an exhaustive schedule exploration of body (this shard's part)
// and records statistics and violations. In replay mode it runs only the
// recorded schedule of the matching scenario.
func (c *Ctx) Explore(o ExploreOpts, body func(), check func(x *vsched.Exec) (outcome, sig, msg string)) {
	if c.Replay != nil {
		var r SchedReplay
		if json.Unmarshal(c.Replay, &r) != nil || r.Scenario != o.Name {
			return
		}
		x := vsched.Replay(r.Choices, o.MaxSteps, body)
		out, sig, msg := check(x)
		fmt.Printf("replay scenario=%s outcome=%s diverged=%q\n", o.Name, out, x.Diverged)
		s := c.Scn(o.Name, "schedules")
		s.Evaluations++
		if sig != "" {
			c.Violation(o.Name, sig, msg, r)
		}
		return
	}
	cfg := vsched.ExploreCfg{Name: o.Name, Bound: o.Bound, EnvFree: o.EnvFree, FreeSwitches: o.FreeSwitches, MaxSteps: o.MaxSteps, MaxExecs: o.MaxExecs, Deadline: c.Deadline, Shard: c.Shard, NShards: c.NShards}
	res := vsched.Explore(cfg, body, check)
	s := c.Scn(o.Name, "schedules")
	s.Bound = o.Bound
	s.Evaluations += res.Execs
	s.Nontrivial += res.Nontrivial
	for k, v := range res.Outcomes {
		s.Outcomes[k] += v
	}
	s.CapHits += res.CapHits
	if res.MaxPoints > s.MaxPoints {
		s.MaxPoints = res.MaxPoints
	}
	if !res.Exhaustive {
		s.Exhaustive = false
		s.StopReason = res.StopReason
	}
	for _, x := range res.Sample {
		if len(s.Samples) < 3 {
			s.Samples = append(s.Samples, x)
		}
	}
	if res.HarnessErr != "" {
		c.Fail("%s: %s", o.Name, res.HarnessErr)
	}
	for _, v := range res.Violations {
		c.Violation(o.Name, v.Signature, v.Message, SchedReplay{Scenario: o.Name, Choices: v.Choices})
	}
}

// AddState records a canonical state key (hashed); distinct keys are counted
// across all workers.
func (s *Scenario) AddState(key string) {
	h := fnv.New64a()
	h.Write([]byte(key))
	if s.stateSet == nil {
		s.stateSet = map[uint64]struct{}{}
	}
	s.stateSet[h.Sum64()] = struct{}{}
}

// NumStates returns the number of distinct states recorded so far in this process.
func (s *Scenario) NumStates() int { return len(s.stateSet) }

func (r *Report) finalizeStates() {
	for _, s := range r.Scenarios {
		if len(s.stateSet) == 0 {
			continue
		}
		keys := make([]uint64, 0, len(s.stateSet))
		for k := range s.stateSet {
			keys = append(keys, k)
		}
		sort.Slice(keys, func(i, j int) bool { return keys[i] < keys[j] })
		s.StateKeys = unionKeys(s.StateKeys, keys)
		s.stateSet = nil
	}
}

func unionKeys(a, b []uint64) []uint64 {
	out := make([]uint64, 0, len(a)+len(b))
	i, j := 0, 0
	for i < len(a) || j < len(b) {
		switch {
		case j >= len(b) || (i < len(a) && a[i] < b[j]):
			out = append(out, a[i])
			i++
		case i >= len(a) || b[j] < a[i]:
			out = append(out, b[j])
			j++
		default:
			out = append(out, a[i])
			i++
			j++
		}
	}
	return out
}

// Case records one enumerated case of an input/case enumeration.
func (s *Scenario) Case(outcome string, nontrivial bool) {
	s.Evaluations++
	if nontrivial {
		s.Nontrivial++
	}
	s.Outcomes[outcome]++
}

func (s *Scenario) Sample(v interface{}) {
	if len(s.Samples) < 3 {
		s.Samples = append(s.Samples, v)
	}
}

// ---------------------------------------------------------------------------

type knownFinding struct {
	Property  string `json:"property"`
	Signature string `json:"signature"`
	What      string `json:"what"`
	Fixed     string `json:"fixed,omitempty"`
}

func loadKnown(id string) []knownFinding {
	var out []knownFinding
	f, err := os.Open(filepath.Join(Root, "known_findings.jsonl"))
	if err != nil {
		return nil
	}
	defer f.Close()
	sc := bufio.NewScanner(f)
	sc.Buffer(make([]byte, 1<<20), 1<<20)
	for sc.Scan() {
		line := strings.TrimSpace(sc.Text())
		if line == "" || strings.HasPrefix(line, "#") {
			continue
		}
		var k knownFinding
		if json.Unmarshal([]byte(line), &k) == nil && k.Property == id && k.Fixed == "" && k.Signature != "" {
			out = append(out, k)
		}
	}
	return out
}

func merge(into *Report, r *Report) {
	for _, s := range r.Scenarios {
		var t *Scenario
		for _, x := range into.Scenarios {
			if x.Name == s.Name {
				t = x
			}
		}
		if t == nil {
			cp := *s
			cp.Outcomes = map[string]int{}
			for k, v := range s.Outcomes {
				cp.Outcomes[k] = v
			}
			into.Scenarios = append(into.Scenarios, &cp)
			continue
		}
		t.Evaluations += s.Evaluations
		t.Nontrivial += s.Nontrivial
		t.States += s.States
		if len(s.StateKeys) > 0 {
			t.StateKeys = unionKeys(t.StateKeys, s.StateKeys)
		}
		t.Transitions += s.Transitions
		t.CapHits += s.CapHits
		if s.MaxPoints > t.MaxPoints {
			t.MaxPoints = s.MaxPoints
		}
		for k, v := range s.Outcomes {
			t.Outcomes[k] += v
		}
		if !s.Exhaustive {
			t.Exhaustive = false
			if t.StopReason == "" {
				t.StopReason = s.StopReason
			}
		}
		for _, x := range s.Samples {
			if len(t.Samples) < 3 {
				t.Samples = append(t.Samples, x)
			}
		}
	}
	for _, v := range r.Violations {
		dup := false
		for _, x := range into.Violations {
			if x.Signature == v.Signature {
				dup = true
			}
		}
		if !dup {
			into.Violations = append(into.Violations, v)
		}
	}
	into.Notes = append(into.Notes, r.Notes...)
	if into.HarnessErr == "" {
		into.HarnessErr = r.HarnessErr
	}
}

const reportMarker = "@@VCREPORT@@ "

// Main is the entry point of the vcheck binary.
//
//	vcheck <ID> <quick|thorough> [--replay file]
func Main() {
	// Every execution creates fresh nodes (large channel buffers) while the live
	// heap stays tiny, so the default pacer would collect after every other
	// execution: collect only when 768 MB of garbage have accumulated.
	// Measured in this sandbox: touching fresh memory is what limits parallel
	// workers (page faults do not scale across processes here), so the default
	// pacer (small heap, pages recycled) beats a lazier collector. VERIF_GOGC overrides.
	if v := os.Getenv("VERIF_GOGC"); v != "" {
		if n, err := strconv.Atoi(v); err == nil {
			gcBallast = make([]byte, 64<<20)
			debug.SetGCPercent(n)
		}
	}
	if len(os.Args) < 3 {
		fmt.Fprintln(os.Stderr, "usage: vcheck <ID> <quick|thorough> [--replay file] | vcheck list")
		os.Exit(2)
	}
	id, tier := os.Args[1], os.Args[2]
	ck := registry[id]
	if ck == nil {
		fmt.Fprintf(os.Stderr, "vcheck: unknown property %s\n", id)
		os.Exit(2)
	}
	if os.Getenv("VERIF_BFS_WORKER") != "" {
		bfsWorkerLoop(id)
		return
	}
	if tier != "quick" && tier != "thorough" {
		fmt.Fprintln(os.Stderr, "vcheck: tier must be quick or thorough")
		os.Exit(2)
	}
	seed, _ := strconv.ParseInt(os.Getenv("VERIF_SEED"), 10, 64)
	var replay json.RawMessage
	replayPath := ""
	for i := 3; i+1 < len(os.Args); i++ {
		if os.Args[i] == "--replay" {
			replayPath = os.Args[i+1]
		}
	}
	if replayPath != "" {
		b, err := os.ReadFile(replayPath)
		if err != nil {
			fmt.Fprintln(os.Stderr, "vcheck:", err)
			os.Exit(2)
		}
		var art struct {
			Replay json.RawMessage `json:"replay"`
		}
		if json.Unmarshal(b, &art) != nil || art.Replay == nil {
			fmt.Fprintln(os.Stderr, "vcheck: bad replay file")
			os.Exit(2)
		}
		replay = art.Replay
	}
	budget := 100 * time.Second
	if tier == "thorough" {
		budget = 25 * time.Minute
	}
	if v := os.Getenv("VERIF_BUDGET_S"); v != "" {
		if n, err := strconv.Atoi(v); err == nil {
			budget = time.Duration(n) * time.Second
		}
	}
	start := time.Now()
	deadline := start.Add(budget)

	if sh := os.Getenv("VERIF_SHARD"); sh != "" || replay != nil || ck.Serial {
		// worker (or single-process) mode
		ctx := &Ctx{ID: id, Tier: tier, Seed: seed, NShards: 1, Deadline: deadline, Report: &Report{}, Replay: replay, start: start}
		if sh != "" {
			fmt.Sscanf(sh, "%d/%d", &ctx.Shard, &ctx.NShards)
			if d := os.Getenv("VERIF_DEADLINE_UNIX"); d != "" {
				if n, err := strconv.ParseInt(d, 10, 64); err == nil {
					ctx.Deadline = time.Unix(n, 0)
				}
			}
		}
		runShard(ck, ctx)
		ctx.Report.finalizeStates()
		if sh != "" {
			b, _ := json.Marshal(ctx.Report)
			fmt.Println(reportMarker + string(b))
			return
		}
		finish(ck, ctx, ctx.Report, start)
		return
	}

	// parent: run the shards as subprocesses and merge
	n := runtime.NumCPU()
	if n > 16 {
		n = 16
	}
	if v := os.Getenv("VERIF_WORKERS"); v != "" {
		if k, err := strconv.Atoi(v); err == nil && k > 0 {
			n = k
		}
	}
	total := &Report{}
	var mu sync.Mutex
	var wg sync.WaitGroup
	for i := 0; i < n; i++ {
		wg.Add(1)
		go func(i int) {
			defer wg.Done()
			cmd := exec.Command(os.Args[0], os.Args[1:]...)
			cmd.Env = append(os.Environ(), fmt.Sprintf("VERIF_SHARD=%d/%d", i, n), fmt.Sprintf("VERIF_DEADLINE_UNIX=%d", deadline.Unix()), "GOMAXPROCS=1")
			var out, errb bytes.Buffer
			cmd.Stdout = &out
			cmd.Stderr = &errb
			err := cmd.Run()
			mu.Lock()
			defer mu.Unlock()
			got := false
			for _, line := range strings.Split(out.String(), "\n") {
				if strings.HasPrefix(line, reportMarker) {
					var r Report
					if json.Unmarshal([]byte(line[len(reportMarker):]), &r) == nil {
						merge(total, &r)
						got = true
					}
				}
			}
			if !got {
				tail := errb.String()
				if len(tail) > 3000 {
					tail = tail[len(tail)-3000:]
				}
				if total.HarnessErr == "" {
					total.HarnessErr = fmt.Sprintf("shard %d/%d produced no report (err=%v)\nstdout: %s\nstderr tail:\n%s", i, n, err, lastLines(out.String(), 10), tail)
				}
			}
		}(i)
	}
	wg.Wait()
	ctx := &Ctx{ID: id, Tier: tier, Seed: seed, NShards: n, Report: total, start: start}
	finish(ck, ctx, total, start)
}

func lastLines(s string, n int) string {
	l := strings.Split(strings.TrimRight(s, "\n"), "\n")
	if len(l) > n {
		l = l[len(l)-n:]
	}
	return strings.Join(l, "\n")
}

func runShard(ck *Check, ctx *Ctx) {
	defer func() {
		if r := recover(); r != nil {
			buf := make([]byte, 1<<14)
			buf = buf[:runtime.Stack(buf, false)]
			ctx.Fail("harness panic: %v\n%s", r, buf)
		}
	}()
	ck.Run(ctx)
}

func finish(ck *Check, ctx *Ctx, rep *Report, start time.Time) {
	known := loadKnown(ck.ID)
	exit := 0
	newViol := 0
	knownSeen := map[string]bool{}
	sort.Slice(rep.Violations, func(i, j int) bool { return rep.Violations[i].Signature < rep.Violations[j].Signature })
	for _, v := range rep.Violations {
		matched := false
		for _, k := range known {
			if k.Signature == v.Signature {
				matched = true
				if !knownSeen[k.Signature] {
					knownSeen[k.Signature] = true
					fmt.Printf("KNOWN-FINDING: property=%s %s [signature: %s]\n", ck.ID, k.What, k.Signature)
				}
			}
		}
		if matched {
			continue
		}
		newViol++
		path := writeReplay(ck.ID, v)
		fmt.Printf("VIOLATION property=%s replay=%s\n", ck.ID, path)
		fmt.Printf("  scenario=%s signature=%s\n  %s\n", v.Scenario, v.Signature, strings.ReplaceAll(v.Message, "\n", "\n  "))
		exit = 1
	}
	if rep.HarnessErr != "" {
		fmt.Fprintf(os.Stderr, "HARNESS-ERROR property=%s: %s\n", ck.ID, rep.HarnessErr)
		if exit == 0 {
			exit = 2
		}
	}
	if ctx.Replay == nil {
		writeEvidence(ck, ctx, rep, newViol, len(knownSeen), time.Since(start))
	}
	evals, nt := 0, 0
	exh := true
	for _, s := range rep.Scenarios {
		evals += s.Evaluations + s.Transitions
		nt += s.Nontrivial
		if !s.Exhaustive {
			exh = false
		}
	}
	fmt.Printf("property=%s tier=%s scenarios=%d evaluations=%d nontrivial=%d exhaustive=%v violations=%d known=%d wall=%.1fs\n",
		ck.ID, ctx.Tier, len(rep.Scenarios), evals, nt, exh, newViol, len(knownSeen), time.Since(start).Seconds())
	os.Exit(exit)
}

func writeReplay(id string, v Violation) string {
	dir := filepath.Join(Root, "replays")
	os.MkdirAll(dir, 0o755)
	b, _ := json.MarshalIndent(map[string]interface{}{
		"property": id, "scenario": v.Scenario, "signature": v.Signature, "message": v.Message, "replay": v.Replay,
	}, "", " ")
	h := sha1.Sum([]byte(v.Scenario + "|" + v.Signature))
	path := filepath.Join(dir, fmt.Sprintf("%s-%x.json", id, h[:5]))
	os.WriteFile(path, b, 0o644)
	return path
}

func writeEvidence(ck *Check, ctx *Ctx, rep *Report, viol, knownN int, wall time.Duration) {
	evals, nt, states, trans := 0, 0, 0, 0
	exh := true
	var samples []interface{}
	var scns []interface{}
	outcomes := 0
	stop := []string{}
	for _, s := range rep.Scenarios {
		evals += s.Evaluations
		nt += s.Nontrivial
		if len(s.StateKeys) > 0 {
			s.States = len(s.StateKeys) // distinct canonical states over all workers
			s.StateKeys = nil
		}
		states += s.States
		trans += s.Transitions
		outcomes += len(s.Outcomes)
		if !s.Exhaustive {
			exh = false
			stop = append(stop, s.Name+": "+s.StopReason)
		}
		for _, x := range s.Samples {
			if len(samples) < 8 {
				samples = append(samples, map[string]interface{}{"scenario": s.Name, "case": x})
			}
		}
		scns = append(scns, s)
	}
	if rep.HarnessErr != "" {
		exh = false
	}
	cov := map[string]interface{}{
		"evaluations":         evals,
		"distinct_nontrivial": nt,
		"rule":                ck.Rule,
		"samples":             samples,
		"exhaustive":          exh,
		"scenarios":           scns,
		"distinct_outcomes":   outcomes,
		"workers":             ctx.NShards,
	}
	if len(stop) > 0 {
		cov["caps"] = stop
	}
	if ck.Level == "model_checking" {
		cov["states"] = states
		cov["transitions"] = trans
		cov["traces_validated_against_impl"] = trans
		if evals == 0 {
			cov["evaluations"] = trans
		}
	}
	if len(rep.Notes) > 0 {
		seen := map[string]bool{}
		var notes []string
		for _, n := range rep.Notes {
			if !seen[n] {
				seen[n] = true
				notes = append(notes, n)
			}
		}
		cov["notes"] = notes
	}
	if knownN > 0 {
		cov["known_findings_reported"] = knownN
	}
	if ck.Assumptions == nil {
		ck.Assumptions = []string{}
	}
	if !strings.HasPrefix(ck.ID, "C") || len(ck.ID) != 3 {
		return // auxiliary checks (SMOKE, ...) leave no evidence file
	}
	ev := map[string]interface{}{
		"property_id": ck.ID,
		"tier":        ctx.Tier,
		"seed":        ctx.Seed,
		"level":       ck.Level,
		"coverage":    cov,
		"assumptions": ck.Assumptions,
		"wall_s":      wall.Seconds(),
		"violations":  viol,
	}
	if rep.HarnessErr != "" {
		ev["harness_error"] = rep.HarnessErr
	}
	dir := filepath.Join(Root, "evidence")
	os.MkdirAll(dir, 0o755)
	b, _ := json.MarshalIndent(ev, "", " ")
	os.WriteFile(filepath.Join(dir, ck.ID+".json"), b, 0o644)
}
