package vc

// Explicit-state breadth-first search over real handlers (engine E3).
//
// A state is the action history that reaches it. The parent process keeps the
// frontier and the set of canonical state keys; worker processes (the same
// binary with VERIF_BFS_WORKER=1) execute histories on fresh real objects and
// return, for every successor, its canonical key, the actions enabled in it and
// the oracle's verdicts.

import (
	"bufio"
	"encoding/json"
	"fmt"
	"io"
	"os"
	"os/exec"
	"runtime"
	"strconv"
	"sync"
	"time"
)

// BFSViolation is an oracle failure found in a state.
type BFSViolation struct {
	Signature string `json:"sig"`
	Class     string `json:"class"` // coarse class (e.g. truth/reported pair) used for shape attribution
	Message   string `json:"msg"`
}

// BFSState is what executing one history returns.
type BFSState struct {
	Key        string         `json:"key"`
	Enabled    []string       `json:"enabled"`
	Violations []BFSViolation `json:"viol,omitempty"`
	Terminal   bool           `json:"terminal,omitempty"`
	Note       string         `json:"note,omitempty"`
	Err        string         `json:"err,omitempty"`
}

// BFSModel is implemented by a check: Exec runs a history on fresh real objects.
type BFSModel interface {
	// Exec executes the history under scenario `scenario` and describes the state reached.
	Exec(scenario string, hist []string) BFSState
}

var bfsModels = map[string]BFSModel{}

// RegisterBFS binds a model to a check id.
func RegisterBFS(id string, m BFSModel) { bfsModels[id] = m }

type bfsJob struct {
	Scenario string   `json:"scenario"`
	Hist     []string `json:"hist"`
	Enabled  []string `json:"enabled"`
}

type bfsResult struct {
	Succ []BFSState `json:"succ"`
}

// bfsWorkerLoop serves expansion jobs on stdin/stdout.
func bfsWorkerLoop(id string) {
	m := bfsModels[id]
	if m == nil {
		fmt.Fprintln(os.Stderr, "no BFS model for", id)
		os.Exit(2)
	}
	in := bufio.NewReaderSize(os.Stdin, 1<<20)
	out := bufio.NewWriter(os.Stdout)
	for {
		line, err := in.ReadBytes('\n')
		if len(line) > 0 {
			var j bfsJob
			if json.Unmarshal(line, &j) != nil {
				os.Exit(2)
			}
			var r bfsResult
			for _, a := range j.Enabled {
				h := append(append([]string{}, j.Hist...), a)
				r.Succ = append(r.Succ, m.Exec(j.Scenario, h))
			}
			b, _ := json.Marshal(&r)
			out.Write(b)
			out.WriteByte('\n')
			out.Flush()
		}
		if err != nil {
			return
		}
	}
}

// BFSOpts bounds one search.
type BFSOpts struct {
	Scenario  string
	MaxDepth  int
	MaxStates int
}

type bfsNode struct {
	hist    []string
	enabled []string
}

type bfsWorker struct {
	cmd *exec.Cmd
	in  io.WriteCloser
	out *bufio.Reader
}

// BFS runs a breadth-first search (call from a Serial check's Run).
// onViolation receives each violating state's history (shortest first per signature).
func (c *Ctx) BFS(o BFSOpts, onViolation func(hist []string, v BFSViolation)) {
	m := bfsModels[c.ID]
	scn := c.Scn(o.Scenario, "states")
	if c.Replay != nil {
		var rp struct {
			Scenario string   `json:"scenario"`
			History  []string `json:"history"`
		}
		if json.Unmarshal(c.Replay, &rp) != nil || rp.Scenario != o.Scenario {
			return
		}
		st := m.Exec(o.Scenario, rp.History)
		fmt.Printf("replay scenario=%s history=%v\n  key=%s\n  note=%s\n", o.Scenario, rp.History, st.Key, st.Note)
		for _, v := range st.Violations {
			onViolation(rp.History, v)
		}
		return
	}
	nw := runtime.NumCPU()
	if nw > 16 {
		nw = 16
	}
	if v := os.Getenv("VERIF_WORKERS"); v != "" {
		if k, err := strconv.Atoi(v); err == nil && k > 0 {
			nw = k
		}
	}
	var workers []*bfsWorker
	for i := 0; i < nw; i++ {
		cmd := exec.Command(os.Args[0], os.Args[1:]...)
		cmd.Env = append(os.Environ(), "VERIF_BFS_WORKER=1", "GOMAXPROCS=1")
		cmd.Stderr = os.Stderr
		in, _ := cmd.StdinPipe()
		outp, _ := cmd.StdoutPipe()
		if err := cmd.Start(); err != nil {
			c.Fail("cannot start BFS worker: %v", err)
			return
		}
		workers = append(workers, &bfsWorker{cmd: cmd, in: in, out: bufio.NewReaderSize(outp, 1<<20)})
	}
	defer func() {
		for _, w := range workers {
			w.in.Close()
			w.cmd.Wait()
		}
	}()
	root := m.Exec(o.Scenario, nil)
	if root.Err != "" {
		c.Fail("%s: root state: %s", o.Scenario, root.Err)
		return
	}
	seen := map[string]bool{root.Key: true}
	scn.AddState(root.Key)
	frontier := []bfsNode{{nil, root.Enabled}}
	for _, v := range root.Violations {
		onViolation(nil, v)
	}
	depth := 0
	for len(frontier) > 0 {
		if o.MaxDepth > 0 && depth >= o.MaxDepth {
			scn.Exhaustive = false
			scn.StopReason = fmt.Sprintf("depth cap %d reached with %d frontier states (all states up to that depth were expanded)", o.MaxDepth, len(frontier))
			break
		}
		if time.Now().After(c.Deadline) {
			scn.Exhaustive = false
			scn.StopReason = fmt.Sprintf("time budget reached at depth %d with %d frontier states", depth, len(frontier))
			break
		}
		depth++
		results := make([]bfsResult, len(frontier))
		errs := make([]error, len(workers))
		var next int
		var mu sync.Mutex
		var wg sync.WaitGroup
		for wi, w := range workers {
			wg.Add(1)
			go func(wi int, w *bfsWorker) {
				defer wg.Done()
				for {
					mu.Lock()
					i := next
					next++
					mu.Unlock()
					if i >= len(frontier) {
						return
					}
					b, _ := json.Marshal(&bfsJob{Scenario: o.Scenario, Hist: frontier[i].hist, Enabled: frontier[i].enabled})
					if _, err := w.in.Write(append(b, '\n')); err != nil {
						errs[wi] = err
						return
					}
					line, err := w.out.ReadBytes('\n')
					if err != nil {
						errs[wi] = fmt.Errorf("worker died while expanding %v: %v", frontier[i].hist, err)
						return
					}
					if err := json.Unmarshal(line, &results[i]); err != nil {
						errs[wi] = err
						return
					}
				}
			}(wi, w)
		}
		wg.Wait()
		for _, e := range errs {
			if e != nil {
				c.Fail("%s: %v", o.Scenario, e)
				return
			}
		}
		var nf []bfsNode
		for i, r := range results {
			for k, st := range r.Succ {
				scn.Transitions++
				h := append(append([]string{}, frontier[i].hist...), frontier[i].enabled[k])
				if st.Err != "" {
					c.Fail("%s: history %v: %s", o.Scenario, h, st.Err)
					return
				}
				if seen[st.Key] {
					// a violation of a per-step rule belongs to the transition, not to the state
					// it leads to: report it also when that state was reached before by a
					// history on which the step was harmless
					for _, v := range st.Violations {
						if v.Class == "step" {
							onViolation(h, v)
						}
					}
					continue
				}
				seen[st.Key] = true
				scn.AddState(st.Key)
				for _, v := range st.Violations {
					onViolation(h, v)
				}
				if len(scn.Samples) < 2 && len(h) >= 4 {
					scn.Samples = append(scn.Samples, map[string]interface{}{"history": h, "state": st.Note})
				}
				if !st.Terminal {
					nf = append(nf, bfsNode{h, st.Enabled})
				}
				if o.MaxStates > 0 && len(seen) >= o.MaxStates {
					scn.Exhaustive = false
					scn.StopReason = fmt.Sprintf("state cap %d reached at depth %d", o.MaxStates, depth)
					nf = nil
					frontier = nil
					goto done
				}
			}
		}
		frontier = nf
	}
done:
	scn.Evaluations = scn.Transitions
	scn.Nontrivial = len(seen)
	scn.MaxPoints = depth
}
