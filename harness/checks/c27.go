package checks

import (
	"bytes"
	"fmt"
	"io"
	"log"
	"net"
	"os"
	"path/filepath"
	"sort"
	"strconv"
	"strings"
	"time"
	"unicode"

	"verifharness/vc"
	"verifharness/world"

	"github.com/hashicorp/serf/cmd/serf/command/agent"
	"github.com/hashicorp/serf/serf"
	"github.com/hashicorp/serf/zzverif/vsched"
)

// C27: Event handler scripts are invoked per the documented contract
// (docs/agent/event-handlers.html.markdown + the comments in invoke.go).

func init() {
	vc.Register(&vc.Check{
		ID:    "C27",
		Level: "exploration",
		Rule: "cases: (filter) every handler specification of a 27-element set (no filter, '*', every event type, type lists, user:NAME, query:NAME, 'user:', 'bogus') x 2 script texts x 23 events (5 member types, 9 user-event names, 9 query names) through the real ParseEventScript/EventFilter.Invoke; non-trivial = specification with a filter. " +
			"(handle) groups of 3 configured handlers x 9 events through the real ScriptEventHandler.HandleEvent executing /bin/sh marker scripts, plus a script reload, plus every history (length 3, thorough 4) of reloads among three handler sets (also back to the one in use) and events; non-trivial = at least one handler must run and one must not. " +
			"(invoke) real invokeEventScript executing /bin/sh scripts that dump /proc/$$/environ and stdin: node names x tag sets x events (quick: two of the five events per pair); all member lists up to length 2 (thorough 3; quick: a cycle of pairs) over a pool of members with tabs/newlines/'='/','/non-ASCII in names, roles and tags, IPv4/IPv6/nil addresses, for all five member event types; user-event names x payloads (nil, empty, with/without trailing newline, embedded newlines, NUL/0xff bytes, 9 KiB) x Lamport times {0,1,42,2^64-1} (quick: 42, the others with the name x tag-set cases); non-trivial = case with a character that needs sanitising/escaping, a non-empty payload or more than one member. " +
			"(query) real *serf.Query delivered to a real Serf node (inert memberlist) answered by a script whose output is one of {0,1,2, largest size fitting the response limit -1/+0/+1, 1024, 8191, 8192, 8193, 12000, 20000} bytes on stdout/stderr/both with exit status {0,1,3} for response limits {1024, 20000, 8200}; the response packet is read off the transport; non-trivial = output non-empty",
		Assumptions: []string{
			"/bin/sh and /proc are available; the script observes its environment through /proc/$$/environ (exact bytes, NUL separated) and its standard input through cat",
			"a process environment cannot carry NUL bytes: for names/tag values containing one only 'the matching handler runs' is demanded (scenario invoke/nul-bytes); all other cases are NUL-free",
			"member/user events are invoked outside the controlled scheduler (real goroutines, real time); queries inside one controlled run in which the stdin-writer goroutine is scheduled before the script is started (payloads are far below the pipe capacity)",
			"'user:' / 'query:' with an empty name is left open for user events / queries (must not match anything else); a specification that names the same event twice may run the script more than once (only run / not run is compared)",
			"order of the tags inside the fourth stdin field is not specified (any permutation accepted); with two tags whose sanitised names collide either value is accepted",
			"payload rule from invoke.go: a newline is appended only if the payload is non-empty and does not already end in one",
			"'fits the response size limit' = the encoded response message (serf's own encoder) is not longer than Config.QueryResponseSizeLimit",
		},
		Run: c27run,
	})
}

// ---------------------------------------------------------------------------
// reference model

var c27memberTypes = []serf.EventType{serf.EventMemberJoin, serf.EventMemberLeave, serf.EventMemberFailed, serf.EventMemberUpdate, serf.EventMemberReap}

// c27kind is the documented SERF_EVENT value of an event.
func c27kind(e serf.Event) string {
	switch t := e.(type) {
	case serf.MemberEvent:
		switch t.Type {
		case serf.EventMemberJoin:
			return "member-join"
		case serf.EventMemberLeave:
			return "member-leave"
		case serf.EventMemberFailed:
			return "member-failed"
		case serf.EventMemberUpdate:
			return "member-update"
		case serf.EventMemberReap:
			return "member-reap"
		}
	case serf.UserEvent:
		return "user"
	case *serf.Query:
		return "query"
	}
	return "?"
}

func c27evName(e serf.Event) string {
	switch t := e.(type) {
	case serf.UserEvent:
		return t.Name
	case *serf.Query:
		return t.Name
	}
	return ""
}

// c27elem: 1 = must match, 0 = must not match, -1 = left open by the documentation.
func c27elem(el string, e serf.Event) int {
	kind := c27kind(e)
	b := func(x bool) int {
		if x {
			return 1
		}
		return 0
	}
	switch {
	case el == "*":
		return 1
	case el == "user" || el == "query":
		return b(kind == el)
	case strings.HasPrefix(el, "user:") || strings.HasPrefix(el, "query:"):
		i := strings.Index(el, ":")
		if kind != el[:i] {
			return 0
		}
		if el[i+1:] == "" {
			return -1
		}
		return b(c27evName(e) == el[i+1:])
	case strings.HasPrefix(el, "member-"):
		return b(kind == el)
	}
	return 0 // not an event type: matches no event
}

// c27want says whether a handler configured as "filter=script" (hasEq) or "script" must run.
func c27want(filter string, hasEq bool, e serf.Event) int {
	if !hasEq || filter == "" {
		return 1
	}
	res := 0
	for _, el := range strings.Split(filter, ",") {
		switch c27elem(el, e) {
		case 1:
			return 1
		case -1:
			res = -1
		}
	}
	return res
}

// c27sanitize: tag name upper-cased, every character outside [A-Z0-9_] replaced by '_'.
func c27sanitize(name string) string {
	var sb strings.Builder
	for _, r := range name {
		u := unicode.ToUpper(r)
		if (u >= 'A' && u <= 'Z') || (u >= '0' && u <= '9') || u == '_' {
			sb.WriteRune(u)
		} else {
			sb.WriteByte('_')
		}
	}
	return sb.String()
}

func c27esc(v string) string {
	var sb strings.Builder
	for i := 0; i < len(v); i++ {
		switch v[i] {
		case '\t':
			sb.WriteString(`\t`)
		case '\n':
			sb.WriteString(`\n`)
		default:
			sb.WriteByte(v[i])
		}
	}
	return sb.String()
}

func c27needsEsc(v string) bool { return strings.ContainsAny(v, "\t\n") }

// c27tagFields returns every acceptable rendering of the tags field.
func c27tagFields(tags map[string]string) map[string]bool {
	var pairs []string
	for k, v := range tags {
		pairs = append(pairs, c27esc(k+"="+v))
	}
	sort.Strings(pairs)
	out := map[string]bool{}
	var rec func(rest []string, cur []string)
	rec = func(rest []string, cur []string) {
		if len(rest) == 0 {
			out[strings.Join(cur, ",")] = true
			return
		}
		for i := range rest {
			nr := append(append([]string{}, rest[:i]...), rest[i+1:]...)
			rec(nr, append(append([]string{}, cur...), rest[i]))
		}
	}
	rec(pairs, nil)
	return out
}

func c27payloadStdin(p []byte) []byte {
	if len(p) == 0 {
		return []byte{}
	}
	if p[len(p)-1] == '\n' {
		return p
	}
	return append(append([]byte{}, p...), '\n')
}

// ---------------------------------------------------------------------------
// observation of one script run

type c27box struct {
	dir string
}

func (b *c27box) p(n string) string { return filepath.Join(b.dir, n) }

// c27sep separates the environment block from the standard input in the dump
// (one cat process per run: process creation dominates the cost of a case).
const c27sep = "\x00@@verif-c27-end-of-environ@@\x00"

// dumpScript writes the shell's own environment block (/proc/$$/environ: the
// exact bytes passed to exec), the separator and all of standard input.
func (b *c27box) dumpScript() string {
	return fmt.Sprintf("cat /proc/$$/environ %s - > %s", b.p("sep"), b.p("dump"))
}

func (b *c27box) clear() {
	os.Remove(b.p("dump"))
	os.Remove(b.p("ran"))
}

type c27obs struct {
	ran    bool
	env    map[string]string
	dupKey string
	stdin  []byte
}

func (b *c27box) read() c27obs {
	var o c27obs
	all, err := os.ReadFile(b.p("dump"))
	if err != nil {
		return o
	}
	cut := bytes.Index(all, []byte(c27sep))
	if cut < 0 {
		return o
	}
	o.ran = true
	o.env = map[string]string{}
	o.stdin = append([]byte{}, all[cut+len(c27sep):]...)
	for _, kv := range strings.Split(string(all[:cut]), "\x00") {
		if kv == "" {
			continue
		}
		k, v := kv, ""
		if i := strings.Index(kv, "="); i >= 0 {
			k, v = kv[:i], kv[i+1:]
		}
		if _, dup := o.env[k]; dup {
			o.dupKey = k
		}
		o.env[k] = v
	}
	return o
}

func c27short(b []byte) string {
	if len(b) > 96 {
		return fmt.Sprintf("%q...(%d bytes)", b[:96], len(b))
	}
	return fmt.Sprintf("%q", b)
}

func c27describe(self serf.Member, e serf.Event) string {
	s := fmt.Sprintf("self{name=%q tags=%q} ", self.Name, self.Tags)
	switch t := e.(type) {
	case serf.MemberEvent:
		s += c27kind(e) + "["
		for _, m := range t.Members {
			s += fmt.Sprintf("{name=%q addr=%v tags=%q}", m.Name, m.Addr, m.Tags)
		}
		s += "]"
	case serf.UserEvent:
		s += fmt.Sprintf("user{name=%q ltime=%d payload=%s}", t.Name, uint64(t.LTime), c27short(t.Payload))
	case *serf.Query:
		s += fmt.Sprintf("query{name=%q ltime=%d payload=%s}", t.Name, uint64(t.LTime), c27short(t.Payload))
	}
	return s
}

// c27checkObs compares what the script saw with the documented contract.
func c27checkObs(self serf.Member, e serf.Event, o c27obs) (sig, msg string) {
	if !o.ran {
		return "invoke: script-not-run", "the handler script did not run"
	}
	want := func(k, v, sig string) (string, string) {
		got, ok := o.env[k]
		if !ok {
			return sig, fmt.Sprintf("%s is not set, want %q", k, v)
		}
		if got != v {
			return sig, fmt.Sprintf("%s=%q, want %q", k, got, v)
		}
		return "", ""
	}
	if s, m := want("SERF_EVENT", c27kind(e), "env: SERF_EVENT"); s != "" {
		return s, m
	}
	if s, m := want("SERF_SELF_NAME", self.Name, "env: SERF_SELF_NAME"); s != "" {
		return s, m
	}
	if s, m := want("SERF_SELF_ROLE", self.Tags["role"], "env: SERF_SELF_ROLE"); s != "" {
		return s, m
	}
	// tags
	accept := map[string]map[string]bool{}
	for k, v := range self.Tags {
		n := "SERF_TAG_" + c27sanitize(k)
		if accept[n] == nil {
			accept[n] = map[string]bool{}
		}
		accept[n][v] = true
	}
	var names []string
	for n := range accept {
		names = append(names, n)
	}
	sort.Strings(names)
	for _, n := range names {
		got, ok := o.env[n]
		if !ok {
			return "env: tag-variable-missing", fmt.Sprintf("%s is not set (tags %q)", n, self.Tags)
		}
		if !accept[n][got] {
			return "env: tag-variable-value", fmt.Sprintf("%s=%q, want one of %v (tags %q)", n, got, accept[n], self.Tags)
		}
	}
	var envKeys []string
	for k := range o.env {
		envKeys = append(envKeys, k)
	}
	sort.Strings(envKeys)
	for _, k := range envKeys {
		if strings.HasPrefix(k, "SERF_TAG_") && accept[k] == nil {
			return "env: tag-variable-unexpected", fmt.Sprintf("%s=%q is set but no tag sanitises to that name (tags %q)", k, o.env[k], self.Tags)
		}
	}
	switch t := e.(type) {
	case serf.UserEvent:
		if s, m := want("SERF_USER_EVENT", t.Name, "env: SERF_USER_EVENT"); s != "" {
			return s, m
		}
		if s, m := want("SERF_USER_LTIME", strconv.FormatUint(uint64(t.LTime), 10), "env: SERF_USER_LTIME"); s != "" {
			return s, m
		}
		if exp := c27payloadStdin(t.Payload); !bytes.Equal(exp, o.stdin) {
			return "stdin: user-payload", fmt.Sprintf("stdin is %s, want %s", c27short(o.stdin), c27short(exp))
		}
	case *serf.Query:
		if s, m := want("SERF_QUERY_NAME", t.Name, "env: SERF_QUERY_NAME"); s != "" {
			return s, m
		}
		if s, m := want("SERF_QUERY_LTIME", strconv.FormatUint(uint64(t.LTime), 10), "env: SERF_QUERY_LTIME"); s != "" {
			return s, m
		}
		if exp := c27payloadStdin(t.Payload); !bytes.Equal(exp, o.stdin) {
			return "stdin: query-payload", fmt.Sprintf("stdin is %s, want %s", c27short(o.stdin), c27short(exp))
		}
	case serf.MemberEvent:
		in := string(o.stdin)
		if len(t.Members) == 0 {
			if in != "" {
				return "stdin: member-line-count", fmt.Sprintf("no members but stdin is %q", in)
			}
			break
		}
		if !strings.HasSuffix(in, "\n") {
			return "stdin: member-line-count", fmt.Sprintf("stdin %q does not end in a newline", in)
		}
		lines := strings.Split(strings.TrimSuffix(in, "\n"), "\n")
		if len(lines) != len(t.Members) {
			return "stdin: member-line-count", fmt.Sprintf("%d members but %d lines: %q", len(t.Members), len(lines), in)
		}
		for i, m := range t.Members {
			f := strings.Split(lines[i], "\t")
			if len(f) != 4 {
				return "stdin: member-field-count", fmt.Sprintf("line %d %q has %d tab-separated fields, want 4", i, lines[i], len(f))
			}
			if f[0] != c27esc(m.Name) {
				return "stdin: member-name-field", fmt.Sprintf("line %d name field %q, want %q", i, f[0], c27esc(m.Name))
			}
			if f[1] != m.Addr.String() {
				return "stdin: member-address-field", fmt.Sprintf("line %d address field %q, want %q", i, f[1], m.Addr.String())
			}
			if f[2] != c27esc(m.Tags["role"]) {
				return "stdin: member-role-field", fmt.Sprintf("line %d role field %q, want %q", i, f[2], c27esc(m.Tags["role"]))
			}
			if !c27tagFields(m.Tags)[f[3]] {
				return "stdin: member-tags-field", fmt.Sprintf("line %d tags field %q is not the escaped k=v list of %q", i, f[3], m.Tags)
			}
		}
	}
	return "", ""
}

var c27logger = log.New(io.Discard, "", 0)

// c27maxBuf: "its last 8 KB" (the statement); invoke.go calls it maxBufSize
const c27maxBuf = 8 * 1024

// c27nulSig: a NUL byte in a value that is exported to the script's environment
// makes exec refuse to start the script.
const c27nulSig = "invoke: script-not-started(NUL byte in environment value)"

// c27invoke runs the real invokeEventScript outside the scheduler.
func c27invoke(script string, self serf.Member, e serf.Event) (err error, pan string) {
	defer func() {
		if r := recover(); r != nil {
			pan = fmt.Sprint(r)
		}
	}()
	return c27viaHandler(script, self, e), ""
}

// c27viaHandler runs one script for one event through the exported path the agent uses: a
// ScriptEventHandler with a single catch-all handler. (No accessor to the unexported
// invokeEventScript: a refactor of its signature must not make the check unbuildable.) The error
// is what the handler logs for a failed invocation.
func c27viaHandler(script string, self serf.Member, e serf.Event) error {
	var logbuf bytes.Buffer
	h := &agent.ScriptEventHandler{
		SelfFunc: func() serf.Member { return self },
		Scripts:  []agent.EventScript{{EventFilter: agent.EventFilter{Event: "*"}, Script: script}},
		Logger:   log.New(&logbuf, "", 0),
	}
	h.HandleEvent(e)
	if i := strings.Index(logbuf.String(), "Error invoking script"); i >= 0 {
		return fmt.Errorf("%s", strings.TrimSpace(logbuf.String()[i:]))
	}
	return nil
}

// ---------------------------------------------------------------------------

func c27run(ctx *vc.Ctx) {
	dir, err := os.MkdirTemp("", "verif-c27-")
	if err != nil {
		ctx.Fail("C27: %v", err)
		return
	}
	defer os.RemoveAll(dir)
	box := &c27box{dir: dir}
	if err := os.WriteFile(box.p("sep"), []byte(c27sep), 0600); err != nil {
		ctx.Fail("C27: %v", err)
		return
	}
	idx := 0
	c27filters(ctx)
	c27handle(ctx, box, &idx)
	c27invokeEnv(ctx, box, &idx)
	c27invokeMembers(ctx, box, &idx)
	c27invokePayload(ctx, box, &idx)
	c27queries(ctx, box, &idx)
	c27handlerSequences(ctx, &idx)
}

var c27evNames = []string{"deploy", "load", "", "user", "query", "deploy2", "Deploy", "member-join", "user:deploy"}

func c27filterEvents() []serf.Event {
	var evs []serf.Event
	for _, t := range c27memberTypes {
		evs = append(evs, serf.MemberEvent{Type: t, Members: []serf.Member{{Name: "m", Addr: net.IPv4(10, 0, 0, 9)}}})
	}
	for _, n := range c27evNames {
		evs = append(evs, serf.UserEvent{Name: n, LTime: 3, Payload: []byte("p")})
	}
	for _, n := range c27evNames {
		evs = append(evs, &serf.Query{Name: n, LTime: 4, Payload: []byte("p")})
	}
	return evs
}

var c27specs = []string{
	"", "*", "user", "user:deploy", "query:load", "member-join,member-leave", "user:", "bogus",
	"query", "query:", "member-join", "member-leave", "member-failed", "member-update", "member-reap",
	"member-failed,user:deploy,query", "user:deploy,user:load", "query:deploy", "user:load", "user:Deploy",
	"user:user", "user:query", "user:deploy2", "user:member-join", "member-join,*", "bogus,user",
	"member-join,member-leave,member-failed,member-update,member-reap",
}

func c27documented(el string) bool {
	switch el {
	case "*", "user", "query", "member-join", "member-leave", "member-failed", "member-update", "member-reap":
		return true
	}
	return (strings.HasPrefix(el, "user:") && len(el) > 5) || (strings.HasPrefix(el, "query:") && len(el) > 6)
}

func c27filters(ctx *vc.Ctx) {
	if ctx.Shard != 0 {
		return
	}
	scn := ctx.Scn("filter/parse+match", "cases")
	evs := c27filterEvents()
	scripts := []string{"foo.sh", "echo a=b >/dev/null"}
	for _, spec := range c27specs {
		for _, script := range scripts {
			type form struct {
				cfg   string
				hasEq bool
			}
			forms := []form{{spec + "=" + script, true}}
			if spec == "" && !strings.Contains(script, "=") {
				forms = append(forms, form{script, false})
			}
			for _, f := range forms {
				parsed := agent.ParseEventScript(f.cfg)
				for _, p := range parsed {
					if p.Script != script {
						ctx.Violation(scn.Name, "filter: script-text", fmt.Sprintf("handler %q parses to script %q, want %q", f.cfg, p.Script, script), f.cfg)
					}
				}
				allDoc := true
				if f.hasEq && spec != "" {
					for _, el := range strings.Split(spec, ",") {
						allDoc = allDoc && c27documented(el)
					}
				}
				if allDoc {
					for _, p := range parsed {
						if !p.Valid() {
							ctx.Violation(scn.Name, "filter: documented-filter-invalid", fmt.Sprintf("handler %q: parsed filter {%q,%q} is reported invalid", f.cfg, p.Event, p.Name), f.cfg)
						}
					}
				}
				for _, e := range evs {
					runs := 0
					for i := range parsed {
						if parsed[i].Invoke(e) {
							runs++
						}
					}
					w := c27want(spec, f.hasEq, e)
					out := "skip"
					if runs > 0 {
						out = "run"
					}
					if w == -1 {
						out = "open"
					} else if (w == 1) != (runs > 0) {
						sig := "filter: handler-not-run-for-matching-event"
						if w == 0 {
							sig = "filter: handler-run-for-non-matching-event"
						}
						ctx.Violation(scn.Name, sig, fmt.Sprintf("handler %q, event %s name %q: matching filters %d, documented: run=%v", f.cfg, c27kind(e), c27evName(e), runs, w == 1), f.cfg)
						out = "wrong"
					}
					scn.Case(out, f.hasEq && spec != "")
				}
			}
		}
	}
	scn.Sample("handler 'member-failed,user:deploy,query=foo.sh' runs for member-failed, user event 'deploy', every query; not for user event 'Deploy'")
}

// c27handle drives the real ScriptEventHandler with marker scripts.
func c27handle(ctx *vc.Ctx, box *c27box, idx *int) {
	scn := ctx.Scn("handle/exec-markers", "cases")
	self := serf.Member{Name: "self", Tags: map[string]string{"role": "r"}}
	evs := []serf.Event{}
	for _, t := range c27memberTypes {
		evs = append(evs, serf.MemberEvent{Type: t, Members: []serf.Member{{Name: "m", Addr: net.IPv4(10, 0, 0, 9)}}})
	}
	evs = append(evs, serf.UserEvent{Name: "deploy", LTime: 1}, serf.UserEvent{Name: "other", LTime: 2, Payload: []byte("x")},
		&serf.Query{Name: "load", LTime: 3}, &serf.Query{Name: "other", LTime: 4})
	groups := [][]string{
		{"", "*", "user"},
		{"user:deploy", "query:load", "member-join,member-leave"},
		{"user:", "bogus", "query"},
		{"member-failed,user:deploy,query", "member-reap", "member-update"},
	}
	// every handler of every group writes its own marker letter, so that a handler of a configuration
	// that is no longer in effect is recognised when it runs
	groups = append(groups, []string{}) // a configuration without handlers
	gidx := func(g []string) int {
		for i := range groups {
			if len(groups[i]) == len(g) && (len(g) == 0 || &groups[i][0] == &g[0]) {
				return i
			}
		}
		panic("c27: unknown handler group")
	}
	letter := func(g []string, i int) byte { return byte('A' + gidx(g)*4 + i) }
	mark := func(g []string, i int) string { return fmt.Sprintf("printf %c >> %s", letter(g, i), box.p("ran")) }
	// the scripts are produced the way the agent produces them at start-up and on a reload:
	// Config.EventScripts() over the configured "event_handlers" strings
	build := func(g []string) []agent.EventScript {
		cfgs := []string{}
		for i, spec := range g {
			cfg := spec + "=" + mark(g, i)
			if spec == "" {
				cfg = mark(g, i) // contains no '='
			}
			cfgs = append(cfgs, cfg)
		}
		return (&agent.Config{EventHandlers: cfgs}).EventScripts()
	}
	eval := func(g []string, h *agent.ScriptEventHandler, e serf.Event, label string) {
		box.clear()
		pan := ""
		func() {
			defer func() {
				if r := recover(); r != nil {
					pan = fmt.Sprint(r)
				}
			}()
			h.HandleEvent(e)
		}()
		if pan != "" {
			ctx.Violation(scn.Name, "handle: panic", fmt.Sprintf("%s handlers %q event %s %q: panic %s", label, g, c27kind(e), c27evName(e), pan), nil)
			scn.Case("panic", true)
			return
		}
		raw, _ := os.ReadFile(box.p("ran"))
		must, mustNot := 0, 0
		out := "ok"
		for i, spec := range g {
			w := c27want(spec, spec != "", e)
			ran := bytes.IndexByte(raw, letter(g, i)) >= 0
			if w == 1 {
				must++
			}
			if w == 0 {
				mustNot++
			}
			if w != -1 && (w == 1) != ran {
				sig := "handle: handler-not-run-for-matching-event"
				if w == 0 {
					sig = "handle: handler-run-for-non-matching-event"
				}
				ctx.Violation(scn.Name, sig, fmt.Sprintf("%s handlers %q, event %s name %q: handler #%d (%q) ran=%v, documented run=%v (markers %q)", label, g, c27kind(e), c27evName(e), i, spec, ran, w == 1, raw), nil)
				out = "wrong"
			}
		}
		for _, c := range raw {
			own := false
			for i := range g {
				if c == letter(g, i) {
					own = true
				}
			}
			if !own {
				ctx.Violation(scn.Name, "handle: handler of a configuration that is not in effect ran", fmt.Sprintf("%s handlers in effect %q, event %s name %q: markers %q contain %q, which no handler in effect writes", label, g, c27kind(e), c27evName(e), raw, string(c)), nil)
				out = "wrong"
				break
			}
		}
		if out == "ok" {
			out = fmt.Sprintf("ran=%s", raw)
		}
		scn.Case(out, (must > 0 && mustNot > 0) || len(g) == 0)
	}
	for gi, g := range groups {
		for ei, e := range evs {
			*idx++
			if !ctx.Mine(*idx) {
				continue
			}
			h := &agent.ScriptEventHandler{SelfFunc: func() serf.Member { return self }, Scripts: build(g), Logger: c27logger}
			eval(g, h, e, "configured")
			if !ctx.Thorough() && (gi+ei)%3 != 0 {
				continue // quick: the reload for a third of the cases
			}
			// reload: the handlers of the next group replace the configured ones
			g2 := groups[(gi+1)%len(groups)]
			h.UpdateScripts(build(g2))
			eval(g2, h, e, "reloaded")
		}
	}
	scn.Sample("handlers ['user:deploy' 'query:load' 'member-join,member-leave'] + user event 'deploy' -> only marker A written")

	// reload histories: every sequence of reloads (to any of three handler sets, also back to the
	// one in use) and events; at each event exactly the handlers of the latest configuration run
	hscn := ctx.Scn("handle/reload-histories", "cases")
	depth := 3
	if ctx.Thorough() {
		depth = 4
	}
	ev := serf.Event(serf.UserEvent{Name: "deploy", LTime: 1})
	letters := []int{0, 1, 3, 4, -1} // reload to groups[0|1|3], to the empty configuration groups[4], or -1 = an event
	var rec func(hist []int)
	rec = func(hist []int) {
		if len(hist) > 0 && hist[len(hist)-1] == -1 {
			*idx++
			if ctx.Mine(*idx) {
				cur := groups[1]
				h := &agent.ScriptEventHandler{SelfFunc: func() serf.Member { return self }, Scripts: build(cur), Logger: c27logger}
				label := "start=1"
				saved := scn
				scn = hscn
				for _, l := range hist {
					if l >= 0 {
						cur = groups[l]
						h.UpdateScripts(build(cur))
						label += fmt.Sprintf(" reload(%d)", l)
						continue
					}
					label += " event"
					eval(cur, h, ev, "history ["+label+"]:")
				}
				scn = saved
			}
		}
		if len(hist) == depth {
			return
		}
		for _, l := range letters {
			rec(append(append([]int{}, hist...), l))
		}
	}
	rec(nil)
}

// ---------------------------------------------------------------------------
// invocation: environment

func c27selfNames(thorough bool) []string {
	n := []string{"node1", "n\tode=x", "näme\nline", ""}
	if thorough {
		n = append(n, "a b", "=", "x,y", "ТЕСТ", strings.Repeat("n", 300))
	}
	return n
}

func c27selfTags(thorough bool) []map[string]string {
	t := []map[string]string{
		{},
		{"role": "web"},
		{"role": "we\tb\n", "dc-1": "east"},
		{"a-b": "1", "a_b": "2"},
		{"é": "x", "1st": "v=1,2", " sp ace": ""},
		{"role": "", "ROLE": "up"},
		{"": "empty-name", "k=v": "a=b", "tab\tname": "line1\nline2"},
	}
	if thorough {
		t = append(t,
			map[string]string{"ı": "dotless", "ß": "sharp", "ǆ": "digraph"},
			map[string]string{"a.b": "1", "a/b": "2", "A b": "3"},
			map[string]string{"role": strings.Repeat("r", 200), "x": strings.Repeat("\n", 5)},
			map[string]string{"path": "$HOME `id` $(id) ; \" ' \\"},
			map[string]string{"日本": "語", "emoji😀": "😀", "_": "_", "9": "9"},
		)
	}
	return t
}

func c27tagsNontrivial(tags map[string]string) bool {
	for k, v := range tags {
		if c27sanitize(k) != k || c27needsEsc(v) {
			return true
		}
	}
	return false
}

func c27invokeEnv(ctx *vc.Ctx, box *c27box, idx *int) {
	scn := ctx.Scn("invoke/self-x-event", "cases")
	m1 := serf.Member{Name: "web1", Addr: net.IPv4(10, 0, 0, 7), Tags: map[string]string{"role": "web"}}
	m2 := serf.Member{Name: "db\t1", Addr: net.ParseIP("2001:db8::1"), Tags: map[string]string{"role": "d\nb", "k": "v"}}
	evs := []serf.Event{
		serf.MemberEvent{Type: serf.EventMemberJoin, Members: []serf.Member{m1}},
		serf.MemberEvent{Type: serf.EventMemberFailed, Members: []serf.Member{m2, m1}},
		serf.UserEvent{Name: "deploy", LTime: 1, Payload: []byte("x")},
		serf.UserEvent{Name: "na me=\n\t", LTime: serf.LamportTime(^uint64(0)), Payload: nil},
		&serf.Query{Name: "q=1\n", LTime: 77, Payload: []byte("in\n")},
	}
	for ni, name := range c27selfNames(ctx.Thorough()) {
		for ti, tags := range c27selfTags(ctx.Thorough()) {
			for ei, e := range evs {
				if !ctx.Thorough() && ei != (ni+ti)%len(evs) && ei != (ni+ti+2)%len(evs) {
					continue // quick: two of the five events per (name, tags) pair, rotating
				}
				*idx++
				if !ctx.Mine(*idx) {
					continue
				}
				self := serf.Member{Name: name, Addr: net.IPv4(10, 0, 0, 1), Tags: tags}
				c27one(ctx, scn, box, self, e, c27tagsNontrivial(tags) || c27needsEsc(name))
			}
		}
	}
	scn.Sample(`self tags {"a-b":"1","dc-1":"east"} -> SERF_TAG_A_B=1 SERF_TAG_DC_1=east; SERF_SELF_ROLE=""`)
	// NUL bytes: an environment cannot carry them, so the values are left open;
	// what the statement still demands is that the matching handler runs.
	nul := ctx.Scn("invoke/nul-bytes", "cases")
	type nc struct {
		what string
		self serf.Member
		ev   serf.Event
	}
	for _, c := range []nc{
		{"tag value", serf.Member{Name: "n", Tags: map[string]string{"k": "a\x00b"}}, evs[0]},
		{"tag value", serf.Member{Name: "n", Tags: map[string]string{"role": "\x00"}}, evs[2]},
		{"tag name", serf.Member{Name: "n", Tags: map[string]string{"k\x00": "v"}}, evs[2]},
		{"user event name", serf.Member{Name: "n", Tags: map[string]string{}}, serf.UserEvent{Name: "a\x00b", LTime: 5}},
	} {
		*idx++
		if !ctx.Mine(*idx) {
			continue
		}
		box.clear()
		err, pan := c27invoke(box.dumpScript(), c.self, c.ev)
		o := box.read()
		switch {
		case pan != "":
			ctx.Violation(nul.Name, "invoke: panic", fmt.Sprintf("%s: panic %s", c27describe(c.self, c.ev), pan), nil)
			nul.Case("panic", true)
		case !o.ran:
			ctx.Violation(nul.Name, c27nulSig, fmt.Sprintf("%s: NUL byte in the %s: the handler script was not started (%v), so no configured handler runs for this event", c27describe(c.self, c.ev), c.what, err), nil)
			nul.Case("not-started", true)
		default:
			nul.Case("ran", true)
		}
	}
}

// c27one executes the dump script (no output, so no query response is attempted).
func c27one(ctx *vc.Ctx, scn *vc.Scenario, box *c27box, self serf.Member, e serf.Event, nontrivial bool) {
	box.clear()
	err, pan := c27invoke(box.dumpScript(), self, e)
	if pan != "" {
		ctx.Violation(scn.Name, "invoke: panic", fmt.Sprintf("%s: panic %s", c27describe(self, e), pan), nil)
		scn.Case("panic", nontrivial)
		return
	}
	if err != nil {
		ctx.Violation(scn.Name, "invoke: script-error", fmt.Sprintf("%s: the dump script failed: %v", c27describe(self, e), err), nil)
		scn.Case("error", nontrivial)
		return
	}
	o := box.read()
	sig, msg := c27checkObs(self, e, o)
	if sig != "" {
		ctx.Violation(scn.Name, sig, c27describe(self, e)+": "+msg, nil)
		scn.Case(sig, nontrivial)
		return
	}
	h := 0
	for _, c := range o.stdin {
		h = (h*31 + int(c)) & 0xffff
	}
	scn.Case(fmt.Sprintf("%s/in%d/%04x", c27kind(e), len(o.stdin), h), nontrivial)
}

// ---------------------------------------------------------------------------
// invocation: member lists

func c27memberPool(thorough bool) []serf.Member {
	p := []serf.Member{
		{Name: "web1", Addr: net.IPv4(127, 0, 0, 1), Tags: map[string]string{"role": "web", "datacenter": "east"}},
		{Name: "a\tb", Addr: net.ParseIP("::1"), Tags: map[string]string{"role": "w\tx\ny", "k": "v"}},
		{Name: "line\nbreak\n", Addr: net.IPv4(10, 1, 2, 3).To4(), Tags: map[string]string{"k\tey": "va\nl", "a": "b", "c": "d,e=f"}},
		{Name: "", Addr: nil, Tags: nil},
		{Name: `lit\tback\\slash`, Addr: net.ParseIP("2001:db8::1"), Tags: map[string]string{"role": ""}},
		{Name: "ü ni\rcode", Addr: net.IPv4(255, 255, 255, 255), Tags: map[string]string{"role": "\t", "\n": "\n"}},
	}
	if thorough {
		p = append(p,
			serf.Member{Name: "\t\t", Addr: net.IPv4(0, 0, 0, 0), Tags: map[string]string{"": ""}},
			serf.Member{Name: "n", Addr: net.ParseIP("fe80::1"), Tags: map[string]string{"role": "r,s=t", "x": "\t\n\t"}},
		)
	}
	return p
}

func c27memberNontrivial(ms []serf.Member) bool {
	if len(ms) > 1 {
		return true
	}
	for _, m := range ms {
		if c27needsEsc(m.Name) {
			return true
		}
		for k, v := range m.Tags {
			if c27needsEsc(k) || c27needsEsc(v) {
				return true
			}
		}
	}
	return false
}

func c27invokeMembers(ctx *vc.Ctx, box *c27box, idx *int) {
	scn := ctx.Scn("invoke/member-lists", "cases")
	pool := c27memberPool(ctx.Thorough())
	self := serf.Member{Name: "self", Addr: net.IPv4(10, 0, 0, 1), Tags: map[string]string{"role": "lb"}}
	var lists [][]serf.Member
	lists = append(lists, nil)
	for _, a := range pool {
		lists = append(lists, []serf.Member{a})
	}
	for i, a := range pool {
		for j, b := range pool {
			if !ctx.Thorough() && j != (i+1)%len(pool) && !(i == 2 && j == 2) {
				continue // quick: a cycle of pairs plus one repeated member
			}
			lists = append(lists, []serf.Member{a, b})
		}
	}
	if ctx.Thorough() {
		for _, a := range pool[:5] {
			for _, b := range pool[:5] {
				for _, c := range pool[:5] {
					lists = append(lists, []serf.Member{a, b, c})
				}
			}
		}
	}
	for ti, t := range c27memberTypes {
		for _, l := range lists {
			if !ctx.Thorough() && ti > 0 && len(l) != 1 {
				continue // quick: lists of other lengths only for member-join
			}
			*idx++
			if !ctx.Mine(*idx) {
				continue
			}
			c27one(ctx, scn, box, self, serf.MemberEvent{Type: t, Members: l}, c27memberNontrivial(l))
		}
	}
	scn.Sample(`member-join [{name "a\tb" addr ::1 tags role="w\tx\ny",k=v}] -> stdin "a\\tb\t::1\tw\\tx\\ny\t<role=w\\tx\\ny,k=v in any order>\n"`)
}

// ---------------------------------------------------------------------------
// invocation: payloads

func c27payloads(thorough bool) [][]byte {
	big := bytes.Repeat([]byte("0123456789abcde\n"), 576) // 9 KiB, ends in newline
	p := [][]byte{
		nil, {}, []byte("x"), []byte("x\n"), []byte("\n"), []byte("a\nb"), []byte("a\tb\n\n"),
		{0, 255, 10, 0}, {0xff, 0xfe}, []byte("no newline at end \\n"), big, big[:len(big)-1],
	}
	if thorough {
		p = append(p, []byte("\n\n"), []byte("\r"), []byte("x\r\n"), bytes.Repeat([]byte{'z'}, 511), bytes.Repeat([]byte{'\n'}, 512), []byte("日本語"), []byte(" "))
	}
	return p
}

func c27invokePayload(ctx *vc.Ctx, box *c27box, idx *int) {
	scn := ctx.Scn("invoke/user-payloads", "cases")
	self := serf.Member{Name: "self", Addr: net.IPv4(10, 0, 0, 1), Tags: map[string]string{"role": "lb", "dc": "x"}}
	names := []string{"deploy", "", "a b=c\n\t"}
	lts := []uint64{42}
	if ctx.Thorough() {
		names = append(names, "user:deploy", "ü", strings.Repeat("e", 200))
		lts = []uint64{0, 1, 42, ^uint64(0)}
	}
	for ni, n := range names {
		for pi, p := range c27payloads(ctx.Thorough()) {
			for _, lt := range lts {
				if !ctx.Thorough() && ni > 0 && pi%3 != ni-1 {
					continue // quick: every payload with the first name, a third with each other name
				}
				*idx++
				if !ctx.Mine(*idx) {
					continue
				}
				var pl []byte
				if p != nil {
					pl = append(make([]byte, 0, len(p)+8), p...) // spare capacity, as a decoded message would have
				}
				c27one(ctx, scn, box, self, serf.UserEvent{Name: n, LTime: serf.LamportTime(lt), Payload: pl}, len(p) > 0)
			}
		}
	}
	scn.Sample(`user event "deploy" ltime 42 payload "a\nb" -> SERF_USER_EVENT=deploy SERF_USER_LTIME=42 stdin "a\nb\n"; payload "x\n" -> stdin "x\n"`)
}

// ---------------------------------------------------------------------------
// queries: real *serf.Query on a real node, response read off the transport

type c27qcase struct {
	limit   int
	outLen  int
	exit    int
	stream  string // out | err | both
	name    string
	payload []byte
	tags    map[string]string
}

func c27out(n int) []byte {
	b := make([]byte, n)
	for i := range b {
		b[i] = byte(40 + (i*7+i/251)%83) // printable, no quote characters
		switch {
		case i%17 == 16:
			b[i] = '\n'
		case i%23 == 22:
			b[i] = ' '
		}
	}
	if n > 0 && n%2 == 0 {
		b[n-1] = '\n' // half of the outputs end in a newline, like most commands
	}
	if n > 2 {
		b[0] = '\t'
	}
	return b
}

func c27respLen(node string, lt uint64, id uint32, payload []byte) int {
	return len(serf.VEncode(serf.VMsgQueryResponse, &serf.VMessageQueryResponse{LTime: serf.LamportTime(lt), ID: id, From: node, Payload: payload}))
}

func c27last(b []byte, n int) []byte {
	if len(b) > n {
		return b[len(b)-n:]
	}
	return b
}

const (
	c27node  = "self-node"
	c27qLT   = 12
	c27qID   = 4242
	c27qSrc  = "asker"
	c27qPort = 7946
)

func c27queries(ctx *vc.Ctx, box *c27box, idx *int) {
	scn := ctx.Scn("query/response", "cases")
	// largest output that still fits the default limit
	fit := 0
	for n := 1; n <= 1024; n++ {
		if c27respLen(c27node, c27qLT, c27qID, c27out(n)) <= 1024 {
			fit = n
		}
	}
	if fit < 900 || fit >= 1024 {
		ctx.Fail("C27: cannot determine the response boundary (%d)", fit)
		return
	}
	var cases []c27qcase
	add := func(limit int, sizes []int, exits []int, streams []string) {
		for _, n := range sizes {
			for _, ex := range exits {
				for _, st := range streams {
					if st == "both" && n < 4 {
						continue
					}
					if !ctx.Thorough() && ex != 0 && st != "out" {
						continue // quick: failing scripts only with output on stdout
					}
					cases = append(cases, c27qcase{limit: limit, outLen: n, exit: ex, stream: st, name: "load", payload: []byte("in"), tags: map[string]string{"role": "web"}})
				}
			}
		}
	}
	exits := []int{0, 1}
	streams := []string{"out", "err"}
	if ctx.Thorough() {
		exits = []int{0, 1, 3}
		streams = []string{"out", "err", "both"}
	}
	add(1024, []int{0, 1, 2, fit - 1, fit, fit + 1, 1024, 8193}, exits, streams)
	add(20000, []int{8191, 8192, 8193, 12000, 20000}, exits, streams)
	add(8200, []int{8100, 8192, 8193}, []int{0}, []string{"out"})
	if !ctx.Thorough() {
		add(1024, []int{5, fit}, []int{0}, []string{"both"})
	}
	// query names / payloads / self tags with a small successful answer
	for _, nm := range []string{"", "q n=\n\t"} {
		for _, p := range [][]byte{nil, []byte("x"), []byte("x\n"), bytes.Repeat([]byte("p"), 600)} {
			cases = append(cases, c27qcase{limit: 1024, outLen: 5, exit: 0, stream: "out", name: nm, payload: p, tags: map[string]string{"a-b": "1", "role": "r\tx"}})
		}
	}
	for _, c := range cases {
		*idx++
		if !ctx.Mine(*idx) {
			continue
		}
		c27query(ctx, scn, box, c)
	}
	scn.Sample(fmt.Sprintf("limit 1024: output of %d bytes, exit 0 -> response with those bytes; %d bytes -> no response; limit 20000: 12000 bytes -> response with the last 8192 bytes; exit 1 -> no response", fit, fit+1))
}

func c27query(ctx *vc.Ctx, scn *vc.Scenario, box *c27box, c c27qcase) {
	box.clear()
	out := c27out(c.outLen)
	var emit string // shell built-ins only
	switch c.stream {
	case "out":
		emit = fmt.Sprintf("printf %%s '%s'", out)
	case "err":
		emit = fmt.Sprintf("printf %%s '%s' >&2", out)
	case "both":
		emit = fmt.Sprintf("printf %%s '%s'; printf %%s '%s' >&2", out[:3], out[3:])
	}
	script := fmt.Sprintf("%s; %s; exit %d", box.dumpScript(), emit, c.exit)
	desc := fmt.Sprintf("query{name=%q payload=%s} response-limit=%d script output=%d bytes on %s, exit %d", c.name, c27short(c.payload), c.limit, c.outLen, c.stream, c.exit)

	var q *serf.Query
	var self serf.Member
	var sent []world.Packet
	var ierr error
	var setupErr string
	x := vsched.Run(vsched.RunOpts{MaxSteps: 2000000, Prefix: []int{1}}, func() {
		vsched.Branching(false)
		n, err := world.NewNode(c27node, 0, func(cf *serf.Config) {
			cf.QueryResponseSizeLimit = c.limit
			cf.Tags = c.tags
		})
		if err != nil {
			setupErr = err.Error()
			return
		}
		defer n.S.Shutdown()
		n.Delegate().NotifyMsg(serf.VEncode(serf.VMsgQuery, &serf.VMessageQuery{
			LTime: c27qLT, ID: c27qID, Addr: []byte(world.NodeIP(3).To4()), Port: c27qPort, SourceNode: c27qSrc,
			Timeout: 10 * time.Second, Name: c.name, Payload: c.payload,
		}))
		vsched.Quiesce()
		for _, e := range n.DrainEvents() {
			if qq, ok := e.(*serf.Query); ok {
				q = qq
			}
		}
		if q == nil {
			setupErr = "the node did not deliver the query"
			return
		}
		n.Tr.TakeSent()
		self = n.S.LocalMember()
		// The stdin writer is a goroutine; under the scheduler it only runs when
		// the invoking thread yields, so make the statements of invokeEventScript
		// scheduling points and take the writer at the first one after the `go`.
		vsched.StepsIn("agent.invokeEventScript", "agent.(*ScriptEventHandler).HandleEvent")
		vsched.Branching(true)
		ierr = c27viaHandler(script, self, q)
		vsched.Branching(false)
		vsched.Quiesce()
		sent = n.Tr.TakeSent()
	})
	nontrivial := c.outLen > 0
	if setupErr != "" {
		ctx.Fail("C27 query set-up: %s", setupErr)
		return
	}
	if len(x.Panics) > 0 {
		ctx.Violation(scn.Name, "query: panic "+x.Panics[0].Frame, desc+": "+x.Panics[0].Value, nil)
		scn.Case("panic", nontrivial)
		return
	}
	if !x.RootDone {
		ctx.Violation(scn.Name, "query: stuck", fmt.Sprintf("%s: blocked %+v", desc, x.Blocked), nil)
		scn.Case("stuck", nontrivial)
		return
	}
	if (c.exit != 0) != (ierr != nil) {
		ctx.Violation(scn.Name, "query: script-status", fmt.Sprintf("%s: invokeEventScript returned error %v", desc, ierr), nil)
		scn.Case("status", nontrivial)
		return
	}
	o := box.read()
	if sig, msg := c27checkObs(self, q, o); sig != "" {
		ctx.Violation(scn.Name, sig, fmt.Sprintf("self{name=%q tags=%q} %s: %s", self.Name, self.Tags, desc, msg), nil)
		scn.Case(sig, nontrivial)
		return
	}
	var resps []serf.VMessageQueryResponse
	var tos []string
	for _, p := range sent {
		if len(p.User) > 0 && p.User[0] == serf.VMsgQueryResponse {
			var r serf.VMessageQueryResponse
			if err := serf.VDecode(p.User[1:], &r); err != nil {
				ctx.Violation(scn.Name, "query: response-undecodable", fmt.Sprintf("%s: %v", desc, err), nil)
				scn.Case("undecodable", nontrivial)
				return
			}
			resps = append(resps, r)
			tos = append(tos, p.To)
		}
	}
	keep := c27last(out, c27maxBuf)
	fits := c27respLen(c27node, c27qLT, c27qID, keep) <= c.limit
	expect := c.exit == 0 && len(out) > 0 && fits
	outcome := "no-response"
	switch {
	case !expect && len(resps) > 0:
		why := "too-large"
		if c.exit != 0 {
			why = "failed-script"
		} else if len(out) == 0 {
			why = "no-output"
		}
		ctx.Violation(scn.Name, "query: response-unexpected("+why+")", fmt.Sprintf("%s: a response with %d payload bytes was sent", desc, len(resps[0].Payload)), nil)
		outcome = "unexpected"
	case expect && len(resps) != 1:
		ctx.Violation(scn.Name, "query: response-missing", fmt.Sprintf("%s: %d responses sent, want 1 with the last %d bytes of the output", desc, len(resps), len(keep)), nil)
		outcome = "missing"
	case expect:
		r := resps[0]
		wantTo := c27qSrc + "/" + (&net.UDPAddr{IP: world.NodeIP(3).To4(), Port: c27qPort}).String()
		switch {
		case !bytes.Equal(r.Payload, keep):
			ctx.Violation(scn.Name, "query: response-payload", fmt.Sprintf("%s: response payload %s, want the last %d bytes of the output %s", desc, c27short(r.Payload), len(keep), c27short(keep)), nil)
			outcome = "payload"
		case uint64(r.LTime) != c27qLT || r.ID != c27qID || r.From != c27node || tos[0] != wantTo:
			ctx.Violation(scn.Name, "query: response-header", fmt.Sprintf("%s: response {ltime %d id %d from %q} to %q, want {%d %d %q} to %q", desc, r.LTime, r.ID, r.From, tos[0], c27qLT, c27qID, c27node, wantTo), nil)
			outcome = "header"
		default:
			outcome = fmt.Sprintf("response/%d", len(r.Payload))
			if len(out) > len(keep) {
				outcome += "/truncated"
			}
		}
	default:
		if c.exit != 0 {
			outcome += "/exit"
		} else if len(out) == 0 {
			outcome += "/empty"
		} else {
			outcome += "/too-large"
		}
	}
	scn.Case(outcome, nontrivial)
}
