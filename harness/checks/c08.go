package checks

import (
	"bytes"
	"fmt"
	"regexp"
	"runtime"
	"sort"
	"strings"
	"time"

	"verifharness/vc"
	"verifharness/world"

	"github.com/hashicorp/serf/serf"
	"github.com/hashicorp/serf/zzverif/vsched"
)

// C08: Queries reach exactly the nodes their filters select.

const (
	c08self   = "a"
	c08origin = "b"
)

// c08filter is one wire filter together with its reference reading.
type c08filter struct {
	desc  string
	raw   []byte
	kind  string // node | tag | malformed
	nodes []string
	tag   string
	expr  string
}

// selects is the reference model of one filter: node name in the list / pattern
// matches the tag value (missing tag = ""), anything invalid excludes.
func (f c08filter) selects(self string, tags map[string]string) (ok bool, why string) {
	switch f.kind {
	case "node":
		for _, n := range f.nodes {
			if n == self {
				return true, ""
			}
		}
		return false, "node-filter"
	case "tag":
		m, err := regexp.MatchString(f.expr, tags[f.tag])
		if err != nil {
			return false, "invalid-pattern"
		}
		if !m {
			return false, "tag-filter"
		}
		return true, ""
	}
	return false, "malformed-filter"
}

func c08nodeFilter(names ...string) c08filter {
	if names == nil {
		names = []string{}
	}
	return c08filter{desc: fmt.Sprintf("nodes%q", names), raw: serf.VEncodeFilter(serf.VFilterNodeType, names), kind: "node", nodes: names}
}

func c08tagFilter(tag, expr string) c08filter {
	return c08filter{desc: fmt.Sprintf("tag(%s~%q)", tag, expr), raw: serf.VEncodeFilter(serf.VFilterTagType, &serf.VFilterTag{Tag: tag, Expr: expr}), kind: "tag", tag: tag, expr: expr}
}

func c08malformed(desc string, raw []byte) c08filter {
	return c08filter{desc: desc + fmt.Sprintf("[%x]", raw), raw: raw, kind: "malformed"}
}

func c08alphabet(reduced bool) []c08filter {
	var fs []c08filter
	fs = append(fs,
		c08nodeFilter(c08self),
		c08nodeFilter("b"),
		c08nodeFilter("b", c08self),
		c08nodeFilter("b", "c"),
	)
	if !reduced {
		fs = append(fs,
			c08nodeFilter(""),
			c08nodeFilter(),
			c08nodeFilter("A"),
			c08nodeFilter("ab"),
		)
	}
	type te struct{ tag, expr string }
	tes := []te{{"role", "web"}, {"role", "^web$"}, {"role", "("}, {"dc", "^$"}, {"zone", "."}}
	if !reduced {
		tes = []te{
			{"role", ""}, {"role", "web"}, {"role", "^web$"}, {"role", "w.b"}, {"role", "a|b"}, {"role", "("}, {"role", "["}, {"role", `\d+`}, {"role", "^$"}, {"role", "(?i)WEB"},
			{"dc", ""}, {"dc", "web"}, {"dc", "^$"}, {"dc", `\d+`}, {"dc", "east|west"}, {"dc", "("},
			{"zone", ""}, {"zone", "^$"}, {"zone", "web"}, {"zone", "."}, {"zone", "["},
		}
	}
	for _, t := range tes {
		fs = append(fs, c08tagFilter(t.tag, t.expr))
	}
	okNode := serf.VEncodeFilter(serf.VFilterNodeType, []string{"b", c08self})
	okTag := serf.VEncodeFilter(serf.VFilterTagType, &serf.VFilterTag{Tag: "role", Expr: ""})
	fs = append(fs,
		c08malformed("node-type-byte-only", []byte{serf.VFilterNodeType}),
		c08malformed("unknown-type-2+node-list", append([]byte{2}, okNode[1:]...)),
		c08malformed("node-list-truncated", okNode[:len(okNode)-1]),
	)
	if !reduced {
		fs = append(fs,
			c08malformed("tag-type-byte-only", []byte{serf.VFilterTagType}),
			c08malformed("node-type+garbage", []byte{serf.VFilterNodeType, 0xc1}),
			c08malformed("tag-type+garbage", []byte{serf.VFilterTagType, 0xc1, 0xc1}),
			c08malformed("unknown-type-255+tag", append([]byte{255}, okTag[1:]...)),
			c08malformed("node-list-short(2 announced, own name present)", []byte{serf.VFilterNodeType, 0x92, 0xa1, 'a'}),
			c08malformed("tag-truncated", okTag[:len(okTag)-3]),
		)
	}
	return fs
}

var c08tagMaps = []map[string]string{
	{},
	{"role": "web"},
	{"role": "web", "dc": "east1"},
	{"role": ""},
	{"role": "webserver", "dc": "web"},
	{"role": "a", "dc": "7"},
}

type c08name struct {
	name     string
	internal bool
}

func c08names() []c08name {
	return []c08name{
		{"q", false},
		{serf.VInternalQueryName("ping"), true},
		{"_serf_x", true},
		{"_serf_", true},
		{"_serfx", false},
		{"serf_", false},
		{"_SERF_ping", false},
		{serf.VInternalQueryName("conflict"), true},
		{serf.VInternalQueryName("list-keys"), true},
	}
}

// c08query is one query as put on the wire.
type c08query struct {
	ltime   uint64
	id      uint32
	name    c08name
	ack     bool
	nobcast bool
	filters []c08filter
}

func (q c08query) String() string {
	var fs []string
	for _, f := range q.filters {
		fs = append(fs, f.desc)
	}
	return fmt.Sprintf("query(ltime=%d id=%d name=%q ack=%v no-broadcast=%v filters=[%s])", q.ltime, q.id, q.name.name, q.ack, q.nobcast, strings.Join(fs, " "))
}

func (q c08query) wire() []byte {
	m := serf.VMessageQuery{LTime: serf.LamportTime(q.ltime), ID: q.id, Addr: world.NodeIP(1), Port: 7946, SourceNode: c08origin,
		Timeout: 10 * time.Second, Name: q.name.name, Payload: []byte("b")}
	for _, f := range q.filters {
		m.Filters = append(m.Filters, f.raw)
	}
	if q.ack {
		m.Flags |= serf.VQueryFlagAck
	}
	if q.nobcast {
		m.Flags |= serf.VQueryFlagNoBroadcast
	}
	return serf.VEncode(serf.VMsgQuery, &m)
}

// selected evaluates the reference over all filters; why names the class of the first excluding filter.
func (q c08query) selected(tags map[string]string) (bool, string) {
	for _, f := range q.filters {
		if ok, why := f.selects(c08self, tags); !ok {
			return false, why
		}
	}
	return true, ""
}

// c08obs is what one delivery made observable.
type c08obs struct {
	delivered int // the query itself handed to the application
	internal  []string
	foreign   []string
	acks      int
	badAck    string
	rebcast   int
	badRebc   string
}

func c08observe(n *world.Node, q c08query, wire []byte) c08obs {
	var o c08obs
	for _, e := range n.DrainEvents() {
		g, ok := e.(*serf.Query)
		if !ok {
			continue
		}
		if strings.HasPrefix(g.Name, serf.InternalQueryPrefix) {
			o.internal = append(o.internal, g.Name)
		}
		if uint64(g.LTime) == q.ltime && g.Name == q.name.name && string(g.Payload) == "b" && serf.VQueryID(g) == q.id {
			o.delivered++
		} else {
			o.foreign = append(o.foreign, world.DescribeEvent(e))
		}
	}
	wantTo := c08origin + "/" + fmt.Sprintf("%s:%d", world.NodeIP(1), 7946)
	for _, p := range n.Tr.TakeSent() {
		u := p.User
		if len(u) < 1 || u[0] != serf.VMsgQueryResponse {
			continue
		}
		var r serf.VMessageQueryResponse
		if serf.VDecode(u[1:], &r) != nil || r.Flags&serf.VQueryFlagAck == 0 {
			continue // replies of serf's own internal-query handlers are not acknowledgements
		}
		o.acks++
		if p.To != wantTo || uint64(r.LTime) != q.ltime || r.ID != q.id || r.From != c08self {
			o.badAck = fmt.Sprintf("ack to %q with ltime=%d id=%d from=%q, want to %q ltime=%d id=%d from=%q", p.To, r.LTime, r.ID, r.From, wantTo, q.ltime, q.id, c08self)
		}
	}
	for _, b := range n.Outbox() {
		if len(b) < 1 || b[0] != serf.VMsgQuery {
			continue
		}
		o.rebcast++
		if !bytes.Equal(b, wire) {
			o.badRebc = fmt.Sprintf("queued %x, received %x", b, wire)
		}
	}
	return o
}

type c08verdict struct{ sig, msg string }

// c08judge compares one delivery with the reference. first = first sight of (ltime,id).
func c08judge(q c08query, tags map[string]string, first bool, o c08obs) *c08verdict {
	sel, why := q.selected(tags)
	ctxs := fmt.Sprintf("node %q tags %v, %v", c08self, c08sortedTags(tags), q)
	if len(o.internal) > 0 {
		return &c08verdict{"internal-query-handed-to-application", fmt.Sprintf("%s: the application received queries named %q, which carry the internal prefix %q", ctxs, o.internal, serf.InternalQueryPrefix)}
	}
	if len(o.foreign) > 0 {
		return &c08verdict{"application-received-a-different-query", fmt.Sprintf("%s: the application received %v", ctxs, o.foreign)}
	}
	if !first {
		switch {
		case o.delivered > 0:
			return &c08verdict{"repeat: delivered again", fmt.Sprintf("%s: second arrival of the same query was handed to the application again", ctxs)}
		case o.acks > 0:
			return &c08verdict{"repeat: acknowledged again", fmt.Sprintf("%s: second arrival of the same query was acknowledged again", ctxs)}
		case o.rebcast > 0:
			return &c08verdict{"repeat: re-broadcast again", fmt.Sprintf("%s: second arrival of the same query was queued for re-broadcast again", ctxs)}
		}
		return nil
	}
	wantDeliver := 0
	if sel && !q.name.internal {
		wantDeliver = 1
	}
	switch {
	case o.delivered > 1:
		return &c08verdict{"delivered-more-than-once", fmt.Sprintf("%s: handed to the application %d times", ctxs, o.delivered)}
	case o.delivered == 1 && !sel:
		return &c08verdict{"delivered-although-excluded by " + why, fmt.Sprintf("%s: the filters exclude the node (%s) but the query was handed to the application", ctxs, why)}
	case o.delivered == 0 && wantDeliver == 1:
		return &c08verdict{"not-delivered-although-selected", fmt.Sprintf("%s: every filter selects the node but the query was not handed to the application", ctxs)}
	}
	wantAck := sel && q.ack
	switch {
	case o.acks > 0 && !sel:
		return &c08verdict{"acknowledged-although-excluded by " + why, fmt.Sprintf("%s: the filters exclude the node (%s) but %d acknowledgement(s) were sent", ctxs, why, o.acks)}
	case o.acks > 0 && !q.ack:
		return &c08verdict{"acknowledged-without-request", fmt.Sprintf("%s: %d acknowledgement(s) sent although the ack flag is not set", ctxs, o.acks)}
	case o.acks == 0 && wantAck:
		return &c08verdict{"not-acknowledged-although-selected", fmt.Sprintf("%s: every filter selects the node and the ack flag is set, but no acknowledgement was sent", ctxs)}
	case o.badAck != "":
		return &c08verdict{"acknowledgement-misaddressed", fmt.Sprintf("%s: %s", ctxs, o.badAck)}
	}
	cls := "selected"
	if !sel {
		cls = "excluded by " + why
	}
	switch {
	case q.nobcast && o.rebcast > 0:
		return &c08verdict{"re-broadcast-although-disabled", fmt.Sprintf("%s: the no-broadcast flag is set but the query was queued for re-broadcast %d time(s)", ctxs, o.rebcast)}
	case !q.nobcast && o.rebcast == 0:
		return &c08verdict{"not-re-broadcast on first sight (" + cls + ")", fmt.Sprintf("%s: first arrival, re-broadcast not disabled, but nothing was queued for re-broadcast", ctxs)}
	case !q.nobcast && o.rebcast > 1:
		return &c08verdict{"re-broadcast-more-than-once", fmt.Sprintf("%s: queued for re-broadcast %d times", ctxs, o.rebcast)}
	case o.badRebc != "":
		return &c08verdict{"re-broadcast-altered", fmt.Sprintf("%s: %s", ctxs, o.badRebc)}
	}
	return nil
}

func c08sortedTags(t map[string]string) []string {
	var out []string
	for k, v := range t {
		out = append(out, k+"="+v)
	}
	sort.Strings(out)
	return out
}

func c08opt(tags map[string]string) world.Opt {
	return func(c *serf.Config) {
		c.Tags = map[string]string{}
		for k, v := range tags {
			c.Tags[k] = v
		}
	}
}

func init() {
	vc.Register(&vc.Check{
		ID:    "C08",
		Level: "exploration",
		Rule:  "cases: one real Serf node \"a\" (inert memberlist) per case receives a query message through Delegate.NotifyMsg, then the identical message again. Product of: 6 node tag maps over {role,dc} (zone never set) x every ordered list of 0..2 wire filters from a 38-letter alphabet (8 node-name lists incl. empty list, empty name, case/prefix near misses; 21 tag filters = tags {role,dc,zone} x patterns {\"\",web,^web$,w.b,a|b,\\d+,^$,(?i)WEB,east|west,., invalid ( and [}; 9 malformed: type byte only, garbage after the type byte, unknown types 2/255 with a valid body, truncated encodings) x ack flag x no-broadcast flag x 9 names (q; internal: _serf_ping, _serf_x, _serf_, _serf_conflict, _serf_list-keys; near misses _serfx, serf_, _SERF_ping). quick takes the full flag x name product for lists of length <=1 and 2 flag x 2 name combinations for pairs; thorough the full product for pairs plus all ordered triples over a 12-letter sub-alphabet. tag-changes: every sequence of length 4 (thorough 5; each prefix is judged) over {query with tag filter F1, query with tag filter F2, query with a node filter, SetTags(T1), SetTags(T2), SetTags(T3)} on one node under 2 assignments of filters and tag maps, fresh Lamport time and id per query, reference = the tags in force when the query arrives; non-trivial = a tag-filter query arrives after a tag change. histories: every sequence of <=4 (thorough 5) arrivals over 4 distinct queries (same time/other id, same id/other time) under 3 attribute assignments, oracle after every arrival. Reference: name in list / regexp.MatchString(pattern, tags[tag]) / malformed => excluded; observed: queries on the application's event channel, acknowledgement packets handed to the transport, query messages queued for re-broadcast. non-trivial = the reference excludes the node, or the name is internal or a near miss, or a flag is set (first scenario); history with a repeated arrival",
		Assumptions: []string{
			"one node over an inert real memberlist; arrivals are serial (memberlist's packet handler)",
			"Lamport times stay inside the recent-query window and above the join cut-off (those rules are not part of this statement)",
			"zero-length filters are excluded (their handling belongs to C09); bodies that the msgpack decoder accepts although they have another shape (array for a tag filter, map or nil for a node list) are left open",
			"replies that serf's own internal-query handlers send (conflict, key listing) are not acknowledgements and are not judged; relay factor is 0 (relays are C35)",
		},
		Run: c08run,
	})
}

func c08run(ctx *vc.Ctx) {
	if ctx.Replay != nil {
		return
	}
	// controlled threads run strictly one at a time; a single P makes the baton
	// hand-over between their goroutines several times cheaper
	defer runtime.GOMAXPROCS(runtime.GOMAXPROCS(1))
	full := c08alphabet(false)
	names := c08names()
	flags := [][2]bool{{false, false}, {true, false}, {false, true}, {true, true}}
	idx := 0

	// lists of length <= 1: full product
	scn1 := ctx.Scn("filters<=1", "cases")
	var lists1 [][]c08filter
	lists1 = append(lists1, nil)
	for _, f := range full {
		lists1 = append(lists1, []c08filter{f})
	}
	for ti, tags := range c08tagMaps {
		for _, l := range lists1 {
			for _, fl := range flags {
				for _, nm := range names {
					idx++
					if !ctx.Mine(idx) {
						continue
					}
					c08case(ctx, scn1, ti, tags, c08query{ltime: 7, id: 41, name: nm, ack: fl[0], nobcast: fl[1], filters: l})
				}
			}
		}
	}

	// ordered pairs
	scn2 := ctx.Scn("filters=2", "cases")
	pflags := [][2]bool{{true, false}, {false, true}}
	pnames := []c08name{names[0], names[1]}
	if ctx.Thorough() {
		pflags, pnames = flags, names
	}
	for ti, tags := range c08tagMaps {
		for _, f1 := range full {
			for _, f2 := range full {
				for _, fl := range pflags {
					for _, nm := range pnames {
						idx++
						if !ctx.Mine(idx) {
							continue
						}
						c08case(ctx, scn2, ti, tags, c08query{ltime: 7, id: 41, name: nm, ack: fl[0], nobcast: fl[1], filters: []c08filter{f1, f2}})
					}
				}
			}
		}
	}

	// ordered triples over the reduced alphabet (thorough)
	if ctx.Thorough() {
		scn3 := ctx.Scn("filters=3", "cases")
		red := c08alphabet(true)
		for ti, tags := range c08tagMaps {
			for _, f1 := range red {
				for _, f2 := range red {
					for _, f3 := range red {
						for _, fl := range [][2]bool{{true, false}, {true, true}} {
							for _, nm := range []c08name{names[0], names[2]} {
								idx++
								if !ctx.Mine(idx) {
									continue
								}
								c08case(ctx, scn3, ti, tags, c08query{ltime: 7, id: 41, name: nm, ack: fl[0], nobcast: fl[1], filters: []c08filter{f1, f2, f3}})
							}
						}
					}
				}
			}
		}
	}

	c08histories(ctx, &idx)
	c08tagChanges(ctx, &idx)
}

// c08case: first arrival and identical second arrival on a fresh node.
func c08case(ctx *vc.Ctx, scn *vc.Scenario, ti int, tags map[string]string, q c08query) {
	var v *c08verdict
	wire := q.wire()
	x := vsched.Run(vsched.RunOpts{MaxSteps: 200000}, func() {
		n, err := world.NewNode(c08self, 0, c08opt(tags))
		if err != nil {
			panic(err)
		}
		vsched.Quiesce()
		n.DrainEvents()
		n.Tr.TakeSent()
		n.Outbox()
		for round := 0; round < 2 && v == nil; round++ {
			n.Delegate().NotifyMsg(append([]byte{}, wire...))
			vsched.Quiesce()
			v = c08judge(q, tags, round == 0, c08observe(n, q, wire))
		}
		n.S.Shutdown()
	})
	if len(x.Panics) > 0 {
		v = &c08verdict{"panic " + x.Panics[0].Frame, fmt.Sprintf("tags %v, %v: panic %s\n%s", c08sortedTags(tags), q, x.Panics[0].Value, x.Panics[0].Stack)}
	} else if !x.RootDone && v == nil {
		v = &c08verdict{"stuck", fmt.Sprintf("tags %v, %v: the delivering thread never finished; blocked: %+v", c08sortedTags(tags), q, x.Blocked)}
	}
	sel, why := q.selected(tags)
	out := "selected"
	if !sel {
		out = "excluded:" + why
	}
	if q.name.internal {
		out += "/internal"
	}
	if v != nil {
		out = v.sig
		var fr []string
		for _, f := range q.filters {
			fr = append(fr, fmt.Sprintf("%x", f.raw))
		}
		ctx.Violation(scn.Name, v.sig, v.msg, map[string]interface{}{"tags": tags, "query": q.String(), "filters_hex": fr})
	}
	scn.Case(out, !sel || q.name.name != "q" || q.ack || q.nobcast)
	if len(scn.Samples) < 2 && !sel && q.ack && len(q.filters) > 0 && ti > 0 {
		scn.Sample(map[string]interface{}{"tags": c08sortedTags(tags), "query": q.String(), "expected": out + ": no delivery, no ack, re-broadcast once unless disabled; second arrival changes nothing"})
	}
}

// c08histories: sequences of arrivals of several distinct queries on one node.
func c08histories(ctx *vc.Ctx, idx *int) {
	scn := ctx.Scn("histories", "cases")
	depth := 4
	if ctx.Thorough() {
		depth = 5
	}
	tags := map[string]string{"role": "web"}
	hit, miss, bad := c08tagFilter("role", "^web$"), c08nodeFilter("b"), c08tagFilter("role", "(")
	nm := c08names()
	sets := [][]c08query{
		{
			{ltime: 5, id: 1, name: nm[0], ack: true, filters: []c08filter{hit}},
			{ltime: 5, id: 2, name: nm[0], ack: true, filters: []c08filter{miss}},
			{ltime: 6, id: 1, name: nm[0], nobcast: true, filters: nil},
			{ltime: 4, id: 2, name: nm[1], ack: true, filters: []c08filter{hit}},
		},
		{
			{ltime: 5, id: 1, name: nm[0], nobcast: true, ack: true, filters: []c08filter{bad}},
			{ltime: 5, id: 2, name: nm[4], filters: []c08filter{hit, hit}},
			{ltime: 6, id: 1, name: nm[2], filters: []c08filter{miss}},
			{ltime: 6, id: 2, name: nm[0], ack: true, nobcast: true, filters: []c08filter{hit}},
		},
		{
			{ltime: 1, id: 0, name: nm[0], filters: []c08filter{miss}},
			{ltime: 1, id: 1, name: nm[0], filters: []c08filter{c08malformed("node-type-byte-only", []byte{serf.VFilterNodeType})}},
			{ltime: 2, id: 0, name: nm[0], ack: true, filters: []c08filter{hit}},
			{ltime: 0, id: 0, name: nm[0], ack: true},
		},
	}
	for si, set := range sets {
		for d := 1; d <= depth; d++ {
			seq := make([]int, d)
			for {
				*idx++
				if ctx.Mine(*idx) {
					c08history(ctx, scn, si, tags, set, seq)
				}
				k := d - 1
				for k >= 0 {
					seq[k]++
					if seq[k] < len(set) {
						break
					}
					seq[k] = 0
					k--
				}
				if k < 0 {
					break
				}
			}
		}
	}
}

func c08history(ctx *vc.Ctx, scn *vc.Scenario, si int, tags map[string]string, set []c08query, seq []int) {
	var v *c08verdict
	var hist []string
	repeated := false
	x := vsched.Run(vsched.RunOpts{MaxSteps: 400000}, func() {
		n, err := world.NewNode(c08self, 0, c08opt(tags))
		if err != nil {
			panic(err)
		}
		vsched.Quiesce()
		n.DrainEvents()
		n.Tr.TakeSent()
		n.Outbox()
		seen := map[int]bool{}
		for _, qi := range seq {
			q := set[qi]
			wire := q.wire()
			hist = append(hist, q.String())
			n.Delegate().NotifyMsg(append([]byte{}, wire...))
			vsched.Quiesce()
			if v = c08judge(q, tags, !seen[qi], c08observe(n, q, wire)); v != nil {
				break
			}
			if seen[qi] {
				repeated = true
			}
			seen[qi] = true
		}
		n.S.Shutdown()
	})
	if len(x.Panics) > 0 {
		v = &c08verdict{"panic " + x.Panics[0].Frame, fmt.Sprintf("panic %s\n%s", x.Panics[0].Value, x.Panics[0].Stack)}
	}
	out := "ok"
	if v != nil {
		out = v.sig
		ctx.Violation(scn.Name, "history: "+v.sig, fmt.Sprintf("arrivals %v: %s", hist, v.msg), map[string]interface{}{"set": si, "sequence": seq, "arrivals": hist})
	}
	scn.Case(out, repeated)
	if len(scn.Samples) < 1 && repeated && len(seq) >= 3 {
		scn.Sample(map[string]interface{}{"arrivals": hist, "outcome": out})
	}
}

// c08tagChanges: the node's tags change between queries (Serf.SetTags); every query must be
// judged against the tags in force when it arrives.
func c08tagChanges(ctx *vc.Ctx, idx *int) {
	scn := ctx.Scn("tag-changes", "cases")
	depth := 4
	if ctx.Thorough() {
		depth = 5
	}
	type variant struct {
		initial map[string]string
		filters [3][]c08filter // F1, F2, node filter
		tags    [3]map[string]string
	}
	variants := []variant{
		{
			initial: map[string]string{"role": "web"},
			filters: [3][]c08filter{{c08tagFilter("role", "^web$")}, {c08tagFilter("dc", "east")}, {c08nodeFilter("b", c08self)}},
			tags:    [3]map[string]string{{"role": "web", "dc": "east1"}, {"role": "db"}, {}},
		},
		{
			initial: map[string]string{},
			filters: [3][]c08filter{{c08tagFilter("zone", "^$")}, {c08tagFilter("role", "a|b"), c08tagFilter("zone", "x")}, {c08nodeFilter("b")}},
			tags:    [3]map[string]string{{"zone": "x"}, {"role": "a", "zone": "x"}, {"role": "web", "zone": ""}},
		},
	}
	for vi, va := range variants {
		seq := make([]int, depth)
		for {
			*idx++
			if ctx.Mine(*idx) {
				var v *c08verdict
				var hist []string
				nontrivial := false
				x := vsched.Run(vsched.RunOpts{MaxSteps: 400000}, func() {
					n, err := world.NewNode(c08self, 0, c08opt(va.initial))
					if err != nil {
						panic(err)
					}
					vsched.Quiesce()
					n.DrainEvents()
					n.Tr.TakeSent()
					n.Outbox()
					cur := va.initial
					changed := false
					for step, a := range seq {
						if a >= 3 {
							cur = va.tags[a-3]
							hist = append(hist, fmt.Sprintf("SetTags(%v)", c08sortedTags(cur)))
							cp := map[string]string{}
							for k, val := range cur {
								cp[k] = val
							}
							if err := n.S.SetTags(cp); err != nil {
								v = &c08verdict{"harness: SetTags failed", err.Error()}
								break
							}
							vsched.Quiesce()
							n.DrainEvents()
							n.Tr.TakeSent()
							n.Outbox()
							changed = true
							continue
						}
						q := c08query{ltime: uint64(10 + step), id: uint32(100 + step), name: c08name{"q", false}, ack: true, filters: va.filters[a]}
						if changed && a < 2 {
							nontrivial = true
						}
						wire := q.wire()
						hist = append(hist, q.String())
						n.Delegate().NotifyMsg(append([]byte{}, wire...))
						vsched.Quiesce()
						if v = c08judge(q, cur, true, c08observe(n, q, wire)); v != nil {
							break
						}
					}
					n.S.Shutdown()
				})
				if len(x.Panics) > 0 {
					v = &c08verdict{"panic " + x.Panics[0].Frame, fmt.Sprintf("panic %s\n%s", x.Panics[0].Value, x.Panics[0].Stack)}
				}
				out := "ok"
				if v != nil {
					out = v.sig
					ctx.Violation(scn.Name, "tag-change: "+v.sig, fmt.Sprintf("initial tags %v, steps %v: %s", c08sortedTags(va.initial), hist, v.msg), map[string]interface{}{"variant": vi, "sequence": seq, "steps": hist})
				}
				scn.Case(out, nontrivial)
				if len(scn.Samples) < 1 && nontrivial {
					scn.Sample(map[string]interface{}{"initial_tags": c08sortedTags(va.initial), "steps": hist, "outcome": out})
				}
			}
			k := depth - 1
			for k >= 0 {
				seq[k]++
				if seq[k] < 6 {
					break
				}
				seq[k] = 0
				k--
			}
			if k < 0 {
				break
			}
		}
	}
}
