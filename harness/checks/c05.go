package checks

import (
	"fmt"
	"net"
	"strings"

	"verifharness/vc"
	"verifharness/world"

	"github.com/hashicorp/memberlist"
	"github.com/hashicorp/serf/serf"
	"github.com/hashicorp/serf/zzverif/vsched"
)

// C05: Each user event reaches the application at most once per node.

type c05ev struct {
	lt      uint64
	name    string
	payload string
}

func (e c05ev) key() string { return fmt.Sprintf("%d/%s/%s", e.lt, e.name, e.payload) }

type c05act struct {
	kind string // msg | pp | join | local
	ev   []c05ev
	elt  uint64 // EventLTime of a push/pull
}

func (a c05act) String() string {
	var s []string
	for _, e := range a.ev {
		s = append(s, e.key())
	}
	if a.kind == "pp" || a.kind == "join" {
		return fmt.Sprintf("%s(elt=%d,[%s])", a.kind, a.elt, strings.Join(s, " "))
	}
	return fmt.Sprintf("%s(%s)", a.kind, strings.Join(s, " "))
}

// c05model is the reference model of the statement.
type c05model struct {
	n        uint64
	clock    uint64
	minTime  uint64
	received map[string]bool
}

func (m *c05model) witness(lt uint64) {
	if lt >= m.clock {
		m.clock = lt + 1
	}
}

// receive returns whether the event must be delivered now (true), must not be
// delivered (false), and whether the statement leaves it open (open).
func (m *c05model) receive(e c05ev) (deliver bool) {
	m.witness(e.lt)
	first := !m.received[e.key()]
	m.received[e.key()] = true
	if !first {
		return false
	}
	if e.lt < m.minTime {
		return false
	}
	if m.clock > m.n && e.lt < m.clock-m.n {
		return false // outside the recent-event window
	}
	return true
}

func init() {
	vc.Register(&vc.Check{
		ID:    "C05",
		Level: "model_checking",
		Rule: "histories: every sequence (length <=3 quick, <=4 thorough on a reduced alphabet) of deliveries of user events to one real Serf node, for every event-buffer size 1..4: gossip messages (Delegate.NotifyMsg), push/pull merges carrying buffered events and an event clock (Delegate.MergeRemoteState), a real Serf.Join with ignore-old whose push/pull reply carries events (cut-off), an ignore-old Join that reaches nobody, the join-flagged state sync of another node's join, and local UserEvent calls; Lamport times from {0,1,2,N-1,N,N+1,2N,2N+1,2^32,2^63}; after every step the events handed to the application are compared with a reference model (set of received triples, clock, window, cut-off); a state is the canonical private state after a history; non-trivial = history in which at least one event was received twice or rejected",
		Assumptions: []string{
			"one node over an inert real memberlist; deliveries are serial",
			"Lamport times >= 2^64-2 are excluded here (clock wrap is C19's known finding)",
			"'recent-event window' is the node's own: an event is inside it unless the event clock (after witnessing the event) exceeds the buffer size N and the event time is below clock-N",
		},
		Run: c05run,
	})
}

func c05run(ctx *vc.Ctx) {
	for _, n := range []int{1, 2, 3, 4} {
		c05explore(ctx, n)
	}
}

func c05alphabet(n int, thorough bool, depth int) []c05act {
	N := uint64(n)
	lts := []uint64{0, 1, 2, N, N + 1, 2 * N, 2*N + 1, 1 << 32}
	if thorough && depth <= 3 {
		lts = append(lts, N-1, 1<<63)
	}
	if depth >= 4 {
		lts = []uint64{1, N, N + 1, 2*N + 1}
	}
	seen := map[uint64]bool{}
	var u []uint64
	for _, l := range lts {
		if !seen[l] {
			seen[l] = true
			u = append(u, l)
		}
	}
	var acts []c05act
	for _, l := range u {
		acts = append(acts, c05act{kind: "msg", ev: []c05ev{{l, "a", "p"}}})
		if l <= 2*N+1 {
			acts = append(acts, c05act{kind: "msg", ev: []c05ev{{l, "b", "p"}}})
		}
	}
	acts = append(acts, c05act{kind: "msg", ev: []c05ev{{1, "a", "q"}}})
	// push/pull merges: the sender's buffered events plus its event clock
	for _, l := range []uint64{1, N, N + 1} {
		acts = append(acts, c05act{kind: "pp", elt: l + 1, ev: []c05ev{{l, "a", "p"}}})
	}
	acts = append(acts, c05act{kind: "pp", elt: 2*N + 2, ev: []c05ev{{1, "a", "p"}, {2 * N, "b", "p"}, {2*N + 1, "a", "p"}}})
	acts = append(acts, c05act{kind: "pp", elt: 1, ev: nil})
	// join with ignore-old: cut-off at the responder's event clock
	acts = append(acts, c05act{kind: "join", elt: N + 1, ev: []c05ev{{1, "a", "p"}, {N, "b", "p"}, {N + 1, "a", "p"}}})
	acts = append(acts, c05act{kind: "join", elt: 2, ev: []c05ev{{1, "a", "p"}, {2, "b", "p"}}})
	acts = append(acts, c05act{kind: "joinfail"})
	acts = append(acts, c05act{kind: "ppjoin", elt: N + 2, ev: []c05ev{{1, "c", "p"}, {N + 1, "c", "p"}}})
	acts = append(acts, c05act{kind: "local", ev: []c05ev{{0, "a", "p"}}})
	acts = append(acts, c05act{kind: "local", ev: []c05ev{{0, "l", "p"}}})
	return acts
}

func c05pushpull(a c05act) []byte {
	pp := serf.VMessagePushPull{LTime: 1, EventLTime: serf.LamportTime(a.elt), QueryLTime: 1, StatusLTimes: map[string]serf.LamportTime{}, LeftMembers: []string{}}
	for _, e := range a.ev {
		var g *serf.VUserEvents
		for _, x := range pp.Events {
			if x != nil && uint64(x.LTime) == e.lt {
				g = x
			}
		}
		if g == nil {
			g = &serf.VUserEvents{LTime: serf.LamportTime(e.lt)}
			pp.Events = append(pp.Events, g)
		}
		g.Events = append(g.Events, serf.VUserEvent{Name: e.name, Payload: []byte(e.payload)})
	}
	return serf.VEncode(serf.VMsgPushPull, &pp)
}

func c05explore(ctx *vc.Ctx, n int) {
	depth := 3
	if ctx.Thorough() {
		depth = 4
	}
	scn := ctx.Scn(fmt.Sprintf("buffer=%d", n), "states")
	states := map[string]bool{}
	idx := 0
	for d := 1; d <= depth; d++ {
		if d < depth && !ctx.Thorough() && d < 3 {
			// shorter histories are prefixes of the longer ones (every prefix is checked step by step)
			continue
		}
		if d < depth && ctx.Thorough() && d != 3 {
			continue
		}
		acts := c05alphabet(n, ctx.Thorough(), d)
		seq := make([]int, d)
		for {
			idx++
			if ctx.Mine(idx) {
				c05one(ctx, scn, n, acts, seq, states)
			}
			k := d - 1
			for k >= 0 {
				seq[k]++
				if seq[k] < len(acts) {
					break
				}
				seq[k] = 0
				k--
			}
			if k < 0 {
				break
			}
		}
	}
}

func c05one(ctx *vc.Ctx, scn *vc.Scenario, n int, acts []c05act, seq []int, states map[string]bool) {
	var hist []string
	var viol, sig string
	nontrivial := false
	var final string
	x := vsched.Run(vsched.RunOpts{MaxSteps: 200000}, func() {
		node, err := world.NewNode("a", 0, func(c *serf.Config) { c.EventBuffer = n })
		if err != nil {
			panic(err)
		}
		node.Events().NotifyJoin(node.MLNode("b", 1, nil))
		vsched.Quiesce()
		node.DrainEvents()
		m := &c05model{n: uint64(n), clock: 1, received: map[string]bool{}}
		delivered := map[string]int{}
		for _, ai := range seq {
			a := acts[ai]
			hist = append(hist, a.String())
			want := map[string]int{}
			switch a.kind {
			case "msg":
				e := a.ev[0]
				if m.receive(e) {
					want[e.key()]++
				} else {
					nontrivial = true
				}
				node.Delegate().NotifyMsg(serf.VEncode(serf.VMsgUserEvent, &serf.VMessageUserEvent{LTime: serf.LamportTime(e.lt), Name: e.name, Payload: []byte(e.payload)}))
			case "joinfail":
				// an ignore-old Join that reaches nobody (the dial is refused): no cut-off is established
				node.Tr.Dial = nil
				if _, err := node.S.Join([]string{"z/10.0.0.99:7946"}, true); err == nil {
					viol, sig = "Join to an unreachable peer succeeded", "harness: join did not fail"
					return
				}
			case "pp", "ppjoin", "join":
				if a.elt > 0 {
					m.witness(a.elt - 1)
				}
				if a.kind == "join" && a.elt > m.minTime {
					m.minTime = a.elt
				}
				for _, e := range a.ev {
					if m.receive(e) {
						want[e.key()]++
					} else {
						nontrivial = true
					}
				}
				buf := c05pushpull(a)
				if a.kind == "pp" || a.kind == "ppjoin" {
					// "ppjoin": the state sync of ANOTHER node's join (join flag set, no ignore-old of ours)
					node.Delegate().MergeRemoteState(buf, a.kind == "ppjoin")
				} else {
					node.Tr.Dial = func(ad memberlist.Address) (net.Conn, error) {
						return world.NewPushPullConn(func(req []byte) []byte {
							return world.EncodePushPull([]world.Peer{world.AlivePeer("b", 1, serf.VEncodeTags(node.S, nil))}, buf, false)
						}), nil
					}
					if _, err := node.S.Join([]string{"b/10.0.0.2:7946"}, true); err != nil {
						viol, sig = fmt.Sprintf("Join failed: %v", err), "harness: join failed"
						return
					}
					node.Tr.Dial = nil
				}
			case "local":
				e := c05ev{m.clock, a.ev[0].name, a.ev[0].payload}
				m.clock++
				m.received[e.key()] = true
				want[e.key()]++
				if err := node.S.UserEvent(e.name, []byte(e.payload), false); err != nil {
					viol, sig = fmt.Sprintf("UserEvent failed: %v", err), "harness: user event failed"
					return
				}
			}
			vsched.Quiesce()
			got := map[string]int{}
			for _, ev := range node.DrainEvents() {
				if u, ok := ev.(serf.UserEvent); ok {
					k := c05ev{uint64(u.LTime), u.Name, string(u.Payload)}.key()
					got[k]++
					delivered[k]++
				}
			}
			for k, c := range delivered {
				if c > 1 && viol == "" {
					viol, sig = fmt.Sprintf("buffer size %d, history %v: user event %s was delivered to the application %d times", n, hist, k, c), "delivered-twice via "+a.kind
				}
			}
			for k := range want {
				if got[k] == 0 && viol == "" {
					viol, sig = fmt.Sprintf("buffer size %d, history %v: user event %s was received for the first time inside the window (event clock %d) and at/after the cut-off %d but was not delivered", n, hist, k, m.clock, m.minTime), "not-delivered via "+a.kind
				}
			}
			for k := range got {
				if want[k] == 0 && viol == "" && delivered[k] <= 1 {
					viol, sig = fmt.Sprintf("buffer size %d, history %v: user event %s was delivered although it is below the cut-off %d or outside the window (event clock %d)", n, hist, k, m.minTime, m.clock), "delivered-outside-window-or-cutoff via "+a.kind
				}
			}
			if viol != "" {
				break
			}
		}
		st := serf.VDump(node.S)
		final = fmt.Sprintf("%d/%d/%v", st.EventClock, st.EventMinTime, st.EventBuffer)
		node.S.Shutdown()
	})
	if len(x.Panics) > 0 {
		viol, sig = fmt.Sprintf("history %v: panic %s\n%s", hist, x.Panics[0].Value, x.Panics[0].Stack), "panic "+x.Panics[0].Frame
	}
	scn.Transitions += len(seq)
	scn.AddState(final)
	out := "ok"
	if viol != "" {
		out = sig
		ctx.Violation(scn.Name, sig, viol, map[string]interface{}{"buffer": n, "history": hist})
	}
	scn.Case(out, nontrivial)
	if len(scn.Samples) < 2 && nontrivial {
		scn.Sample(map[string]interface{}{"buffer": n, "history": hist, "final_state": final})
	}
}
