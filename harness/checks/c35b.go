package checks

import (
	"fmt"
	"time"

	"verifharness/vc"
	"verifharness/world"

	"github.com/hashicorp/serf/serf"
	"github.com/hashicorp/serf/zzverif/vsched"
)

// c35ackThenChange: a query that asks for an acknowledgement AND for relaying is delivered (the
// acknowledgement is relayed under every outcome of the first D draws), then one of the members goes
// down or starts leaving, then the application answers (again every outcome of the first D draws):
// the relayed copies of the answer go through members that are eligible when the answer is sent.
func c35ackThenChange(ctx *vc.Ctx, idx *int) {
	ms := []int{2}
	if ctx.Thorough() {
		ms = []int{2, 3}
	}
	for _, m := range ms {
		scn := ctx.Scn(fmt.Sprintf("reply/members=%d/ack-then-member-change-then-respond", m+1), "cases")
		for _, k := range []uint8{1, 2} {
			*idx++
			if !ctx.Mine(*idx) {
				continue
			}
			c35ackThenChangeOne(ctx, scn, m, k)
		}
	}
}

func c35ackThenChangeOne(ctx *vc.Ctx, scn *vc.Scenario, m int, k uint8) {
	const D = 3
	var others []c35member
	for i := 0; i < m; i++ {
		others = append(others, c35member{c35otherNames[i], i + 1, c35class{"alive", 5}})
	}
	cs := c35case{self: "n2", others: others, variant: "plain", k: k, path: "respond-after-ack"}
	n := m + 1
	L := 3 * n
	oname, oip := cs.origin()
	type bad struct{ sig, msg string }
	var first *bad
	var setupErr string
	cases, nontrivial := 0, 0
	outcomes := map[string]int{}
	x := vsched.Run(vsched.RunOpts{MaxSteps: 1 << 40}, func() {
		vsched.Branching(false)
		node, e := c35setup(cs)
		if e != "" {
			setupErr = e
			return
		}
		ctr := uint32(0)
		lt := uint64(50)
		total := 1
		for i := 0; i < D; i++ {
			total *= n
		}
		seqOf := func(v int) []int {
			c := make([]int, L)
			for i := 0; i < D; i++ {
				c[i] = v % n
				v /= n
			}
			return c
		}
		statusOf := func(name string) string {
			for _, mm := range node.S.Members() {
				if mm.Name == name {
					return mm.Status.String()
				}
			}
			return "unknown"
		}
		for a := 0; a < total; a++ {
			for victim := 0; victim < m; victim++ {
				for _, kind := range []string{"failed", "leaving"} {
					for b := 0; b < total; b++ {
						ctr++
						id := ctr
						wire := serf.VEncode(serf.VMsgQuery, &serf.VMessageQuery{LTime: serf.LamportTime(100 + uint64(id)), ID: id, Addr: oip, Port: 7946, SourceNode: oname,
							Flags: uint32(serf.VQueryFlagNoBroadcast | serf.VQueryFlagAck), RelayFactor: k, Timeout: 10 * time.Second, Name: "q", Payload: []byte("p")})
						used := 0
						window := func(c []int, f func()) []world.Packet {
							vsched.Forget()
							vsched.Branching(true)
							vsched.Feed(c)
							before := vsched.Consumed()
							vsched.Atomic(f)
							used += vsched.Consumed() - before
							vsched.Feed(nil)
							vsched.Branching(false)
							return node.Tr.TakeSent()
						}
						ackPk := window(seqOf(a), func() { node.Delegate().NotifyMsg(wire) })
						vsched.Quiesce()
						var q *serf.Query
						for _, ev := range node.DrainEvents() {
							if g, ok := ev.(*serf.Query); ok && serf.VQueryID(g) == id {
								q = g
							}
						}
						if q == nil {
							setupErr = "the query was not delivered to the application"
							return
						}
						// the acknowledgement itself is judged against the member table of its moment
						if _, sig, msg := c35judge(cs, uint64(q.LTime), id, serf.VQueryFlagAck, nil, ackPk, nil); sig != "" && first == nil {
							first = &bad{sig, fmt.Sprintf("%v, acknowledgement under rand.Intn answers %v: %s", cs, seqOf(a)[:D], msg)}
						}
						// one member goes down / starts leaving
						v := others[victim]
						ml := node.MLNode(v.name, v.idx, nil)
						ml.PMax = 5
						lt++
						switch kind {
						case "failed":
							node.Events().NotifyLeave(ml)
						case "leaving":
							node.Delegate().NotifyMsg(serf.VEncode(serf.VMsgLeave, &serf.VMessageLeave{LTime: serf.LamportTime(lt), Node: v.name}))
						}
						vsched.Quiesce()
						node.DrainEvents()
						node.Tr.TakeSent()
						node.Outbox()
						if st := statusOf(v.name); st != kind {
							setupErr = fmt.Sprintf("member %s is %s after the change, want %s", v.name, st, kind)
							return
						}
						cs2 := cs
						cs2.others = append([]c35member{}, others...)
						cs2.others[victim].class = c35class{kind, 5}
						var rerr error
						pk := window(seqOf(b), func() { rerr = q.Respond([]byte("r")) })
						out, sig, msg := c35judge(cs2, uint64(q.LTime), id, 0, []byte("r"), pk, rerr)
						cases++
						if used > 0 {
							nontrivial++
						}
						outcomes[kind+" "+out]++
						if sig != "" && first == nil {
							first = &bad{sig + " (answer to an acknowledged query after a member change)", fmt.Sprintf("%v: the acknowledgement was relayed under rand.Intn answers %v, then %s became %s, then Respond under answers %v: %s", cs, seqOf(a)[:D], v.name, kind, seqOf(b)[:D], msg)}
						}
						// the member comes back
						lt++
						switch kind {
						case "failed":
							node.Events().NotifyJoin(ml)
						case "leaving":
							node.Delegate().NotifyMsg(serf.VEncode(serf.VMsgJoin, &serf.VMessageJoin{LTime: serf.LamportTime(lt), Node: v.name}))
						}
						vsched.Quiesce()
						node.DrainEvents()
						node.Tr.TakeSent()
						node.Outbox()
						if st := statusOf(v.name); st != "alive" {
							setupErr = fmt.Sprintf("member %s is %s after coming back, want alive", v.name, st)
							return
						}
					}
				}
			}
		}
		node.S.Shutdown()
	})
	if setupErr != "" {
		ctx.Fail("C35 %v: %s", cs, setupErr)
		return
	}
	for o, cnt := range outcomes {
		scn.Outcomes[o] += cnt
	}
	scn.Evaluations += cases
	scn.Nontrivial += nontrivial
	if len(x.Panics) > 0 {
		ctx.Violation(scn.Name, "panic "+x.Panics[0].Frame, fmt.Sprintf("%v: panic %s\n%s", cs, x.Panics[0].Value, x.Panics[0].Stack), map[string]interface{}{"case": cs.String()})
		return
	}
	if !x.RootDone {
		ctx.Fail("C35 %v: enumeration did not finish (cap=%v blocked=%+v)", cs, x.CapHit, x.Blocked)
		return
	}
	if first != nil {
		ctx.Violation(scn.Name, first.sig, first.msg, map[string]interface{}{"case": cs.String()})
	}
}
