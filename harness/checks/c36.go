package checks

import (
	"bytes"
	"fmt"
	"net"
	"sort"
	"strings"

	"verifharness/vc"
	"verifharness/world"

	"github.com/hashicorp/serf/serf"
	"github.com/hashicorp/serf/zzverif/vsched"
)

// C36: Name conflicts are settled by a strict majority of valid replies.

// c36kind is what one responder does.
type c36kind struct {
	name  string
	first string // content of the first reply of this responder
	dup   string // content of a second reply from the same responder ("" = none)
}

// reply contents
const (
	c36Match     = "match"     // our address (16-byte form) and our port
	c36Match4    = "match4"    // our address in 4-byte form and our port
	c36OtherAddr = "otheraddr" // the conflicting address, our port
	c36OtherPort = "otherport" // our address, another port
	c36Unknown   = "unknown"   // responder does not know the name: encodes a nil member
	c36WrongType = "wrongtype" // well-formed member under another type byte
	c36Empty     = "empty"     // empty payload
	c36TypeOnly  = "typeonly"  // type byte and nothing else
	c36Garbage   = "garbage"   // type byte + truncated msgpack
	c36NotAMap   = "notamap"   // type byte + msgpack string where a member is expected
	c36TruncPort = "truncport" // a reply naming OUR address and port, cut off right after the port field (malformed)
	c36Sparse    = "sparse"    // well-formed map with only the name key: a member without address (valid, not ours)
)

func c36valid(content string) bool {
	switch content {
	case c36Match, c36Match4, c36OtherAddr, c36OtherPort, c36Unknown, c36Sparse:
		return true
	}
	return false
}

func c36matching(content string) bool { return content == c36Match || content == c36Match4 }

func c36class(content string) string {
	switch content {
	case c36Match, c36OtherAddr:
		return "plain"
	case c36Match4:
		return "addr-form"
	case c36OtherPort:
		return "port"
	case c36Unknown, c36Sparse:
		return "unknown"
	}
	return "malformed"
}

func c36payload(n *world.Node, content string) []byte {
	self := serf.Member{Name: n.Name, Addr: n.IP, Port: uint16(n.Port), Tags: map[string]string{}, Status: serf.StatusAlive,
		ProtocolMin: 1, ProtocolMax: 5, ProtocolCur: 2, DelegateMin: 2, DelegateMax: 5, DelegateCur: 5}
	switch content {
	case c36Match:
		m := self
		m.Addr = net.IP(append([]byte{}, n.IP.To16()...))
		return serf.VEncode(serf.VMsgConflictResponse, &m)
	case c36Match4:
		m := self
		m.Addr = net.IP(append([]byte{}, n.IP.To4()...))
		if n.IP.To4() == nil {
			m.Addr = net.IP(append([]byte{}, n.IP.To16()...)) // no 4-byte form of an IPv6 address
		}
		return serf.VEncode(serf.VMsgConflictResponse, &m)
	case c36OtherAddr:
		m := self
		m.Addr = world.NodeIP(9)
		if n.IP.To4() == nil {
			m.Addr = net.ParseIP("fd00::9")
		}
		return serf.VEncode(serf.VMsgConflictResponse, &m)
	case c36OtherPort:
		m := self
		m.Port = uint16(n.Port) + 1
		return serf.VEncode(serf.VMsgConflictResponse, &m)
	case c36Unknown:
		// what internal_query.go handleConflict sends when the name is not in its member table
		var none *serf.Member
		return serf.VEncode(serf.VMsgConflictResponse, none)
	case c36WrongType:
		m := self
		return serf.VEncode(serf.VMsgKeyResponse, &m)
	case c36Empty:
		return []byte{}
	case c36TypeOnly:
		return []byte{serf.VMsgConflictResponse}
	case c36Garbage:
		full := serf.VEncode(serf.VMsgConflictResponse, &self)
		return full[:len(full)/2]
	case c36NotAMap:
		return []byte{serf.VMsgConflictResponse, 0xa3, 'a', 'b', 'c'}
	case c36TruncPort:
		// cut just before the key of the field that follows Port: name, address and port have been read
		full := serf.VEncode(serf.VMsgConflictResponse, &self)
		if i := bytes.Index(full, []byte("\xa4Tags")); i > 0 {
			return full[:i]
		}
		return full[:len(full)/2]
	case c36Sparse:
		return append([]byte{serf.VMsgConflictResponse, 0x81, 0xa4}, append([]byte("Name"), append([]byte{byte(0xa0 + len(n.Name))}, []byte(n.Name)...)...)...)
	}
	panic("c36: unknown content " + content)
}

func c36kinds(thorough bool) []c36kind {
	ks := []c36kind{
		{name: c36Match, first: c36Match},
		{name: c36OtherAddr, first: c36OtherAddr},
		{name: c36OtherPort, first: c36OtherPort},
		{name: c36Unknown, first: c36Unknown},
		{name: c36WrongType, first: c36WrongType},
		{name: c36Empty, first: c36Empty},
		{name: c36Garbage, first: c36Garbage},
		{name: c36Match4, first: c36Match4},
		{name: "dup(match,otheraddr)", first: c36Match, dup: c36OtherAddr},
		{name: "dup(otheraddr,match)", first: c36OtherAddr, dup: c36Match},
		{name: "dup(garbage,match)", first: c36Garbage, dup: c36Match},
		{name: c36TruncPort, first: c36TruncPort},
		{name: c36Sparse, first: c36Sparse},
	}
	if thorough {
		ks = append(ks,
			c36kind{name: c36TypeOnly, first: c36TypeOnly},
			c36kind{name: c36NotAMap, first: c36NotAMap},
			c36kind{name: "dup(match,match)", first: c36Match, dup: c36Match},
			c36kind{name: "dup(match,wrongtype)", first: c36Match, dup: c36WrongType},
		)
	}
	return ks
}

func init() {
	vc.Register(&vc.Check{
		ID:    "C36",
		Level: "exploration",
		Rule: "inputs: for every number k of peers known to the node's memberlist (0..4 quick, 0..5 thorough) every multiset of at most k responders, each responder being one of the reply kinds {names our address+port (16-byte and 4-byte address form), names the other address, names our address with another port, does not know the name (nil member, exactly what handleConflict sends), wrong type byte, empty payload, type byte only, truncated msgpack, msgpack of the wrong shape, and a second reply from the same responder (match then other, other then match, malformed then match, ...)}; " +
			"the real node runs NotifyConflict(self, other) with resolution enabled, the harness reads the conflict query from the gossip outbox, delivers the replies as query responses (Delegate.NotifyMsg) in two arrival orders and two timings (all at once / spread over the query window up to 1 ns before the deadline), lets the virtual query timeout pass and compares State()==shutdown with 'matching < floor(valid/2)+1'; non-trivial = a case that at least one plausible wrong reading of the rule decides differently (non-strict majority, malformed replies counted as votes, port not compared, second replies of a responder counted, 'unknown' replies ignored, address compared bytewise)",
		Assumptions: []string{
			"a reply is the first response of a responder that the query layer hands to the resolution (later responses of the same responder are dropped by query routing, property C07); the peer set is sized so that no reply is dropped for lack of channel room",
			"valid reply = payload with the conflict-response type byte followed by a decodable member record; a responder that does not know the name sends a nil record, which is valid and does not attribute the name to our address",
			"the node does not answer its own conflict query (handleConflict returns early for its own name), so only the injected replies vote",
			"replies arriving after the query deadline are not part of the resolution",
		},
		Run: c36run,
	})
}

type c36case struct {
	K      int      `json:"peers"`
	Kinds  []string `json:"responders"`
	Order  string   `json:"order"`
	Timing string   `json:"timing"`
}

// c36v6: the node advertises an IPv6 address (and the conflicting address is another IPv6 address).
var c36v6 bool

func c36run(ctx *vc.Ctx) {
	c36family(ctx, false)
	c36family(ctx, true)
}

func c36family(ctx *vc.Ctx, v6 bool) {
	c36v6 = v6
	defer func() { c36v6 = false }()
	kinds := c36kinds(ctx.Thorough())
	maxK := 4
	if ctx.Thorough() {
		maxK = 5
	}
	idx := 0
	fam := ""
	if v6 {
		fam = "ipv6/"
		maxK -= 2 // the address family does not interact with the number of peers: smaller multisets
	}
	for k := 0; k <= maxK; k++ {
		scn := ctx.Scn(fmt.Sprintf("%speers=%d", fam, k), "cases")
		// all multisets of size 0..k over kinds: non-decreasing index vectors
		for m := 0; m <= k; m++ {
			sel := make([]int, m)
			for {
				for _, order := range []string{"canonical", "reversed"} {
					if order == "reversed" && m < 2 {
						continue
					}
					for _, timing := range []string{"burst", "spread"} {
						if timing == "spread" && m == 0 {
							continue
						}
						idx++
						if ctx.Mine(idx) {
							c36one(ctx, scn, k, kinds, sel, order, timing)
						}
					}
				}
				// next non-decreasing vector
				p := m - 1
				for p >= 0 && sel[p] == len(kinds)-1 {
					p--
				}
				if p < 0 {
					break
				}
				sel[p]++
				for q := p + 1; q < m; q++ {
					sel[q] = sel[p]
				}
			}
		}
	}
}

func c36one(ctx *vc.Ctx, scn *vc.Scenario, k int, kinds []c36kind, sel []int, order, timing string) {
	cs := c36case{K: k, Order: order, Timing: timing}
	resp := make([]c36kind, 0, len(sel))
	for _, s := range sel {
		resp = append(resp, kinds[s])
	}
	if order == "reversed" {
		for i, j := 0, len(resp)-1; i < j; i, j = i+1, j-1 {
			resp[i], resp[j] = resp[j], resp[i]
		}
	}
	valid, matching := 0, 0
	classes := map[string]bool{}
	for _, r := range resp {
		cs.Kinds = append(cs.Kinds, r.name)
		if c36valid(r.first) {
			valid++
		}
		if c36matching(r.first) {
			matching++
		}
		classes[c36class(r.first)] = true
		if r.dup != "" {
			classes["duplicate"] = true
		}
	}
	majority := valid/2 + 1
	wantShutdown := matching < majority

	var harnessErr string
	var gotShutdown, earlyShutdown, lateChanged bool
	var stateAfter string
	x := vsched.Run(vsched.RunOpts{MaxSteps: 400000}, func() {
		n, err := world.NewNode("a", 0, func(c *serf.Config) {
			c.EnableNameConflictResolution = true
			if c36v6 {
				c.MemberlistConfig.AdvertiseAddr = "fd00::a"
			}
		})
		if err != nil {
			panic(err)
		}
		defer n.S.Shutdown()
		if c36v6 {
			n.IP = n.S.LocalMember().Addr
			if n.IP.To4() != nil || n.IP == nil {
				harnessErr = fmt.Sprintf("set-up: the node does not advertise an IPv6 address (%v)", n.IP)
				return
			}
		}
		if k > 0 {
			meta := serf.VEncodeTags(n.S, nil)
			var peers []world.Peer
			for i := 1; i <= k; i++ {
				peers = append(peers, world.AlivePeer(fmt.Sprintf("p%d", i), i, meta))
			}
			if _, err := n.KnowPeers(peers, nil); err != nil {
				harnessErr = "KnowPeers: " + err.Error()
				return
			}
		}
		vsched.Quiesce()
		n.Outbox()
		n.DrainEvents()
		if got := n.S.Memberlist().NumMembers(); got != k+1 {
			harnessErr = fmt.Sprintf("memberlist knows %d members, want %d", got, k+1)
			return
		}
		timeout := int64(n.S.DefaultQueryTimeout())
		start := vsched.Elapsed()
		n.Conflict().NotifyConflict(n.MLNode("a", 0, nil), n.MLNode("a", 9, nil))
		vsched.Quiesce()
		var q *serf.VMessageQuery
		for _, b := range n.Outbox() {
			if len(b) > 0 && b[0] == serf.VMsgQuery {
				var m serf.VMessageQuery
				if serf.VDecode(b[1:], &m) == nil && m.Name == serf.VInternalQueryName("conflict") {
					q = &m
				}
			}
		}
		if q == nil {
			harnessErr = "no conflict query was broadcast after NotifyConflict"
			return
		}
		if string(q.Payload) != "a" || int64(q.Timeout) != timeout {
			harnessErr = fmt.Sprintf("unexpected conflict query payload %q timeout %v", q.Payload, q.Timeout)
			return
		}
		send := func(from, content string) {
			n.Delegate().NotifyMsg(serf.VEncode(serf.VMsgQueryResponse, &serf.VMessageQueryResponse{LTime: q.LTime, ID: q.ID, From: from, Payload: c36payload(n, content)}))
		}
		nmsg := 0
		for _, r := range resp {
			nmsg++
			if r.dup != "" {
				nmsg++
			}
		}
		gap := int64(0)
		if timing == "spread" && nmsg > 0 {
			gap = (timeout - 1) / int64(nmsg)
		}
		// first replies of all responders, then the second replies
		for i, r := range resp {
			if gap > 0 {
				vsched.Advance(gap)
			}
			send(fmt.Sprintf("p%d", i+1), r.first)
		}
		for i, r := range resp {
			if r.dup == "" {
				continue
			}
			if gap > 0 {
				vsched.Advance(gap)
			}
			send(fmt.Sprintf("p%d", i+1), r.dup)
		}
		vsched.Quiesce()
		earlyShutdown = n.S.State() == serf.SerfShutdown
		vsched.Advance(start + timeout - vsched.Elapsed())
		vsched.Quiesce()
		gotShutdown = n.S.State() == serf.SerfShutdown
		stateAfter = n.S.State().String()
		// a late reply must not matter any more
		send("late", c36Match)
		vsched.Advance(timeout)
		lateChanged = (n.S.State() == serf.SerfShutdown) != gotShutdown
	})
	desc := func() string {
		return fmt.Sprintf("%d peers, responders [%s] (%s order, %s): %d valid replies, %d name our address and port, strict majority needs %d", k, strings.Join(cs.Kinds, ", "), order, timing, valid, matching, majority)
	}
	cl := c36topClass(classes)
	out := fmt.Sprintf("valid=%d matching=%d ", valid, matching)
	if wantShutdown {
		out += "shutdown"
	} else {
		out += "stays"
	}
	switch {
	case len(x.Panics) > 0:
		out = "panic"
		ctx.Violation(scn.Name, "panic "+x.Panics[0].Frame, desc()+": panic "+x.Panics[0].Value+"\n"+x.Panics[0].Stack, cs)
	case !x.RootDone:
		ctx.Fail("C36: run did not finish (%s): blocked %+v", desc(), x.Blocked)
	case harnessErr != "":
		ctx.Fail("C36: %s (%s)", harnessErr, desc())
	case earlyShutdown && !wantShutdown:
		out = "bad"
		ctx.Violation(scn.Name, "shutdown-before-deadline ["+cl+"]", desc()+": the node shut down before the query deadline although it holds the majority", cs)
	case gotShutdown && !wantShutdown:
		out = "bad"
		ctx.Violation(scn.Name, "shutdown-despite-majority ["+cl+"]", desc()+": the node shut itself down (state "+stateAfter+")", cs)
	case !gotShutdown && wantShutdown:
		out = "bad"
		ctx.Violation(scn.Name, "survived-without-majority ["+cl+"]", desc()+": the node stayed up (state "+stateAfter+")", cs)
	case lateChanged:
		out = "bad"
		ctx.Violation(scn.Name, "late-reply-changed-outcome", desc()+": a reply delivered after the query deadline changed the node's state", cs)
	}
	// non-trivial: at least one plausible wrong reading of the rule decides this case differently
	alt := func(v, m int, strict bool) bool { // shutdown?
		if strict {
			return m < v/2+1
		}
		return 2*m < v
	}
	all, dupAll, dupMatch, portMatch, noUnknown, no4 := 0, 0, 0, 0, 0, 0
	for _, r := range resp {
		all++
		if r.first == c36OtherPort {
			portMatch++
		}
		if r.first == c36Unknown {
			noUnknown++
		}
		if r.first == c36Match4 {
			no4++
		}
		if r.dup != "" && c36valid(r.dup) {
			dupAll++
			if c36matching(r.dup) {
				dupMatch++
			}
		}
	}
	nontrivial := alt(valid, matching, false) != wantShutdown || // non-strict majority
		alt(all, matching, true) != wantShutdown || // malformed replies counted as votes
		alt(valid, matching+portMatch, true) != wantShutdown || // port not compared
		alt(valid+dupAll, matching+dupMatch, true) != wantShutdown || // second replies counted
		alt(valid-noUnknown, matching, true) != wantShutdown || // 'unknown' replies ignored
		alt(valid, matching-no4, true) != wantShutdown // address compared bytewise
	scn.Case(out, nontrivial)
	if nontrivial && len(resp) >= 3 && classes["malformed"] {
		scn.Sample(map[string]interface{}{"input": cs, "valid": valid, "matching": matching, "majority": majority, "expected_shutdown": wantShutdown, "observed_shutdown": gotShutdown})
	}
}

// c36topClass names the most exotic reply class present (failure classes for signatures).
func c36topClass(classes map[string]bool) string {
	for _, c := range []string{"duplicate", "malformed", "unknown", "port", "addr-form", "plain"} {
		if classes[c] {
			return c
		}
	}
	var ks []string
	for c := range classes {
		ks = append(ks, c)
	}
	sort.Strings(ks)
	if len(ks) == 0 {
		return "no-replies"
	}
	return strings.Join(ks, "+")
}
