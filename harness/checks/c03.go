package checks

import (
	"fmt"
	"net"
	"sort"
	"strings"
	"time"

	"verifharness/vc"
	"verifharness/world"

	"github.com/hashicorp/memberlist"
	"github.com/hashicorp/serf/serf"
	"github.com/hashicorp/serf/zzverif/vsched"
)

// C03: A running member never reports itself departed and refutes newer claims.
//
// One real Serf node "a". Claims that "a" has left arrive as gossip (leave
// intents with and without Prune), inside state-sync merges (a listed as left),
// inside the push/pull reply of the node's own Join, and as local force-leave
// calls naming the node itself. The reference model only keeps the Lamport time
// of the newest join intent for "a" the node has put on its broadcast queue.

type c03act struct {
	kind   string // msg | merge | force | join | user | echo
	rel    string // symbolic Lamport time of the claim (resolved against the model)
	prune  bool
	isJoin bool // merge: the join flag of MergeRemoteState
}

func (a c03act) String() string {
	switch a.kind {
	case "msg":
		return fmt.Sprintf("leave-msg(%s,prune=%v)", a.rel, a.prune)
	case "merge":
		return fmt.Sprintf("merge-left(%s,join=%v)", a.rel, a.isJoin)
	case "force":
		return fmt.Sprintf("force-leave-self(prune=%v)", a.prune)
	case "join":
		if a.rel == "" {
			return "Join()"
		}
		return fmt.Sprintf("Join(reply lists a as left at %s)", a.rel)
	case "echo":
		return fmt.Sprintf("join-msg-about-self(%s)", a.rel)
	}
	return "UserEvent()"
}

// c03model is the reference model: the newest join the node itself broadcast.
// clock is the node's Lamport clock read at the quiescent point before a step; it
// is only used to pick adversarial claim times (and is the time a local
// force-leave stamps on its claim).
type c03model struct {
	clock      uint64
	latestJoin uint64
}

func (m *c03model) resolve(rel string) uint64 {
	switch rel {
	case "0":
		return 0
	case "join-1":
		if m.latestJoin == 0 {
			return 0
		}
		return m.latestJoin - 1
	case "join":
		return m.latestJoin
	case "join+1":
		return m.latestJoin + 1
	case "clock":
		return m.clock
	case "clock+5":
		return m.clock + 5
	case "big":
		return 1 << 40
	}
	panic("c03: bad symbolic time " + rel)
}

// claim reports whether a claim with time l must be refuted.
func (m *c03model) claim(l uint64) (mustRefute bool) { return l > m.latestJoin }

func c03leftPushPull(l uint64) []byte {
	// MergeRemoteState derives the leave time as status time + 1. The node is not the only entry
	// of the left list: another member (b: known to the node in the peer scenarios) comes before
	// it and one (c: never known) after it, as in a real table
	pp := serf.VMessagePushPull{LTime: 1, EventLTime: 1, QueryLTime: 1,
		StatusLTimes: map[string]serf.LamportTime{"a": serf.LamportTime(l - 1), "b": 3, "c": 3}, LeftMembers: []string{"b", "a", "c"}}
	return serf.VEncode(serf.VMsgPushPull, &pp)
}

func c03plainPushPull() []byte {
	pp := serf.VMessagePushPull{LTime: 1, EventLTime: 1, QueryLTime: 1, StatusLTimes: map[string]serf.LamportTime{}, LeftMembers: []string{}}
	return serf.VEncode(serf.VMsgPushPull, &pp)
}

// c03joins extracts the Lamport times of join intents about "a" from queued broadcasts.
func c03joins(out [][]byte) []uint64 {
	var js []uint64
	for _, b := range out {
		if len(b) > 1 && b[0] == serf.VMsgJoin {
			var j serf.VMessageJoin
			if serf.VDecode(b[1:], &j) == nil && j.Node == "a" {
				js = append(js, uint64(j.LTime))
			}
		}
	}
	return js
}

// c03alive checks the first half of the statement at a quiescent point.
func c03alive(n *world.Node) string {
	if n.S.State() != serf.SerfAlive {
		return ""
	}
	if st := n.S.LocalMember().Status; st != serf.StatusAlive {
		return fmt.Sprintf("LocalMember().Status is %s while State() is alive", st)
	}
	found := false
	for _, m := range n.S.Members() {
		if m.Name == "a" {
			found = true
			if m.Status != serf.StatusAlive {
				return fmt.Sprintf("Members() lists the local node as %s while State() is alive", m.Status)
			}
		}
	}
	if !found {
		return "Members() does not list the local node while State() is alive"
	}
	return ""
}

func init() {
	vc.Register(&vc.Check{
		ID:    "C03",
		Level: "model_checking",
		Rule:  "histories: every sequence (length 3 quick; length 4 thorough; shorter ones are checked as prefixes) over an alphabet of claims that the local node 'a' has left -- leave intents by gossip (Delegate.NotifyMsg, Prune false/true), state-sync merges listing 'a' as left (Delegate.MergeRemoteState, join flag false/true), local RemoveFailedNode('a')/RemoveFailedNodePrune('a'), a real Serf.Join whose push/pull reply lists 'a' as left -- with Lamport times from {0, join-1, join, join+1, clock, clock+5, 2^40} resolved against the reference model's latest own join and the node's clock at the preceding quiescent point, interleaved with the node's own Serf.Join (in-memory push/pull responder), UserEvent and join intents about 'a' arriving by gossip; each history on a fresh real node, with and without a known alive peer; the oracle runs after every step (after the spawned refutation thread has run to completion); a state is the canonical private state (status, status times, clock relation, intents) after a history; non-trivial = history with at least one claim newer than the latest own join (a refutation was due). schedules: delay-bounded exploration (bound 2 quick, 3 thorough) of a network thread delivering two claims, a push/pull thread merging a third, and an application thread calling UserEvent and Join and reading LocalMember()/Members() in between, interleaved with the refutation threads serf spawns; same oracle at the end (and at every look of the application thread)",
		Assumptions: []string{
			"one node over an inert real memberlist; 'the member's own latest join' is the largest Lamport time of a join intent about itself that the node has put on its broadcast queue (0 before the first one); this coincides with its recorded status time",
			"a claim needs no refutation when its time is <= the latest own join (that join already outranks it everywhere)",
			"the broadcast queue is read after the node is quiescent: the refutation is produced by a thread the handler spawns",
			"schedule scenarios use claim times (5, 9, 2^40) that can never equal the time of a join the node produces (1, 2, or a claim time + 1 or + 2), so 'a join strictly newer than the claim was queued' is exact at the end of the run without knowing the arrival order",
			"Lamport times near 2^64 are excluded (clock wrap is C19's finding)",
		},
		Run: c03run,
	})
}

func c03alphabet(depth int, thorough bool) []c03act {
	rels := []string{"0", "join-1", "join", "join+1", "clock", "clock+5", "big"}
	var acts []c03act
	for _, r := range rels {
		acts = append(acts, c03act{kind: "msg", rel: r})
	}
	pr := rels
	if depth >= 4 {
		pr = []string{"join", "join+1", "clock+5"}
	}
	for _, r := range pr {
		acts = append(acts, c03act{kind: "msg", rel: r, prune: true})
	}
	mr := []string{"join", "join+1", "clock", "clock+5", "big"}
	if depth >= 4 {
		mr = []string{"join+1", "clock+5"}
	}
	for _, r := range mr {
		acts = append(acts, c03act{kind: "merge", rel: r})
	}
	acts = append(acts, c03act{kind: "merge", rel: "join+1", isJoin: true})
	if depth < 4 {
		acts = append(acts, c03act{kind: "merge", rel: "clock+5", isJoin: true})
	}
	acts = append(acts, c03act{kind: "force"}, c03act{kind: "force", prune: true})
	acts = append(acts, c03act{kind: "join"}, c03act{kind: "join", rel: "clock+5"})
	if depth < 4 {
		acts = append(acts, c03act{kind: "join", rel: "join+1"})
	}
	acts = append(acts, c03act{kind: "user"})
	acts = append(acts, c03act{kind: "echo", rel: "join"}, c03act{kind: "echo", rel: "clock+5"})
	return acts
}

func c03run(ctx *vc.Ctx) {
	depth := 3
	if ctx.Thorough() {
		depth = 4
	}
	for _, peer := range []bool{false, true} {
		name := "histories/no-peer"
		if peer {
			name = "histories/alive-peer"
		}
		scn := ctx.Scn(name, "states")
		acts := c03alphabet(depth, ctx.Thorough())
		seq := make([]int, depth)
		idx := 0
		for {
			idx++
			if ctx.Mine(idx) {
				c03one(ctx, scn, peer, acts, seq)
			}
			k := depth - 1
			for k >= 0 {
				seq[k]++
				if seq[k] < len(acts) {
					break
				}
				seq[k] = 0
				k--
			}
			if k < 0 {
				break
			}
		}
	}
	c03schedules(ctx)
}

func c03dial(node *world.Node, user []byte) func(memberlist.Address) (net.Conn, error) {
	return func(ad memberlist.Address) (net.Conn, error) {
		return world.NewPushPullConn(func(req []byte) []byte {
			return world.EncodePushPull([]world.Peer{world.AlivePeer("b", 1, serf.VEncodeTags(node.S, nil))}, user, false)
		}), nil
	}
}

func c03one(ctx *vc.Ctx, scn *vc.Scenario, peer bool, acts []c03act, seq []int) {
	var hist []string
	var viol, sig string
	nontrivial := false
	var final string
	x := vsched.Run(vsched.RunOpts{MaxSteps: 400000}, func() {
		node, err := world.NewNode("a", 0)
		if err != nil {
			panic(err)
		}
		if peer {
			node.Events().NotifyJoin(node.MLNode("b", 1, nil))
		}
		vsched.Quiesce()
		node.Outbox()
		m := &c03model{}
		for _, ai := range seq {
			a := acts[ai]
			// blocking steps (force-leave waits for its broadcast, bounded by BroadcastTimeout)
			vsched.SetHorizon(vsched.Elapsed() + int64(2*time.Second))
			var claims []uint64 // claim times that are newer than the latest own join
			m.clock = serf.VDump(node.S).Clock
			desc := a.String()
			switch a.kind {
			case "msg":
				l := m.resolve(a.rel)
				desc = fmt.Sprintf("leave-msg(%s=%d,prune=%v)", a.rel, l, a.prune)
				if m.claim(l) {
					claims = append(claims, l)
				}
				node.Delegate().NotifyMsg(serf.VEncode(serf.VMsgLeave, &serf.VMessageLeave{LTime: serf.LamportTime(l), Node: "a", Prune: a.prune}))
			case "merge":
				l := m.resolve(a.rel)
				if l == 0 {
					l = 1
				}
				desc = fmt.Sprintf("merge-left(%s=%d,join=%v)", a.rel, l, a.isJoin)
				if m.claim(l) {
					claims = append(claims, l)
				}
				node.Delegate().MergeRemoteState(c03leftPushPull(l), a.isJoin)
			case "force":
				l := m.clock
				desc = fmt.Sprintf("force-leave-self(time %d,prune=%v)", l, a.prune)
				if m.claim(l) {
					claims = append(claims, l)
				}
				// the error (broadcast not sent within BroadcastTimeout on the inert network) is irrelevant here
				if a.prune {
					_ = node.S.RemoveFailedNodePrune("a")
				} else {
					_ = node.S.RemoveFailedNode("a")
				}
			case "join":
				user := c03plainPushPull()
				if a.rel != "" {
					l := m.resolve(a.rel)
					if l == 0 {
						l = 1
					}
					desc = fmt.Sprintf("Join(reply lists a as left at %s=%d)", a.rel, l)
					if m.claim(l) {
						claims = append(claims, l)
					}
					user = c03leftPushPull(l)
				}
				node.Tr.Dial = c03dial(node, user)
				if _, err := node.S.Join([]string{"b/10.0.0.2:7946"}, false); err != nil {
					viol, sig = fmt.Sprintf("Join failed: %v", err), "harness: join failed"
					return
				}
				node.Tr.Dial = nil
			case "user":
				if err := node.S.UserEvent("u", []byte("p"), false); err != nil {
					viol, sig = fmt.Sprintf("UserEvent failed: %v", err), "harness: user event failed"
					return
				}
			case "echo":
				l := m.resolve(a.rel)
				desc = fmt.Sprintf("join-msg-about-self(%s=%d)", a.rel, l)
				node.Delegate().NotifyMsg(serf.VEncode(serf.VMsgJoin, &serf.VMessageJoin{LTime: serf.LamportTime(l), Node: "a"}))
			}
			hist = append(hist, desc)
			vsched.Quiesce()
			joins := c03joins(node.Outbox())
			if msg := c03alive(node); msg != "" {
				viol, sig = fmt.Sprintf("history %v: %s", hist, msg), "self-not-alive after "+a.kind
				break
			}
			for _, l := range claims {
				nontrivial = true
				ok := false
				for _, j := range joins {
					if j > l {
						ok = true
					}
				}
				if !ok {
					what := "no join intent about itself was broadcast"
					if len(joins) > 0 {
						what = fmt.Sprintf("the join intents it broadcast carry times %v, none strictly greater", joins)
					}
					viol = fmt.Sprintf("history %v: the claim at Lamport time %d is newer than the node's latest own join (%d) but %s", hist, l, m.latestJoin, what)
					sig = "newer-claim-not-refuted via " + a.kind
					if len(joins) > 0 {
						sig = "refutation-not-newer-than-claim via " + a.kind
					}
				}
			}
			if viol != "" {
				break
			}
			for _, j := range joins {
				if j > m.latestJoin {
					m.latestJoin = j
				}
			}
		}
		st := serf.VDump(node.S)
		var ms []string
		for _, x := range st.Members {
			ms = append(ms, fmt.Sprintf("%s:%s:%d", x.Name, x.Status, x.StatusLTime))
		}
		final = fmt.Sprintf("%s clock=%d %v intents=%v ev=%d", st.State, st.Clock, ms, st.Intents, st.EventClock)
		node.S.Shutdown()
	})
	if len(x.Panics) > 0 {
		viol, sig = fmt.Sprintf("history %v: panic %s\n%s", hist, x.Panics[0].Value, x.Panics[0].Stack), "panic "+x.Panics[0].Frame
	} else if !x.RootDone && viol == "" {
		viol, sig = fmt.Sprintf("history %v: the node did not finish the step: blocked %+v", hist, x.Blocked), "step-blocked"
	}
	scn.Transitions += len(seq)
	scn.AddState(final)
	out := "ok"
	if nontrivial {
		out = "ok-refuted"
	}
	if viol != "" {
		out = sig
		ctx.Violation(scn.Name, sig, viol, map[string]interface{}{"peer": peer, "history": hist})
	}
	scn.Case(out, nontrivial)
	if len(scn.Samples) < 2 && nontrivial {
		scn.Sample(map[string]interface{}{"peer": peer, "history": hist, "final_state": final})
	}
}

// ---- schedules ---------------------------------------------------------------

type c03claim struct {
	via   string // msg | merge
	l     uint64
	prune bool
}

func (c c03claim) String() string {
	if c.via == "merge" {
		return fmt.Sprintf("merge-left(%d)", c.l)
	}
	return fmt.Sprintf("leave-msg(%d,prune=%v)", c.l, c.prune)
}

type c03sched struct {
	name    string
	preJoin bool       // the node has joined (own join at time 1) before the claims arrive
	net     []c03claim // delivered serially by the network thread
	pp      []c03claim // merged by the push/pull thread
	appJoin bool       // the application thread also calls Join
}

func c03schedules(ctx *vc.Ctx) {
	bound := 2
	if ctx.Thorough() {
		bound = 3
	}
	big := uint64(1) << 40
	scs := []c03sched{
		{name: "sched/same-claim-twice", preJoin: true, net: []c03claim{{"msg", 5, false}, {"msg", 5, false}}},
		{name: "sched/rising-claims", preJoin: true, net: []c03claim{{"msg", 5, false}, {"msg", 9, true}}},
		{name: "sched/falling-claims", net: []c03claim{{"msg", 9, true}, {"msg", 5, false}}},
		{name: "sched/gossip-vs-merge", preJoin: true, net: []c03claim{{"msg", 5, true}}, pp: []c03claim{{"merge", 9, false}}},
		{name: "sched/merge-vs-gossip-same", net: []c03claim{{"msg", 5, false}}, pp: []c03claim{{"merge", 5, false}}},
		{name: "sched/claims-vs-own-join", preJoin: true, net: []c03claim{{"msg", 5, false}, {"msg", 9, false}}, appJoin: true},
		{name: "sched/big-claim-vs-own-join", net: []c03claim{{"msg", big, false}, {"msg", 5, true}}, appJoin: true},
	}
	for _, sc := range scs {
		c03explore(ctx, sc, bound)
	}
}

func c03explore(ctx *vc.Ctx, sc c03sched, bound int) {
	var n *world.Node
	var joins []uint64
	var aliveMsg string
	var j0 uint64
	var errs []string
	deliver := func(c c03claim) {
		if c.via == "merge" {
			n.Delegate().MergeRemoteState(c03leftPushPull(c.l), false)
		} else {
			n.Delegate().NotifyMsg(serf.VEncode(serf.VMsgLeave, &serf.VMessageLeave{LTime: serf.LamportTime(c.l), Node: "a", Prune: c.prune}))
		}
	}
	body := func() {
		vsched.Branching(false)
		joins, aliveMsg, j0, errs = nil, "", 0, nil
		vsched.SetHorizon(int64(10 * time.Second))
		var err error
		n, err = world.NewNode("a", 0)
		if err != nil {
			panic(err)
		}
		n.Tr.Dial = c03dial(n, c03plainPushPull())
		if sc.preJoin {
			if _, err := n.S.Join([]string{"b/10.0.0.2:7946"}, false); err != nil {
				errs = append(errs, "pre-join: "+err.Error())
			}
		}
		vsched.Quiesce()
		for _, j := range c03joins(n.Outbox()) {
			if j > j0 {
				j0 = j
			}
		}
		vsched.Branching(true)
		var hs []vsched.Handle
		hs = append(hs, vsched.Spawn("network", func() {
			for _, c := range sc.net {
				deliver(c)
			}
		}))
		if len(sc.pp) > 0 {
			hs = append(hs, vsched.Spawn("pushpull", func() {
				for _, c := range sc.pp {
					deliver(c)
				}
			}))
		}
		hs = append(hs, vsched.Spawn("app", func() {
			// the application also looks at the member list while the claims are being processed
			look := func() {
				if msg := c03alive(n); msg != "" && aliveMsg == "" {
					aliveMsg = "observed by the application thread mid-run: " + msg
				}
			}
			look()
			if err := n.S.UserEvent("u", []byte("p"), false); err != nil {
				errs = append(errs, "UserEvent: "+err.Error())
			}
			look()
			if sc.appJoin {
				if _, err := n.S.Join([]string{"b/10.0.0.2:7946"}, false); err != nil {
					errs = append(errs, "Join: "+err.Error())
				}
				look()
			}
		}))
		for _, h := range hs {
			h.Join()
		}
		vsched.Branching(false)
		vsched.Quiesce()
		joins = c03joins(n.Outbox())
		if aliveMsg == "" {
			aliveMsg = c03alive(n)
		}
		n.S.Shutdown()
	}
	check := func(x *vsched.Exec) (string, string, string) {
		if len(x.Panics) > 0 {
			p := x.Panics[0]
			return "panic", "panic " + p.Value + " in " + p.Frame, p.Value + "\n" + p.Stack
		}
		if !x.RootDone {
			return "stuck", "deadlock", fmt.Sprintf("blocked: %+v", x.Blocked)
		}
		if len(errs) > 0 {
			return "harness-error", "harness: " + errs[0], strings.Join(errs, "; ")
		}
		if aliveMsg != "" {
			return "not-alive", "self-not-alive under concurrent claims", aliveMsg
		}
		var all []c03claim
		all = append(all, sc.net...)
		all = append(all, sc.pp...)
		for _, c := range all {
			if c.l <= j0 {
				continue
			}
			ok := false
			for _, j := range joins {
				if j > c.l {
					ok = true
				}
			}
			if !ok {
				return "not-refuted", "newer-claim-not-refuted under concurrent claims", fmt.Sprintf("%s: claim %s is newer than the node's own join (%d) but the join intents it broadcast afterwards carry times %v, none strictly greater", sc.name, c, j0, joins)
			}
		}
		js := append([]uint64{}, joins...)
		sort.Slice(js, func(i, k int) bool { return js[i] < js[k] })
		return fmt.Sprintf("joins=%v", js), "", ""
	}
	ctx.Explore(vc.ExploreOpts{Name: sc.name, Bound: bound, MaxSteps: 100000}, body, check)
}
