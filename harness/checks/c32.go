package checks

import (
	"bytes"
	"fmt"
	"net"
	"reflect"
	"sort"
	"strings"
	"time"

	"verifharness/vc"
	"verifharness/world"

	"github.com/hashicorp/memberlist"
	"github.com/hashicorp/serf/serf"
	"github.com/hashicorp/serf/zzverif/vsched"
)

// C32: Tags and gossip messages survive encoding unchanged.

// c32sigMagic is the one known failure class: a role-only (protocol < 3) tag
// encoding is the bare role string, and a role whose first byte is the tag magic
// byte 0xff is taken for a msgpack tag blob by every receiver.
const c32sigMagic = "tags: protocol<3 role beginning with byte 0xff is decoded as a tag blob"

func init() {
	vc.Register(&vc.Check{
		ID:    "C32",
		Level: "exploration",
		Rule: "cases: (codec/*) every message kind (leave, join, push/pull, user event, query, query response, conflict response=Member, key request, key response, node/tag filters) with every field drawn from strings {\"\", \"a\", 0xff-leading, invalid UTF-8, 300 bytes}, LTimes {0,1,2^32,2^63,2^64-1}, byte slices {nil, empty, 1 byte, non-UTF-8, 300 bytes} (thorough: also lengths 31/32/255/256/65535/65536 and integer width boundaries), full products per kind (query: product of all string/bytes fields x product of all numeric fields around two bases), both sender time-format flags; encode with the real encoder, decode with the real decoder into a fresh value, compare (nil == empty). " +
			"(delegate/*) the same kinds delivered through the real delegate of a receiver of every protocol version 2..5 (NotifyMsg / MergeRemoteState) and compared at the observable the application or the next hop sees (intent table, member status, EventCh, ack and reply packets and their destination, QueryResponse channels). " +
			"(e2e/*) real sender API (UserEvent, Query with node+tag filters, Respond with relay factor 0/1, LocalState) -> wire bytes -> real receiver; the relay hop runs on a third real node; both outcomes of the random relay pick are run. " +
			"(relay/forward) 120 relay headers (name x IPv4/IPv4-in-16/IPv6/nil x port x zone) x 833 trailing byte strings (every reply encoding, three replies in non-canonical msgpack form, every first byte 0..255 x 3 tails): forwarded packet == trailing bytes exactly and goes to header destination. " +
			"(tags/*) 407 tag maps (nil, empty, all 1-entry and 2-entry maps over 6 keys x 5 values) x sender version 2..5 x receiver version 2..5 at the codec, and through Create/NodeMeta/NotifyJoin/SetTags/NotifyUpdate into the receiver's member table; (tags/limit) tag maps of 5 shapes whose encoding is 505..520 bytes at every version through Create and SetTags. " +
			"non-trivial = case with at least one non-zero field / non-empty tag map / encoded length within 8 bytes of the limit; codec/received-values-stay: a query response, user event or query that was decoded and handed to the application is re-read after the next message of that kind (every ordered pair of 10 payloads of length 0..40) has been received",
		Assumptions: []string{
			"equivalence: nil and empty byte slices, slices and maps are the same value; everything else must be identical",
			"protocol < 3 senders carry only tags[\"role\"]: the decoded map must have that role and no other key",
			"a tag set is 'accepted' when Create/SetTags returns nil; the statement is an only-if, so a rejected tag set that would have fitted is recorded as an outcome, not a violation; a rejected tag set must not become the advertised metadata",
			"memberlist is the real library over a recording transport; the packet handed to the transport is what reaches the destination",
			"conflict and key responses are covered at the codec and as opaque reply payloads, not through the internal query handlers",
		},
		Run: c32run,
	})
}

// ---------------------------------------------------------------------------
// domains

func c32strs(thorough bool) []string {
	s := []string{"", "a", "\xffab", "\xc3\x28", strings.Repeat("s", 300)}
	if thorough {
		for _, n := range []int{31, 32, 255, 256, 65535, 65536} {
			s = append(s, strings.Repeat("x", n))
		}
	}
	return s
}

func c32lts(thorough bool) []uint64 {
	l := []uint64{0, 1, 1 << 32, 1 << 63, ^uint64(0)}
	if thorough {
		l = append(l, 127, 128, 255, 256, 65535, 65536, 1<<32-1)
	}
	return l
}

func c32payloads(thorough bool) [][]byte {
	p := [][]byte{nil, {}, {0}, {0xff, 0xc3, 0x28, 0x00}, bytes.Repeat([]byte{0xa5}, 300)}
	if thorough {
		for _, n := range []int{31, 32, 255, 256, 65535, 65536} {
			p = append(p, bytes.Repeat([]byte{0x5a}, n))
		}
	}
	return p
}

var c32ips = []net.IP{nil, {10, 0, 0, 9}, net.IPv4(10, 0, 0, 9), net.ParseIP("2001:db8::1")}

// c32equiv compares two values structurally; nil and empty containers are equal.
func c32equiv(a, b reflect.Value) bool {
	if a.Type() != b.Type() {
		return false
	}
	switch a.Kind() {
	case reflect.Ptr, reflect.Interface:
		if a.IsNil() || b.IsNil() {
			return a.IsNil() == b.IsNil()
		}
		return c32equiv(a.Elem(), b.Elem())
	case reflect.Slice, reflect.Array:
		if a.Len() != b.Len() {
			return false
		}
		for i := 0; i < a.Len(); i++ {
			if !c32equiv(a.Index(i), b.Index(i)) {
				return false
			}
		}
		return true
	case reflect.Map:
		if a.Len() != b.Len() {
			return false
		}
		for _, k := range a.MapKeys() {
			bv := b.MapIndex(k)
			if !bv.IsValid() || !c32equiv(a.MapIndex(k), bv) {
				return false
			}
		}
		return true
	case reflect.Struct:
		for i := 0; i < a.NumField(); i++ {
			if !c32equiv(a.Field(i), b.Field(i)) {
				return false
			}
		}
		return true
	case reflect.String:
		return a.String() == b.String()
	case reflect.Bool:
		return a.Bool() == b.Bool()
	case reflect.Int, reflect.Int8, reflect.Int16, reflect.Int32, reflect.Int64:
		return a.Int() == b.Int()
	case reflect.Uint, reflect.Uint8, reflect.Uint16, reflect.Uint32, reflect.Uint64:
		return a.Uint() == b.Uint()
	}
	return false
}

func c32bytesEq(a, b []byte) bool { return bytes.Equal(a, b) } // nil == empty

func c32isZero(v reflect.Value) bool {
	switch v.Kind() {
	case reflect.Ptr, reflect.Interface:
		return v.IsNil() || c32isZero(v.Elem())
	case reflect.Slice, reflect.Map, reflect.String:
		return v.Len() == 0
	case reflect.Struct:
		for i := 0; i < v.NumField(); i++ {
			if !c32isZero(v.Field(i)) {
				return false
			}
		}
		return true
	}
	return v.IsZero()
}

func c32short(v interface{}) string {
	s := fmt.Sprintf("%+q", fmt.Sprintf("%+v", v))
	if len(s) > 600 {
		s = s[:300] + "..." + s[len(s)-200:]
	}
	return s
}

// c32roundtrip encodes msg (pointer to a message struct) with the real encoder
// and decodes it with the real decoder into a fresh value.
func c32roundtrip(kind uint8, msg interface{}, newTime bool) (detail string) {
	defer func() {
		if r := recover(); r != nil {
			detail = fmt.Sprintf("panic: %v", r)
		}
	}()
	b, err := serf.VEncodeFmt(kind, msg, newTime)
	if err != nil {
		return "encode error: " + err.Error()
	}
	if len(b) == 0 || b[0] != kind {
		return fmt.Sprintf("type byte is not %d", kind)
	}
	out := reflect.New(reflect.TypeOf(msg).Elem())
	if err := serf.VDecode(b[1:], out.Interface()); err != nil {
		return "decode error: " + err.Error()
	}
	if !c32equiv(reflect.ValueOf(msg).Elem(), out.Elem()) {
		return "decoded value differs: got " + c32short(out.Elem().Interface())
	}
	return ""
}

type c32gen struct {
	ctx      *vc.Ctx
	idx      *int
	thorough bool
}

// sample records a written-out case once (shard 0).
func (g *c32gen) sample(scn *vc.Scenario, v interface{}) {
	if g.ctx.Shard == 0 {
		scn.Sample(v)
	}
}

func (g *c32gen) mine() bool {
	*g.idx++
	return g.ctx.Mine(*g.idx)
}

// ---------------------------------------------------------------------------

func c32run(ctx *vc.Ctx) {
	idx := 0
	g := &c32gen{ctx: ctx, idx: &idx, thorough: ctx.Thorough()}
	c32codec(g)
	c32tagsCodec(g)
	c32tagsMember(g)
	c32tagsLimit(g)
	c32relayForward(g)
	c32delegate(g)
	c32e2e(g)
	c32noAliasing(g)
	c32receivedStay(g)
	c32relayConcurrent(ctx)
}

// codecCase runs one codec case for both time-format flags.
func (g *c32gen) codecCase(scn *vc.Scenario, kindName string, kind uint8, msg interface{}) {
	for _, nt := range []bool{false, true} {
		if !g.mine() {
			continue
		}
		d := c32roundtrip(kind, msg, nt)
		out := "equal"
		if d != "" {
			out = "differs"
			g.ctx.Violation(scn.Name, "codec: "+kindName+" does not round-trip", fmt.Sprintf("%s %s (newTimeFormat=%v): %s", kindName, c32short(msg), nt, d), map[string]interface{}{"kind": kindName, "msg": c32short(msg), "newTime": nt})
		}
		scn.Case(out, !c32isZero(reflect.ValueOf(msg)))
	}
}

func c32codec(g *c32gen) {
	T := g.thorough
	strs, lts, pls := c32strs(T), c32lts(T), c32payloads(T)
	lt := func(v uint64) serf.LamportTime { return serf.LamportTime(v) }

	scn := g.ctx.Scn("codec/join+leave", "cases")
	for _, l := range lts {
		for _, s := range strs {
			g.codecCase(scn, "join", serf.VMsgJoin, &serf.VMessageJoin{LTime: lt(l), Node: s})
			for _, p := range []bool{false, true} {
				g.codecCase(scn, "leave", serf.VMsgLeave, &serf.VMessageLeave{LTime: lt(l), Node: s, Prune: p})
			}
		}
	}
	g.sample(scn, "leave{LTime:2^63 Node:\"\\xffab\" Prune:true} -> identical")

	scn = g.ctx.Scn("codec/user-event", "cases")
	for _, l := range lts {
		for _, s := range strs {
			for _, p := range pls {
				for _, cc := range []bool{false, true} {
					g.codecCase(scn, "user event", serf.VMsgUserEvent, &serf.VMessageUserEvent{LTime: lt(l), Name: s, Payload: p, CC: cc})
				}
			}
		}
	}
	g.sample(scn, "userEvent{LTime:2^64-1 Name:\"\\xc3(\" Payload:[]} -> Payload nil (equivalent)")

	ids := []uint32{0, 1, 1 << 31, ^uint32(0)}
	flags := []uint32{0, 1, 2, ^uint32(0)}
	scn = g.ctx.Scn("codec/query-response", "cases")
	for _, l := range lts {
		for _, id := range ids {
			for _, s := range strs {
				for _, f := range flags {
					for _, p := range pls {
						g.codecCase(scn, "query response", serf.VMsgQueryResponse, &serf.VMessageQueryResponse{LTime: lt(l), ID: id, From: s, Flags: f, Payload: p})
					}
				}
			}
		}
	}

	// query: product over string/bytes fields, product over numeric fields, two bases
	scn = g.ctx.Scn("codec/query", "cases")
	filters := [][][]byte{nil, {}, {{}}, {serf.VEncodeFilter(serf.VFilterNodeType, serf.VFilterNode{"a", "\xffab"}), serf.VEncodeFilter(serf.VFilterTagType, &serf.VFilterTag{Tag: "\xc3\x28", Expr: ""})}}
	ports := []uint16{0, 7946, 65535}
	relays := []uint8{0, 1, 255}
	timeouts := []time.Duration{0, 1, -1, 15 * time.Second, 1<<63 - 1, -1 << 63}
	bases := []serf.VMessageQuery{
		{},
		{LTime: lt(1 << 40), ID: 77, Addr: []byte{10, 0, 0, 1}, Port: 7946, SourceNode: "src", Filters: filters[3], Flags: 1, RelayFactor: 2, Timeout: time.Second, Name: "q", Payload: []byte("p")},
	}
	for _, base := range bases {
		for _, src := range strs {
			for _, name := range strs {
				for _, p := range pls {
					for _, ip := range c32ips {
						for _, fl := range filters {
							q := base
							q.SourceNode, q.Name, q.Payload, q.Addr, q.Filters = src, name, p, []byte(ip), fl
							g.codecCase(scn, "query", serf.VMsgQuery, &q)
						}
					}
				}
			}
		}
		for _, l := range lts {
			for _, id := range ids {
				for _, port := range ports {
					for _, f := range flags {
						for _, r := range relays {
							for _, to := range timeouts {
								q := base
								q.LTime, q.ID, q.Port, q.Flags, q.RelayFactor, q.Timeout = lt(l), id, port, f, r, to
								g.codecCase(scn, "query", serf.VMsgQuery, &q)
							}
						}
					}
				}
			}
		}
	}
	g.sample(scn, "query{LTime:2^63 ID:2^32-1 Port:65535 Flags:2^32-1 RelayFactor:255 Timeout:-2^63 ...} -> identical")

	// push/pull
	scn = g.ctx.Scn("codec/push-pull", "cases")
	big := strs[4]
	statuses := []map[string]serf.LamportTime{nil, {}, {"": 0}, {"a": 1, "\xffab": lt(^uint64(0)), "\xc3\x28": lt(1 << 63)}, {big: lt(1 << 32)}}
	lefts := [][]string{nil, {}, {""}, {"a", "\xffab", big}}
	evs := [][]*serf.VUserEvents{
		nil, {}, {nil},
		{{LTime: 1}},
		{nil, {LTime: lt(^uint64(0)), Events: []serf.VUserEvent{{Name: "", Payload: nil}, {Name: "\xffab", Payload: []byte{}}, {Name: big, Payload: pls[4]}}}, nil, {LTime: lt(1 << 32), Events: []serf.VUserEvent{{Name: "\xc3\x28", Payload: pls[3]}}}},
	}
	lts3 := []uint64{0, 1 << 32, ^uint64(0)}
	for _, l := range lts {
		for _, st := range statuses {
			for _, lf := range lefts {
				for _, el := range lts3 {
					for _, ev := range evs {
						for _, ql := range lts3 {
							g.codecCase(scn, "push/pull", serf.VMsgPushPull, &serf.VMessagePushPull{LTime: lt(l), StatusLTimes: st, LeftMembers: lf, EventLTime: lt(el), Events: ev, QueryLTime: lt(ql)})
						}
					}
				}
			}
		}
	}
	g.sample(scn, "pushPull{StatusLTimes:{\"\\xffab\":2^64-1,...} Events:[nil,{LTime:2^64-1 Events:[{\"\" nil},...]},nil,...]} -> identical")

	// conflict response (Member), key request/response, filters
	scn = g.ctx.Scn("codec/member+key+filter", "cases")
	tagsets := []map[string]string{nil, {}, {"role": "\xffab"}, {"": "", "\xc3\x28": big}}
	for _, s := range strs {
		for _, ip := range c32ips {
			for _, port := range ports {
				for _, tg := range tagsets {
					for _, status := range []serf.MemberStatus{serf.StatusNone, serf.StatusAlive, serf.StatusLeaving, serf.StatusLeft, serf.StatusFailed, -1} {
						for _, pb := range []uint8{0, 5, 255} {
							g.codecCase(scn, "conflict response", serf.VMsgConflictResponse, &serf.Member{Name: s, Addr: ip, Port: port, Tags: tg, Status: status, ProtocolMin: pb, ProtocolMax: 255 - pb, ProtocolCur: pb, DelegateMin: 255 - pb, DelegateMax: pb, DelegateCur: 255 - pb})
						}
					}
				}
			}
		}
	}
	for _, p := range pls {
		g.codecCase(scn, "key request", serf.VMsgKeyRequest, &serf.VKeyRequest{Key: p})
	}
	keysets := [][]string{nil, {}, {""}, {"a", "\xffab", big}}
	for _, r := range []bool{false, true} {
		for _, m := range strs {
			for _, ks := range keysets {
				for _, pk := range strs {
					g.codecCase(scn, "key response", serf.VMsgKeyResponse, &serf.VNodeKeyResponse{Result: r, Message: m, Keys: ks, PrimaryKey: pk})
				}
			}
		}
	}
	// filters use their own one-byte type prefix and the same decoder
	for _, a := range strs {
		for _, b := range strs {
			if !g.mine() {
				continue
			}
			bad := ""
			ft := serf.VFilterTag{Tag: a, Expr: b}
			var got serf.VFilterTag
			enc := serf.VEncodeFilter(serf.VFilterTagType, &ft)
			if enc[0] != serf.VFilterTagType || serf.VDecode(enc[1:], &got) != nil || got != ft {
				bad = fmt.Sprintf("tag filter %+q decoded as %+q", ft, got)
			}
			fn := serf.VFilterNode{a, b, a}
			var gotn serf.VFilterNode
			enc = serf.VEncodeFilter(serf.VFilterNodeType, fn)
			if enc[0] != serf.VFilterNodeType || serf.VDecode(enc[1:], &gotn) != nil || !reflect.DeepEqual(fn, gotn) {
				bad = fmt.Sprintf("node filter %+q decoded as %+q", fn, gotn)
			}
			out := "equal"
			if bad != "" {
				out = "differs"
				g.ctx.Violation(scn.Name, "codec: filter does not round-trip", bad, nil)
			}
			scn.Case(out, a != "" || b != "")
		}
	}
}

// ---------------------------------------------------------------------------
// tags

type c32node struct {
	pv      uint8
	newTime bool
}

func (c c32node) opt(more ...world.Opt) world.Opt {
	return func(cf *serf.Config) {
		cf.ProtocolVersion = c.pv
		cf.MsgpackUseNewTimeFormat = c.newTime
		cf.UserEventSizeLimit = 9216
		cf.QuerySizeLimit = 1 << 20
		cf.QueryResponseSizeLimit = 1 << 20
		for _, o := range more {
			o(cf)
		}
	}
}

func c32tagMaps() []map[string]string {
	keys := []string{"", "a", "role", "\xffk", "\xc3\x28", strings.Repeat("k", 300)}
	vals := []string{"", "v", "\xffv", "\xc3\x28", strings.Repeat("v", 300)}
	out := []map[string]string{nil, {}}
	for _, k := range keys {
		for _, v := range vals {
			out = append(out, map[string]string{k: v})
		}
	}
	for i := range keys {
		for j := i + 1; j < len(keys); j++ {
			for _, v1 := range vals {
				for _, v2 := range vals {
					out = append(out, map[string]string{keys[i]: v1, keys[j]: v2})
				}
			}
		}
	}
	return out
}

func c32tagStr(t map[string]string) string {
	if t == nil {
		return "nil"
	}
	var ks []string
	for k := range t {
		ks = append(ks, k)
	}
	sort.Strings(ks)
	var sb strings.Builder
	sb.WriteString("{")
	for _, k := range ks {
		v := t[k]
		f := func(s string) string {
			if len(s) > 40 {
				return fmt.Sprintf("%+q...(%d bytes)", s[:8], len(s))
			}
			return fmt.Sprintf("%+q", s)
		}
		sb.WriteString(f(k) + ":" + f(v) + " ")
	}
	return sb.String() + "}"
}

// c32tagsVerdict compares what a receiver decoded with what the sender (protocol
// version vs) encoded. Returns ("", "") when equivalent.
func c32tagsVerdict(tags, got map[string]string, vs uint8) (sig, why string) {
	if vs >= 3 {
		if len(got) != len(tags) {
			return "tags: full tag map does not round-trip", fmt.Sprintf("decoded %s", c32tagStr(got))
		}
		for k, v := range tags {
			if gv, ok := got[k]; !ok || gv != v {
				return "tags: full tag map does not round-trip", fmt.Sprintf("decoded %s", c32tagStr(got))
			}
		}
		return "", ""
	}
	role := tags["role"]
	ok := got["role"] == role
	for k := range got {
		if k != "role" {
			ok = false
		}
	}
	if ok {
		return "", ""
	}
	if len(role) > 0 && role[0] == serf.VTagMagicByte {
		return c32sigMagic, fmt.Sprintf("decoded %s", c32tagStr(got))
	}
	return "tags: role-only encoding does not round-trip", fmt.Sprintf("decoded %s", c32tagStr(got))
}

// c32exec runs body under the scheduler and classifies crashes.
func c32exec(ctx *vc.Ctx, scn string, prefix []int, what string, body func()) bool {
	x := vsched.Run(vsched.RunOpts{Prefix: prefix, MaxSteps: 2000000}, body)
	if len(x.Panics) > 0 {
		p := x.Panics[0]
		if strings.Contains(p.Frame, "verifharness/") {
			ctx.Fail("%s: harness panic in %s: %s\n%s", scn, what, p.Value, p.Stack)
			return false
		}
		ctx.Violation(scn, "panic in "+p.Frame, fmt.Sprintf("%s: panic %s\n%s", what, p.Value, p.Stack), map[string]string{"case": what})
		return false
	}
	if !x.RootDone {
		ctx.Fail("%s: %s did not finish (cap=%v blocked=%+v)", scn, what, x.CapHit, x.Blocked)
		return false
	}
	return true
}

func c32must(n *world.Node, err error) *world.Node {
	if err != nil {
		panic("verifharness/ node creation failed: " + err.Error())
	}
	return n
}

func c32tagsCodec(g *c32gen) {
	scn := g.ctx.Scn("tags/codec", "cases")
	maps := c32tagMaps()
	if g.ctx.Shard != 0 && g.ctx.NShards > 1 {
		return
	}
	c32exec(g.ctx, scn.Name, nil, "tags/codec", func() {
		vsched.Branching(false)
		nodes := map[uint8]*world.Node{}
		for pv := uint8(2); pv <= 5; pv++ {
			nodes[pv] = c32must(world.NewNode(fmt.Sprintf("n%d", pv), int(pv), c32node{pv: pv}.opt()))
		}
		for vs := uint8(2); vs <= 5; vs++ {
			for vr := uint8(2); vr <= 5; vr++ {
				for _, tags := range maps {
					enc := serf.VEncodeTags(nodes[vs].S, tags)
					got := serf.VDecodeTags(nodes[vr].S, enc)
					sig, why := c32tagsVerdict(tags, got, vs)
					out := "equivalent"
					if sig != "" {
						out = sig
						g.ctx.Violation(scn.Name, sig, fmt.Sprintf("sender protocol %d encodes tags %s as %d bytes %+q; receiver protocol %d: %s", vs, c32tagStr(tags), len(enc), c32clip(enc), vr, why), map[string]interface{}{"sender": vs, "receiver": vr, "tags": c32tagStr(tags)})
					}
					scn.Case(out, len(tags) > 0)
				}
			}
		}
		for _, n := range nodes {
			n.S.Shutdown()
		}
	})
	g.sample(scn, "sender v2 {\"role\":\"v\" \"a\":\"x\"} -> receiver v5 {\"role\":\"v\"}")
	g.sample(scn, "sender v4 {\"\\xffk\":\"\\xc3(\" \"role\":300 bytes} -> receiver v2 identical map")
}

func c32clip(b []byte) []byte {
	if len(b) > 48 {
		return b[:48]
	}
	return b
}

func c32memberTags(n *world.Node, name string) (map[string]string, bool) {
	for _, m := range n.S.Members() {
		if m.Name == name {
			return m.Tags, true
		}
	}
	return nil, false
}

func c32tagsMember(g *c32gen) {
	scn := g.ctx.Scn("tags/member-table", "cases")
	var maps []map[string]string
	for _, m := range c32tagMaps() {
		_, hasRole := m["role"]
		if len(m) <= 1 || hasRole {
			maps = append(maps, m)
		}
	}
	for vs := uint8(2); vs <= 5; vs++ {
		for vr := uint8(2); vr <= 5; vr++ {
			for mi, tags := range maps {
				if !g.mine() {
					continue
				}
				tags2 := maps[(mi*7+3)%len(maps)]
				out := "equivalent"
				what := fmt.Sprintf("sender v%d tags %s then SetTags %s, receiver v%d", vs, c32tagStr(tags), c32tagStr(tags2), vr)
				report := func(sig, msg string) {
					out = sig
					g.ctx.Violation(scn.Name, sig, what+": "+msg, map[string]interface{}{"sender": vs, "receiver": vr, "tags": c32tagStr(tags), "tags2": c32tagStr(tags2)})
				}
				c32exec(g.ctx, scn.Name, nil, what, func() {
					vsched.Branching(false)
					snd, err := world.NewNode("snd", 0, c32node{pv: vs}.opt(func(c *serf.Config) { c.Tags = tags }))
					if err != nil {
						// only legitimate when the encoding does not fit
						h := c32must(world.NewNode("h", 3, c32node{pv: vs}.opt()))
						if len(serf.VEncodeTags(h.S, tags)) <= memberlist.MetaMaxSize {
							out = "create-rejected-though-fits"
						} else {
							out = "create-rejected-oversize"
						}
						h.S.Shutdown()
						return
					}
					rcv := c32must(world.NewNode("rcv", 1, c32node{pv: vr}.opt()))
					node := rcv.MLNode("snd", 0, nil)
					node.DCur = vs
					node.Meta = snd.Delegate().NodeMeta(memberlist.MetaMaxSize)
					rcv.Events().NotifyJoin(node)
					vsched.Quiesce()
					got, ok := c32memberTags(rcv, "snd")
					if !ok {
						report("tags: joined member missing", "member snd not in the receiver's member list")
					} else if sig, why := c32tagsVerdict(tags, got, vs); sig != "" {
						report(sig, "after NotifyJoin the receiver's member table has: "+why)
					}
					if err := snd.S.SetTags(tags2); err == nil {
						node2 := rcv.MLNode("snd", 0, nil)
						node2.DCur = vs
						node2.Meta = snd.Delegate().NodeMeta(memberlist.MetaMaxSize)
						rcv.Events().NotifyUpdate(node2)
						vsched.Quiesce()
						got, _ := c32memberTags(rcv, "snd")
						if sig, why := c32tagsVerdict(tags2, got, vs); sig != "" {
							report(sig, "after SetTags+NotifyUpdate the receiver's member table has: "+why)
						}
						// the sender's own view of itself went through the same codec
						own, _ := c32memberTags(snd, "snd")
						if sig, why := c32tagsVerdict(tags2, own, vs); sig != "" {
							report(sig, "the sender's own member entry after SetTags has: "+why)
						}
					} else if out == "equivalent" {
						out = "equivalent;settags-rejected"
					}
					// the sender goes down and comes back (a new process) with a third tag set: the
					// receiver must then hold exactly that set (no key of the previous incarnation
					// survives), and a Member value handed out before must still read what it read
					tags3 := maps[(mi*5+1)%len(maps)]
					var held serf.Member
					for _, m := range rcv.S.Members() {
						if m.Name == "snd" {
							held = m
						}
					}
					heldWas := c32tagStr(held.Tags)
					if snd3, err := world.NewNode("snd", 0, c32node{pv: vs}.opt(func(c *serf.Config) { c.Tags = tags3 })); err == nil {
						rcv.Events().NotifyLeave(rcv.MLNode("snd", 0, nil))
						vsched.Quiesce()
						node3 := rcv.MLNode("snd", 0, nil)
						node3.DCur = vs
						node3.Meta = snd3.Delegate().NodeMeta(memberlist.MetaMaxSize)
						rcv.Events().NotifyJoin(node3)
						vsched.Quiesce()
						got, _ := c32memberTags(rcv, "snd")
						if sig, why := c32tagsVerdict(tags3, got, vs); sig != "" {
							report(sig, fmt.Sprintf("the sender went down and came back with tags %s; the receiver's member table has: %s", c32tagStr(tags3), why))
						}
						if now := c32tagStr(held.Tags); now != heldWas {
							report("tags: a Member value handed out earlier changed later", fmt.Sprintf("a Member returned by Members() read tags %s; after the member came back with %s the same value reads %s", heldWas, c32tagStr(tags3), now))
						}
						snd3.S.Shutdown()
					}
					snd.S.Shutdown()
					rcv.S.Shutdown()
				})
				scn.Case(out, len(tags) > 0 || len(tags2) > 0)
			}
		}
	}
	g.sample(scn, "sender v3 Create{\"role\":\"\\xffv\"} -> NodeMeta -> receiver v2 NotifyJoin -> Members()[snd].Tags identical; SetTags{\"a\":\"v\"} -> NotifyUpdate -> identical")
}

// c32shapes builds tag maps of a given family with a size parameter n.
var c32shapes = []struct {
	name string
	gen  func(n int) map[string]string
}{
	{"one-big-value", func(n int) map[string]string { return map[string]string{"k": strings.Repeat("v", n)} }},
	{"big-role", func(n int) map[string]string { return map[string]string{"role": strings.Repeat("r", n)} }},
	{"one-big-key", func(n int) map[string]string { return map[string]string{strings.Repeat("k", n): ""} }},
	{"many-small", func(n int) map[string]string { // n bytes of raw key+value data in 4+4 byte entries, remainder in the last value
		m := map[string]string{}
		for i := 0; i*8 < n; i++ {
			v := "vvvv"
			if rest := n - i*8; rest < 8 {
				v = strings.Repeat("v", rest)[:max(rest-4, 0)]
			}
			m[fmt.Sprintf("k%03d", i)] = v
		}
		return m
	}},
	{"role+other", func(n int) map[string]string {
		return map[string]string{"role": strings.Repeat("r", n/2), "zone": strings.Repeat("z", n-n/2)}
	}},
}

func c32tagsLimit(g *c32gen) {
	scn := g.ctx.Scn("tags/limit", "cases")
	lo, hi := 505, 520
	for pv := uint8(2); pv <= 5; pv++ {
		for _, sh := range c32shapes {
			// find, with the node's own encoder, the parameters whose encoding has each target length
			// (done inside the run of the first case; cheap)
			for _, api := range []string{"Create", "SetTags"} {
				if !g.mine() {
					continue
				}
				what := fmt.Sprintf("protocol %d shape %s via %s", pv, sh.name, api)
				c32exec(g.ctx, scn.Name, nil, what, func() {
					vsched.Branching(false)
					h := c32must(world.NewNode("h", 3, c32node{pv: pv}.opt()))
					defer h.S.Shutdown()
					seen := map[int]bool{}
					for n := 0; n <= 1200; n++ {
						tags := sh.gen(n)
						enc := serf.VEncodeTags(h.S, tags)
						L := len(enc)
						interesting := (L >= lo && L <= hi) || n == 1200 || n == 600
						if !interesting || (seen[L] && n != 1200 && n != 600) {
							continue
						}
						seen[L] = true
						fits := L <= memberlist.MetaMaxSize
						old := map[string]string{"role": "old"}
						var node *world.Node
						var err error
						if api == "Create" {
							node, err = world.NewNode("x", 0, c32node{pv: pv}.opt(func(c *serf.Config) { c.Tags = tags }))
						} else {
							node = c32must(world.NewNode("x", 0, c32node{pv: pv}.opt(func(c *serf.Config) { c.Tags = old })))
							err = node.S.SetTags(tags)
						}
						out := ""
						desc := fmt.Sprintf("%s: %d entries, raw key+value bytes %d, encoded %d bytes (limit %d)", what, len(tags), c32rawLen(tags), L, memberlist.MetaMaxSize)
						switch {
						case err == nil && !fits:
							out = "accepted-oversize"
							g.ctx.Violation(scn.Name, "tags: "+api+" accepts a tag set whose encoding exceeds the metadata limit", desc+": accepted", map[string]interface{}{"pv": pv, "shape": sh.name, "n": n})
						case err == nil:
							out = "accepted-fits"
							meta := node.Delegate().NodeMeta(memberlist.MetaMaxSize)
							if len(meta) != len(enc) { // entry order of a msgpack map is not canonical: compare length and content
								g.ctx.Violation(scn.Name, "tags: advertised metadata is not the encoding of the accepted tags", desc+fmt.Sprintf(": NodeMeta has %d bytes", len(meta)), nil)
							}
							if sig, why := c32tagsVerdict(tags, serf.VDecodeTags(h.S, meta), pv); sig != "" {
								g.ctx.Violation(scn.Name, sig, desc+": advertised metadata "+why, nil)
							}
						case fits:
							out = "rejected-though-fits"
						default:
							out = "rejected-oversize"
							if node != nil {
								meta := node.Delegate().NodeMeta(memberlist.MetaMaxSize)
								if !bytes.Equal(meta, serf.VEncodeTags(h.S, old)) {
									g.ctx.Violation(scn.Name, "tags: rejected tag set became the advertised metadata", desc+fmt.Sprintf(": SetTags returned %v but NodeMeta is now %d bytes", err, len(meta)), nil)
								}
							}
						}
						if node != nil {
							node.S.Shutdown()
						}
						scn.Case(out, L >= memberlist.MetaMaxSize-8 && L <= memberlist.MetaMaxSize+8)
					}
				})
			}
		}
	}
	g.sample(scn, "protocol 3, 57 entries of 4+4 bytes: raw 456 bytes, encoded 513 bytes -> SetTags rejected, NodeMeta unchanged")
	g.sample(scn, "protocol 2, {\"k\": 1200 bytes}: encoding is the empty role (0 bytes) -> accepted")
}

func c32rawLen(t map[string]string) int {
	n := 0
	for k, v := range t {
		n += len(k) + len(v)
	}
	return n
}

// ---------------------------------------------------------------------------
// relay forwarding at the relaying node

func c32mustEnc(kind uint8, msg interface{}, newTime bool) []byte {
	b, err := serf.VEncodeFmt(kind, msg, newTime)
	if err != nil {
		panic("verifharness/ encode: " + err.Error())
	}
	return b
}

// c32blobs are the byte strings put behind a relay header.
func c32blobs(T bool) [][]byte {
	var out [][]byte
	for _, from := range c32strs(false) {
		for _, p := range c32payloads(T) {
			for _, fl := range []uint32{0, serf.VQueryFlagAck} {
				out = append(out, c32mustEnc(serf.VMsgQueryResponse, &serf.VMessageQueryResponse{LTime: 1 << 40, ID: 1001, From: from, Flags: fl, Payload: p}, false))
			}
		}
	}
	// replies that carry another message as payload (conflict and key responses)
	inner := c32mustEnc(serf.VMsgKeyResponse, &serf.VNodeKeyResponse{Result: true, Message: "\xffm", Keys: []string{"k1", ""}, PrimaryKey: "k1"}, false)
	out = append(out, c32mustEnc(serf.VMsgQueryResponse, &serf.VMessageQueryResponse{LTime: 3, ID: 9, From: "n", Payload: inner}, true))
	inner = c32mustEnc(serf.VMsgConflictResponse, &serf.Member{Name: "n", Addr: net.IPv4(1, 2, 3, 4), Tags: map[string]string{"role": "\xff"}}, false)
	out = append(out, c32mustEnc(serf.VMsgQueryResponse, &serf.VMessageQueryResponse{LTime: 3, ID: 9, From: "n", Payload: inner}, false))
	// other kinds and arbitrary bytes: the relay must not interpret what it forwards
	out = append(out, c32mustEnc(serf.VMsgLeave, &serf.VMessageLeave{LTime: 5, Node: "x"}, false))
	out = append(out, c32mustEnc(serf.VMsgUserEvent, &serf.VMessageUserEvent{LTime: 5, Name: "e", Payload: []byte{1}}, false))
	hdr := c32mustEnc(serf.VMsgRelay, &serf.VRelayHeader{DestAddr: net.UDPAddr{IP: net.IPv4(9, 9, 9, 9), Port: 9}, DestName: "nested"}, false)
	out = append(out, append(hdr, out[0]...)) // a relay inside a relay
	// well-formed replies in a different but valid msgpack form (another implementation or a newer
	// version): wider integers, an unknown extra field, other field order, str8/bin8 headers
	out = append(out, []byte("\x05\x86\xa5LTime\xcf\x00\x00\x00\x00\x00\x00\x00\x05\xa2ID\xce\x00\x00\x00\x09\xa4From\xa1n\xa5Flags\x00\xa7Payload\xc0\xa5Extra\x01"))
	out = append(out, []byte("\x05\x85\xa7Payload\xa1p\xa4From\xa1n\xa5Flags\x00\xa2ID\x09\xa5LTime\x05"))
	out = append(out, []byte("\x05\x85\xa5LTime\x05\xa2ID\x09\xa4From\xd9\x01n\xa5Flags\x00\xa7Payload\xc4\x01p"))
	tails := [][]byte{{}, {0}, []byte("\x85\xa5LTime\x01\xa2ID\x02")}
	for b := 0; b < 256; b++ {
		for _, t := range tails {
			out = append(out, append([]byte{byte(b)}, t...))
		}
	}
	return out
}

func c32relayForward(g *c32gen) {
	scn := g.ctx.Scn("relay/forward", "cases")
	blobs := c32blobs(g.thorough)
	for _, name := range c32strs(false) {
		for _, ip := range c32ips {
			for _, port := range []int{0, 7946, 65535} {
				for _, zone := range []string{"", "eth0"} {
					if !g.mine() {
						continue
					}
					hdr := serf.VRelayHeader{DestAddr: net.UDPAddr{IP: ip, Port: port, Zone: zone}, DestName: name}
					wantTo := name + "/" + hdr.DestAddr.String()
					what := fmt.Sprintf("relay header {DestName:%+q DestAddr:%s}", c32clipS(name), hdr.DestAddr.String())
					pv := uint8(2 + (*g.idx)%4)
					c32exec(g.ctx, scn.Name, nil, what, func() {
						vsched.Branching(false)
						r := c32must(world.NewNode("rel", 2, c32node{pv: pv, newTime: port == 0}.opt()))
						r.Events().NotifyJoin(r.MLNode("b", 1, nil))
						vsched.Quiesce()
						r.Tr.TakeSent()
						r.DrainEvents()
						pre := c32mustEnc(serf.VMsgRelay, &hdr, false)
						for bi, raw := range blobs {
							env := append(append([]byte{}, pre...), raw...)
							r.Delegate().NotifyMsg(env)
							sent := r.Tr.TakeSent()
							out := "forwarded"
							bad := ""
							switch {
							case len(sent) != 1:
								bad = fmt.Sprintf("%d packets sent, want 1", len(sent))
							case sent[0].User == nil:
								bad = fmt.Sprintf("packet of memberlist type %d, not a user message", sent[0].MsgType)
							case !bytes.Equal(sent[0].User, raw):
								bad = fmt.Sprintf("forwarded %d bytes %+q, relayed message was %d bytes %+q", len(sent[0].User), c32clip(sent[0].User), len(raw), c32clip(raw))
							}
							if bad != "" {
								out = "altered"
								g.ctx.Violation(scn.Name, "relay: forwarded bytes differ from the relayed message", fmt.Sprintf("%s blob #%d: %s", what, bi, bad), map[string]interface{}{"header": what, "blob": fmt.Sprintf("%x", c32clip(raw))})
							} else if sent[0].To != wantTo {
								out = "misrouted"
								g.ctx.Violation(scn.Name, "relay: forwarded to the wrong destination", fmt.Sprintf("%s: sent to %+q, want %+q", what, sent[0].To, wantTo), nil)
							}
							scn.Case(out, true)
						}
						vsched.Quiesce()
						if ev := r.DrainEvents(); len(ev) != 0 {
							g.ctx.Violation(scn.Name, "relay: relayed message was interpreted by the relaying node", fmt.Sprintf("%s: the relaying node delivered %d events locally, first %s", what, len(ev), world.DescribeEvent(ev[0])), nil)
						}
						r.S.Shutdown()
					})
				}
			}
		}
	}
	g.sample(scn, "[9][hdr{DestName:\"\\xffab\" DestAddr:[2001:db8::1%eth0]:65535}][5 85 a5 'LTime' ...] -> one packet to \"\\xffab/[2001:db8::1%eth0]:65535\" == trailing bytes")
}

func c32clipS(s string) string {
	if len(s) > 24 {
		return s[:24] + "..."
	}
	return s
}

// ---------------------------------------------------------------------------
// message kinds through the real delegate of a receiving node

func c32receivers(T bool) []c32node {
	if T {
		var out []c32node
		for pv := uint8(2); pv <= 5; pv++ {
			out = append(out, c32node{pv, false}, c32node{pv, true})
		}
		return out
	}
	return []c32node{{2, false}, {3, true}, {4, false}, {5, true}}
}

func c32queries(evs []serf.Event) []*serf.Query {
	var out []*serf.Query
	for _, e := range evs {
		if q, ok := e.(*serf.Query); ok {
			out = append(out, q)
		}
	}
	return out
}

func c32userEvents(evs []serf.Event) []serf.UserEvent {
	var out []serf.UserEvent
	for _, e := range evs {
		if u, ok := e.(serf.UserEvent); ok {
			out = append(out, u)
		}
	}
	return out
}

// c32case wraps one scheduler run of a delegate/e2e case. body reports
// differences through fail(sig, msg) and may set the outcome label.
type c32case struct {
	g    *c32gen
	scn  *vc.Scenario
	what string
	out  string
}

func (c *c32case) fail(sig, format string, a ...interface{}) {
	c.out = sig
	c.g.ctx.Violation(c.scn.Name, sig, c.what+": "+fmt.Sprintf(format, a...), map[string]string{"case": c.what})
}

func (g *c32gen) run(scn *vc.Scenario, what string, nontrivial bool, prefixes [][]int, body func(c *c32case)) {
	c := &c32case{g: g, scn: scn, what: what, out: "equivalent"}
	if prefixes == nil {
		prefixes = [][]int{nil}
	}
	for _, p := range prefixes {
		if !c32exec(g.ctx, scn.Name, p, what, func() {
			vsched.Branching(false)
			body(c)
		}) {
			c.out = "crashed"
		}
	}
	scn.Case(c.out, nontrivial)
}

func c32delegate(g *c32gen) {
	T := g.thorough
	strs, lts, pls := c32strs(false), c32lts(false), c32payloads(false)
	rcvs := c32receivers(T)

	// join / leave intents about an unknown node land in the intent table
	scn := g.ctx.Scn("delegate/intents", "cases")
	for _, rc := range rcvs {
		for _, l := range lts {
			for _, name := range strs {
				for _, kind := range []uint8{serf.VMsgJoin, serf.VMsgLeave} {
					for _, nt := range []bool{false, true} {
						if !g.mine() {
							continue
						}
						rc, l, name, kind, nt := rc, l, name, kind, nt
						g.run(scn, fmt.Sprintf("receiver v%d: intent type %d {LTime:%d Node:%+q} (sender newTime=%v)", rc.pv, kind, l, c32clipS(name), nt), l != 0 || name != "", nil, func(c *c32case) {
							r := c32must(world.NewNode("rcv", 1, rc.opt()))
							var msg []byte
							if kind == serf.VMsgJoin {
								msg = c32mustEnc(kind, &serf.VMessageJoin{LTime: serf.LamportTime(l), Node: name}, nt)
							} else {
								msg = c32mustEnc(kind, &serf.VMessageLeave{LTime: serf.LamportTime(l), Node: name}, nt)
							}
							r.Delegate().NotifyMsg(msg)
							vsched.Quiesce()
							found := false
							st := serf.VDump(r.S)
							for _, in := range st.Intents {
								if in.Node == name && in.Type == kind && in.LTime == l {
									found = true
								}
							}
							if !found {
								c.fail("delegate: intent message decoded differently", "intent table is %+q", fmt.Sprintf("%+v", st.Intents))
							}
							r.S.Shutdown()
						})
					}
				}
			}
		}
	}
	// leave with and without Prune about a known member
	for _, rc := range rcvs {
		for _, l := range lts[1:] {
			for _, prune := range []bool{false, true} {
				if !g.mine() {
					continue
				}
				rc, l, prune := rc, l, prune
				g.run(scn, fmt.Sprintf("receiver v%d: leave{LTime:%d Node:b Prune:%v} about a known member", rc.pv, l, prune), true, nil, func(c *c32case) {
					vsched.SetHorizon(int64(30 * time.Second)) // a pruning leave sleeps for the propagation delay
					r := c32must(world.NewNode("rcv", 1, rc.opt()))
					r.Events().NotifyJoin(r.MLNode("b", 2, nil))
					r.Delegate().NotifyMsg(c32mustEnc(serf.VMsgLeave, &serf.VMessageLeave{LTime: serf.LamportTime(l), Node: "b", Prune: prune}, false))
					vsched.Quiesce()
					st := serf.VDump(r.S)
					var b *serf.VMember
					for i := range st.Members {
						if st.Members[i].Name == "b" {
							b = &st.Members[i]
						}
					}
					switch {
					case prune && b != nil:
						c.fail("delegate: leave.Prune lost", "member b still present (%+v) after a pruning leave", *b)
					case !prune && (b == nil || b.Status != "leaving" || b.StatusLTime != l):
						c.fail("delegate: leave message decoded differently", "member b is %+v, want leaving at %d", b, l)
					}
					r.S.Shutdown()
				})
			}
		}
	}
	g.sample(scn, "receiver v3: leave{LTime:2^63 Node:\"\\xc3(\"} -> intent table [{Node:\"\\xc3(\" Type:0 LTime:2^63}]")

	// user events reach the application unchanged
	scn = g.ctx.Scn("delegate/user-event", "cases")
	for _, rc := range rcvs {
		for _, l := range lts {
			for _, name := range strs {
				for _, p := range pls {
					for _, cc := range []bool{false, true} {
						if !g.mine() {
							continue
						}
						rc, l, name, p, cc := rc, l, name, p, cc
						g.run(scn, fmt.Sprintf("receiver v%d: userEvent{LTime:%d Name:%+q Payload:%d bytes nil=%v CC:%v}", rc.pv, l, c32clipS(name), len(p), p == nil, cc), true, nil, func(c *c32case) {
							r := c32must(world.NewNode("rcv", 1, rc.opt()))
							vsched.Quiesce()
							r.DrainEvents()
							r.Delegate().NotifyMsg(c32mustEnc(serf.VMsgUserEvent, &serf.VMessageUserEvent{LTime: serf.LamportTime(l), Name: name, Payload: p, CC: cc}, !rc.newTime))
							vsched.Quiesce()
							us := c32userEvents(r.DrainEvents())
							if len(us) != 1 {
								c.fail("delegate: user event not delivered once", "%d user events delivered", len(us))
							} else if u := us[0]; uint64(u.LTime) != l || u.Name != name || !bytes.Equal(u.Payload, p) || u.Coalesce != cc {
								c.fail("delegate: user event decoded differently", "delivered {LTime:%d Name:%+q Payload:%+q Coalesce:%v}", u.LTime, c32clipS(u.Name), c32clip(u.Payload), u.Coalesce)
							}
							r.S.Shutdown()
						})
					}
				}
			}
		}
	}
	g.sample(scn, "receiver v2: userEvent{LTime:2^64-1 Name:\"\\xffab\" Payload:[] CC:true} -> EventCh UserEvent identical (Payload nil)")

	// queries: the application sees the fields, acks and replies go to the encoded source
	scn = g.ctx.Scn("delegate/query", "cases")
	type qv struct {
		src  string
		ip   net.IP
		port uint16
	}
	var srcs []qv
	for _, s := range strs {
		for _, ip := range c32ips {
			srcs = append(srcs, qv{s, ip, 7946})
		}
	}
	srcs = append(srcs, qv{"src", c32ips[1], 0}, qv{"src", c32ips[3], 65535})
	for _, rc := range rcvs {
		for _, l := range lts {
			for _, name := range strs {
				for pi, p := range pls {
					for si, sv := range srcs {
						// pair the source forms with payloads instead of the full product
						if !(si%len(pls) == pi || name == "a") {
							continue
						}
						if !g.mine() {
							continue
						}
						rc, l, name, p, sv := rc, l, name, p, sv
						ack := (si+pi)%2 == 0
						rp := pls[(pi+si)%len(pls)]
						id := uint32(1<<31 + si)
						g.run(scn, fmt.Sprintf("receiver v%d: query{LTime:%d Name:%+q Payload:%d bytes Source:%+q@%s:%d ack=%v} answered with %d bytes", rc.pv, l, c32clipS(name), len(p), c32clipS(sv.src), sv.ip, sv.port, ack, len(rp)), true, nil, func(c *c32case) {
							r := c32must(world.NewNode("rcv", 1, rc.opt()))
							vsched.Quiesce()
							r.DrainEvents()
							r.Tr.TakeSent()
							var fl uint32
							if ack {
								fl = serf.VQueryFlagAck
							}
							q := &serf.VMessageQuery{LTime: serf.LamportTime(l), ID: id, Addr: []byte(sv.ip), Port: sv.port, SourceNode: sv.src, Flags: fl, Timeout: 10 * time.Second, Name: name, Payload: p,
								Filters: [][]byte{serf.VEncodeFilter(serf.VFilterNodeType, serf.VFilterNode{"\xffab", "rcv", ""})}}
							r.Delegate().NotifyMsg(c32mustEnc(serf.VMsgQuery, q, !rc.newTime))
							vsched.Quiesce()
							qs := c32queries(r.DrainEvents())
							if len(qs) != 1 {
								c.fail("delegate: query not delivered once", "%d queries delivered", len(qs))
								return
							}
							got := qs[0]
							if uint64(got.LTime) != l || got.Name != name || !bytes.Equal(got.Payload, p) || got.SourceNode() != sv.src || serf.VQueryID(got) != id {
								c.fail("delegate: query decoded differently", "delivered {LTime:%d Name:%+q Payload:%+q Source:%+q id:%d}", got.LTime, c32clipS(got.Name), c32clip(got.Payload), c32clipS(got.SourceNode()), serf.VQueryID(got))
							}
							wantTo := sv.src + "/" + (&net.UDPAddr{IP: sv.ip, Port: int(sv.port)}).String()
							checkReply := func(kind string, wantFlags uint32, wantPayload []byte) {
								sent := r.Tr.TakeSent()
								if len(sent) != 1 || sent[0].User == nil {
									c.fail("delegate: "+kind+" not sent once", "%d packets", len(sent))
									return
								}
								if sent[0].To != wantTo {
									c.fail("delegate: "+kind+" sent to the wrong address", "sent to %+q, want %+q", sent[0].To, wantTo)
								}
								var resp serf.VMessageQueryResponse
								u := sent[0].User
								if len(u) == 0 || u[0] != serf.VMsgQueryResponse || serf.VDecode(u[1:], &resp) != nil {
									c.fail("delegate: "+kind+" is not a decodable query response", "bytes %+q", c32clip(u))
									return
								}
								if uint64(resp.LTime) != l || resp.ID != id || resp.From != "rcv" || resp.Flags != wantFlags || !bytes.Equal(resp.Payload, wantPayload) {
									c.fail("delegate: "+kind+" decodes differently", "decoded %s", c32short(resp))
								}
							}
							if ack {
								checkReply("ack", serf.VQueryFlagAck, nil)
							}
							if err := got.Respond(rp); err != nil {
								c.out = "respond-error"
								return
							}
							checkReply("reply", 0, rp)
							r.S.Shutdown()
						})
					}
				}
			}
		}
	}
	g.sample(scn, "receiver v4: query{LTime:2^32 Name:\"\\xc3(\" Source:\"\\xffab\"@2001:db8::1:7946 ack} -> *Query identical; ack and reply packets to \"\\xffab/[2001:db8::1]:7946\" decode to {LTime,ID,From:rcv,...}")

	// query responses reach the waiting query's channels unchanged
	scn = g.ctx.Scn("delegate/query-response", "cases")
	for _, rc := range []c32node{{4, false}, {4, true}, {5, false}, {5, true}} {
		for _, base := range []uint64{0, 1 << 32, 1<<63 + 5} {
			for _, from := range strs {
				for _, p := range pls {
					for _, ack := range []bool{false, true} {
						if !g.mine() {
							continue
						}
						rc, base, from, p, ack := rc, base, from, p, ack
						g.run(scn, fmt.Sprintf("querier v%d newTime=%v at query clock >%d: response{From:%+q Payload:%d bytes nil=%v ack=%v}", rc.pv, rc.newTime, base, c32clipS(from), len(p), p == nil, ack), true, nil, func(c *c32case) {
							s := c32must(world.NewNode("snd", 0, rc.opt()))
							if base > 0 {
								s.Delegate().NotifyMsg(c32mustEnc(serf.VMsgQuery, &serf.VMessageQuery{LTime: serf.LamportTime(base), ID: 1, Name: "warm", Flags: serf.VQueryFlagNoBroadcast}, false))
							}
							vsched.Quiesce()
							s.DrainEvents()
							resp, err := s.S.Query("q", nil, &serf.QueryParam{RequestAck: true, Timeout: 10 * time.Second, FilterNodes: []string{"other"}})
							if err != nil {
								c.out = "query-error"
								return
							}
							var qm serf.VMessageQuery
							for _, b := range c32outbox(s) {
								if b[0] == serf.VMsgQuery {
									if err := serf.VDecode(b[1:], &qm); err != nil {
										c.fail("delegate: own query does not decode", "%v", err)
										return
									}
								}
							}
							if uint64(qm.LTime) <= base && base > 0 {
								c.fail("delegate: query clock not advanced", "query LTime %d", qm.LTime)
							}
							var fl uint32
							if ack {
								fl = serf.VQueryFlagAck
							}
							s.Delegate().NotifyMsg(c32mustEnc(serf.VMsgQueryResponse, &serf.VMessageQueryResponse{LTime: qm.LTime, ID: qm.ID, From: from, Flags: fl, Payload: p}, !rc.newTime))
							vsched.Quiesce()
							if ack {
								select {
								case a := <-resp.AckCh():
									if a != from {
										c.fail("delegate: ack decoded differently", "AckCh delivered %+q", c32clipS(a))
									}
								default:
									c.fail("delegate: ack not delivered", "AckCh empty")
								}
							} else {
								select {
								case nr := <-resp.ResponseCh():
									if nr.From != from || !bytes.Equal(nr.Payload, p) {
										c.fail("delegate: query response decoded differently", "ResponseCh delivered {From:%+q Payload:%+q}", c32clipS(nr.From), c32clip(nr.Payload))
									}
								default:
									c.fail("delegate: query response not delivered", "ResponseCh empty")
								}
							}
							s.S.Shutdown()
						})
					}
				}
			}
		}
	}
	g.sample(scn, "querier v5 at query clock 2^63+6: response{From:\"\\xffab\" Payload:300 bytes} -> ResponseCh NodeResponse identical")

	// push/pull state through MergeRemoteState
	scn = g.ctx.Scn("delegate/push-pull", "cases")
	big := strs[4]
	type ppv struct {
		status map[string]serf.LamportTime
		left   []string
	}
	pps := []ppv{
		{nil, nil},
		{map[string]serf.LamportTime{"": 7}, []string{}},
		{map[string]serf.LamportTime{"a": 1, "\xffab": 1 << 63, "\xc3\x28": 1 << 32, big: 0}, []string{"\xffab", big}},
		{map[string]serf.LamportTime{"x": 3}, []string{"", "gone"}},
	}
	evsets := [][]serf.VUserEvent{nil, {{Name: "", Payload: nil}}, {{Name: "\xffab", Payload: []byte{}}, {Name: "\xc3\x28", Payload: pls[3]}, {Name: big, Payload: pls[4]}}}
	for _, rc := range rcvs {
		for _, l := range []uint64{0, 1, 1 << 32, 1 << 63, ^uint64(0)} {
			for vi, pv := range pps {
				for ei, es := range evsets {
					for _, el := range []uint64{0, 9, 1 << 40, ^uint64(0)} {
						if !g.mine() {
							continue
						}
						rc, l, pv, es, el := rc, l, pv, es, el
						ql := []uint64{0, 5, 1 << 63, ^uint64(0)}[(vi+ei)%4]
						g.run(scn, fmt.Sprintf("receiver v%d: pushPull{LTime:%d statuses#%d EventLTime:%d events#%d QueryLTime:%d}", rc.pv, l, vi, el, ei, ql), true, nil, func(c *c32case) {
							r := c32must(world.NewNode("rcv", 1, rc.opt()))
							vsched.Quiesce()
							r.DrainEvents()
							pp := &serf.VMessagePushPull{LTime: serf.LamportTime(l), StatusLTimes: pv.status, LeftMembers: pv.left, EventLTime: serf.LamportTime(el), QueryLTime: serf.LamportTime(ql)}
							var want []string
							if el >= 2 {
								g1 := &serf.VUserEvents{LTime: serf.LamportTime(el - 1), Events: es}
								g2 := &serf.VUserEvents{LTime: serf.LamportTime(el - 2), Events: []serf.VUserEvent{{Name: "e2", Payload: []byte("p2")}}}
								pp.Events = []*serf.VUserEvents{nil, g1, nil, g2}
								for _, e := range es {
									want = append(want, fmt.Sprintf("%d|%s|%s", el-1, e.Name, e.Payload))
								}
								want = append(want, fmt.Sprintf("%d|e2|p2", el-2))
							}
							r.Delegate().MergeRemoteState(c32mustEnc(serf.VMsgPushPull, pp, !rc.newTime), false)
							vsched.Quiesce()
							st := serf.VDump(r.S)
							clk := func(v uint64) uint64 { // witness(v-1) on a clock at 1
								if v > 1 {
									return v
								}
								return 1
							}
							if st.EventClock != clk(el) || st.QueryClock != clk(ql) {
								c.fail("delegate: push/pull clocks decoded differently", "event clock %d query clock %d, want %d %d", st.EventClock, st.QueryClock, clk(el), clk(ql))
							}
							if st.Clock < clk(l) && l != 0 {
								c.fail("delegate: push/pull clocks decoded differently", "member clock %d below %d", st.Clock, clk(l))
							}
							left := map[string]bool{}
							for _, n := range pv.left {
								left[n] = true
							}
							wantIn := map[string]string{}
							for n, t := range pv.status {
								if !left[n] {
									wantIn[n] = fmt.Sprintf("%d@%d", serf.VMsgJoin, uint64(t))
								}
							}
							for n := range left {
								wantIn[n] = fmt.Sprintf("%d@%d", serf.VMsgLeave, uint64(pv.status[n])+1)
							}
							gotIn := map[string]string{}
							for _, in := range st.Intents {
								gotIn[in.Node] = fmt.Sprintf("%d@%d", in.Type, in.LTime)
							}
							if !reflect.DeepEqual(wantIn, gotIn) && !(len(wantIn) == 0 && len(gotIn) == 0) {
								c.fail("delegate: push/pull member times decoded differently", "intent table %+q, want %+q", fmt.Sprint(gotIn), fmt.Sprint(wantIn))
							}
							var got []string
							for _, u := range c32userEvents(r.DrainEvents()) {
								got = append(got, fmt.Sprintf("%d|%s|%s", uint64(u.LTime), u.Name, u.Payload))
							}
							sort.Strings(got)
							sort.Strings(want)
							if strings.Join(got, "\x00") != strings.Join(want, "\x00") {
								c.fail("delegate: push/pull events decoded differently", "%d events delivered %+q, want %d", len(got), c32clip([]byte(strings.Join(got, ","))), len(want))
							}
							r.S.Shutdown()
						})
					}
				}
			}
		}
	}
	g.sample(scn, "receiver v5: pushPull{StatusLTimes:{\"\\xffab\":2^63,...} LeftMembers:[\"\\xffab\",...] Events:[nil,{LTime:2^40-1 [...]},nil,{...}]} -> leave intent \"\\xffab\"@2^63+1, events delivered identical, clocks 2^40")
}

// c32outbox drains every queued broadcast regardless of size.
func c32outbox(n *world.Node) [][]byte {
	var out [][]byte
	for i := 0; i < 64; i++ {
		m := n.Delegate().GetBroadcasts(2, 1<<24)
		if len(m) == 0 {
			break
		}
		for _, b := range m {
			out = append(out, append([]byte{}, b...))
		}
	}
	return out
}

// ---------------------------------------------------------------------------
// real sender API -> wire -> real receiver

func c32e2e(g *c32gen) {
	strs, pls := c32strs(false), c32payloads(false)
	nodes := []c32node{{2, false}, {3, true}, {4, false}, {5, true}}

	scn := g.ctx.Scn("e2e/user-event", "cases")
	for _, sn := range nodes {
		for _, rn := range nodes {
			for ni, name := range strs {
				for pi, p := range pls {
					for _, cc := range []bool{false, true} {
						if !g.mine() {
							continue
						}
						sn, rn, name, p, cc := sn, rn, name, p, cc
						warm := []uint64{0, 200, 1 << 40, 1<<63 + 1}[(ni+pi)%4]
						g.run(scn, fmt.Sprintf("sender v%d UserEvent(%+q, %d bytes nil=%v, %v) at event clock >%d -> receiver v%d", sn.pv, c32clipS(name), len(p), p == nil, cc, warm, rn.pv), true, nil, func(c *c32case) {
							s := c32must(world.NewNode("snd", 0, sn.opt()))
							r := c32must(world.NewNode("rcv", 1, rn.opt()))
							if warm > 0 {
								s.Delegate().NotifyMsg(c32mustEnc(serf.VMsgUserEvent, &serf.VMessageUserEvent{LTime: serf.LamportTime(warm), Name: "warm"}, false))
							}
							vsched.Quiesce()
							s.DrainEvents()
							r.DrainEvents()
							c32outbox(s)
							if err := s.S.UserEvent(name, p, cc); err != nil {
								c.out = "send-error"
								return
							}
							vsched.Quiesce()
							own := c32userEvents(s.DrainEvents())
							var wire [][]byte
							for _, b := range c32outbox(s) {
								if b[0] == serf.VMsgUserEvent {
									wire = append(wire, b)
								}
							}
							if len(own) != 1 || len(wire) != 1 {
								c.fail("e2e: user event not sent once", "%d local deliveries, %d broadcasts", len(own), len(wire))
								return
							}
							if warm > 0 && uint64(own[0].LTime) != warm+1 {
								c.fail("e2e: user event carries the wrong time", "sent at %d, want %d", own[0].LTime, warm+1)
							}
							r.Delegate().NotifyMsg(wire[0])
							vsched.Quiesce()
							us := c32userEvents(r.DrainEvents())
							if len(us) != 1 {
								c.fail("e2e: user event not delivered once", "%d user events delivered", len(us))
							} else if u := us[0]; u.LTime != own[0].LTime || u.Name != name || !bytes.Equal(u.Payload, p) || u.Coalesce != cc {
								c.fail("e2e: user event arrives changed", "delivered {LTime:%d Name:%+q Payload:%+q Coalesce:%v}, sent at LTime %d", u.LTime, c32clipS(u.Name), c32clip(u.Payload), u.Coalesce, own[0].LTime)
							}
							s.S.Shutdown()
							r.S.Shutdown()
						})
					}
				}
			}
		}
	}
	g.sample(scn, "sender v2 UserEvent(\"\\xffab\", [], true) at clock 2^40+1 -> receiver v5 EventCh {LTime:2^40+1 Name:\"\\xffab\" Payload:nil Coalesce:true}")

	scn = g.ctx.Scn("e2e/query-reply-relay", "cases")
	senders := []c32node{{4, false}, {4, true}, {5, false}, {5, true}}
	for si, sn := range senders {
		for _, rn := range nodes {
			for ni, name := range strs {
				for pi, p := range pls {
					for ri, rp := range pls {
						if (ni+pi+ri+si)%2 != 0 && name != "a" {
							continue // half of the product, full product for one name
						}
						for _, rf := range []uint8{0, 1} {
							if !g.mine() {
								continue
							}
							sn, rn, name, p, rp, rf := sn, rn, name, p, rp, rf
							ack := (pi+ri)%2 == 0
							var prefixes [][]int
							if rf > 0 {
								prefixes = [][]int{{0, 0, 0, 0, 0, 0}, {1, 1, 1, 1, 1, 1}}
							}
							relayed := 0
							what := fmt.Sprintf("sender v%d newTime=%v Query(%+q, %d bytes nil=%v, ack=%v, relay=%d) -> receiver v%d Respond(%d bytes nil=%v)", sn.pv, sn.newTime, c32clipS(name), len(p), p == nil, ack, rf, rn.pv, len(rp), rp == nil)
							g.run(scn, what, true, prefixes, func(c *c32case) {
								s := c32must(world.NewNode("snd", 0, sn.opt()))
								r := c32must(world.NewNode("rcv", 1, rn.opt(func(cf *serf.Config) { cf.Tags = map[string]string{"\xfft": "v1"} })))
								rel := c32must(world.NewNode("rel", 2, c32node{pv: 5}.opt()))
								r.Events().NotifyJoin(r.MLNode("rel", 2, nil))
								vsched.Quiesce()
								for _, n := range []*world.Node{s, r, rel} {
									n.DrainEvents()
									n.Tr.TakeSent()
									c32outbox(n)
								}
								resp, err := s.S.Query(name, p, &serf.QueryParam{FilterNodes: []string{"\xffab", "rcv", strs[4]}, FilterTags: map[string]string{"\xfft": "^v1$"}, RequestAck: ack, RelayFactor: rf, Timeout: 10 * time.Second})
								if err != nil {
									c.out = "send-error"
									return
								}
								var wire [][]byte
								for _, b := range c32outbox(s) {
									if b[0] == serf.VMsgQuery {
										wire = append(wire, b)
									}
								}
								if len(wire) != 1 {
									c.fail("e2e: query not broadcast once", "%d broadcasts", len(wire))
									return
								}
								r.Delegate().NotifyMsg(wire[0])
								vsched.Quiesce()
								qs := c32queries(r.DrainEvents())
								if len(qs) != 1 {
									c.fail("e2e: query not delivered once", "%d queries delivered (filters: nodes [\\xffab rcv 300s], tag \\xfft=~^v1$)", len(qs))
									return
								}
								q := qs[0]
								open := serf.VDump(s.S).OpenQueries
								if q.Name != name || !bytes.Equal(q.Payload, p) || q.SourceNode() != "snd" || len(open) != 1 || uint64(q.LTime) != open[0] {
									c.fail("e2e: query arrives changed", "delivered {LTime:%d Name:%+q Payload:%+q Source:%+q}, open queries at the sender %v", q.LTime, c32clipS(q.Name), c32clip(q.Payload), q.SourceNode(), open)
								}
								const sndAddr = "snd/10.0.0.1:7946"
								if ack {
									var direct []world.Packet
									for _, pk := range r.Tr.TakeSent() {
										if pk.To == sndAddr {
											direct = append(direct, pk)
										}
									}
									if len(direct) != 1 {
										c.fail("e2e: ack not sent once to the querier", "%d packets to %s", len(direct), sndAddr)
									} else {
										s.Delegate().NotifyMsg(direct[0].User)
										vsched.Quiesce()
										select {
										case a := <-resp.AckCh():
											if a != "rcv" {
												c.fail("e2e: ack arrives changed", "AckCh delivered %+q", a)
											}
										default:
											c.fail("e2e: ack not delivered", "AckCh empty")
										}
									}
								}
								r.Tr.TakeSent()
								vsched.Branching(true) // the random relay pick is the only choice in this window
								err = q.Respond(rp)
								vsched.Branching(false)
								if err != nil {
									c.out = "respond-error"
									return
								}
								var direct, relay []world.Packet
								for _, pk := range r.Tr.TakeSent() {
									switch pk.To {
									case sndAddr:
										direct = append(direct, pk)
									case "rel/10.0.0.3:7946":
										relay = append(relay, pk)
									default:
										c.fail("e2e: reply sent to an unknown address", "packet to %+q", pk.To)
									}
								}
								if len(direct) != 1 || direct[0].User == nil {
									c.fail("e2e: reply not sent once to the querier", "%d packets", len(direct))
									return
								}
								final := direct[0].User
								if len(relay) == 1 && relay[0].User != nil {
									relayed++
									env := relay[0].User
									rel.Delegate().NotifyMsg(env)
									fw := rel.Tr.TakeSent()
									if len(fw) != 1 || fw[0].User == nil {
										c.fail("e2e: relay did not forward once", "%d packets", len(fw))
										return
									}
									if fw[0].To != sndAddr {
										c.fail("relay: forwarded to the wrong destination", "relay sent to %+q, want %+q", fw[0].To, sndAddr)
									}
									final = fw[0].User
									var hdr serf.VRelayHeader
									cut := len(env) - len(final)
									if cut < 2 || env[0] != serf.VMsgRelay || !bytes.Equal(env[cut:], final) || serf.VDecode(env[1:cut], &hdr) != nil {
										c.fail("relay: forwarded bytes differ from the relayed message", "envelope %d bytes %+q, forwarded %d bytes %+q", len(env), c32clip(env), len(final), c32clip(final))
									} else if hdr.DestName != "snd" || hdr.DestAddr.String() != "10.0.0.1:7946" {
										c.fail("relay: envelope names the wrong destination", "relay header decodes to %+q at %s, the querier is snd at 10.0.0.1:7946", hdr.DestName, hdr.DestAddr.String())
									}
								} else if len(relay) > 1 {
									c.fail("e2e: more relays than the relay factor", "%d relay packets", len(relay))
								}
								s.Delegate().NotifyMsg(final)
								vsched.Quiesce()
								select {
								case nr := <-resp.ResponseCh():
									if nr.From != "rcv" || !bytes.Equal(nr.Payload, rp) {
										c.fail("e2e: reply arrives changed", "ResponseCh delivered {From:%+q Payload:%+q} (relayed=%v)", nr.From, c32clip(nr.Payload), len(relay) == 1)
									}
								default:
									c.fail("e2e: reply not delivered", "ResponseCh empty (relayed=%v)", len(relay) == 1)
								}
								s.S.Shutdown()
								r.S.Shutdown()
								rel.S.Shutdown()
							})
							_ = relayed
						}
					}
				}
			}
		}
	}
	g.sample(scn, "sender v5 Query(\"\\xc3(\", 300 bytes, ack, relay=1) -> receiver v2 *Query identical -> Respond([ff c3 28 00]) -> relay node forwards envelope tail byte-for-byte to snd/10.0.0.1:7946 -> ResponseCh {From:rcv Payload:[ff c3 28 00]}")

	scn = g.ctx.Scn("e2e/push-pull", "cases")
	for _, sn := range nodes {
		for _, rn := range nodes {
			for ni, name := range strs {
				for pi, p := range pls {
					if !g.mine() {
						continue
					}
					sn, rn, name, p := sn, rn, name, p
					other := strs[(ni+pi+1)%len(strs)]
					g.run(scn, fmt.Sprintf("sender v%d (events %+q/%d bytes, members b and left %+q) LocalState -> receiver v%d MergeRemoteState", sn.pv, c32clipS(name), len(p), c32clipS(other), rn.pv), true, nil, func(c *c32case) {
						s := c32must(world.NewNode("snd", 0, sn.opt()))
						r := c32must(world.NewNode("rcv", 1, rn.opt()))
						s.Events().NotifyJoin(s.MLNode("b", 2, nil))
						s.Delegate().NotifyMsg(c32mustEnc(serf.VMsgJoin, &serf.VMessageJoin{LTime: 1 << 33, Node: "b"}, false))
						leftName := "left-" + other
						ln := s.MLNode(leftName, 3, nil)
						s.Events().NotifyJoin(ln)
						s.Delegate().NotifyMsg(c32mustEnc(serf.VMsgLeave, &serf.VMessageLeave{LTime: 1<<33 + 5, Node: leftName}, false))
						ln.State = memberlist.StateLeft
						s.Events().NotifyLeave(ln)
						s.S.UserEvent(name, p, false)
						s.S.UserEvent(name+"2", append([]byte{7}, p...), true)
						s.Delegate().NotifyMsg(c32mustEnc(serf.VMsgQuery, &serf.VMessageQuery{LTime: 1 << 35, ID: 1, Name: "warm", Flags: serf.VQueryFlagNoBroadcast, Filters: [][]byte{serf.VEncodeFilter(serf.VFilterNodeType, serf.VFilterNode{"nobody"})}}, false))
						vsched.Quiesce()
						r.DrainEvents()
						sent := c32userEvents(s.DrainEvents())
						ss := serf.VDump(s.S)
						r.Delegate().MergeRemoteState(s.Delegate().LocalState(false), false)
						vsched.Quiesce()
						rs := serf.VDump(r.S)
						// the member clock also witnesses the synthesized leave intents, so it may be ahead
						if rs.Clock < ss.Clock || rs.EventClock != ss.EventClock || rs.QueryClock != ss.QueryClock {
							c.fail("e2e: push/pull clocks arrive changed", "receiver clocks %d/%d/%d, sender %d/%d/%d", rs.Clock, rs.EventClock, rs.QueryClock, ss.Clock, ss.EventClock, ss.QueryClock)
						}
						key := func(us []serf.UserEvent) string {
							var l []string
							for _, u := range us {
								l = append(l, fmt.Sprintf("%d|%s|%s", uint64(u.LTime), u.Name, u.Payload))
							}
							sort.Strings(l)
							return strings.Join(l, "\x00")
						}
						if got := c32userEvents(r.DrainEvents()); len(sent) != 2 || key(got) != key(sent) {
							c.fail("e2e: push/pull events arrive changed", "sender delivered %d events, receiver %d: %+q", len(sent), len(got), c32clip([]byte(key(got))))
						}
						want := map[string]string{}
						for _, m := range ss.Members {
							want[m.Name] = fmt.Sprintf("%d@%d", serf.VMsgJoin, m.StatusLTime)
						}
						for _, n := range ss.Left {
							for _, m := range ss.Members {
								if m.Name == n {
									want[n] = fmt.Sprintf("%d@%d", serf.VMsgLeave, m.StatusLTime+1)
								}
							}
						}
						got := map[string]string{}
						for _, in := range rs.Intents {
							got[in.Node] = fmt.Sprintf("%d@%d", in.Type, in.LTime)
						}
						if len(ss.Left) != 1 || len(ss.Members) != 3 {
							c.out = "setup-differs"
						} else if !reflect.DeepEqual(want, got) {
							c.fail("e2e: push/pull member times arrive changed", "receiver intent table %+q, want %+q", fmt.Sprint(got), fmt.Sprint(want))
						}
						s.S.Shutdown()
						r.S.Shutdown()
					})
				}
			}
		}
	}
	g.sample(scn, "sender v3 knows b@2^33 and left member@2^33+5, two user events -> LocalState -> receiver v2: same clocks, join intents snd/b, leave intent for the left member at 2^33+6, both events delivered")
}

var _ = net.IPv4
var _ = time.Second
