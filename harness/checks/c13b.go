package checks

import (
	"fmt"
	"io"
	"log"
	"net"
	"sort"
	"strings"
	"time"

	"verifharness/vc"

	"github.com/hashicorp/serf/serf"
	"github.com/hashicorp/serf/zzverif/vos"
	"github.com/hashicorp/serf/zzverif/vsched"
)

// C13, concurrent part: "whatever events happened after the leave" includes events that are
// still in the snapshotter's queues when the shutdown arrives. A real Snapshotter (tee and
// stream goroutines) records a member, the leave is recorded, then member events are pushed
// in by one thread while another closes the shutdown channel; every interleaving within the
// bound, including which ready channel the stream goroutine's select takes. Afterwards the
// file is reopened: the rejoin set must be empty (rejoin disabled) resp. the set at the leave.
func c13concurrent(ctx *vc.Ctx) {
	bound := 3
	if ctx.Thorough() {
		bound = 4
	}
	for _, rejoin := range []bool{false, true} {
		rejoin := rejoin
		var got []string
		var herr string
		body := func() {
			vsched.Branching(false)
			got, herr = nil, ""
			fs := vos.NewFS(nil)
			vos.Install(fs)
			defer vos.Install(nil)
			logger := log.New(io.Discard, "", 0)
			clock := &serf.LamportClock{}
			clock.Increment()
			out := make(chan serf.Event, 64)
			sh := make(chan struct{})
			in, snap, err := serf.NewSnapshotter("/snap/c13", 128*1024, rejoin, logger, clock, out, sh)
			if err != nil {
				herr = err.Error()
				return
			}
			member := func(name string, i byte) serf.Member {
				return serf.Member{Name: name, Addr: net.IPv4(10, 0, 0, i), Port: 7946}
			}
			in <- serf.MemberEvent{Type: serf.EventMemberJoin, Members: []serf.Member{member("foo", 1)}}
			vsched.Quiesce()
			snap.Leave()
			vsched.Quiesce()
			vsched.Branching(true)
			p := vsched.Spawn("memberlist", func() {
				in <- serf.MemberEvent{Type: serf.EventMemberJoin, Members: []serf.Member{member("late1", 2)}}
				vsched.Yield("produced")
				in <- serf.MemberEvent{Type: serf.EventMemberFailed, Members: []serf.Member{member("foo", 1)}}
				vsched.Yield("produced")
				in <- serf.MemberEvent{Type: serf.EventMemberJoin, Members: []serf.Member{member("late2", 3)}}
				vsched.Yield("produced")
			})
			c := vsched.Spawn("shutdown", func() { close(sh) })
			c.Join()
			vsched.Branching(false)
			vsched.Quiesce()
			snap.Wait()
			_ = p
			// restart from the file
			sh2 := make(chan struct{})
			_, snap2, err := serf.NewSnapshotter("/snap/c13", 128*1024, rejoin, logger, clock, nil, sh2)
			if err != nil {
				herr = "reopen: " + err.Error()
				return
			}
			for _, a := range snap2.AliveNodes() {
				got = append(got, a.Name)
			}
			sort.Strings(got)
			close(sh2)
			vsched.Quiesce()
		}
		check := func(x *vsched.Exec) (string, string, string) {
			if len(x.Panics) > 0 {
				return "panic", "concurrent: panic " + x.Panics[0].Frame, x.Panics[0].Value + "\n" + x.Panics[0].Stack
			}
			if herr != "" {
				return "harness", "harness: " + herr, herr
			}
			if !x.RootDone {
				return "stuck", "concurrent: deadlock", fmt.Sprintf("blocked %+v", x.Blocked)
			}
			want := ""
			if rejoin {
				want = "foo"
			}
			if g := strings.Join(got, ","); g != want {
				return "rejoin-set=" + g, "concurrent: rejoin set after leave, late events and shutdown is not the set at the leave", fmt.Sprintf("rejoin-after-leave=%v: foo joined, the leave was recorded, then join(late1), failed(foo), join(late2) were pushed in while the shutdown arrived; a restart from the snapshot would re-join [%s], want [%s]", rejoin, g, want)
			}
			return "rejoin-set=" + want, "", ""
		}
		ctx.Explore(vc.ExploreOpts{Name: fmt.Sprintf("concurrent/leave-then-events-racing-shutdown/rejoin=%v", rejoin), Bound: bound, MaxSteps: 100000}, body, check)
	}
}

// c13slowDisk: the stream goroutine is inside a file operation that takes 600 ms (a slow disk)
// when Leave is called (at several offsets into that operation). However long the hand-over of
// the leave takes, once Leave has returned and the node has shut down, the leave is on record:
// a restart re-joins nobody (rejoin disabled) resp. the set at the leave (rejoin enabled).
func c13slowDisk(ctx *vc.Ctx) {
	bound := 2
	if ctx.Thorough() {
		bound = 4
	}
	for _, rejoin := range []bool{false, true} {
		for _, off := range []time.Duration{0, 100 * time.Millisecond, 300 * time.Millisecond, 599 * time.Millisecond} {
			rejoin, off := rejoin, off
			var got []string
			var herr string
			body := func() {
				vsched.Branching(false)
				got, herr = nil, ""
				fs := vos.NewFS(nil)
				vos.Install(fs)
				defer vos.Install(nil)
				logger := log.New(io.Discard, "", 0)
				clock := &serf.LamportClock{}
				clock.Increment()
				out := make(chan serf.Event, 64)
				sh := make(chan struct{})
				in, snap, err := serf.NewSnapshotter("/snap/c13", 128*1024, rejoin, logger, clock, out, sh)
				if err != nil {
					herr = err.Error()
					return
				}
				member := func(name string, i byte) serf.Member {
					return serf.Member{Name: name, Addr: net.IPv4(10, 0, 0, i), Port: 7946}
				}
				in <- serf.MemberEvent{Type: serf.EventMemberJoin, Members: []serf.Member{member("foo", 1)}}
				vsched.Quiesce()
				vsched.Advance(int64(700 * time.Millisecond)) // the flush interval has passed: the next append writes
				fs.SlowAt = fs.Faultable() + 1
				fs.Slow = func() { vsched.Sleep(int64(600*time.Millisecond), "slow-disk") }
				vsched.SetHorizon(vsched.Elapsed() + int64(2*time.Second)) // the waits of this phase elapse by themselves
				vsched.Branching(true)
				p := vsched.Spawn("memberlist", func() {
					in <- serf.MemberEvent{Type: serf.EventMemberJoin, Members: []serf.Member{member("bar", 2)}}
				})
				l := vsched.Spawn("leave", func() {
					if off > 0 {
						vsched.Sleep(int64(off), "before-leave")
					}
					snap.Leave()
				})
				p.Join()
				l.Join()
				vsched.Branching(false)
				vsched.SetHorizon(vsched.Elapsed())
				vsched.Quiesce()
				// after the leave: another member shows up (while the slow operation may still be running),
				// the disk gets through its work, then the node shuts down
				in <- serf.MemberEvent{Type: serf.EventMemberJoin, Members: []serf.Member{member("late", 3)}}
				vsched.Quiesce()
				vsched.Advance(int64(time.Second))
				vsched.SetHorizon(vsched.Elapsed() + int64(2*time.Second))
				close(sh)
				snap.Wait()
				sh2 := make(chan struct{})
				_, snap2, err := serf.NewSnapshotter("/snap/c13", 128*1024, rejoin, logger, clock, nil, sh2)
				if err != nil {
					herr = "reopen: " + err.Error()
					return
				}
				for _, a := range snap2.AliveNodes() {
					got = append(got, a.Name)
				}
				sort.Strings(got)
				close(sh2)
				vsched.Quiesce()
			}
			check := func(x *vsched.Exec) (string, string, string) {
				if len(x.Panics) > 0 {
					return "panic", "slow-disk: panic " + x.Panics[0].Frame, x.Panics[0].Value + "\n" + x.Panics[0].Stack
				}
				if herr != "" {
					return "harness", "harness: " + herr, herr
				}
				if !x.RootDone {
					return "stuck", "slow-disk: deadlock", fmt.Sprintf("blocked %+v", x.Blocked)
				}
				g := strings.Join(got, ",")
				ok := g == ""
				if rejoin {
					ok = g == "foo" || g == "bar,foo" // bar's join may or may not have been recorded before the leave
				}
				if !ok {
					return "rejoin-set=" + g, "slow-disk: the leave is not on record after Leave returned and the node shut down", fmt.Sprintf("rejoin-after-leave=%v: the stream goroutine was inside a 600 ms write when Leave was called %v into it; after Leave returned, a later join and the shutdown, a restart would re-join [%s]", rejoin, off, g)
				}
				return "rejoin-set=" + g, "", ""
			}
			ctx.Explore(vc.ExploreOpts{Name: fmt.Sprintf("concurrent/leave-during-slow-write/rejoin=%v/offset=%v", rejoin, off), Bound: bound, MaxSteps: 100000}, body, check)
		}
	}
}
