package checks

import (
	"fmt"
	"time"

	"verifharness/vc"
	"verifharness/world"

	"github.com/hashicorp/serf/serf"
	"github.com/hashicorp/serf/zzverif/vsched"
)

// C04, intents/retention-band: "at most once while the message is within the member's retention
// window" at the far end of the window. A join / leave intent about a member the node does not
// know is buffered for RecentIntentTimeout (60 s here) and swept by the reaper every ReapInterval
// (10 s). The intent arrives at every phase of the reaper's period, and its duplicate at every age
// from the alphabet {1 s, T-R-1s, T-R, T-R/2, T-1s, T-1ns}: none of these may be re-broadcast.
func c04retentionBand(ctx *vc.Ctx, idx *int) {
	scn := ctx.Scn("intents/retention-band", "cases")
	const T, R = 60 * time.Second, 10 * time.Second
	ages := []time.Duration{time.Second, T - R - time.Second, T - R, T - R/2, T - time.Second, T - time.Nanosecond}
	phases := []time.Duration{0, R / 4, R / 2, R - time.Second}
	for _, leave := range []bool{false, true} {
		for _, ph := range phases {
			for _, age := range ages {
				*idx++
				if !ctx.Mine(*idx) {
					continue
				}
				var extra int
				var herr string
				x := vsched.Run(vsched.RunOpts{MaxSteps: 2000000}, func() {
					n, err := world.NewNode("a", 0, func(c *serf.Config) {
						c.ReapInterval = R
						c.RecentIntentTimeout = T
					})
					if err != nil {
						herr = err.Error()
						return
					}
					defer n.S.Shutdown()
					vsched.Quiesce()
					vsched.Advance(int64(ph))
					msg := serf.VEncode(serf.VMsgJoin, &serf.VMessageJoin{LTime: 7, Node: "zz"})
					if leave {
						msg = serf.VEncode(serf.VMsgLeave, &serf.VMessageLeave{LTime: 7, Node: "zz"})
					}
					n.Delegate().NotifyMsg(msg)
					vsched.Quiesce()
					if first := len(n.Outbox()); first != 1 {
						herr = fmt.Sprintf("the first delivery queued %d broadcasts, want 1", first)
						return
					}
					vsched.Advance(int64(age))
					n.Delegate().NotifyMsg(msg)
					vsched.Quiesce()
					extra = len(n.Outbox())
				})
				kind := "join"
				if leave {
					kind = "leave"
				}
				what := fmt.Sprintf("%s intent about an unknown member delivered %v into a reaper period (interval %v), its duplicate %v later (retention %v)", kind, ph, R, age, T)
				switch {
				case herr != "":
					ctx.Fail("C04 retention band: %s: %s", what, herr)
				case len(x.Panics) > 0:
					ctx.Violation(scn.Name, "retention-band: panic "+x.Panics[0].Frame, what+": "+x.Panics[0].Value, nil)
					scn.Case("panic", true)
				case extra != 0:
					ctx.Violation(scn.Name, "re-broadcast twice: "+kind+" intent still inside the retention window", fmt.Sprintf("%s: the duplicate queued %d more broadcast(s)", what, extra), nil)
					scn.Case("re-broadcast", true)
				default:
					scn.Case("held", true)
				}
				scn.Transitions += 2
			}
		}
	}
}
