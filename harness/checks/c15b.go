package checks

import (
	"fmt"
	"sort"
	"strings"
	"time"

	"verifharness/vc"
	"verifharness/world"

	"github.com/hashicorp/serf/serf"
	"github.com/hashicorp/serf/zzverif/vsched"
)

// C15, concurrent part: a pruning force-leave of a member that is still leaving makes the
// handler wait (broadcast timeout + propagation delay) before it erases the member. While
// it waits, memberlist's own notifications about that member and about others arrive on other
// threads, and the reaper ticks. At every observation point (an observer samples every 7 ms
// of virtual time, and after every call) the counts must equal the lists, names must be
// unique; at the end the pruned member is gone and was reaped exactly once.
func c15concurrent(ctx *vc.Ctx) {
	bound := 1
	if ctx.Thorough() {
		bound = 2
	}
	type prog struct {
		name  string
		calls []string // per thread: "sleep:<d>;<op>..." ops: prune(x) leave(x) join(x) (intents) dead(x) alive(x) (memberlist notifications)
	}
	progs := []prog{
		{"prune-leaving(b) || dead(b) during the wait", []string{"leave(b);prune(b)", "sleep:5ms;dead(b)"}},
		{"prune-leaving(b) || dead(b) at once", []string{"leave(b);prune(b)", "dead(b)"}},
		{"prune-leaving(b) || dead(b);alive(b) during the wait", []string{"leave(b);prune(b)", "sleep:5ms;dead(b);alive(b)"}},
		{"prune-leaving(b) || dead(c) and prune(c) during the wait", []string{"leave(b);prune(b)", "sleep:5ms;dead(c);prune(c)"}},
		{"prune-failed(b) || alive(b)", []string{"dead(b);prune(b)", "alive(b)"}},
		{"prune-alive(b) || dead(b) during the wait", []string{"prune(b)", "sleep:5ms;dead(b)"}},
		{"prune-alive(b) || refuting join(b) during the wait", []string{"prune(b)", "sleep:5ms;join(b)"}},
		{"prune-alive(b) || refuting join(b) then dead(b) during the wait", []string{"prune(b)", "sleep:5ms;join(b);dead(b)"}},
		{"prune-alive(b) || dead(b) then alive(b) during the wait", []string{"prune(b)", "sleep:5ms;dead(b);alive(b)"}},
	}
	for _, p := range progs {
		p := p
		var samples []string
		var reaps map[string]int
		var finalStatus map[string]string
		var bad string
		body := func() {
			vsched.Branching(false)
			samples, reaps, finalStatus, bad = nil, map[string]int{}, nil, ""
			n, err := world.NewNode("a", 0, func(c *serf.Config) {
				c.ReapInterval = 10 * time.Millisecond
				c.ReconnectTimeout = 40 * time.Millisecond
				c.TombstoneTimeout = 60 * time.Millisecond
				c.BroadcastTimeout = 3 * time.Millisecond
				c.LeavePropagateDelay = 9 * time.Millisecond
			})
			if err != nil {
				panic(err)
			}
			idx := map[string]int{"b": 1, "c": 2}
			for _, m := range []string{"b", "c"} {
				n.Events().NotifyJoin(n.MLNode(m, idx[m], nil))
			}
			vsched.Quiesce()
			n.DrainEvents()
			vsched.SetHorizon(vsched.Elapsed() + int64(400*time.Millisecond))
			lt := uint64(10)
			// One look is atomic (the dump takes no locks and contains no scheduling point): what Stats
			// would count (the failed / left lists) against what Members would list, at the same instant.
			look := func(who string) {
				d := serf.VDump(n.S)
				status := map[string]string{}
				for _, m := range d.Members {
					status[m.Name] = m.Status
				}
				for _, l := range []struct {
					kind  string
					names []string
				}{{"failed", d.Failed}, {"left", d.Left}} {
					seen := map[string]bool{}
					for _, name := range l.names {
						if seen[name] && bad == "" {
							bad = fmt.Sprintf("duplicate-name|at %s (t=%v): %q is on the %s list twice", who, time.Duration(vsched.Elapsed()), name, l.kind)
						}
						seen[name] = true
						if status[name] != l.kind && bad == "" {
							bad = fmt.Sprintf("counts-differ-from-lists|at %s (t=%v): %q is counted as %s but listed as %q (members %v, failed list %v, left list %v)", who, time.Duration(vsched.Elapsed()), name, l.kind, status[name], status, d.Failed, d.Left)
						}
					}
					for name, st := range status {
						if st == l.kind && !seen[name] && bad == "" {
							bad = fmt.Sprintf("counts-differ-from-lists|at %s (t=%v): %q is listed as %s but not counted (failed list %v, left list %v)", who, time.Duration(vsched.Elapsed()), name, st, d.Failed, d.Left)
						}
					}
				}
				samples = append(samples, fmt.Sprintf("%d/%d", len(d.Failed), len(d.Left)))
			}
			do := func(op string) {
				who := op[strings.Index(op, "(")+1 : len(op)-1]
				switch op[:strings.Index(op, "(")] {
				case "leave":
					lt += 2
					n.Delegate().NotifyMsg(serf.VEncode(serf.VMsgLeave, &serf.VMessageLeave{LTime: serf.LamportTime(lt), Node: who}))
				case "prune":
					lt += 2
					n.Delegate().NotifyMsg(serf.VEncode(serf.VMsgLeave, &serf.VMessageLeave{LTime: serf.LamportTime(lt), Node: who, Prune: true}))
				case "join":
					lt += 2
					n.Delegate().NotifyMsg(serf.VEncode(serf.VMsgJoin, &serf.VMessageJoin{LTime: serf.LamportTime(lt), Node: who}))
				case "dead":
					n.Events().NotifyLeave(n.MLNode(who, idx[who], nil))
				case "alive":
					n.Events().NotifyJoin(n.MLNode(who, idx[who], nil))
				}
			}
			vsched.Branching(true)
			var hs []vsched.Handle
			for i, calls := range p.calls {
				calls := calls
				hs = append(hs, vsched.Spawn(fmt.Sprintf("t%d", i), func() {
					for _, op := range strings.Split(calls, ";") {
						if strings.HasPrefix(op, "sleep:") {
							d, _ := time.ParseDuration(op[6:])
							vsched.Sleep(int64(d), "harness-sleep")
							continue
						}
						do(op)
						look("after " + op)
					}
				}))
			}
			hs = append(hs, vsched.Spawn("observer", func() {
				for i := 0; i < 8; i++ {
					look("observer")
					vsched.Sleep(int64(7*time.Millisecond), "observer-sleep")
				}
			}))
			for _, h := range hs {
				h.Join()
			}
			vsched.Branching(false)
			vsched.Advance(int64(200 * time.Millisecond)) // every reap deadline passes
			vsched.Quiesce()
			look("end")
			for _, e := range n.DrainEvents() {
				if me, ok := e.(serf.MemberEvent); ok && me.Type == serf.EventMemberReap {
					for _, m := range me.Members {
						reaps[m.Name]++
					}
				}
			}
			finalStatus = n.MemberStatus()
			n.S.Shutdown()
		}
		check := func(x *vsched.Exec) (string, string, string) {
			if len(x.Panics) > 0 {
				return "panic", "concurrent: panic " + x.Panics[0].Frame, x.Panics[0].Value + "\n" + x.Panics[0].Stack
			}
			if !x.RootDone {
				return "stuck", "concurrent: deadlock", fmt.Sprintf("blocked %+v", x.Blocked)
			}
			if bad != "" {
				i := strings.Index(bad, "|")
				return bad[:i], "concurrent: " + bad[:i], p.name + ": " + bad[i+1:]
			}
			var names []string
			for name, k := range reaps {
				names = append(names, fmt.Sprintf("%s:%d", name, k))
				if k > 1 {
					return "reaped-twice", "concurrent: more than one reap event for a member", fmt.Sprintf("%s: %d reap events for %s", p.name, k, name)
				}
			}
			sort.Strings(names)
			return fmt.Sprintf("reaps=%v final=%v", names, finalStatus), "", ""
		}
		ctx.Explore(vc.ExploreOpts{Name: "concurrent/" + p.name, Bound: bound, MaxSteps: 100000}, body, check)
	}
}
