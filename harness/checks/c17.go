package checks

import (
	"encoding/json"
	"fmt"
	"runtime"
	"runtime/debug"
	"strings"
	"time"

	"verifharness/vc"

	"github.com/hashicorp/serf/serf"
	"github.com/hashicorp/serf/zzverif/vsched"
)

// C17: Member event coalescing reports only the latest new state of each member.
//
// Layer (a) "direct": every sequence of member events x every placement of
// flush points, driven through Handle/Coalesce/Flush of the real
// memberEventCoalescer (constructed as serf.Create does), each flush output
// compared as a multiset with the reference model below.
// Layer (b) "loop": the real coalescedEventCh/coalesceLoop under the controlled
// scheduler with virtual time; flush points are the ones the loop takes (observed
// through a recording wrapper around the real coalescer); same content oracle,
// plus "flushes happen exactly when the quantum / quiescent timer is due".

// c17knownSig: the pending map (latestEvents) is never cleared by Flush, so the
// last reported update of a member is reported again by every later flush.
const c17knownSig = "stale-update-re-emitted-by-later-flush"

const (
	c17cPeriod = 4 * time.Second // coalesce (quantum) period used in the loop layer
	c17qPeriod = 3 * time.Second // quiescent period
)

type c17op struct {
	t     byte // 'E' event, 'F' flush (direct), 'T' advance virtual time (loop), 'S' shutdown (loop)
	kind  serf.EventType
	names []string
	dt    time.Duration
}

var c17kindCode = map[serf.EventType]string{
	serf.EventMemberJoin: "join", serf.EventMemberLeave: "leave", serf.EventMemberFailed: "failed",
	serf.EventMemberUpdate: "update", serf.EventMemberReap: "reap",
}

func (o c17op) String() string {
	switch o.t {
	case 'E':
		return c17kindCode[o.kind] + ":" + strings.Join(o.names, "+")
	case 'T':
		return fmt.Sprintf("T%d", int64(o.dt/time.Second))
	}
	return string(o.t)
}

func c17opsString(ops []c17op) string {
	var sb strings.Builder
	for i, o := range ops {
		if i > 0 {
			sb.WriteByte(' ')
		}
		sb.WriteString(o.String())
	}
	return sb.String()
}

func c17parseOps(s string) ([]c17op, error) {
	var ops []c17op
	for _, f := range strings.Fields(s) {
		switch {
		case f == "F" || f == "S":
			ops = append(ops, c17op{t: f[0]})
		case f[0] == 'T' && !strings.Contains(f, ":"):
			var n int64
			if _, err := fmt.Sscanf(f, "T%d", &n); err != nil {
				return nil, err
			}
			ops = append(ops, c17op{t: 'T', dt: time.Duration(n) * time.Second})
		default:
			p := strings.SplitN(f, ":", 2)
			if len(p) != 2 {
				return nil, fmt.Errorf("bad op %q", f)
			}
			found := false
			for k, c := range c17kindCode {
				if c == p[0] {
					ops = append(ops, c17op{t: 'E', kind: k, names: strings.Split(p[1], "+")})
					found = true
				}
			}
			if !found {
				return nil, fmt.Errorf("bad op %q", f)
			}
		}
	}
	return ops, nil
}

// c17item is one (kind, member) report. port is the version stamp of the event
// that carried the member (every event of a case gets its own stamp), so "the
// latest event received for it" is checked on the member data too.
type c17item struct {
	kind serf.EventType
	name string
	port uint16
}

func (i c17item) String() string {
	return fmt.Sprintf("%s(%s#%d)", c17kindCode[i.kind], i.name, i.port)
}

func c17itemsString(l []c17item) string {
	s := make([]string, len(l))
	for i, x := range l {
		s[i] = x.String()
	}
	return "[" + strings.Join(s, " ") + "]"
}

// c17model is the reference: pending latest event per member since the last
// flush + last reported kind per member. Members are indexed by name ("a".."c");
// fixed arrays keep the enumeration allocation-free on the harness side.
const c17maxNames = 3

type c17slot struct {
	has bool
	it  c17item
}

type c17model struct {
	pending [c17maxNames]c17slot
	lastRep [c17maxNames]c17slot // last item reported to the application per member
	latest  [c17maxNames]c17slot // latest event ever received per member
	appLast [c17maxNames]c17slot // what the application last saw per member (from the REAL output)
	stamp   uint16
	flushes int
	// statistics
	overwrote, suppressed, idle bool
	reported                    int
}

func c17newModel() *c17model { return &c17model{} }

func c17nameIdx(n string) int {
	if len(n) == 1 && n[0] >= 'a' && n[0] < 'a'+c17maxNames {
		return int(n[0] - 'a')
	}
	return -1
}

// event builds the real event for op o and records it in the model.
func (m *c17model) event(o c17op) serf.MemberEvent {
	m.stamp++
	e := serf.MemberEvent{Type: o.kind, Members: make([]serf.Member, 0, len(o.names))}
	for _, n := range o.names {
		e.Members = append(e.Members, serf.Member{Name: n, Port: m.stamp})
		i := c17nameIdx(n)
		if m.pending[i].has {
			m.overwrote = true
		}
		m.pending[i] = c17slot{true, c17item{o.kind, n, m.stamp}}
		m.latest[i] = m.pending[i]
	}
	return e
}

func c17slotsString(p *[c17maxNames]c17slot) string {
	var l []c17item
	for _, s := range p {
		if s.has {
			l = append(l, s.it)
		}
	}
	return c17itemsString(l)
}

// flush compares what the real coalescer emitted in one flush with the model and
// advances the model. sig=="" means the flush is as the property demands.
func (m *c17model) flush(actual []serf.Event) (sig, msg string) {
	m.flushes++
	var actN [c17maxNames]int
	var actIt [c17maxNames]c17slot
	for _, e := range actual {
		me, ok := e.(serf.MemberEvent)
		if !ok {
			return "flush-emitted-non-member-event", fmt.Sprintf("flush %d emitted %T %v", m.flushes, e, e)
		}
		for _, mem := range me.Members {
			i := c17nameIdx(mem.Name)
			if i < 0 {
				return "report-for-unknown-member", fmt.Sprintf("flush %d reported %s for member %q which never had an event", m.flushes, c17kindCode[me.Type], mem.Name)
			}
			actN[i]++
			if actN[i] == 1 {
				actIt[i] = c17slot{true, c17item{me.Type, mem.Name, mem.Port}}
			}
		}
	}
	// expected
	var exp [c17maxNames]c17slot
	for i := range m.pending {
		if !m.pending[i].has {
			if m.lastRep[i].has && m.flushes > 1 {
				m.idle = true
			}
			continue
		}
		it := m.pending[i].it
		if m.lastRep[i].has && m.lastRep[i].it.kind == it.kind && it.kind != serf.EventMemberUpdate {
			m.suppressed = true
			continue
		}
		exp[i] = c17slot{true, it}
	}
	describe := func() string {
		return fmt.Sprintf("reported %s (first report per member), the property demands %s (pending since the previous flush: %s; last reported: %s)",
			c17slotsString(&actIt), c17slotsString(&exp), c17slotsString(&m.pending), c17slotsString(&m.lastRep))
	}
	known := false
	for i := range exp {
		a, e := actIt[i], exp[i]
		cls := ""
		switch {
		case actN[i] > 1:
			cls = "member-reported-twice-in-one-flush"
		case !e.has && a.has && !m.pending[i].has:
			if a.it.kind == serf.EventMemberUpdate && m.lastRep[i] == a {
				known = true
				continue
			}
			cls = "report-for-member-without-new-event"
		case !e.has && a.has:
			cls = "same-kind-repeat-not-suppressed"
		case e.has && !a.has:
			if e.it.kind == serf.EventMemberUpdate {
				cls = "update-not-reported"
			} else {
				cls = "latest-event-not-reported"
			}
		case e.has && a.it.kind != e.it.kind:
			cls = "reported-kind-is-not-the-latest"
		case e.has && a != e:
			cls = "reported-member-data-is-not-the-latest"
		}
		if cls != "" {
			return cls, fmt.Sprintf("flush %d: member %q (reported %d times): %s", m.flushes, string(rune('a'+i)), actN[i], describe())
		}
	}
	if known {
		sig = c17knownSig
	}
	if known && !c17seen[sig] {
		msg = fmt.Sprintf("flush %d %s; the extra update was already reported by an earlier flush and that member had no new event since", m.flushes, describe())
	}
	// advance the model
	for i := range exp {
		if exp[i].has {
			m.lastRep[i] = exp[i]
			m.reported++
		}
		m.pending[i] = c17slot{}
		// "the kind the application last saw for each member always equals the kind of the latest event"
		if actIt[i].has {
			m.appLast[i] = actIt[i]
		}
		if m.latest[i].has && (!m.appLast[i].has || m.appLast[i].it.kind != m.latest[i].it.kind) {
			return "application-kind-differs-from-latest-event", fmt.Sprintf("after flush %d the application last saw %s for member %q but the latest event received for it is %s",
				m.flushes, c17slotsString(&m.appLast), string(rune('a'+i)), m.latest[i].it)
		}
	}
	return sig, msg
}

func (m *c17model) nontrivial() bool { return m.overwrote || m.suppressed || m.idle }

var c17labels = map[int]string{}

func (m *c17model) label() string {
	k := m.flushes<<10 | m.reported<<3
	if m.overwrote {
		k |= 1
	}
	if m.suppressed {
		k |= 2
	}
	if m.idle {
		k |= 4
	}
	s, ok := c17labels[k]
	if !ok {
		s = fmt.Sprintf("flushes=%d reported=%d ow=%v sup=%v idle=%v", m.flushes, m.reported, m.overwrote, m.suppressed, m.idle)
		c17labels[k] = s
	}
	return s
}

func c17drain(out chan serf.Event) []serf.Event {
	l := c17drainBuf[:0]
	for len(out) > 0 {
		l = append(l, <-out)
	}
	c17drainBuf = l
	return l
}

var c17drainBuf []serf.Event

// c17direct runs one case on a fresh real coalescer. A final flush is always
// appended by the enumerator. Returns the first non-known signature, or the
// known one if only that occurred.
func c17direct(ops []c17op, out chan serf.Event) (m *c17model, sig, msg string) {
	c := serf.VNewMemberCoalescer()
	m = c17newModel()
	var held []c17held
	for _, o := range ops {
		switch o.t {
		case 'E':
			e := m.event(o)
			if !c.Handle(e) {
				return m, "member-event-not-coalesced", fmt.Sprintf("Handle(%s) = false: the event bypasses coalescing", o)
			}
			c.Coalesce(e)
			if len(out) != 0 {
				return m, "reported-outside-flush", fmt.Sprintf("Coalesce(%s) emitted %d events", o, len(out))
			}
		case 'F':
			c.Flush(out)
			got := c17drain(out)
			s, g := m.flush(got)
			// what the application has received stays what it was: the reports of this flush are held
			// (as delivered, not copied) and re-read after every later flush
			for _, h := range held {
				if now := c17render(h.e); now != h.was {
					return m, "delivered-report-changed-later", fmt.Sprintf("a report delivered by flush %d read %s when it was received; after flush %d (%s) the same value reads %s", h.flush, h.was, m.flushes, o, now)
				}
			}
			for _, e := range got {
				held = append(held, c17held{e, c17render(e), m.flushes})
			}
			if s != "" && s != c17knownSig {
				return m, s, g
			}
			if s != "" && sig == "" {
				sig, msg = s, g
			}
		}
	}
	return m, sig, msg
}

type c17held struct {
	e     serf.Event
	was   string
	flush int
}

func c17render(e serf.Event) string {
	me, ok := e.(serf.MemberEvent)
	if !ok {
		return fmt.Sprintf("%T", e)
	}
	s := me.Type.String() + "["
	for _, m := range me.Members {
		s += fmt.Sprintf("%s#%d ", m.Name, m.Port)
	}
	return s + "]"
}

type c17rec struct {
	inner   serf.VCoalescer
	flushAt []int64
}

func (r *c17rec) Handle(e serf.Event) bool { return r.inner.Handle(e) }
func (r *c17rec) Coalesce(e serf.Event)    { r.inner.Coalesce(e) }
func (r *c17rec) Flush(out chan<- serf.Event) {
	r.flushAt = append(r.flushAt, vsched.Elapsed())
	r.inner.Flush(out)
}

// c17timers is the reference for when coalesceLoop flushes (config.go:79-90):
// at most CoalescePeriod after the first event of a quantum, or QuiescentPeriod
// after the last event, whichever is first.
type c17timers struct {
	set                    bool
	quantumAt, quiescentAt int64
	c, q                   int64
}

func (t *c17timers) handled(now int64) {
	if !t.set {
		t.set = true
		t.quantumAt = now + t.c
	}
	t.quiescentAt = now + t.q
}

// advance returns the virtual time of the flush due in (.., to], or -1.
func (t *c17timers) advance(to int64) int64 {
	if !t.set {
		return -1
	}
	due := t.quantumAt
	if t.quiescentAt < due {
		due = t.quiescentAt
	}
	if due > to {
		return -1
	}
	t.set = false
	return due
}

// c17loop runs one script through the real coalesceLoop.
func c17loop(ops []c17op) (m *c17model, timerFlushes int, sig, msg string) {
	m = c17newModel()
	fail := func(s, g string) {
		if sig == "" || sig == c17knownSig {
			sig, msg = s, g
		}
	}
	x := vsched.Run(vsched.RunOpts{MaxSteps: 200000}, func() {
		out := make(chan serf.Event, 256)
		shut := make(chan struct{})
		rec := &c17rec{inner: serf.VNewMemberCoalescer()}
		in := serf.VCoalescedEventCh(out, shut, c17cPeriod, c17qPeriod, rec)
		tm := &c17timers{c: int64(c17cPeriod), q: int64(c17qPeriod)}
		vsched.Quiesce()
		seen := 0
		for i, o := range ops {
			switch o.t {
			case 'E':
				in <- m.event(o)
				vsched.Quiesce()
				tm.handled(vsched.Elapsed())
				if got := c17drain(out); len(got) != 0 || len(rec.flushAt) != seen {
					fail("loop: member-event-not-held-until-flush", fmt.Sprintf("step %d %s: %d events reached the application and %d flushes happened without any time passing", i, o, len(got), len(rec.flushAt)-seen))
					return
				}
			case 'T', 'S':
				want := int64(-1)
				if o.t == 'T' {
					want = tm.advance(vsched.Elapsed() + int64(o.dt))
					vsched.Advance(int64(o.dt))
				} else {
					close(shut)
					vsched.Quiesce()
				}
				got := rec.flushAt[seen:]
				seen = len(rec.flushAt)
				if o.t == 'T' {
					if (want < 0 && len(got) != 0) || (want >= 0 && (len(got) != 1 || got[0] != want)) {
						fail("loop: flush-not-at-timer", fmt.Sprintf("step %d %s (coalesce period %v, quiescent period %v): flushes at %v ns, the timers demand %d (-1 = none)", i, o, c17cPeriod, c17qPeriod, got, want))
						return
					}
					if want >= 0 {
						timerFlushes++
					}
				}
				evs := c17drain(out)
				if len(got) == 0 {
					if len(evs) != 0 {
						fail("loop: reported-outside-flush", fmt.Sprintf("step %d %s: %d events reached the application without a flush", i, o, len(evs)))
						return
					}
					continue
				}
				if len(got) > 1 {
					fail("loop: flush-not-at-timer", fmt.Sprintf("step %d %s: %d flushes in one step", i, o, len(got)))
					return
				}
				if s, g := m.flush(evs); s != "" {
					fail(s, fmt.Sprintf("step %d %s: %s", i, o, g))
					if s != c17knownSig {
						return
					}
				}
			}
		}
	})
	if len(x.Panics) > 0 {
		return m, timerFlushes, "panic " + x.Panics[0].Frame, x.Panics[0].Value + "\n" + x.Panics[0].Stack
	}
	if !x.RootDone && sig == "" {
		return m, timerFlushes, "loop: stuck", fmt.Sprintf("harness root did not finish: blocked %+v caphit=%v", x.Blocked, x.CapHit)
	}
	return m, timerFlushes, sig, msg
}

// c17gcSetup is pure speed, no semantics: the enumeration allocates a few small
// short-lived objects per case (the real coalescer's maps and events). Page
// faults and madvise are very expensive in the sandbox, so the heap is kept
// small and stable: automatic GC is switched off, the scenario loops collect
// explicitly every few thousand cases, and an untouched ballast keeps the
// background scavenger's retention goal above the working set.
func c17gcSetup() func() {
	ballast := make([]byte, 64<<20)
	old := debug.SetGCPercent(-1)
	return func() {
		debug.SetGCPercent(old)
		runtime.KeepAlive(ballast)
	}
}

// c17seen: signatures already reported by this process (their messages need not
// be rendered again; vc.Ctx.Violation keeps the first per signature anyway).
var c17seen = map[string]bool{}

type c17replay struct {
	Layer string `json:"layer"`
	Ops   string `json:"ops"`
}

func init() {
	vc.Register(&vc.Check{
		ID:    "C17",
		Level: "exploration",
		Rule: "cases (direct): every sequence of member events over the alphabet {join,leave,failed,update,reap} x member sets (quick: {a},{b} length<=5 and {a},{b},{a,b} length<=4; thorough: length<=6 / <=5 and {a},{b},{c} length<=4) x every subset of positions after which Flush is called, plus one final Flush, on the real memberEventCoalescer; every event carries a distinct member stamp; each flush output compared as a multiset. " +
			"cases (loop): every script of length<=5 (thorough 6) over {5 member events, advance 1s, advance 2s} followed by shutdown, through the real coalesceLoop under the controlled scheduler with virtual time (coalesce period 4s, quiescent period 3s). " +
			"All cases are distinct by construction; non-trivial (direct) = within one quantum an event overwrote a pending event of the same member, or an event was suppressed, or a flush happened while a previously reported member had no new event; non-trivial (loop) = at least one timer-driven flush. slow-application/member-events (shared with C16): an application that does not read its channel for a while, under the controlled scheduler",
		Assumptions: []string{
			"the coalescer is constructed as serf.Create constructs it (two empty maps); Handle/Coalesce/Flush are called from one thread, as coalesceLoop does",
			"the order of reports inside one flush and their grouping into MemberEvent values is unspecified (Flush iterates Go maps); outputs are compared as multisets of (kind, member) pairs",
			"loop layer: flush instants are those documented in config.go (CoalescePeriod after the first event of a quantum or QuiescentPeriod after the last one, whichever is first); events are injected at quiescent points, so an event never races with a timer",
		},
		Run: c17run,
	})
}

func c17run(ctx *vc.Ctx) {
	defer c17gcSetup()()
	// the real coalesceLoop in front of an application that stops reading for a while (c16.go)
	c16slowApp(ctx, 1, false)
	if ctx.Replay != nil {
		var r c17replay
		if json.Unmarshal(ctx.Replay, &r) != nil {
			return
		}
		ops, err := c17parseOps(r.Ops)
		if err != nil {
			ctx.Fail("C17 replay: %v", err)
			return
		}
		scn := ctx.Scn("replay/"+r.Layer, "cases")
		var sig, msg string
		var m *c17model
		if r.Layer == "loop" {
			m, _, sig, msg = c17loop(ops)
		} else {
			m, sig, msg = c17direct(ops, make(chan serf.Event, 64))
		}
		fmt.Printf("replay layer=%s ops=%q outcome=%s sig=%q\n", r.Layer, r.Ops, m.label(), sig)
		if sig != "" {
			ctx.Violation(scn.Name, sig, "case ["+r.Ops+"]: "+msg, r)
		}
		scn.Case(m.label(), true)
		return
	}
	kinds := []serf.EventType{serf.EventMemberJoin, serf.EventMemberLeave, serf.EventMemberFailed, serf.EventMemberUpdate, serf.EventMemberReap}
	alpha := func(sets ...[]string) []c17op {
		var l []c17op
		for _, k := range kinds {
			for _, s := range sets {
				l = append(l, c17op{t: 'E', kind: k, names: s})
			}
		}
		return l
	}
	a, b, c := []string{"a"}, []string{"b"}, []string{"c"}
	ab := []string{"a", "b"}
	idx := 0
	if ctx.Thorough() {
		c17directScn(ctx, &idx, "direct/2names/len<=6", alpha(a, b), 6)
		c17directScn(ctx, &idx, "direct/2names+pair/len<=5", alpha(a, b, ab), 5)
		c17directScn(ctx, &idx, "direct/3names/len<=4", alpha(a, b, c), 4)
	} else {
		c17directScn(ctx, &idx, "direct/2names/len<=5", alpha(a, b), 5)
		c17directScn(ctx, &idx, "direct/2names+pair/len<=4", alpha(a, b, ab), 4)
	}
	// loop layer
	la := []c17op{
		{t: 'E', kind: serf.EventMemberJoin, names: a},
		{t: 'E', kind: serf.EventMemberUpdate, names: a},
		{t: 'E', kind: serf.EventMemberLeave, names: a},
		{t: 'E', kind: serf.EventMemberJoin, names: b},
		{t: 'E', kind: serf.EventMemberFailed, names: ab},
		{t: 'T', dt: time.Second},
		{t: 'T', dt: 2 * time.Second},
	}
	n := 5
	if ctx.Thorough() {
		n = 6
	}
	c17loopScn(ctx, &idx, fmt.Sprintf("loop/len<=%d", n), la, n)
}

// c17words calls f for every word over an alphabet of size k with length 1..n
// (as digit slices; the slice is reused).
func c17words(k, n int, f func(w []int) bool) {
	for l := 1; l <= n; l++ {
		w := make([]int, l)
		for {
			if !f(w) {
				return
			}
			i := l - 1
			for i >= 0 {
				w[i]++
				if w[i] < k {
					break
				}
				w[i] = 0
				i--
			}
			if i < 0 {
				break
			}
		}
	}
}

func c17directScn(ctx *vc.Ctx, idx *int, name string, alpha []c17op, maxLen int) {
	scn := ctx.Scn(name, "cases")
	out := make(chan serf.Event, 64)
	ops := make([]c17op, 0, 2*maxLen+1)
	n := 0
	c17words(len(alpha), maxLen, func(w []int) bool {
		*idx++
		if !ctx.Mine(*idx) {
			return true
		}
		n++
		if n&63 == 0 {
			runtime.GC()
		}
		if n&1023 == 0 && time.Now().After(ctx.Deadline) {
			scn.Exhaustive = false
			scn.StopReason = "time budget"
			return false
		}
		for mask := 0; mask < 1<<len(w); mask++ {
			ops = ops[:0]
			for i, d := range w {
				ops = append(ops, alpha[d])
				if mask&(1<<i) != 0 {
					ops = append(ops, c17op{t: 'F'})
				}
			}
			ops = append(ops, c17op{t: 'F'})
			m, sig, msg := c17direct(ops, out)
			for len(out) > 0 {
				<-out
			}
			if sig != "" && !c17seen[sig] {
				c17seen[sig] = true
				s := c17opsString(ops)
				ctx.Violation(scn.Name, sig, "case ["+s+"]: "+msg, c17replay{"direct", s})
			}
			scn.Case(m.label(), m.nontrivial())
		}
		return true
	})
	scn.Sample("[update:a F join:b F] -> flush 1 = [update(a#1)], flush 2 = [join(b#2)] (nothing for a)")
	scn.Sample("[join:a leave:a join:a F] -> flush 1 = [join(a#3)]; [join:a F leave:a join:a F] -> flush 2 = [] (same kind as last reported)")
}

func c17loopScn(ctx *vc.Ctx, idx *int, name string, alpha []c17op, maxLen int) {
	scn := ctx.Scn(name, "cases")
	ops := make([]c17op, 0, maxLen+1)
	n := 0
	c17words(len(alpha), maxLen, func(w []int) bool {
		*idx++
		if !ctx.Mine(*idx) {
			return true
		}
		n++
		if n&127 == 0 {
			runtime.GC()
		}
		if n&63 == 0 && time.Now().After(ctx.Deadline) {
			scn.Exhaustive = false
			scn.StopReason = "time budget"
			return false
		}
		ops = ops[:0]
		for _, d := range w {
			ops = append(ops, alpha[d])
		}
		ops = append(ops, c17op{t: 'S'})
		m, tf, sig, msg := c17loop(ops)
		if sig != "" && !c17seen[sig] {
			c17seen[sig] = true
			s := c17opsString(ops)
			ctx.Violation(scn.Name, sig, "script ["+s+"]: "+msg, c17replay{"loop", s})
		}
		scn.Case(fmt.Sprintf("%s timerflushes=%d", m.label(), tf), tf > 0)
		return true
	})
	scn.Sample("[join:a T2 update:a T2 S] -> quantum timer flush at 4s = [update(a)] (join overwritten), nothing at shutdown")
}
