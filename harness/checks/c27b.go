package checks

import (
	"fmt"
	"strings"
	"time"

	"verifharness/vc"
	"verifharness/world"

	"github.com/hashicorp/serf/cmd/serf/command/agent"
	"github.com/hashicorp/serf/serf"
	"github.com/hashicorp/serf/zzverif/vsched"
)

// C27, query/handler-sequences: ONE ScriptEventHandler object handles several events one after
// another (as in a running agent), with handlers that fail, succeed silently or produce
// output. Every sequence (length 2, thorough 3) over a small alphabet of (event, handler set)
// steps ending in a query: the node's response to that query must be exactly the output of
// the handlers that ran successfully for IT (here: at most one handler matches the query), or
// no response when that handler printed nothing or failed -- whatever ran before.
func c27handlerSequences(ctx *vc.Ctx, idx *int) {
	scn := ctx.Scn("query/handler-sequences", "cases")
	type step struct {
		name   string
		event  string // "user:boom" | "user:quiet" | "query:ping" | "query:mute" | "query:bad"
		expect string // for queries: the response payload ("" = no response)
	}
	scripts := agent.ParseEventScript("user:boom=printf stale-from-failed-user-handler; exit 1")
	scripts = append(scripts, agent.ParseEventScript("user:quiet=true")...)
	scripts = append(scripts, agent.ParseEventScript("user:loud=printf loud-output")...)
	scripts = append(scripts, agent.ParseEventScript("query:ping=printf pong")...)
	scripts = append(scripts, agent.ParseEventScript("query:mute=true")...)
	scripts = append(scripts, agent.ParseEventScript("query:bad=printf stale-from-failed-query-handler; exit 3")...)
	alpha := []step{
		{"user(boom: prints, exit 1)", "user:boom", ""}, {"user(loud: prints, exit 0)", "user:loud", ""}, {"user(quiet)", "user:quiet", ""},
		{"query(ping -> pong)", "query:ping", "pong"}, {"query(mute: no output)", "query:mute", ""}, {"query(bad: prints, exit 3)", "query:bad", ""},
	}
	depth := 2
	if ctx.Thorough() {
		depth = 3
	}
	var rec func(hist []int)
	rec = func(hist []int) {
		if len(hist) > 0 && strings.HasPrefix(alpha[hist[len(hist)-1]].event, "query:") {
			*idx++
			if ctx.Mine(*idx) {
				var names []string
				for _, k := range hist {
					names = append(names, alpha[k].name)
				}
				var bad, setup string
				x := vsched.Run(vsched.RunOpts{MaxSteps: 4000000, Prefix: []int{1}}, func() {
					vsched.Branching(false)
					n, err := world.NewNode(c27node, 0)
					if err != nil {
						setup = err.Error()
						return
					}
					defer n.S.Shutdown()
					self := n.S.LocalMember()
					h := &agent.ScriptEventHandler{SelfFunc: func() serf.Member { return self }, Scripts: scripts, Logger: c27logger}
					vsched.StepsIn("agent.invokeEventScript", "agent.(*ScriptEventHandler).HandleEvent")
					for i, k := range hist {
						st := alpha[k]
						kind, name, _ := strings.Cut(st.event, ":")
						var ev serf.Event
						if kind == "user" {
							ev = serf.UserEvent{Name: name, LTime: serf.LamportTime(20 + i), Payload: []byte("p")}
						} else {
							n.Delegate().NotifyMsg(serf.VEncode(serf.VMsgQuery, &serf.VMessageQuery{
								LTime: serf.LamportTime(30 + i), ID: uint32(500 + i), Addr: []byte(world.NodeIP(3).To4()), Port: c27qPort, SourceNode: c27qSrc,
								Timeout: 10 * time.Second, Name: name, Payload: []byte("ask"),
							}))
							vsched.Quiesce()
							for _, e := range n.DrainEvents() {
								if qq, ok := e.(*serf.Query); ok && qq.Name == name {
									ev = qq
								}
							}
							if ev == nil {
								setup = "the node did not deliver query " + name
								return
							}
						}
						n.Tr.TakeSent()
						vsched.Branching(true)
						h.HandleEvent(ev)
						vsched.Branching(false)
						vsched.Quiesce()
						var payloads []string
						for _, p := range n.Tr.TakeSent() {
							if len(p.User) > 0 && p.User[0] == serf.VMsgQueryResponse {
								var r serf.VMessageQueryResponse
								if serf.VDecode(p.User[1:], &r) == nil && r.Flags&serf.VQueryFlagAck == 0 {
									payloads = append(payloads, string(r.Payload))
								}
							}
						}
						want := []string{}
						if st.expect != "" {
							want = []string{st.expect}
						}
						if fmt.Sprint(payloads) != fmt.Sprint(want) && bad == "" {
							bad = fmt.Sprintf("step %d, %s: the node's responses were %q, want %q", i+1, st.name, payloads, want)
						}
					}
				})
				switch {
				case setup != "":
					ctx.Fail("C27 handler sequences %v: %s", names, setup)
				case len(x.Panics) > 0:
					ctx.Violation(scn.Name, "sequence: panic "+x.Panics[0].Frame, fmt.Sprintf("%v: %s", names, x.Panics[0].Value), nil)
					scn.Case("panic", true)
				case !x.RootDone:
					ctx.Violation(scn.Name, "sequence: stuck", fmt.Sprintf("%v: blocked %+v", names, x.Blocked), nil)
					scn.Case("stuck", true)
				case bad != "":
					ctx.Violation(scn.Name, "sequence: query response is not the output of the handler that ran for it", fmt.Sprintf("one handler object, events %v: %s", names, bad), nil)
					scn.Case("wrong", true)
				default:
					scn.Case("ok", len(hist) > 1)
				}
			}
		}
		if len(hist) == depth {
			return
		}
		for k := range alpha {
			rec(append(append([]int{}, hist...), k))
		}
	}
	rec(nil)
}
