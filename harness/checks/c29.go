package checks

import (
	"fmt"
	"strings"

	"verifharness/vc"

	"github.com/hashicorp/serf/cmd/serf/command/agent"
	"github.com/hashicorp/serf/zzverif/vsched"
)

// C29: Agent log lines are delivered completely and in order.

type c29sink struct{ lines []string }

func (s *c29sink) Write(p []byte) (int, error) {
	s.lines = append(s.lines, string(p))
	return len(p), nil
}

type c29handler struct{ got []string }

func (h *c29handler) HandleLog(l string) { h.got = append(h.got, l) }

type c29call struct {
	line       string
	begin, end int
}

func init() {
	vc.Register(&vc.Check{
		ID:    "C29",
		Level: "exploration",
		Rule:  "schedules: all interleavings up to the preemption bound (quick 2, thorough 4) of 2 writer threads x 2 lines and one Flush thread on the real GatedWriter, and of 2 writers plus RegisterHandler on the real logWriter (ring sizes 2,3), with a scheduling point at every lock operation and before every statement of the methods under test (field read-modify-writes split into read/point/write); non-trivial = at least one non-default choice",
		Assumptions: []string{
			"statement-level sequential consistency (a data race manifests as an interleaving of the statements' reads and writes)",
			"the underlying io.Writer and the LogHandler are harness objects whose calls are atomic",
			"ordering oracle for the gate: a line whose Write returned before Flush was called precedes every line whose Write was called after Flush was called",
		},
		Run: c29run,
	})
}

func c29run(ctx *vc.Ctx) {
	bound := 2
	if ctx.Thorough() {
		bound = 4
	}
	c29gated(ctx, bound)
	for _, size := range []int{2, 3} {
		c29logwriter(ctx, bound, size)
	}
}

func c29gated(ctx *vc.Ctx, bound int) {
	var sink *c29sink
	var calls []*c29call
	var flushBegin, flushEnd, clock int
	progs := [][]string{{"a1\n", "a2\n"}, {"b1\n", "b2\n"}}
	body := func() {
		vsched.Branching(false)
		vsched.StepsIn("agent.(*GatedWriter).Write", "agent.(*GatedWriter).Flush")
		sink = &c29sink{}
		calls = nil
		clock = 0
		flushBegin, flushEnd = -1, -1
		w := &agent.GatedWriter{Writer: sink}
		vsched.Branching(true)
		var hs []vsched.Handle
		for wi := range progs {
			wi := wi
			hs = append(hs, vsched.Spawn(fmt.Sprintf("writer%d", wi), func() {
				for _, l := range progs[wi] {
					c := &c29call{line: l}
					clock++
					c.begin = clock
					calls = append(calls, c)
					w.Write([]byte(l))
					clock++
					c.end = clock
				}
			}))
		}
		hs = append(hs, vsched.Spawn("flusher", func() {
			clock++
			flushBegin = clock
			w.Flush()
			clock++
			flushEnd = clock
			_ = flushEnd
		}))
		for _, h := range hs {
			h.Join()
		}
		vsched.Branching(false)
	}
	check := func(x *vsched.Exec) (string, string, string) {
		if len(x.Panics) > 0 {
			return "panic", "panic " + x.Panics[0].Frame, x.Panics[0].Value + "\n" + x.Panics[0].Stack
		}
		if !x.RootDone {
			return "stuck", "deadlock", fmt.Sprintf("blocked: %+v", x.Blocked)
		}
		out := strings.Join(sink.lines, "")
		pos := map[string]int{}
		for i, l := range sink.lines {
			if _, dup := pos[l]; dup {
				return "dup", "gated: line-duplicated", fmt.Sprintf("line %q reached the output twice: %q", l, sink.lines)
			}
			pos[l] = i
		}
		for _, c := range calls {
			if _, ok := pos[c.line]; !ok {
				return "lost", "gated: line-lost", fmt.Sprintf("line %q never reached the output after Flush returned: output %q", c.line, sink.lines)
			}
		}
		for _, p := range progs {
			if pos[p[0]] > pos[p[1]] {
				return "worder", "gated: writer-order", fmt.Sprintf("lines of one writer swapped: %q", sink.lines)
			}
		}
		for _, a := range calls {
			for _, b := range calls {
				if a.end < flushBegin && b.begin > flushBegin && pos[a.line] > pos[b.line] {
					return "gate-order", "gated: gate-order", fmt.Sprintf("line %q was written (Write returned) before Flush was called, %q was written after Flush was called, but the output is %q", a.line, b.line, sink.lines)
				}
			}
		}
		return out, "", ""
	}
	ctx.Explore(vc.ExploreOpts{Name: "gated/2w2l+flush", Bound: bound, FreeSwitches: true, MaxSteps: 5000}, body, check)
}

func c29logwriter(ctx *vc.Ctx, bound, size int) {
	var h0, h1 *c29handler
	var wbegin, wend []int
	var regBegin, regEnd, clock int
	progs := [][]string{{"a1", "a2", "a3"}, {"b1", "b2"}}
	body := func() {
		vsched.Branching(false)
		vsched.StepsIn("agent.(*logWriter).Write", "agent.(*logWriter).RegisterHandler")
		h0, h1 = &c29handler{}, &c29handler{}
		wbegin, wend = nil, nil
		clock = 0
		lw := agent.NewLogWriter(size)
		lw.RegisterHandler(h0)
		lw.Write([]byte("p1\n"))
		vsched.Branching(true)
		var hs []vsched.Handle
		for wi := range progs {
			wi := wi
			hs = append(hs, vsched.Spawn(fmt.Sprintf("writer%d", wi), func() {
				for _, l := range progs[wi] {
					clock++
					wbegin = append(wbegin, clock)
					lw.Write([]byte(l + "\n"))
					clock++
					wend = append(wend, clock)
				}
			}))
		}
		hs = append(hs, vsched.Spawn("monitor", func() {
			clock++
			regBegin = clock
			lw.RegisterHandler(h1)
			clock++
			regEnd = clock
		}))
		for _, h := range hs {
			h.Join()
		}
		vsched.Branching(false)
	}
	check := func(x *vsched.Exec) (string, string, string) {
		if len(x.Panics) > 0 {
			return "panic", "panic " + x.Panics[0].Frame, x.Panics[0].Value + "\n" + x.Panics[0].Stack
		}
		if !x.RootDone {
			return "stuck", "deadlock", fmt.Sprintf("blocked: %+v", x.Blocked)
		}
		g := h0.got // global order of all lines
		if len(g) != 6 {
			return "g", "logwriter: registered-handler-missed-line", fmt.Sprintf("a handler registered from the start received %q, want all 6 lines once", g)
		}
		seen := map[string]bool{}
		for _, l := range g {
			if seen[l] {
				return "g", "logwriter: line-duplicated", fmt.Sprintf("handler received %q twice: %q", l, g)
			}
			seen[l] = true
		}
		// lines completed before Register was called / begun before it returned
		lo, hi := 1, 1
		for _, e := range wend {
			if e < regBegin {
				lo++
			}
		}
		for _, b := range wbegin {
			if b < regEnd {
				hi++
			}
		}
		s := strings.Join(h1.got, ",")
		for p := lo; p <= hi && p <= len(g); p++ {
			k := p
			if k > size {
				k = size
			}
			want := append(append([]string{}, g[p-k:p]...), g[p:]...)
			if strings.Join(want, ",") == s {
				return fmt.Sprintf("p=%d %s", p, s), "", ""
			}
		}
		return "bad", "logwriter: monitor-sequence", fmt.Sprintf("ring size %d, write order %q: a monitor attached after between %d and %d lines received %q, which is not 'the last <=%d buffered lines oldest first, then every later line once' for any attachment point", size, g, lo, hi, h1.got, size)
	}
	ctx.Explore(vc.ExploreOpts{Name: fmt.Sprintf("logwriter/size%d", size), Bound: bound, FreeSwitches: true, MaxSteps: 5000}, body, check)
}
