package checks

import (
	"fmt"
	"strings"

	"verifharness/vc"
)

// C02: Join/leave intents resolve by Lamport time under any delivery schedule.
// C01: Membership views converge to the true cluster state after faults heal.

func init() {
	vc.RegisterBFS("C02", clusterModel{})
	vc.RegisterBFS("C01", clusterModel{})
	vc.Register(&vc.Check{
		ID: "C02", Level: "model_checking", Serial: true,
		Rule: "states: breadth-first search over action histories of N=2,3 real Serf nodes (inert memberlist each; the harness plays memberlist and the network): join (real Serf.Join against an in-memory push/pull responder that runs the peer's real LocalState/MergeRemoteState), graceful leave (real Leave in its own thread, progressing as its broadcast is taken and virtual time passes), force-leave, delivery of any queued intent from any node to any other (any order, duplicates, loss = never delivering), memberlist up/down notifications in causal order, push/pull between any two connected nodes, ticks; at most L lifecycle operations per history; every transition checks 'status times only grow' and 'a stale intent changes no status'; in every state a closure (finish leaves, memberlist converges, deliver everything, sync all pairs until nothing changes) is run and the settled statuses are compared with the truth table of the statement; states are deduplicated on the canonical private state of all nodes plus harness views and outboxes. observer;T=k: breadth-first search (depth 7 quick / 9 thorough) over everything ONE real node can be told about one other member x: memberlist up/down, join and leave intents with k older/newer Lamport times each (also while x is unknown, so that they are buffered), state syncs listing x as alive or left; after every step: the record does not vanish, its status time does not decrease, an intent that is not newer changes no status, memberlist moves are legal, and the record created when x appears is not older than the newest intent received about x before",
		Assumptions: []string{
			"memberlist contract (DESIGN.md §2.3): alive notification only for a started, reachable node not currently held alive; dead notification only for a down or unreachable node held alive; user messages in any order, any number of times, or never; push/pull merges alive nodes only",
			"a departed member's leave counts as known to the cluster only if its intent was handed to a node that is still running at the end; otherwise left and failed are both accepted",
			"no prune, no reaping (timeouts far beyond the histories), no snapshots",
		},
		Run: func(ctx *vc.Ctx) { clusterRun(ctx, false) },
	})
	vc.Register(&vc.Check{
		ID: "C01", Level: "model_checking", Serial: true,
		Rule: "states: the C02 search extended with faults: crash of a node, restart of a crashed or departed node as a fresh instance under the same name (no snapshot), a partition that isolates one node, heal; memberlist reports unreachable nodes dead and reachable ones alive again; the closure heals the network, lets memberlist converge (a pair that declared each other dead is re-connected only through serf's reconnect of a member listed failed or through a third node), delivers everything and syncs until nothing changes; then every running node must list every running node it is connected to as alive, gracefully departed members as left and crashed ones as failed",
		Assumptions: []string{
			"same memberlist contract as C02; live memberlist's SWIM timing is not explored (that is a whole-system run); what is exhaustive is serf's reaction to every callback order the contract allows",
			"3 nodes, at most L lifecycle/fault operations per history, one restart per node",
		},
		Run: func(ctx *vc.Ctx) { clusterRun(ctx, true) },
	})
}

type clShape struct {
	class string
	kinds []string
	sig   string
}

func clKinds(hist []string) []string {
	var k []string
	for _, a := range hist {
		f := strings.Fields(a)
		if f[0] == "deliver" {
			k = append(k, "deliver")
		} else {
			k = append(k, f[0])
		}
	}
	return k
}

func clEmbeds(shape, kinds []string) bool {
	i := 0
	for _, k := range kinds {
		if i < len(shape) && shape[i] == k {
			i++
		}
	}
	return i == len(shape)
}

// clSyncWhileLeaving: the history contains "leave m" and, later, a push/pull or a join.
func clSyncWhileLeaving(hist []string, m string) bool {
	left := false
	for _, a := range hist {
		f := strings.Fields(a)
		if (f[0] == "leave" && f[1] == m) || (f[0] == "forceleave" && f[2] == m) {
			left = true // m is (being) recorded as leaving somewhere
		}
		if left && (f[0] == "pushpull" || f[0] == "join") {
			return true // any state sync while m's leave is in progress can carry its leave time as a join time
		}
	}
	return false
}

// clCrashedAfterRejoin: m left (or was force-left), was restarted and then crashed.
func clCrashedAfterRejoin(hist []string, m string) bool {
	stage := 0
	for _, a := range hist {
		f := strings.Fields(a)
		switch {
		case stage == 0 && ((f[0] == "leave" && f[1] == m) || (f[0] == "forceleave" && f[2] == m)):
			stage = 1
		case stage == 1 && f[0] == "restart" && f[1] == m:
			stage = 2
		case stage == 2 && f[0] == "crash" && f[1] == m:
			return true
		}
	}
	return false
}

// clForceLeft: the history contains a force-leave of member m, or m's graceful leave followed by its restart.
func clForceLeft(hist []string, m string) bool {
	for _, a := range hist {
		f := strings.Fields(a)
		if f[0] == "forceleave" && f[2] == m {
			return true
		}
	}
	// or: m left gracefully and came back as a fresh instance (tombstone time + 1 vs. rejoin time)
	left := false
	for _, a := range hist {
		f := strings.Fields(a)
		if f[0] == "leave" && f[1] == m {
			left = true
		}
		if left && f[0] == "restart" && f[1] == m {
			return true
		}
	}
	return false
}

func clusterRun(ctx *vc.Ctx, faults bool) {
	type cfg struct {
		n, l, depth int
		pre         int // start state, see clPreKind
	}
	var cfgs []cfg
	switch {
	case !faults && !ctx.Thorough():
		cfgs = []cfg{{3, 2, 6, 1}, {2, 3, 10, 0}, {3, 2, 5, 0}}
	case !faults:
		cfgs = []cfg{{3, 3, 7, 1}, {2, 4, 12, 0}, {3, 3, 7, 0}}
	case !ctx.Thorough():
		cfgs = []cfg{{3, 2, 6, 1}, {2, 3, 8, 0}, {3, 3, 4, 0}, {3, 2, 5, 2}, {3, 2, 5, 3}}
	default:
		cfgs = []cfg{{3, 3, 7, 1}, {2, 4, 10, 0}, {3, 3, 6, 0}, {3, 3, 6, 2}, {3, 3, 6, 3}}
	}

	if !faults {
		scn, depth := "observer;T=2", 7
		if ctx.Thorough() {
			scn, depth = "observer;T=3", 9
		}
		ctx.BFS(vc.BFSOpts{Scenario: scn, MaxDepth: depth}, func(hist []string, v vc.BFSViolation) {
			ctx.Violation(scn, v.Signature, fmt.Sprintf("history %v\n%s", hist, v.Message), map[string]interface{}{"scenario": scn, "history": hist})
		})
	}
	for _, c := range cfgs {
		f := 0
		if faults {
			f = 1
		}
		scn := fmt.Sprintf("N=%d;L=%d;faults=%d", c.n, c.l, f)
		if c.pre > 0 {
			scn += fmt.Sprintf(";pre=%d", c.pre)
		}
		var shapes []clShape
		ctx.BFS(vc.BFSOpts{Scenario: scn, MaxDepth: c.depth}, func(hist []string, v vc.BFSViolation) {
			eff := append(clPreHist(scn), hist...) // what the start state already contains counts for attribution
			kinds := clKinds(hist)
			if v.Class == "step" || v.Class == "self" || v.Class == "panic" || v.Class == "harness" {
				ctx.Violation(scn, v.Signature, fmt.Sprintf("history %v\n%s", hist, v.Message), map[string]interface{}{"scenario": scn, "history": hist})
				return
			}
			// settled-status disagreements
			class, member := v.Class, ""
			if i := strings.Index(class, " member="); i >= 0 {
				class, member = class[:i], class[i+8:]
			}
			v.Class = class
			if (class == "truth=alive reported=leaving" || class == "truth=alive reported=left") && clForceLeft(eff, member) {
				// root cause of the second recorded finding: the member was force-left while it
				// was unreachable; the left-list of a push/pull carries that leave as status
				// time + 1, which equals the Lamport time of the member's refuting join
				ctx.Violation(scn, "truth=alive reported=leaving: a left-list entry (status time + 1) collides with the member's refuting/rejoin time", fmt.Sprintf("shortest history: %v\n%s", hist, v.Message), map[string]interface{}{"scenario": scn, "history": hist})
				return
			}
			if class == "truth=failed reported=left" && clCrashedAfterRejoin(eff, member) {
				// third recorded finding, same mechanism as the second: the member left (or was force-left),
				// came back as a new incarnation and crashed; a node that never saw the new incarnation
				// alive still lists the old one as left, every state sync re-stamps that tombstone at
				// status time + 1, and it overrides the "failed" recorded by the nodes that did see it
				ctx.Violation(scn, "truth=failed reported=left: the left-list tombstone of the member's previous incarnation (status time + 1 at every sync) overrides the failure of its new incarnation", fmt.Sprintf("shortest history: %v (start state: %v)\n%s", hist, clPreHist(scn), v.Message), map[string]interface{}{"scenario": scn, "history": hist})
				return
			}
			if class == "truth=left reported=failed" && clSyncWhileLeaving(eff, member) {
				// root cause named by the recorded finding: a state sync (push/pull or join) with the
				// member while its graceful leave was in progress
				ctx.Violation(scn, "truth=left reported=failed after a state sync with the member while it was mid-leave", fmt.Sprintf("shortest history: %v\n%s", hist, v.Message), map[string]interface{}{"scenario": scn, "history": hist})
				return
			}
			// otherwise: attribute to the shortest counterexample of the same class
			for _, s := range shapes {
				if s.class == v.Class && clEmbeds(s.kinds, kinds) {
					return
				}
			}
			sig := fmt.Sprintf("%s via [%s]", v.Class, strings.Join(kinds, " "))
			shapes = append(shapes, clShape{v.Class, kinds, sig})
			ctx.Violation(scn, sig, fmt.Sprintf("shortest history of this shape: %v\n%s", hist, v.Message), map[string]interface{}{"scenario": scn, "history": hist})
		})
	}
}
