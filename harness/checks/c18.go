package checks

import (
	"bytes"
	"encoding/json"
	"fmt"
	"runtime"
	"strings"
	"time"

	"verifharness/vc"

	"github.com/hashicorp/serf/serf"
	"github.com/hashicorp/serf/zzverif/vsched"
)

// C18: User event coalescing keeps exactly the newest events per name.
//
// Same two layers as C17 (helpers c17words, c17rec, c17timers, c17drain and the
// loop periods live in c17.go): (a) direct enumeration on the real
// userEventCoalescer, (b) the real coalesceLoop under the scheduler.

type c18op struct {
	t    byte // 'U' user event, 'M' member event, 'Q' query, 'F' flush, 'T' advance, 'S' shutdown
	name string
	lt   uint64
	co   bool
	dt   time.Duration
}

func (o c18op) String() string {
	switch o.t {
	case 'U':
		s := fmt.Sprintf("%s@%d", o.name, o.lt)
		if !o.co {
			s += "!"
		}
		return s
	case 'T':
		return fmt.Sprintf("T%d", int64(o.dt/time.Second))
	}
	return string(o.t)
}

func c18opsString(ops []c18op) string {
	l := make([]string, len(ops))
	for i, o := range ops {
		l[i] = o.String()
	}
	return strings.Join(l, " ")
}

func c18parseOps(s string) ([]c18op, error) {
	var ops []c18op
	for _, f := range strings.Fields(s) {
		switch {
		case f == "F" || f == "S" || f == "M" || f == "Q":
			ops = append(ops, c18op{t: f[0]})
		case strings.Contains(f, "@"):
			o := c18op{t: 'U', co: true}
			if strings.HasSuffix(f, "!") {
				o.co = false
				f = f[:len(f)-1]
			}
			i := strings.LastIndex(f, "@")
			o.name = f[:i]
			if _, err := fmt.Sscanf(f[i+1:], "%d", &o.lt); err != nil {
				return nil, err
			}
			ops = append(ops, o)
		case f[0] == 'T':
			var n int64
			if _, err := fmt.Sscanf(f, "T%d", &n); err != nil {
				return nil, err
			}
			ops = append(ops, c18op{t: 'T', dt: time.Duration(n) * time.Second})
		default:
			return nil, fmt.Errorf("bad op %q", f)
		}
	}
	return ops, nil
}

const c18maxNames = 3
const c18maxEvents = 16

type c18pend struct {
	name string
	lt   uint64
	ids  [c18maxEvents]uint8 // stamps of the pending newest events, arrival order
	n    int
	got  int // coalescable events received for the name in this quantum
}

type c18model struct {
	sent    [c18maxEvents]serf.Event // by stamp
	nsent   int
	pend    [c18maxNames]c18pend
	np      int
	flushes int
	emitted int
	// statistics
	selected, tie, passed bool
}

// build creates the real event for o (stamp = payload byte) and tells whether
// the property classes it as coalescable.
func (m *c18model) build(o c18op) (serf.Event, bool) {
	id := m.nsent
	var e serf.Event
	switch o.t {
	case 'U':
		e = serf.UserEvent{LTime: serf.LamportTime(o.lt), Name: o.name, Payload: []byte{byte(id)}, Coalesce: o.co}
	case 'M':
		e = serf.MemberEvent{Type: serf.EventMemberJoin, Members: []serf.Member{{Name: "m", Port: uint16(id)}}}
	case 'Q':
		e = &serf.Query{LTime: 1, Name: "x", Payload: []byte{byte(id)}}
	}
	m.sent[id] = e
	m.nsent++
	return e, o.t == 'U' && o.co
}

// coalesce records a coalescable event in the reference.
func (m *c18model) coalesce(o c18op) {
	id := uint8(m.nsent - 1)
	var p *c18pend
	for i := 0; i < m.np; i++ {
		if m.pend[i].name == o.name {
			p = &m.pend[i]
		}
	}
	if p == nil {
		m.pend[m.np] = c18pend{name: o.name, lt: o.lt}
		p = &m.pend[m.np]
		m.np++
	}
	p.got++
	switch {
	case p.got == 1 || o.lt > p.lt:
		if p.got > 1 {
			m.selected = true
		}
		p.lt = o.lt
		p.ids[0] = id
		p.n = 1
	case o.lt == p.lt:
		m.tie = true
		p.ids[p.n] = id
		p.n++
	default:
		m.selected = true
	}
}

func c18same(a, b serf.Event) bool {
	switch x := a.(type) {
	case serf.UserEvent:
		y, ok := b.(serf.UserEvent)
		return ok && x.LTime == y.LTime && x.Name == y.Name && x.Coalesce == y.Coalesce && bytes.Equal(x.Payload, y.Payload)
	case serf.MemberEvent:
		y, ok := b.(serf.MemberEvent)
		return ok && x.Type == y.Type && len(x.Members) == 1 && len(y.Members) == 1 && x.Members[0].Name == y.Members[0].Name && x.Members[0].Port == y.Members[0].Port
	case *serf.Query:
		y, ok := b.(*serf.Query)
		return ok && x == y
	}
	return false
}

func (m *c18model) idsString(ids []uint8) string {
	l := make([]string, len(ids))
	for i, id := range ids {
		if u, ok := m.sent[id].(serf.UserEvent); ok {
			l[i] = fmt.Sprintf("%s@%d#%d", u.Name, u.LTime, id)
		} else {
			l[i] = fmt.Sprintf("%v#%d", m.sent[id], id)
		}
	}
	return "[" + strings.Join(l, " ") + "]"
}

func (m *c18model) pendString() string {
	var l []string
	for i := 0; i < m.np; i++ {
		l = append(l, fmt.Sprintf("%q:%s", m.pend[i].name, m.idsString(m.pend[i].ids[:m.pend[i].n])))
	}
	return "{" + strings.Join(l, " ") + "}"
}

// flush compares one real flush output with the reference and resets the quantum.
func (m *c18model) flush(actual []serf.Event) (sig, msg string) {
	m.flushes++
	type seq struct {
		name string
		ids  [c18maxEvents]uint8
		n    int
	}
	var act [c18maxEvents]seq
	na := 0
	var all []uint8
	for _, e := range actual {
		u, ok := e.(serf.UserEvent)
		if !ok {
			return "flush-emitted-other-kind", fmt.Sprintf("flush %d emitted %T %v", m.flushes, e, e)
		}
		if len(u.Payload) != 1 || int(u.Payload[0]) >= m.nsent || !c18same(m.sent[u.Payload[0]], e) {
			return "flush-emitted-altered-event", fmt.Sprintf("flush %d emitted %+v which is not one of the events received", m.flushes, u)
		}
		id := u.Payload[0]
		all = append(all, id)
		k := -1
		for i := 0; i < na; i++ {
			if act[i].name == u.Name {
				k = i
			}
		}
		if k < 0 {
			k = na
			act[k].name = u.Name
			na++
		}
		if act[k].n == c18maxEvents {
			return "event-emitted-twice", fmt.Sprintf("flush %d emitted %d events for name %q", m.flushes, c18maxEvents+1, u.Name)
		}
		act[k].ids[act[k].n] = id
		act[k].n++
	}
	describe := func(name string) string {
		return fmt.Sprintf("flush %d, name %q: emitted %s (whole flush, in order), the property demands per name %s", m.flushes, name, m.idsString(all), m.pendString())
	}
	for i := 0; i < na; i++ {
		a := act[i].ids[:act[i].n]
		var p *c18pend
		for j := 0; j < m.np; j++ {
			if m.pend[j].name == act[i].name {
				p = &m.pend[j]
			}
		}
		if p == nil {
			return "emitted-for-name-without-new-event", describe(act[i].name)
		}
		e := p.ids[:p.n]
		if bytes.Equal(a, e) {
			continue
		}
		cnt := map[uint8]int{}
		older := false
		for _, id := range a {
			cnt[id]++
			if u := m.sent[id].(serf.UserEvent); uint64(u.LTime) < p.lt {
				older = true
			}
		}
		missing, foreign, dup := false, false, false
		for _, id := range e {
			if cnt[id] == 0 {
				missing = true
			}
		}
		for id, c := range cnt {
			if c > 1 {
				dup = true
			}
			if !bytes.Contains(e, []byte{id}) {
				foreign = true
			}
		}
		cls := "wrong-events"
		switch {
		case dup:
			cls = "event-emitted-twice"
		case older:
			cls = "older-event-emitted"
		case foreign:
			cls = "event-of-earlier-quantum-or-non-coalescable-emitted"
		case missing:
			cls = "newest-event-dropped"
		default:
			cls = "arrival-order-not-kept"
		}
		return cls, describe(act[i].name)
	}
	for j := 0; j < m.np; j++ {
		found := false
		for i := 0; i < na; i++ {
			if act[i].name == m.pend[j].name {
				found = true
			}
		}
		if !found {
			return "newest-events-not-emitted", describe(m.pend[j].name)
		}
		m.emitted += m.pend[j].n
	}
	m.np = 0
	return "", ""
}

var c18labels = map[int]string{}

func (m *c18model) label() string {
	k := m.flushes<<10 | m.emitted<<3
	if m.selected {
		k |= 1
	}
	if m.tie {
		k |= 2
	}
	if m.passed {
		k |= 4
	}
	s, ok := c18labels[k]
	if !ok {
		s = fmt.Sprintf("flushes=%d emitted=%d selected=%v tie=%v passthrough=%v", m.flushes, m.emitted, m.selected, m.tie, m.passed)
		c18labels[k] = s
	}
	return s
}

func c18handleSig(o c18op, handled bool) (string, string) {
	switch {
	case o.t == 'U' && o.co && !handled:
		return "handle: coalescable-event-not-coalesced", fmt.Sprintf("Handle(%s) = false: a coalescable user event bypasses coalescing", o)
	case o.t == 'U' && !o.co && handled:
		return "handle: non-coalescable-user-event-held", fmt.Sprintf("Handle(%s) = true: a user event not marked coalescable is held back", o)
	case o.t != 'U' && handled:
		return "handle: event-of-other-kind-held", fmt.Sprintf("Handle(%s) = true: an event that is not a user event is held back", o)
	}
	return "", ""
}

// c18direct runs one case on a fresh real coalescer.
func c18direct(ops []c18op, out chan serf.Event) (m *c18model, sig, msg string) {
	c := serf.VNewUserCoalescer()
	m = &c18model{}
	for _, o := range ops {
		if o.t == 'F' {
			c.Flush(out)
			if s, g := m.flush(c17drain(out)); s != "" {
				return m, s, g
			}
			continue
		}
		e, co := m.build(o)
		h := c.Handle(e)
		if h != co {
			s, g := c18handleSig(o, h)
			return m, s, g
		}
		if !h {
			m.passed = true
			continue
		}
		c.Coalesce(e)
		m.coalesce(o)
		if len(out) != 0 {
			return m, "emitted-outside-flush", fmt.Sprintf("Coalesce(%s) emitted %d events", o, len(out))
		}
	}
	return m, "", ""
}

// c18loop runs one script through the real coalesceLoop (virtual time).
func c18loop(ops []c18op) (m *c18model, timerFlushes int, sig, msg string) {
	m = &c18model{}
	fail := func(s, g string) { sig, msg = s, g }
	x := vsched.Run(vsched.RunOpts{MaxSteps: 200000}, func() {
		out := make(chan serf.Event, 256)
		shut := make(chan struct{})
		rec := &c17rec{inner: serf.VNewUserCoalescer()}
		in := serf.VCoalescedEventCh(out, shut, c17cPeriod, c17qPeriod, rec)
		tm := &c17timers{c: int64(c17cPeriod), q: int64(c17qPeriod)}
		vsched.Quiesce()
		seen := 0
		for i, o := range ops {
			switch o.t {
			case 'U', 'M', 'Q':
				e, co := m.build(o)
				in <- e
				vsched.Quiesce()
				got := c17drain(out)
				if len(rec.flushAt) != seen {
					fail("loop: flush-not-at-timer", fmt.Sprintf("step %d %s: a flush happened without any time passing", i, o))
					return
				}
				if co {
					tm.handled(vsched.Elapsed())
					m.coalesce(o)
					if len(got) != 0 {
						fail("loop: coalescable-event-emitted-outside-flush", fmt.Sprintf("step %d %s: %d events reached the application without a flush", i, o, len(got)))
						return
					}
					continue
				}
				if tm.set {
					m.passed = true // passes while a quantum is open
				}
				if len(got) == 0 {
					fail("loop: pass-through-event-held-back", fmt.Sprintf("step %d %s: the event is not coalescable but did not reach the application (no time passed; open quantum: %v, pending %s)", i, o, tm.set, m.pendString()))
					return
				}
				if len(got) != 1 || !c18same(got[0], e) {
					fail("loop: pass-through-event-altered", fmt.Sprintf("step %d %s: the application received %v instead of exactly that event", i, o, got))
					return
				}
			case 'T', 'S':
				want := int64(-1)
				if o.t == 'T' {
					want = tm.advance(vsched.Elapsed() + int64(o.dt))
					vsched.Advance(int64(o.dt))
				} else {
					close(shut)
					vsched.Quiesce()
				}
				got := rec.flushAt[seen:]
				seen = len(rec.flushAt)
				if o.t == 'T' {
					if (want < 0 && len(got) != 0) || (want >= 0 && (len(got) != 1 || got[0] != want)) {
						fail("loop: flush-not-at-timer", fmt.Sprintf("step %d %s (coalesce period %v, quiescent period %v): flushes at %v ns, the timers demand %d (-1 = none)", i, o, c17cPeriod, c17qPeriod, got, want))
						return
					}
					if want >= 0 {
						timerFlushes++
					}
				}
				evs := c17drain(out)
				if len(got) == 0 {
					if len(evs) != 0 {
						fail("loop: coalescable-event-emitted-outside-flush", fmt.Sprintf("step %d %s: %d events reached the application without a flush", i, o, len(evs)))
						return
					}
					continue
				}
				if len(got) > 1 {
					fail("loop: flush-not-at-timer", fmt.Sprintf("step %d %s: %d flushes in one step", i, o, len(got)))
					return
				}
				if s, g := m.flush(evs); s != "" {
					fail(s, fmt.Sprintf("step %d %s: %s", i, o, g))
					return
				}
			}
		}
	})
	if len(x.Panics) > 0 {
		return m, timerFlushes, "panic " + x.Panics[0].Frame, x.Panics[0].Value + "\n" + x.Panics[0].Stack
	}
	if !x.RootDone && sig == "" {
		return m, timerFlushes, "loop: stuck", fmt.Sprintf("harness root did not finish: blocked %+v caphit=%v", x.Blocked, x.CapHit)
	}
	return m, timerFlushes, sig, msg
}

type c18replay struct {
	Layer string `json:"layer"`
	Ops   string `json:"ops"`
}

func init() {
	vc.Register(&vc.Check{
		ID:    "C18",
		Level: "exploration",
		Rule: "cases (direct): every sequence (quick length<=5, thorough <=6) over the alphabet {coalescable user events x,y @ Lamport time 1,2,3; non-coalescable user events x@2, y@3; a member event; a query} x every subset of positions after which Flush is called, plus one final Flush, on the real userEventCoalescer; a second alphabet with boundary values (names \"\" and x, Lamport times 0, 1, 2^64-1, length<=4); the same letter twice = tie with distinct payloads; direct/identical-payloads: every sequence over {x@1, x@2, y@1, y@2 coalescable, x@2 non-coalescable} x every flush placement x every event carrying the same payload (nil, empty, \"p\"), so that tied events are equal as values, judged by count per name; Handle's verdict is checked for every event, each flush output is compared per name in order. " +
			"cases (loop): every script of length<=5 (thorough 6) over {x@1, x@2, y@2, non-coalescable x@2, member event, query, advance 1s, advance 2s} followed by shutdown, through the real coalesceLoop under the controlled scheduler with virtual time (coalesce period 4s, quiescent period 3s). " +
			"All cases are distinct by construction; non-trivial (direct) = within one quantum some name received >=2 coalescable events (a newest-selection or a tie); non-trivial (loop) = at least one timer-driven flush or a pass-through event during an open quantum. slow-application/user-events (shared with C16): an application that does not read its channel for a while, under the controlled scheduler",
		Assumptions: []string{
			"the coalescer is constructed as serf.Create constructs it (one empty map); Handle/Coalesce/Flush are called from one thread, as coalesceLoop does",
			"the order between different names inside one flush is unspecified (Flush iterates a Go map); per name the order must be arrival order",
			"'not held back' = the event is on the application's channel before any virtual time passes, also while a quantum is open",
			"loop layer: flush instants are those documented in config.go (UserCoalescePeriod after the first event of a quantum or UserQuiescentPeriod after the last one, whichever is first); events are injected at quiescent points",
		},
		Run: c18run,
	})
}

func c18run(ctx *vc.Ctx) {
	defer c17gcSetup()()
	// the real coalesceLoop in front of an application that stops reading for a while (c16.go)
	c16slowApp(ctx, 1, true)
	if ctx.Replay != nil {
		var r c18replay
		if json.Unmarshal(ctx.Replay, &r) != nil {
			return
		}
		ops, err := c18parseOps(r.Ops)
		if err != nil {
			ctx.Fail("C18 replay: %v", err)
			return
		}
		scn := ctx.Scn("replay/"+r.Layer, "cases")
		var sig, msg string
		var m *c18model
		if strings.HasPrefix(r.Layer, "same/") {
			mode := 0
			fmt.Sscanf(r.Layer, "same/%d", &mode)
			tie := false
			tie, sig, msg = c18sameDirect(ops, mode, make(chan serf.Event, 64))
			fmt.Printf("replay layer=%s ops=%q tie=%v sig=%q\n", r.Layer, r.Ops, tie, sig)
			if sig != "" {
				ctx.Violation(scn.Name, sig, "case ["+r.Ops+"]: "+msg, r)
			}
			scn.Case(fmt.Sprintf("tie=%v", tie), true)
			return
		}
		if r.Layer == "loop" {
			m, _, sig, msg = c18loop(ops)
		} else {
			m, sig, msg = c18direct(ops, make(chan serf.Event, 64))
		}
		fmt.Printf("replay layer=%s ops=%q outcome=%s sig=%q\n", r.Layer, r.Ops, m.label(), sig)
		if sig != "" {
			ctx.Violation(scn.Name, sig, "case ["+r.Ops+"]: "+msg, r)
		}
		scn.Case(m.label(), true)
		return
	}
	u := func(n string, lt uint64, co bool) c18op { return c18op{t: 'U', name: n, lt: lt, co: co} }
	main := []c18op{
		u("x", 1, true), u("x", 2, true), u("x", 3, true), u("y", 1, true), u("y", 2, true), u("y", 3, true),
		u("x", 2, false), u("y", 3, false), {t: 'M'}, {t: 'Q'},
	}
	const max = ^uint64(0)
	boundary := []c18op{
		u("", 0, true), u("", 1, true), u("", max, true), u("x", 0, true), u("x", 1, true), u("x", max, true), u("", max, false),
	}
	loop := []c18op{
		u("x", 1, true), u("x", 2, true), u("y", 2, true), u("x", 2, false), {t: 'M'}, {t: 'Q'},
		{t: 'T', dt: time.Second}, {t: 'T', dt: 2 * time.Second},
	}
	idx := 0
	n, ln := 5, 5
	if ctx.Thorough() {
		n, ln = 6, 6
	}
	c18directScn(ctx, &idx, fmt.Sprintf("direct/main/len<=%d", n), main, n)
	c18directScn(ctx, &idx, "direct/boundary/len<=4", boundary, 4)
	c18loopScn(ctx, &idx, fmt.Sprintf("loop/len<=%d", ln), loop, ln)
	same := []c18op{u("x", 1, true), u("x", 2, true), u("y", 1, true), u("y", 2, true), u("x", 2, false)}
	c18sameScn(ctx, &idx, fmt.Sprintf("direct/identical-payloads/len<=%d", n), same, n)
}

// c18samePayloads: what every event of a case carries in the identical-payload scenario.
var c18samePayloads = [][]byte{nil, {}, []byte("p")}

// c18sameDirect runs one case in which all user events carry the same payload
// (mode indexes c18samePayloads), so events that tie on name and Lamport time are
// equal as values. The reference is a count: per name, a flush emits as many events
// as were received with the highest Lamport time of the quantum, each with that
// time, that name and the payload.
func c18sameDirect(ops []c18op, mode int, out chan serf.Event) (tie bool, sig, msg string) {
	c := serf.VNewUserCoalescer()
	type pend struct {
		lt uint64
		n  int
	}
	want := map[string]*pend{}
	flushes := 0
	for _, o := range ops {
		if o.t == 'F' {
			flushes++
			c.Flush(out)
			got := map[string]int{}
			for _, e := range c17drain(out) {
				u, ok := e.(serf.UserEvent)
				if !ok {
					return tie, "flush-emitted-other-kind", fmt.Sprintf("flush %d emitted %T %v", flushes, e, e)
				}
				w := want[u.Name]
				if w == nil {
					return tie, "emitted-for-name-without-new-event", fmt.Sprintf("flush %d emitted %+v, nothing is pending for that name", flushes, u)
				}
				if uint64(u.LTime) != w.lt || !u.Coalesce || !bytes.Equal(u.Payload, c18samePayloads[mode]) || (u.Payload == nil) != (c18samePayloads[mode] == nil) {
					return tie, "flush-emitted-altered-event", fmt.Sprintf("flush %d emitted %+v; the newest events of %q have Lamport time %d and payload %q", flushes, u, u.Name, w.lt, c18samePayloads[mode])
				}
				got[u.Name]++
			}
			for name, w := range want {
				if got[name] != w.n {
					cls := "newest-event-dropped"
					if got[name] > w.n {
						cls = "event-emitted-twice"
					}
					return tie, cls, fmt.Sprintf("flush %d, name %q: %d events emitted, but %d events with the highest Lamport time %d (all with payload %q) were received since the last flush", flushes, name, got[name], w.n, w.lt, c18samePayloads[mode])
				}
			}
			want = map[string]*pend{}
			continue
		}
		e := serf.UserEvent{LTime: serf.LamportTime(o.lt), Name: o.name, Payload: c18samePayloads[mode], Coalesce: o.co}
		h := c.Handle(e)
		if h != o.co {
			s, g := c18handleSig(o, h)
			return tie, s, g
		}
		if !h {
			continue
		}
		c.Coalesce(e)
		if len(out) != 0 {
			return tie, "emitted-outside-flush", fmt.Sprintf("Coalesce(%s) emitted %d events", o, len(out))
		}
		w := want[o.name]
		switch {
		case w == nil || o.lt > w.lt:
			want[o.name] = &pend{o.lt, 1}
		case o.lt == w.lt:
			w.n++
			tie = true
		}
	}
	return tie, "", ""
}

func c18sameScn(ctx *vc.Ctx, idx *int, name string, alpha []c18op, maxLen int) {
	scn := ctx.Scn(name, "cases")
	out := make(chan serf.Event, 64)
	ops := make([]c18op, 0, 2*maxLen+1)
	n := 0
	c17words(len(alpha), maxLen, func(w []int) bool {
		*idx++
		if !ctx.Mine(*idx) {
			return true
		}
		n++
		if n&63 == 0 {
			runtime.GC()
		}
		if n&1023 == 0 && time.Now().After(ctx.Deadline) {
			scn.Exhaustive = false
			scn.StopReason = "time budget"
			return false
		}
		for mode := range c18samePayloads {
			for mask := 0; mask < 1<<len(w); mask++ {
				ops = ops[:0]
				for i, d := range w {
					ops = append(ops, alpha[d])
					if mask&(1<<i) != 0 {
						ops = append(ops, c18op{t: 'F'})
					}
				}
				ops = append(ops, c18op{t: 'F'})
				tie, sig, msg := c18sameDirect(ops, mode, out)
				for len(out) > 0 {
					<-out
				}
				if sig != "" {
					s := c18opsString(ops)
					ctx.Violation(scn.Name, sig, fmt.Sprintf("case [%s], every payload = %q: %s", s, c18samePayloads[mode], msg), c18replay{fmt.Sprintf("same/%d", mode), s})
				}
				scn.Case(fmt.Sprintf("mode=%d tie=%v", mode, tie), tie)
			}
		}
		return true
	})
	scn.Sample("[x@2 x@1 x@2 x@2 F], every payload nil -> the flush emits 3 events x@2 (three equal values are three events)")
}

func c18directScn(ctx *vc.Ctx, idx *int, name string, alpha []c18op, maxLen int) {
	scn := ctx.Scn(name, "cases")
	out := make(chan serf.Event, 64)
	ops := make([]c18op, 0, 2*maxLen+1)
	n := 0
	c17words(len(alpha), maxLen, func(w []int) bool {
		*idx++
		if !ctx.Mine(*idx) {
			return true
		}
		n++
		if n&63 == 0 {
			runtime.GC()
		}
		if n&1023 == 0 && time.Now().After(ctx.Deadline) {
			scn.Exhaustive = false
			scn.StopReason = "time budget"
			return false
		}
		for mask := 0; mask < 1<<len(w); mask++ {
			ops = ops[:0]
			for i, d := range w {
				ops = append(ops, alpha[d])
				if mask&(1<<i) != 0 {
					ops = append(ops, c18op{t: 'F'})
				}
			}
			ops = append(ops, c18op{t: 'F'})
			m, sig, msg := c18direct(ops, out)
			for len(out) > 0 {
				<-out
			}
			if sig != "" {
				s := c18opsString(ops)
				ctx.Violation(scn.Name, sig, "case ["+s+"]: "+msg, c18replay{"direct", s})
			}
			scn.Case(m.label(), m.selected || m.tie)
		}
		return true
	})
	scn.Sample("[x@1 x@3 x@2 x@3 y@2 F] -> flush 1 = x:[x@3#1 x@3#3] (arrival order) y:[y@2#4]")
	scn.Sample("[x@2 F x@1 x@2! F] -> flush 1 = [x@2#0], x@2! not handled (passes through), flush 2 = [x@1#1]")
}

func c18loopScn(ctx *vc.Ctx, idx *int, name string, alpha []c18op, maxLen int) {
	scn := ctx.Scn(name, "cases")
	ops := make([]c18op, 0, maxLen+1)
	n := 0
	c17words(len(alpha), maxLen, func(w []int) bool {
		*idx++
		if !ctx.Mine(*idx) {
			return true
		}
		n++
		if n&127 == 0 {
			runtime.GC()
		}
		if n&63 == 0 && time.Now().After(ctx.Deadline) {
			scn.Exhaustive = false
			scn.StopReason = "time budget"
			return false
		}
		ops = ops[:0]
		for _, d := range w {
			ops = append(ops, alpha[d])
		}
		ops = append(ops, c18op{t: 'S'})
		m, tf, sig, msg := c18loop(ops)
		if sig != "" {
			s := c18opsString(ops)
			ctx.Violation(scn.Name, sig, "script ["+s+"]: "+msg, c18replay{"loop", s})
		}
		scn.Case(fmt.Sprintf("%s timerflushes=%d", m.label(), tf), tf > 0 || m.passed)
		return true
	})
	scn.Sample("[x@1 x@2! T2 x@2 T2 S] -> x@2! reaches the application at 0s while x@1 is pending; quantum timer flush at 4s = [x@2]; nothing at shutdown")
}
