package checks

import (
	"bytes"
	"crypto/md5"
	"encoding/json"
	"fmt"
	"log"
	"net"
	"runtime/debug"
	"sort"
	"strings"
	"time"

	"verifharness/vc"

	"github.com/hashicorp/serf/serf"
	"github.com/hashicorp/serf/zzverif/vos"
	"github.com/hashicorp/serf/zzverif/vsched"
)

// C11: a crash at any point never loses snapshot state that was already written.
//
// The helpers of this file (alphabet, reference model, driver of the real
// Snapshotter over the in-memory file system, recovery) are shared with C12.

const (
	c11path = "/data/serf/local.snapshot"
	c11tmp  = c11path + ".compact"
)

// Member "a" has a 200-byte name: one `alive` line is 222 bytes, so the size
// threshold of the real code (max(256*nodes, minCompactSize)) is crossed inside
// short histories also while the rejoin set is not empty.
var c11nameA = strings.Repeat("a", 200)

// The alphabet. One letter per symbol so that a history is a short string.
//
//	a  join  a @10.0.0.1:7946      A  join a @10.0.0.9:7000 (address change)
//	b  join  b @[fe80::2]:7946     l  leave a          f  failed b
//	u  user event LTime 1          U  user event LTime 3
//	q  query LTime 2               c  local Lamport clock +1
//	w  +600 ms (flush interval exceeded, ticker fires)
//	t  +500 ms (ticker fires, flush interval not exceeded)
//	x  join c @10.0.0.3:7946 (C12 only: the change made after the fault)
const c11alphabet = "aAblfuUqcwt"

func c11member(sym byte) (string, net.IP, uint16) {
	switch sym {
	case 'a', 'l':
		return c11nameA, net.IP{10, 0, 0, 1}, 7946
	case 'A':
		return c11nameA, net.IP{10, 0, 0, 9}, 7000
	case 'b', 'f':
		return "b", net.ParseIP("fe80::2"), 7946
	case 'x':
		return "c", net.IP{10, 0, 0, 3}, 7946
	}
	return "", nil, 0
}

// c11short abbreviates long padding: a run of 16 or more equal bytes becomes "x{n}".
func c11short(s string) string {
	if len(s) < 16 {
		return s
	}
	var sb strings.Builder
	for i := 0; i < len(s); {
		j := i
		for j < len(s) && s[j] == s[i] {
			j++
		}
		if j-i >= 16 {
			fmt.Fprintf(&sb, "%c{%d}", s[i], j-i)
		} else {
			sb.WriteString(s[i:j])
		}
		i = j
	}
	return sb.String()
}

// ---------------------------------------------------------------------------
// reference model

type c11st struct {
	alive                 map[string]string
	clock, eclock, qclock uint64
}

func c11newst() *c11st { return &c11st{alive: map[string]string{}} }

func (s *c11st) key() string {
	var names []string
	for n := range s.alive {
		names = append(names, n)
	}
	sort.Strings(names)
	var sb strings.Builder
	for _, n := range names {
		sb.WriteString(c11short(n))
		sb.WriteByte('@')
		sb.WriteString(s.alive[n])
		sb.WriteByte(' ')
	}
	fmt.Fprintf(&sb, "| clock=%d event=%d query=%d", s.clock, s.eclock, s.qclock)
	return sb.String()
}

// c11line is one logical snapshot line.
type c11line struct {
	kind       byte // 'A' alive, 'N' not-alive, 'C' clock, 'E' event-clock, 'Q' query-clock
	name, addr string
	val        uint64
	ev         int // index of the event (position in the symbol string) that produced it
}

func (l c11line) apply(s *c11st) {
	switch l.kind {
	case 'A':
		s.alive[l.name] = l.addr
	case 'N':
		delete(s.alive, l.name)
	case 'C':
		s.clock = l.val
	case 'E':
		s.eclock = l.val
	case 'Q':
		s.qclock = l.val
	}
}

func (l c11line) String() string {
	switch l.kind {
	case 'A':
		return fmt.Sprintf("alive: %s %s", c11short(l.name), l.addr)
	case 'N':
		return "not-alive: " + c11short(l.name)
	case 'C':
		return fmt.Sprintf("clock: %d", l.val)
	case 'E':
		return fmt.Sprintf("event-clock: %d", l.val)
	}
	return fmt.Sprintf("query-clock: %d", l.val)
}

// c11model is what a snapshotter that never fails records for a symbol string:
// the logical lines in order and the state after each of them.
type c11model struct {
	syms   string
	lines  []c11line
	states []string // states[i] = canonical state after the first i lines
}

// c11simulate is the boring reference: which lines the events produce (decided on
// the in-memory values, as the statement's "membership and clock changes").
// The Lamport clock starts at 1 (serf.Create increments it before the
// snapshotter exists); the snapshot records clock-1 ("last seen").
func c11simulate(syms string) *c11model {
	m := &c11model{syms: syms}
	st := c11newst()
	m.states = append(m.states, st.key())
	lamport := uint64(1)
	var memClock, memE, memQ uint64
	emit := func(l c11line) {
		m.lines = append(m.lines, l)
		l.apply(st)
		m.states = append(m.states, st.key())
	}
	clockCheck := func(ev int) {
		if seen := lamport - 1; seen > memClock {
			memClock = seen
			emit(c11line{kind: 'C', val: seen, ev: ev})
		}
	}
	for i := 0; i < len(syms); i++ {
		switch sym := syms[i]; sym {
		case 'a', 'A', 'b', 'x':
			n, ip, port := c11member(sym)
			emit(c11line{kind: 'A', name: n, addr: (&net.TCPAddr{IP: ip, Port: int(port)}).String(), ev: i})
			clockCheck(i)
		case 'l', 'f':
			n, _, _ := c11member(sym)
			emit(c11line{kind: 'N', name: n, ev: i})
			clockCheck(i)
		case 'u', 'U':
			t := uint64(1)
			if sym == 'U' {
				t = 3
			}
			if t > memE {
				memE = t
				emit(c11line{kind: 'E', val: t, ev: i})
			}
		case 'q':
			if 2 > memQ {
				memQ = 2
				emit(c11line{kind: 'Q', val: 2, ev: i})
			}
		case 'c':
			lamport++
		case 'w', 't':
			clockCheck(i)
		}
	}
	clockCheck(len(syms)) // shutdown snapshots the clock
	return m
}

// c11refReplay is an independent reader of the snapshot format (complete lines only).
func c11refReplay(content string) string {
	st := c11newst()
	for {
		i := strings.IndexByte(content, '\n')
		if i < 0 {
			break
		}
		line := content[:i]
		content = content[i+1:]
		num := func(p string) uint64 {
			var v uint64
			fmt.Sscanf(line[len(p):], "%d", &v)
			return v
		}
		switch {
		case strings.HasPrefix(line, "alive: "):
			rest := line[len("alive: "):]
			if j := strings.LastIndexByte(rest, ' '); j >= 0 {
				st.alive[rest[:j]] = rest[j+1:]
			}
		case strings.HasPrefix(line, "not-alive: "):
			delete(st.alive, line[len("not-alive: "):])
		case strings.HasPrefix(line, "clock: "):
			st.clock = num("clock: ")
		case strings.HasPrefix(line, "event-clock: "):
			st.eclock = num("event-clock: ")
		case strings.HasPrefix(line, "query-clock: "):
			st.qclock = num("query-clock: ")
		case line == "leave":
			st = c11newst()
		}
	}
	return st.key()
}

// ---------------------------------------------------------------------------
// driver of the real Snapshotter

type c11opts struct {
	minCompact int
	syms       string // history
	extra      string // symbols appended after the history (C12: "cx")
	failAt     int    // vos fault plan (0 = none)
	shortWrite bool
	heal       bool              // C12: after the event in which the fault hit let 31 s pass (healFor if set)
	healFor    time.Duration
	image      map[string]string // start from this directory content (a restart) instead of an empty one
	table      map[byte]c11tsym  // symbols defined by the scenario (burst); they override the fixed alphabet
	blocked    bool              // start state: a directory sits at the temporary compaction file's path (every compaction fails)
}

type c11res struct {
	fs        *vos.FS
	x         *vsched.Exec
	evOp      []int // len(fs.Log) after each symbol of syms+extra
	evFault   []int // fs.Faultable() after each symbol
	startErrs int   // NewSnapshotter calls that returned an error (fault on the initial open)
	startFail string
	faultEv   int // symbol index during which the fault hit (-1: not inside an event; -2 at start-up)
	startOp   int // len(fs.Log) once the snapshotter is up
	pushed    []string
	delivered []string
	rootEnd   bool
	logText   string
}

func c11describe(e serf.Event) string {
	switch t := e.(type) {
	case serf.MemberEvent:
		s := t.Type.String()
		for _, m := range t.Members {
			s += " " + c11short(m.Name)
		}
		return s
	case serf.UserEvent:
		return fmt.Sprintf("user %d", t.LTime)
	case *serf.Query:
		return fmt.Sprintf("query %d", t.LTime)
	}
	return fmt.Sprintf("%T", e)
}

func c11event(sym byte) serf.Event {
	switch sym {
	case 'a', 'A', 'b', 'x':
		n, ip, port := c11member(sym)
		return serf.MemberEvent{Type: serf.EventMemberJoin, Members: []serf.Member{{Name: n, Addr: ip, Port: port, Status: serf.StatusAlive}}}
	case 'l':
		n, ip, port := c11member(sym)
		return serf.MemberEvent{Type: serf.EventMemberLeave, Members: []serf.Member{{Name: n, Addr: ip, Port: port, Status: serf.StatusLeft}}}
	case 'f':
		n, ip, port := c11member(sym)
		return serf.MemberEvent{Type: serf.EventMemberFailed, Members: []serf.Member{{Name: n, Addr: ip, Port: port, Status: serf.StatusFailed}}}
	case 'u':
		return serf.UserEvent{LTime: 1, Name: "u1"}
	case 'U':
		return serf.UserEvent{LTime: 3, Name: "u3"}
	case 'q':
		return &serf.Query{LTime: 2, Name: "q2"}
	}
	return nil
}

// c11exec runs one history against the real snapshotter on a fresh in-memory directory.
func c11exec(o c11opts) *c11res {
	r := &c11res{faultEv: -1}
	fs := vos.NewFS(o.image)
	if o.blocked {
		fs.Blocked = map[string]bool{c11path + ".compact": true}
	}
	fs.FailAt = o.failAt
	fs.ShortWrite = o.shortWrite
	r.fs = fs
	var logbuf bytes.Buffer
	all := o.syms + o.extra
	vos.Install(fs)
	defer vos.Install(nil)
	r.x = vsched.Run(vsched.RunOpts{MaxSteps: 400000}, func() {
		logger := log.New(&logbuf, "", 0)
		clock := &serf.LamportClock{}
		clock.Increment()
		outCh := make(chan serf.Event, 256)
		shutdownCh := make(chan struct{})
		var inCh chan<- serf.Event
		var snap *serf.Snapshotter
		for try := 0; try < 2; try++ {
			var err error
			inCh, snap, err = serf.NewSnapshotter(c11path, o.minCompact, false, logger, clock, outCh, shutdownCh)
			if err == nil {
				break
			}
			r.startErrs++
			r.startFail = err.Error()
			r.faultEv = -2
			snap = nil
		}
		if snap == nil {
			return
		}
		if o.image != nil {
			clock.Witness(snap.LastClock()) // as serf.Create does after a restart
		}
		vsched.Quiesce() // both threads reach their select; the ticker starts at t=0
		r.startOp = len(fs.Log)
		healed := false
		drain := func() {
			for {
				select {
				case e := <-outCh:
					r.delivered = append(r.delivered, c11describe(e))
				default:
					return
				}
			}
		}
		for i := 0; i < len(all); i++ {
			sym := all[i]
			if d, ok := o.table[sym]; ok {
				sym = 0
				if d.kind == 'K' {
					clock.Witness(serf.LamportTime(d.val))
				} else {
					e := d.event()
					r.pushed = append(r.pushed, c11describe(e))
					select {
					case inCh <- e:
					default:
						panic("c11: input channel full")
					}
					vsched.Quiesce()
				}
			}
			switch sym {
			case 0:
			case 'c':
				clock.Increment()
			case 'w':
				vsched.Advance(int64(600 * time.Millisecond))
			case 't':
				vsched.Advance(int64(500 * time.Millisecond))
			default:
				e := c11event(sym)
				r.pushed = append(r.pushed, c11describe(e))
				select {
				case inCh <- e:
				default:
					panic("c11: input channel full")
				}
				vsched.Quiesce()
			}
			drain()
			r.evOp = append(r.evOp, len(fs.Log))
			r.evFault = append(r.evFault, fs.Faultable())
			if o.heal && !healed && fs.Failed != nil {
				healed = true
				if r.faultEv == -1 {
					r.faultEv = i
				}
				d := 31 * time.Second
				if o.healFor > 0 {
					d = o.healFor
				}
				vsched.Advance(int64(d))
				drain()
			}
		}
		close(shutdownCh)
		vsched.Quiesce()
		drain()
		snap.Wait()
		r.rootEnd = true
	})
	r.logText = logbuf.String()
	return r
}

// ---------------------------------------------------------------------------
// recovery = what a restart reads back (real NewSnapshotter on a copy of the image)

type c11rec struct {
	key  string
	fail string // error / panic of the restart itself
}

var c11recMemo = map[[16]byte]c11rec{}

func c11imageKey(img map[string]string) [16]byte {
	var ps []string
	for p := range img {
		ps = append(ps, p)
	}
	sort.Strings(ps)
	h := md5.New()
	for _, p := range ps {
		fmt.Fprintf(h, "%d:%s=%d:", len(p), p, len(img[p]))
		h.Write([]byte(img[p]))
	}
	var k [16]byte
	copy(k[:], h.Sum(nil))
	return k
}

func c11recover(img map[string]string) c11rec {
	k := c11imageKey(img)
	if r, ok := c11recMemo[k]; ok {
		return r
	}
	var rec c11rec
	fs := vos.NewFS(img)
	vos.Install(fs)
	x := vsched.Run(vsched.RunOpts{MaxSteps: 100000}, func() {
		clock := &serf.LamportClock{}
		clock.Increment()
		sh := make(chan struct{})
		_, snap, err := serf.NewSnapshotter(c11path, 1<<30, false, log.New(&bytes.Buffer{}, "", 0), clock, nil, sh)
		if err != nil {
			rec.fail = "restart failed: " + err.Error()
			return
		}
		st := c11newst()
		for _, n := range snap.AliveNodes() {
			st.alive[n.Name] = n.Addr
		}
		st.clock, st.eclock, st.qclock = uint64(snap.LastClock()), uint64(snap.LastEventClock()), uint64(snap.LastQueryClock())
		rec.key = st.key()
		close(sh)
		vsched.Quiesce()
		snap.Wait()
	})
	vos.Install(nil)
	if len(x.Panics) > 0 {
		rec.fail = "restart panicked: " + x.Panics[0].Value
	}
	if len(c11recMemo) > 400000 {
		c11recMemo = map[[16]byte]c11rec{}
	}
	c11recMemo[k] = rec
	return rec
}

// ---------------------------------------------------------------------------

func c11file(p string) string {
	switch p {
	case c11path:
		return "path"
	case c11tmp:
		return "tmp"
	}
	return p
}

func c11opName(op *vos.Op) string {
	if op == nil {
		return "none"
	}
	if op.Kind == "rename" {
		return fmt.Sprintf("rename(%s,%s)", c11file(op.Path), c11file(op.Path2))
	}
	return fmt.Sprintf("%s(%s)", op.Kind, c11file(op.Path))
}

func c11opList(ops []vos.Op, from, to int) string {
	var sb strings.Builder
	for i := from; i < to && i < len(ops); i++ {
		if i >= 0 {
			fmt.Fprintf(&sb, "%d:%s ", i+1, c11opName(&ops[i]))
		}
	}
	return sb.String()
}

func c11imageText(img map[string]string) string {
	if len(img) == 0 {
		return "(empty directory)"
	}
	var ps []string
	for p := range img {
		ps = append(ps, p)
	}
	sort.Strings(ps)
	var sb strings.Builder
	for _, p := range ps {
		fmt.Fprintf(&sb, "%s = %q; ", c11file(p), c11short(img[p]))
	}
	return sb.String()
}

// c11histories enumerates all strings over the alphabet of length 1..max.
func c11histories(alpha string, max int, f func(h string)) {
	buf := make([]byte, 0, max)
	var rec func()
	rec = func() {
		if len(buf) > 0 {
			f(string(buf))
		}
		if len(buf) == max {
			return
		}
		for i := 0; i < len(alpha); i++ {
			buf = append(buf, alpha[i])
			rec()
			buf = buf[:len(buf)-1]
		}
	}
	rec()
}

type c11replay struct {
	Check      string `json:"check"`
	MinCompact int    `json:"min_compact"`
	History    string `json:"history"`
	Point      int    `json:"point"`
	ShortWrite bool   `json:"short_write,omitempty"`
	Burst      string `json:"burst,omitempty"`
	Shift      int    `json:"shift,omitempty"`
	Blocked    bool   `json:"temp_file_blocked,omitempty"`
}

func init() {
	vc.Register(&vc.Check{
		ID:    "C11",
		Level: "fault_enumeration",
		Rule: "crash_images: for every history over the 11-symbol alphabet {join a, join a at a new address, join b, leave a, failed b, user event LTime 1/3, query LTime 2, local clock +1, +600 ms, +500 ms (ticker)} of length 1..4 (quick) / 1..5 plus the length-6 histories that start with the join of a or of b (thorough), for minCompactSize 1 and 64, the real NewSnapshotter is driven over the in-memory directory and shut down; one case = one crash point (after each logged open/write/sync/close/remove/rename, plus 'before the first'), recovered by a fresh real NewSnapshotter on the directory image of that point. " +
			"Member a has a 200-byte name so that size-triggered compactions with a non-empty rejoin set happen inside these histories. non-trivial = the directory image differs from the previous crash point's and at least one line had reached the snapshot file. burst/*: two scripted histories in which 18-23 members with ~200-byte names (node-1 is a prefix of node-10..19) join, two leave/fail, one rejoins at a new address and the clocks jump from 1 to 150 within one flush interval, so the snapshotter's 4096-byte bufio.Writer hands the OS a chunk that ends in the middle of a line; the length of the second member's name is swept over 460 values so that the chunk boundary falls on every byte of the not-alive / alive / clock / event-clock / query-clock lines of interest; every crash point is checked as above with the reference reading complete lines only; non-trivial there = the snapshot file ends in an unterminated fragment at the crash point. Config crash/len<=3/minCompact=1/temp-file-blocked: the same with a directory sitting at the compaction's temporary file path (every compaction fails, appends go on), healed at once or later",
		Assumptions: []string{
			"process-crash semantics: bytes handed to File.Write survive, bytes still in the snapshotter's bufio.Writer do not; each Write call is atomic (a torn last line arises only where the buffered writer itself splits a line over two Write calls, which the burst scenarios force); fsync is irrelevant for survival",
			"events are pushed at quiescent points (the snapshotter keeps up); the two snapshotter threads run under the deterministic default schedule",
			"'data it had written' is read off the snapshot file itself: w(k) = the largest reference-line index the file at <path> has held at or before crash point k (content of <path>.compact does not count until it is renamed into place); a recovery is accepted iff it equals the reference state after i lines for some i >= w(k)",
			"the Lamport clock starts at 1 as in serf.Create (a zero clock would make the snapshotter record 2^64-1)",
		},
		Run: c11run,
	})
}

type c11cfg struct {
	minCompact int
	maxLen     int
	alpha      string
	prefix     string // restrict to histories with this first-symbol class ("" = all)
	name       string
	blocked    bool
}

func c11configs(ctx *vc.Ctx) []c11cfg {
	var out []c11cfg
	for _, mc := range []int{1, 64} {
		if !ctx.Thorough() {
			out = append(out, c11cfg{minCompact: mc, maxLen: 4, alpha: c11alphabet, name: fmt.Sprintf("crash/len<=4/minCompact=%d", mc)})
		} else {
			out = append(out, c11cfg{minCompact: mc, maxLen: 5, alpha: c11alphabet, name: fmt.Sprintf("crash/len<=5/minCompact=%d", mc)})
			out = append(out, c11cfg{minCompact: mc, maxLen: 6, alpha: c11alphabet, prefix: "ab", name: fmt.Sprintf("crash/len=6,first=join/minCompact=%d", mc)})
		}
	}
	// start state "the temporary compaction file cannot be created": every compaction fails, the
	// old file stays in use; what was appended must still be recovered in order, without holes
	bl := 3
	if ctx.Thorough() {
		bl = 4
	}
	out = append(out, c11cfg{minCompact: 1, maxLen: bl, alpha: c11alphabet, blocked: true, name: fmt.Sprintf("crash/len<=%d/minCompact=1/temp-file-blocked", bl)})
	return out
}

func c11run(ctx *vc.Ctx) {
	// every run allocates the snapshotter's two 2048-slot channels; a lazier GC halves the wall time
	defer debug.SetGCPercent(debug.SetGCPercent(1600))
	if ctx.Replay != nil {
		var rp c11replay
		if json.Unmarshal(ctx.Replay, &rp) != nil || rp.Check != "C11" {
			return
		}
		scn := ctx.Scn("replay", "crash_images")
		if rp.Burst != "" {
			c11burstCase(ctx, scn, rp.Burst, rp.Shift, true)
			return
		}
		c11blocked = rp.Blocked
		c11history(ctx, scn, rp.MinCompact, rp.History, true)
		c11blocked = false
		return
	}
	idx := 0
	for _, cf := range c11configs(ctx) {
		scn := ctx.Scn(cf.name, "crash_images")
		stop := false
		c11histories(cf.alpha, cf.maxLen, func(h string) {
			if cf.prefix != "" && (len(h) != cf.maxLen || !strings.ContainsRune(cf.prefix, rune(h[0]))) {
				return
			}
			idx++
			if !ctx.Mine(idx) || stop {
				return
			}
			if idx%64 == 0 && time.Now().After(ctx.Deadline) {
				stop = true
				scn.Exhaustive = false
				scn.StopReason = "time budget"
				return
			}
			c11blocked = cf.blocked
			c11history(ctx, scn, cf.minCompact, h, false)
			c11blocked = false
		})
	}
	c11continueRun(ctx, &idx)
	c11burstRun(ctx, &idx)
}

// c11blocked: the history being run starts with the temporary compaction file's path blocked.
var c11blocked bool

// c11history runs one history and checks every crash point.
func c11history(ctx *vc.Ctx, scn *vc.Scenario, minCompact int, h string, verbose bool) {
	c11crashPoints(ctx, scn, &c11job{
		minCompact: minCompact, label: fmt.Sprintf("history %q", h), nsyms: len(h),
		symName: func(i int) string { return fmt.Sprintf("%q", h[i]) },
		m:       c11simulate(h),
		r:       c11exec(c11opts{minCompact: minCompact, syms: h, blocked: c11blocked}),
		rp:      c11replay{Check: "C11", MinCompact: minCompact, History: h, Blocked: c11blocked},
		verbose: verbose, sample: len(h) >= 3,
	})
}

// c11job is one executed history together with its reference model.
type c11job struct {
	minCompact int
	label      string
	nsyms      int
	symName    func(i int) string
	m          *c11model
	r          *c11res
	rp         c11replay
	verbose    bool
	sample     bool
	burst      bool // burst scenario: signatures name the torn line, non-trivial = torn tail
}

// c11tornTail classifies an unterminated fragment at the end of the snapshot file.
func c11tornTail(content string) string {
	i := strings.LastIndexByte(content, '\n')
	frag := content[i+1:]
	if frag == "" {
		return ""
	}
	for _, p := range []string{"not-alive: ", "alive: ", "event-clock: ", "query-clock: ", "clock: "} {
		if strings.HasPrefix(frag, p) {
			kind := strings.TrimSuffix(p, ": ")
			if c11refReplay(content+"\n") != c11refReplay(content) {
				return kind + " (readable as a shorter line)"
			}
			return kind + " (no effect if read)"
		}
	}
	return "keyword"
}

// c11crashPoints checks every crash point of one executed history.
func c11crashPoints(ctx *vc.Ctx, scn *vc.Scenario, j *c11job) {
	m, r, rp, minCompact := j.m, j.r, j.rp, j.minCompact
	if len(r.x.Panics) > 0 {
		p := r.x.Panics[0]
		ctx.Violation(scn.Name, "panic without any fault: "+c11serfFrame(p.Stack), fmt.Sprintf("%s minCompact=%d: %s\n%s", j.label, minCompact, p.Value, p.Stack), rp)
		scn.Case("panic", true)
		// the operations logged up to the panic are still crash points
	} else if r.x.CapHit || !r.rootEnd {
		ctx.Fail("C11: %s did not run to completion (cap=%v blocked=%+v startFail=%q)", j.label, r.x.CapHit, r.x.Blocked, r.startFail)
		return
	}
	ops := r.fs.Log
	n := len(m.lines)
	w := 0
	base, baseIdx, had := "", 0, false
	img := map[string]string{}
	var rec c11rec
	torn := ""
	evOf := func(k int) int { // index of the history symbol during which op k was issued
		for i, e := range r.evOp {
			if k <= e {
				return i
			}
		}
		return j.nsyms
	}
	for k := 0; k <= len(ops); k++ {
		changed := k == 0
		if k > 0 && ops[k-1].Image != nil {
			op := &ops[k-1]
			img = op.Image
			changed = true
			c, ok := img[c11path]
			torn = ""
			if ok {
				torn = c11tornTail(c)
				x := c11refReplay(c)
				newBase := !had || (op.Kind == "rename" && op.Path2 == c11path) || !strings.HasPrefix(c, base)
				t := -1
				if !newBase && baseIdx >= 0 {
					if g := baseIdx + strings.Count(c[len(base):], "\n"); g >= w && g <= n && m.states[g] == x {
						t = g
					}
				}
				if t < 0 {
					for i := w; i <= n; i++ {
						if m.states[i] == x {
							t = i
							break
						}
					}
				}
				if newBase {
					base, baseIdx = c, t
				}
				if t > w {
					w = t
				}
			}
			had = ok
		}
		if changed {
			rec = c11recover(img)
		}
		ok := rec.fail == ""
		if ok {
			ok = false
			for i := w; i <= n; i++ {
				if m.states[i] == rec.key {
					ok = true
					break
				}
			}
		}
		var after, before *vos.Op
		if k > 0 {
			after = &ops[k-1]
		}
		if k < len(ops) {
			before = &ops[k]
		}
		pos := "start"
		if after != nil {
			pos = c11opName(after)
		}
		nxt := "end"
		if before != nil {
			nxt = c11opName(before)
		}
		out := "ok"
		if j.burst && torn != "" {
			out = "ok, torn " + torn
		}
		if !ok {
			class := "state-lost"
			if rec.fail != "" {
				class = "restart-failed"
			} else {
				known := false
				for _, s := range m.states {
					if s == rec.key {
						known = true
					}
				}
				if !known {
					class = "unknown-state"
				}
			}
			sig := fmt.Sprintf("%s crash after=%s before=%s", class, pos, nxt)
			if j.burst && torn != "" {
				sig = fmt.Sprintf("%s crash while the snapshot file ends in a torn line: %s", class, torn)
			}
			out = sig
			rp.Point = k
			ev := evOf(k)
			during := "shutdown"
			if k <= r.startOp {
				during = "start-up"
			} else if ev < j.nsyms {
				during = fmt.Sprintf("event %d (%s)", ev+1, j.symName(ev))
			}
			var ls []string
			for _, l := range m.lines {
				ls = append(ls, l.String())
			}
			tornText := ""
			if torn != "" {
				c := img[c11path]
				tornText = fmt.Sprintf("\nthe file ends in the unterminated fragment %q", c11short(c[strings.LastIndexByte(c, '\n')+1:]))
			}
			ctx.Violation(scn.Name, sig, fmt.Sprintf(
				"%s minCompactSize=%d, crash after file operation %d (%s) and before %s, during %s.\n"+
					"reference lines: %s\nthe snapshot file had held the state after line %d: [%s]%s\n"+
					"directory at the crash: %s\nrestart recovers [%s]%s, which is not the state after >= %d lines (final reference state [%s])\noperations around: %s",
				j.label, minCompact, k, pos, nxt, during, strings.Join(ls, " / "), w, m.states[w], tornText, c11imageText(img), rec.key, rec.fail, w, m.states[n], c11opList(ops, k-6, k+3)), rp)
		}
		if j.verbose {
			fmt.Printf("  point %d after=%s w=%d torn=%q recovered=[%s] %s\n", k, pos, w, torn, rec.key, out)
		}
		if j.burst {
			scn.Case(out, torn != "")
		} else {
			scn.Case(out, changed && w > 0)
		}
	}
	if j.sample && len(scn.Samples) < 1 && len(ops) > 12 {
		var ls []string
		for _, l := range m.lines {
			ls = append(ls, l.String())
		}
		scn.Sample(map[string]interface{}{
			"history": j.label, "min_compact": minCompact, "reference_lines": strings.Join(ls, " / "),
			"file_operations": strings.TrimSpace(c11opList(ops, 0, len(ops))), "crash_points": len(ops) + 1,
			"final_state": m.states[n],
		})
	}
	if w != n && len(r.x.Panics) == 0 {
		ctx.Note("C11 self-check: %s minCompact=%d: after shutdown the file holds line index %d of %d", j.label, minCompact, w, n)
	}
}

// c11serfFrame returns the innermost serf frame of a panic stack.
func c11serfFrame(stack string) string {
	for _, l := range strings.Split(stack, "\n") {
		if strings.HasPrefix(l, "github.com/hashicorp/serf/serf.") {
			if j := strings.LastIndex(l, "("); j > 0 {
				l = l[:j]
			}
			return strings.TrimPrefix(l, "github.com/hashicorp/serf/serf.")
		}
	}
	return "?"
}
