package checks

import (
	"bytes"
	"encoding/base64"
	"encoding/json"
	"fmt"
	"io"
	"os"
	"path/filepath"
	"sort"
	"strings"
	"time"

	"verifharness/vc"
	"verifharness/world"

	"github.com/hashicorp/memberlist"
	"github.com/hashicorp/serf/cmd/serf/command/agent"
	"github.com/hashicorp/serf/serf"
	"github.com/hashicorp/serf/zzverif/vsched"
)

// C22: Keyring changes are persisted and reload exactly.
//
// One real Serf node with a keyring and a keyring file. Key requests arrive the
// way they do in production: as internal queries (_serf_install-key, _serf_use-key,
// _serf_remove-key) through the memberlist delegate; the node's reply is read from
// the transport. After every request the file is reloaded through the agent's own
// loader (agent.Create -> loadKeyringFile) and compared with the live keyring.

const (
	c22Install = iota
	c22Use
	c22Remove
)

var c22opQuery = []string{"install-key", "use-key", "remove-key"}

const (
	c22K1      = iota // 16 bytes
	c22K2             // 24 bytes
	c22K3             // 32 bytes
	c22Short          // 15 bytes (wrong length)
	c22Empty          // zero-length key
	c22Absent         // dynamic: a valid key that is not in the ring right now
	c22Primary        // dynamic: the current primary key
	c22NKeys
)

var c22keyName = []string{"K1/16", "K2/24", "K3/32", "short/15", "empty", "absent", "primary"}

func c22fill(n int, b byte) []byte { return bytes.Repeat([]byte{b}, n) }

var c22fixed = [][]byte{c22fill(16, 0x11), c22fill(24, 0x22), c22fill(32, 0x33), c22fill(15, 0x44), {}}

// pool for the dynamic "absent" symbol (more entries than the longest sequence)
var c22pool = [][]byte{c22fill(16, 0xa1), c22fill(32, 0xa2), c22fill(24, 0xa3), c22fill(16, 0xa4), c22fill(32, 0xa5), c22fill(16, 0xa6)}

type c22sym struct{ op, key int }

func (s c22sym) String() string { return c22opQuery[s.op] + "(" + c22keyName[s.key] + ")" }

func c22ringStr(r [][]byte) string {
	var p []string
	for _, k := range r {
		p = append(p, fmt.Sprintf("%x..(%d)", k[:1], len(k)))
	}
	return "[" + strings.Join(p, " ") + "]"
}

func c22copyRing(r [][]byte) [][]byte {
	out := make([][]byte, len(r))
	for i, k := range r {
		out[i] = append([]byte{}, k...)
	}
	return out
}

func c22sameOrdered(a, b [][]byte) bool {
	if len(a) != len(b) {
		return false
	}
	for i := range a {
		if !bytes.Equal(a[i], b[i]) {
			return false
		}
	}
	return true
}

func c22sameSet(a, b [][]byte) bool {
	if len(a) != len(b) {
		return false
	}
	x, y := c22copyRing(a), c22copyRing(b)
	sort.Slice(x, func(i, j int) bool { return bytes.Compare(x[i], x[j]) < 0 })
	sort.Slice(y, func(i, j int) bool { return bytes.Compare(y[i], y[j]) < 0 })
	return c22sameOrdered(x, y)
}

func c22has(r [][]byte, k []byte) bool {
	for _, x := range r {
		if bytes.Equal(x, k) {
			return true
		}
	}
	return false
}

// c22load loads a keyring file exactly the way an agent does at start-up.
func c22load(file string) ([][]byte, error) {
	sc := serf.DefaultConfig()
	if _, err := agent.Create(&agent.Config{KeyringFile: file}, sc, io.Discard); err != nil {
		return nil, err
	}
	kr := sc.MemberlistConfig.Keyring
	if kr == nil {
		return nil, fmt.Errorf("agent loaded no keyring")
	}
	return c22copyRing(kr.GetKeys()), nil
}

// c22writeInitial writes the file an operator would provision: JSON list of base64 keys, primary first.
func c22writeInitial(file string, ring [][]byte) error {
	var enc []string
	for _, k := range ring {
		enc = append(enc, base64.StdEncoding.EncodeToString(k))
	}
	// compact, i.e. not byte-identical to what the node itself would write: a rejected
	// request that rewrites the file is then visible as a change of the file
	b, _ := json.Marshal(enc)
	return os.WriteFile(file, append(b, '\n'), 0o600)
}

// keyringOpts configures a node with the given keyring; packets stay plaintext so
// that the harness can read the node's replies from the transport.
func c22keyringOpt(kr *memberlist.Keyring, file string) world.Opt {
	return func(c *serf.Config) {
		c.MemberlistConfig.Keyring = kr
		c.MemberlistConfig.GossipVerifyOutgoing = false
		c.MemberlistConfig.GossipVerifyIncoming = false
		c.KeyringFile = file
	}
}

// c22keyReply extracts the key reply (if any) the node sent since the last call.
func c22keyReply(n *world.Node) (resp *serf.VNodeKeyResponse, raw []byte, count int) {
	for _, p := range n.Tr.TakeSent() {
		if len(p.User) < 1 || p.User[0] != serf.VMsgQueryResponse {
			continue
		}
		var qr serf.VMessageQueryResponse
		if serf.VDecode(p.User[1:], &qr) != nil {
			continue
		}
		if len(qr.Payload) < 1 || qr.Payload[0] != serf.VMsgKeyResponse {
			continue
		}
		var nk serf.VNodeKeyResponse
		if serf.VDecode(qr.Payload[1:], &nk) != nil {
			continue
		}
		count++
		resp, raw = &nk, p.User
	}
	return
}

func c22query(lt uint64, id uint32, name string, payload []byte) []byte {
	return serf.VEncode(serf.VMsgQuery, &serf.VMessageQuery{
		LTime: serf.LamportTime(lt), ID: id, Addr: world.NodeIP(1), Port: 7946, SourceNode: "b",
		Timeout: 1e9, Name: serf.VInternalQueryName(name), Payload: payload,
	})
}

type c22stepRec struct {
	Sym      string `json:"request"`
	Key      string `json:"key"`
	Rejected bool   `json:"rejected"`
	Msg      string `json:"message,omitempty"`
	Ring     string `json:"ring_after"`
	Reloaded string `json:"reloaded"`
}

func init() {
	vc.Register(&vc.Check{
		ID:    "C22",
		Level: "exploration",
		Rule:  "cases: every sequence of exactly L key requests (quick L=3, thorough L=4; every prefix is checked, so all shorter sequences are covered) over the alphabet {install-key, use-key, remove-key} x {K1 16B, K2 24B, K3 32B, 15-byte key, empty key, a valid key currently absent from the ring, the current primary}, from the initial keyrings [K1] and [K1 K2], and every sequence of length 2 (thorough 3) from the full keyring [K3 K1 K2]; the initial keyring is provisioned as a keyring file and loaded by the agent loader; each request is delivered as an internal query through the memberlist delegate of a real Serf node, and after every request the keyring file is reloaded through agent.Create/loadKeyringFile. non-trivial = the sequence contains at least one accepted request that changed the key set or the primary key",
		Assumptions: []string{
			"requests are handled one after another (the node is quiescent between requests), no file-system faults",
			"'rejected' = the node's reply to the request has Result=false; 'next start' = agent.Create with a configuration naming the keyring file",
			"the key set is compared as a set plus the primary key (the order of non-primary keys is not part of the statement)",
			"packets are sent in plaintext (GossipVerifyOutgoing=false) so that the reply can be read from the transport; the keyring itself is the real memberlist keyring",
			"requests with an empty query payload (no type byte) are excluded: they belong to C09",
		},
		Run: c22run,
	})
}

func c22run(ctx *vc.Ctx) {
	if ctx.Replay != nil {
		return
	}
	L := 3
	if ctx.Thorough() {
		L = 4
	}
	base := "" // a memory-backed directory when there is one: the file is rewritten ~10^5 times
	if st, err := os.Stat("/dev/shm"); err == nil && st.IsDir() {
		base = "/dev/shm"
	}
	dir, err := os.MkdirTemp(base, "verif-c22-")
	if err != nil && base != "" {
		dir, err = os.MkdirTemp("", "verif-c22-")
	}
	if err != nil {
		ctx.Fail("C22: %v", err)
		return
	}
	defer os.RemoveAll(dir)
	file := filepath.Join(dir, "keyring.json")

	var alpha []c22sym
	for op := 0; op < 3; op++ {
		for k := 0; k < c22NKeys; k++ {
			alpha = append(alpha, c22sym{op, k})
		}
	}
	type plan struct {
		init [][]byte
		L    int
	}
	plans := []plan{
		{[][]byte{c22fixed[c22K1]}, L},
		{[][]byte{c22fixed[c22K1], c22fixed[c22K2]}, L},
		{[][]byte{c22fixed[c22K3], c22fixed[c22K1], c22fixed[c22K2]}, 3},
	}
	if !ctx.Thorough() {
		plans[2].L = 2
	}
	idx, mine := 0, 0
	for ii, pl := range plans {
		init, L := pl.init, pl.L
		scn := ctx.Scn(fmt.Sprintf("seq%d/init%d", L, len(init)), "cases")
		seq := make([]int, L)
		for {
			idx++
			if ctx.Mine(idx) && scn.Exhaustive {
				mine++
				if mine%64 == 0 && time.Now().After(ctx.Deadline) {
					scn.Exhaustive = false
					scn.StopReason = "time budget exhausted"
				}
				syms := make([]c22sym, L)
				for i, a := range seq {
					syms[i] = alpha[a]
				}
				out, nontriv, steps := c22case(ctx, scn.Name, file, init, syms)
				if ctx.Report.HarnessErr != "" {
					return
				}
				scn.Case(out, nontriv)
				if ii == 1 && nontriv && strings.Contains(out, "rej") && len(scn.Samples) < 2 {
					scn.Sample(map[string]interface{}{"initial": c22ringStr(init), "steps": steps})
				}
			}
			// next sequence
			p := L - 1
			for p >= 0 {
				seq[p]++
				if seq[p] < len(alpha) {
					break
				}
				seq[p] = 0
				p--
			}
			if p < 0 {
				break
			}
		}
	}
}

// c22case runs one sequence on a fresh node and checks the property after every request.
func c22case(ctx *vc.Ctx, scn, file string, init [][]byte, syms []c22sym) (outcome string, nontrivial bool, steps []c22stepRec) {
	var labels []string
	type viol struct{ sig, msg string }
	var bad *viol
	var herr string
	x := vsched.Run(vsched.RunOpts{MaxSteps: 400000}, func() {
		if err := c22writeInitial(file, init); err != nil {
			herr = err.Error()
			return
		}
		// the node starts the way an agent does: keyring restored from the file
		sc := serf.DefaultConfig()
		if _, err := agent.Create(&agent.Config{KeyringFile: file}, sc, io.Discard); err != nil {
			herr = "initial load: " + err.Error()
			return
		}
		kr := sc.MemberlistConfig.Keyring
		n, err := world.NewNode("a", 0, c22keyringOpt(kr, file))
		if err != nil {
			herr = err.Error()
			return
		}
		vsched.Quiesce()
		n.Tr.TakeSent()
		for si, sy := range syms {
			before := c22copyRing(kr.GetKeys())
			fileBefore, err := os.ReadFile(file)
			if err != nil {
				herr = err.Error()
				return
			}
			var key []byte
			switch sy.key {
			case c22Absent:
				for _, k := range c22pool {
					if !c22has(before, k) {
						key = k
						break
					}
				}
			case c22Primary:
				key = append([]byte{}, before[0]...)
			default:
				key = c22fixed[sy.key]
			}
			payload := serf.VEncode(serf.VMsgKeyRequest, &serf.VKeyRequest{Key: key})
			n.Delegate().NotifyMsg(c22query(uint64(si+1), uint32(100+si), c22opQuery[sy.op], payload))
			vsched.Quiesce()
			reply, _, cnt := c22keyReply(n)
			if cnt != 1 {
				herr = fmt.Sprintf("expected exactly one key reply to %v (step %d of %v), saw %d", sy, si, syms, cnt)
				return
			}
			after := c22copyRing(kr.GetKeys())
			fileAfter, ferr := os.ReadFile(file)
			reloaded, lerr := c22load(file)
			rec := c22stepRec{Sym: sy.String(), Key: fmt.Sprintf("%x", key), Rejected: !reply.Result, Msg: reply.Message, Ring: c22ringStr(after), Reloaded: c22ringStr(reloaded)}
			if lerr != nil {
				rec.Reloaded = "error: " + lerr.Error()
			}
			steps = append(steps, rec)
			ctxt := func() string {
				b, _ := json.Marshal(steps)
				return fmt.Sprintf("initial ring %s, requests %v, failing at request %d (%v, key %x); trace %s", c22ringStr(init), syms, si+1, sy, key, b)
			}
			opn := c22opQuery[sy.op]
			changed := !c22sameOrdered(before, after)
			switch {
			case ferr != nil || lerr != nil:
				bad = &viol{"keyring-file-does-not-load after " + opn, fmt.Sprintf("the keyring file cannot be loaded at the next start (%v %v): %s", ferr, lerr, ctxt())}
			case len(after) == 0 || len(reloaded) == 0:
				bad = &viol{"empty-keyring after " + opn, "empty keyring: " + ctxt()}
			case !bytes.Equal(reloaded[0], after[0]):
				bad = &viol{"reloaded-primary-differs after " + opn, fmt.Sprintf("the file reloads with primary key %x.. but the node's primary is %x..: live %s, reloaded %s; %s", reloaded[0][:1], after[0][:1], c22ringStr(after), c22ringStr(reloaded), ctxt())}
			case !c22sameSet(reloaded, after):
				bad = &viol{"reloaded-keyset-differs after " + opn, fmt.Sprintf("the file reloads into %s but the node's keyring is %s; %s", c22ringStr(reloaded), c22ringStr(after), ctxt())}
			case !reply.Result && changed:
				bad = &viol{"rejected-request-changed-keyring " + opn, fmt.Sprintf("request rejected (%q) but the keyring changed from %s to %s; %s", reply.Message, c22ringStr(before), c22ringStr(after), ctxt())}
			case !reply.Result && !bytes.Equal(fileBefore, fileAfter):
				bad = &viol{"rejected-request-changed-file " + opn, fmt.Sprintf("request rejected (%q) but the keyring file changed from %q to %q; %s", reply.Message, fileBefore, fileAfter, ctxt())}
			}
			if bad != nil {
				return
			}
			switch {
			case !reply.Result:
				labels = append(labels, "rej")
			case changed:
				labels = append(labels, "chg")
				nontrivial = true
			default:
				labels = append(labels, "nop")
			}
		}
		n.S.Shutdown()
	})
	if herr != "" {
		ctx.Fail("C22: %s", herr)
		return "harness", false, steps
	}
	if len(x.Panics) > 0 {
		ctx.Violation(scn, "panic "+x.Panics[0].Frame, fmt.Sprintf("panic %s while handling requests %v from ring %s\n%s", x.Panics[0].Value, syms, c22ringStr(init), x.Panics[0].Stack), map[string]interface{}{"initial": c22ringStr(init), "requests": fmt.Sprint(syms)})
		return "panic", false, steps
	}
	if bad != nil {
		ctx.Violation(scn, bad.sig, bad.msg, map[string]interface{}{"initial": c22ringStr(init), "requests": fmt.Sprint(syms)})
		return bad.sig, false, steps
	}
	if !x.RootDone {
		ctx.Fail("C22: run did not finish: blocked %+v caphit=%v", x.Blocked, x.CapHit)
		return "stuck", false, steps
	}
	return strings.Join(labels, ","), nontrivial, steps
}
