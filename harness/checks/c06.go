package checks

import (
	"fmt"
	"sort"
	"time"

	"verifharness/vc"
	"verifharness/world"

	"github.com/hashicorp/serf/serf"
	"github.com/hashicorp/serf/zzverif/vsched"
)

// C06: Locally issued events and queries get unique, causally later Lamport times.

type c06call struct {
	name       string
	begin, end int
	ltime      uint64
	found      bool
	err        error
}

type c06foreign struct {
	ltime uint64
	end   int
}

func init() {
	vc.Register(&vc.Check{
		ID:    "C06",
		Level: "exploration",
		Rule:  "schedules: all interleavings within the deviation bound (delay bounding; statement-level points: quick 2, thorough 3; synchronisation-level points only: thorough 4) of 2 (thorough: also 3) concurrent Serf.UserEvent calls, resp. Serf.Query calls, with a network thread delivering one foreign event/query, on a real Serf node; scheduling points at every lock, atomic and channel operation and before every statement of UserEvent/Query/handleUserEvent/handleQuery; Lamport times are decoded from the node's outgoing broadcasts; non-trivial = at least one non-default scheduling choice",
		Assumptions: []string{
			"inert real memberlist (no tickers, recording transport); gossip arrives serially through Delegate.NotifyMsg as in memberlist's single packet handler",
			"'already processed when the call began' is decided by harness timestamps taken before calling and after returning",
		},
		Run: c06run,
	})
}

func c06run(ctx *vc.Ctx) {
	// statement-level points: bound 1 (quick) / 2 (thorough); synchronisation-level points only: one more
	b := 2
	if ctx.Thorough() {
		b = 3
	}
	c06explore(ctx, "user-events/2callers/stmt", false, 2, b, true)
	c06explore(ctx, "queries/2callers/stmt", true, 2, b, true)
	c06exploreIn(ctx, "user-events/2callers/after-leave", false, 2, b-1, true, true)
	c06exploreIn(ctx, "queries/2callers/after-leave", true, 2, b-1, true, true)
	// every pair of call options (sequential and concurrent, synchronisation-level points)
	for _, o1 := range c06options {
		for _, o2 := range c06options {
			ev := (o1 == "plain" || o1 == "no-broadcast-coalesce") && (o2 == "plain" || o2 == "no-broadcast-coalesce")
			if o1 != "no-broadcast-coalesce" && o2 != "no-broadcast-coalesce" {
				c06exploreOpt(ctx, "queries/options/"+o1+"+"+o2, true, 2, b-1, false, false, []string{o1, o2})
			}
			if ev && (o1 != "plain" || o2 != "plain") {
				c06exploreOpt(ctx, "user-events/options/"+o1+"+"+o2, false, 2, b-1, false, false, []string{o1, o2})
			}
		}
	}
	if ctx.Thorough() {
		c06explore(ctx, "user-events/2callers/sync", false, 2, 4, false)
		c06explore(ctx, "queries/2callers/sync", true, 2, 4, false)
		c06explore(ctx, "user-events/3callers/sync", false, 3, 2, false)
		c06explore(ctx, "queries/3callers/sync", true, 3, 2, false)
	}
}

func c06explore(ctx *vc.Ctx, name string, queries bool, callers, bound int, steps bool) {
	c06exploreIn(ctx, name, queries, callers, bound, steps, false)
}

// left: the calls are made on a node whose Leave has completed (it lingers as SerfLeft; UserEvent and Query
// are still accepted there and their messages still go out, so their times must still be distinct).
func c06exploreIn(ctx *vc.Ctx, name string, queries bool, callers, bound int, steps bool, left bool) {
	c06exploreOpt(ctx, name, queries, callers, bound, steps, left, nil)
}

// c06options: the call options that select different paths through Query / UserEvent.
var c06options = []string{"plain", "filtered-out-by-name", "filtered-in-by-name", "filtered-out-by-tag", "ack+relay", "no-broadcast-coalesce"}

func c06param(opt string) *serf.QueryParam {
	p := &serf.QueryParam{Timeout: time.Second}
	switch opt {
	case "filtered-out-by-name":
		p.FilterNodes = []string{"b"}
	case "filtered-in-by-name":
		p.FilterNodes = []string{"a", "b"}
	case "filtered-out-by-tag":
		p.FilterTags = map[string]string{"role": "^nobody$"}
	case "ack+relay":
		p.RequestAck = true
		p.RelayFactor = 1
	}
	return p
}

// opts: per caller, the option set of its call (nil = plain).
func c06exploreOpt(ctx *vc.Ctx, name string, queries bool, callers, bound int, steps bool, left bool, opts []string) {
	var calls []*c06call
	var foreign []*c06foreign
	var clock int
	var n *world.Node
	var out [][]byte
	body := func() {
		vsched.Branching(false)
		if steps {
			vsched.StepsIn("serf.(*Serf).UserEvent", "serf.(*Serf).Query", "serf.(*Serf).handleUserEvent", "serf.(*Serf).handleQuery", "serf.(*Serf).registerQueryResponse")
		}
		calls, foreign, clock, out = nil, nil, 0, nil
		var err error
		n, err = world.NewNode("a", 0)
		if err != nil {
			panic(err)
		}
		n.Events().NotifyJoin(n.MLNode("b", 1, nil))
		// one earlier foreign message so that clocks are not at their initial value
		if queries {
			n.Delegate().NotifyMsg(serf.VEncode(serf.VMsgQuery, &serf.VMessageQuery{LTime: 2, ID: 77, Addr: world.NodeIP(1), Port: 7946, SourceNode: "b", Name: "old", Timeout: time.Second}))
		} else {
			n.Delegate().NotifyMsg(serf.VEncode(serf.VMsgUserEvent, &serf.VMessageUserEvent{LTime: 2, Name: "old"}))
		}
		foreign = append(foreign, &c06foreign{ltime: 2, end: 0})
		vsched.Quiesce()
		if left {
			vsched.SetHorizon(int64(10 * time.Second))
			if err := n.S.Leave(); err != nil {
				panic(err)
			}
			vsched.Quiesce()
		}
		n.Outbox()
		vsched.Branching(true)
		var hs []vsched.Handle
		for i := 0; i < callers; i++ {
			c := &c06call{name: fmt.Sprintf("local%d", i)}
			calls = append(calls, c)
			hs = append(hs, vsched.Spawn(c.name, func() {
				clock++
				c.begin = clock
				opt := "plain"
				if i < len(opts) {
					opt = opts[i]
				}
				if queries {
					_, c.err = n.S.Query(c.name, nil, c06param(opt))
				} else {
					c.err = n.S.UserEvent(c.name, []byte("p"), opt == "no-broadcast-coalesce")
				}
				clock++
				c.end = clock
			}))
		}
		hs = append(hs, vsched.Spawn("network", func() {
			f := &c06foreign{ltime: 4}
			if queries {
				n.Delegate().NotifyMsg(serf.VEncode(serf.VMsgQuery, &serf.VMessageQuery{LTime: 4, ID: 78, Addr: world.NodeIP(1), Port: 7946, SourceNode: "b", Name: "foreign", Timeout: time.Second}))
			} else {
				n.Delegate().NotifyMsg(serf.VEncode(serf.VMsgUserEvent, &serf.VMessageUserEvent{LTime: 4, Name: "foreign"}))
			}
			clock++
			f.end = clock
			foreign = append(foreign, f)
		}))
		for _, h := range hs {
			h.Join()
		}
		vsched.Branching(false)
		vsched.Quiesce()
		out = n.Outbox()
		n.S.Shutdown()
	}
	check := func(x *vsched.Exec) (string, string, string) {
		if len(x.Panics) > 0 {
			return "panic", "panic " + x.Panics[0].Frame, x.Panics[0].Value + "\n" + x.Panics[0].Stack
		}
		if !x.RootDone {
			return "stuck", "deadlock", fmt.Sprintf("blocked: %+v", x.Blocked)
		}
		byName := map[string]*c06call{}
		for _, c := range calls {
			byName[c.name] = c
		}
		for _, b := range out {
			if queries && b[0] == serf.VMsgQuery {
				var q serf.VMessageQuery
				if serf.VDecode(b[1:], &q) == nil {
					if c := byName[q.Name]; c != nil {
						c.ltime, c.found = uint64(q.LTime), true
					}
				}
			}
			if !queries && b[0] == serf.VMsgUserEvent {
				var e serf.VMessageUserEvent
				if serf.VDecode(b[1:], &e) == nil {
					if c := byName[e.Name]; c != nil {
						c.ltime, c.found = uint64(e.LTime), true
					}
				}
			}
		}
		kind := "user event"
		if queries {
			kind = "query"
		}
		var lts []uint64
		for _, c := range calls {
			if c.err != nil || !c.found {
				return "nosend", "local-message-not-broadcast", fmt.Sprintf("%s %s: err=%v, found in outbox=%v", kind, c.name, c.err, c.found)
			}
			lts = append(lts, c.ltime)
		}
		for i, c := range calls {
			for j, d := range calls {
				if i < j && c.ltime == d.ltime {
					return "dup", "dup-ltime " + kind, fmt.Sprintf("two locally originated %ss (%s, %s) were broadcast with the same Lamport time %d", kind, c.name, d.name, c.ltime)
				}
				if i != j && d.end < c.begin && c.ltime <= d.ltime {
					return "notlater", "not-later-than-own " + kind, fmt.Sprintf("%s %s (LTime %d) was issued after %s (LTime %d) had returned but is not later", kind, c.name, c.ltime, d.name, d.ltime)
				}
			}
			for _, f := range foreign {
				if f.end < c.begin && c.ltime <= f.ltime {
					return "notlater", "not-later-than-processed " + kind, fmt.Sprintf("%s %s got LTime %d although a %s with LTime %d had been fully processed before the call began", kind, c.name, c.ltime, kind, f.ltime)
				}
			}
		}
		sort.Slice(lts, func(i, j int) bool { return lts[i] < lts[j] })
		return fmt.Sprint(lts), "", ""
	}
	ctx.Explore(vc.ExploreOpts{Name: name, Bound: bound, MaxSteps: 20000}, body, check)
}
