package checks

import (
	"encoding/base64"
	"fmt"
	"regexp"
	"sort"
	"strconv"
	"strings"
	"time"

	"verifharness/vc"
	"verifharness/world"

	"github.com/hashicorp/memberlist"
	"github.com/hashicorp/serf/serf"
	"github.com/hashicorp/serf/zzverif/vsched"
)

// C23: Cluster key operations aggregate replies faithfully and replies fit.
//
// Part 1 (aggregation): a real KeyManager call runs in its own controlled thread on a
// node whose memberlist knows k peers; the harness plays the peers: it reads the
// broadcast query from the gossip queue and feeds one reply per peer drawn from the
// reply alphabet. The node's own reply (it is a member and answers its own query
// with the real handler) is taken from the transport and looped back or lost.
//
// Part 2 (reply size): a list-keys query is injected into a node holding n keys and
// the reply packet is read from the transport.

var (
	c23A = c22fill(16, 0x0a)
	c23B = c22fill(32, 0x0b)
)

func c23b64(b []byte) string { return base64.StdEncoding.EncodeToString(b) }

// ---- reply alphabet -------------------------------------------------------

type c23reply struct {
	name    string
	missing bool
	payload func() []byte
	ok      bool     // well-formed with Result=true
	keys    []string // for ok list replies
	primary string
	// a reply that counts as failed (no Result=true) but carries keys: whether its keys are
	// counted is left open by the statement (lower bound without, upper bound with them)
	failKeys    []string
	failPrimary string
	partial     bool // well-formed msgpack map that omits some fields
}

// c23str is the msgpack encoding of a short string.
func c23str(s string) []byte {
	if len(s) < 32 {
		return append([]byte{0xa0 | byte(len(s))}, s...)
	}
	return append([]byte{0xd9, byte(len(s))}, s...)
}

func c23enc(r serf.VNodeKeyResponse) []byte { return serf.VEncode(serf.VMsgKeyResponse, &r) }

func c23alphabet(list bool) []c23reply {
	a, b := c23b64(c23A), c23b64(c23B)
	var out []c23reply
	okr := func(name, msg string, keys []string, prim string) c23reply {
		if !list {
			keys, prim = nil, ""
		}
		return c23reply{name: name, ok: true, keys: keys, primary: prim, payload: func() []byte {
			return c23enc(serf.VNodeKeyResponse{Result: true, Message: msg, Keys: keys, PrimaryKey: prim})
		}}
	}
	out = append(out, okr("ok{A}pA", "", []string{a}, a))
	if list {
		out = append(out,
			okr("ok{A,B}pA", "", []string{a, b}, a),
			okr("ok{A,B}pB", "", []string{a, b}, b), // primary not listed first
			okr("ok{B}pB", "", []string{b}, b))
	}
	out = append(out, okr("ok+msg", "truncated key list response, showing first 1 of 3 keys", []string{a}, a))
	out = append(out, c23reply{name: "failed", payload: func() []byte {
		return c23enc(serf.VNodeKeyResponse{Result: false, Message: "boom"})
	}})
	// what the real handlers send when they cannot decode the request: Result=false, no message
	out = append(out, c23reply{name: "failed-nomsg", payload: func() []byte {
		return c23enc(serf.VNodeKeyResponse{Result: false})
	}})
	out = append(out, c23reply{name: "wrongtype", payload: func() []byte {
		p := c23enc(serf.VNodeKeyResponse{Result: true, Keys: []string{a}, PrimaryKey: a})
		p[0] = serf.VMsgKeyRequest
		return p
	}})
	out = append(out, c23reply{name: "empty", payload: func() []byte { return nil }})
	out = append(out, c23reply{name: "undecodable", payload: func() []byte {
		// hand-made msgpack: {Result:true, Keys:[A,B], PrimaryKey:A, Message:<string cut short>},
		// i.e. everything a careless decoder needs to count it as a success precedes the damage
		p := []byte{serf.VMsgKeyResponse, 0x84}
		p = append(p, c23str("Result")...)
		p = append(p, 0xc3)
		p = append(p, c23str("Keys")...)
		p = append(p, 0x92)
		p = append(p, c23str(a)...)
		p = append(p, c23str(b)...)
		p = append(p, c23str("PrimaryKey")...)
		p = append(p, c23str(a)...)
		p = append(p, c23str("Message")...)
		return append(p, 0xd9, 0x40, 'c', 'u', 't')
	}})
	// Well-formed replies that OMIT fields (an absent field is its zero value; absent Result =
	// failure). They are listed after the fully populated replies, so in ascending delivery
	// order they arrive after them and in descending order before them.
	hand := func(fields ...[]byte) func() []byte {
		return func() []byte {
			p := []byte{serf.VMsgKeyResponse, 0x80 | byte(len(fields))}
			for _, f := range fields {
				p = append(p, f...)
			}
			return p
		}
	}
	fResultTrue := append(c23str("Result"), 0xc3)
	fResultFalse := append(c23str("Result"), 0xc2)
	fKeysB := append(append(c23str("Keys"), 0x91), c23str(b)...)
	fPrimB := append(c23str("PrimaryKey"), c23str(b)...)
	out = append(out, c23reply{name: "only{Result:true}", ok: true, partial: true, payload: hand(fResultTrue)})
	out = append(out, c23reply{name: "only{Keys:[B],PrimaryKey:B}", partial: true, failKeys: []string{b}, failPrimary: b, payload: hand(fKeysB, fPrimB)})
	out = append(out, c23reply{name: "only{Result:false}", partial: true, payload: hand(fResultFalse)})
	out = append(out, c23reply{name: "emptymap{}", partial: true, payload: hand()})
	out = append(out, c23reply{name: "missing", missing: true})
	return out
}

type c23op struct {
	name string
	list bool
	call func(km *serf.KeyManager) (*serf.KeyResponse, error)
}

func c23ops() []c23op {
	a, b := c23b64(c23A), c23b64(c23B)
	return []c23op{
		{"list", true, func(km *serf.KeyManager) (*serf.KeyResponse, error) { return km.ListKeys() }},
		{"install(B)", false, func(km *serf.KeyManager) (*serf.KeyResponse, error) { return km.InstallKey(b) }},
		{"use(B:absent)", false, func(km *serf.KeyManager) (*serf.KeyResponse, error) { return km.UseKey(b) }},
		{"use(A)", false, func(km *serf.KeyManager) (*serf.KeyResponse, error) { return km.UseKey(a) }},
		{"remove(A:primary)", false, func(km *serf.KeyManager) (*serf.KeyResponse, error) { return km.RemoveKey(a) }},
	}
}

// local-reply handling
const (
	c23LocalFirst = iota
	c23LocalLast
	c23LocalLost
)

var c23localName = []string{"local-first", "local-last", "local-lost"}

type c23aggCase struct {
	Op      string   `json:"operation"`
	Peers   int      `json:"peers"`
	Replies []string `json:"peer_replies"`
	Local   string   `json:"local_reply"`
	Dup     bool     `json:"every_reply_delivered_twice"`
	Batch   bool     `json:"replies_delivered_in_one_batch"`
	Rev     bool     `json:"peer_replies_arrive_in_reverse_order"`
}

func c23multisets(nsym, k int) [][]int {
	var out [][]int
	var rec func(start int, cur []int)
	rec = func(start int, cur []int) {
		if len(cur) == k {
			out = append(out, append([]int{}, cur...))
			return
		}
		for i := start; i < nsym; i++ {
			rec(i, append(cur, i))
		}
	}
	rec(0, nil)
	return out
}

func c23mapStr(m map[string]int) string {
	var ks []string
	for k := range m {
		ks = append(ks, k)
	}
	sort.Strings(ks)
	var p []string
	for _, k := range ks {
		n := k
		if len(n) > 6 {
			n = n[:6]
		}
		p = append(p, fmt.Sprintf("%s:%d", n, m[k]))
	}
	return "{" + strings.Join(p, " ") + "}"
}

func init() {
	vc.Register(&vc.Check{
		ID:    "C23",
		Level: "exploration",
		Rule: "cases (aggregation): every KeyManager operation in {ListKeys, InstallKey(new), UseKey(absent locally), UseKey(present), RemoveKey(primary)} on a real node that knows k peers (k=1..3, thorough 1..4) x every multiset of k peer replies over the alphabet {ok{A}, ok{A,B} primary A, ok{A,B} primary B, ok{B}, ok with message, failed (Result=false) with and without a message, wrong type byte, empty payload, undecodable (cut msgpack), well-formed maps that omit fields: {only Result:true}, {only Keys:[B]+PrimaryKey:B}, {only Result:false}, {empty map}, missing} (non-list operations: without the key-set variants) x the node's own real reply {looped back first, looped back last, lost} x {each reply once, each reply delivered twice} x {aggregator runs after every reply, after all replies} x {peer replies arrive in ascending, descending alphabet order (descending only when it is a different sequence)}, so every field-omitting reply is processed both right after fully populated replies (peers' and the node's own) and before them; non-trivial = at least one peer reply is not a plain success. " +
			"cases (reply size): a list-keys query injected into a fresh real node for every key count n (quick: 17 values in 0..60, thorough: all 0..60) x key lengths {all 16B, all 32B, mixed 16/24/32} x node-name lengths {1,64,128} x QueryResponseSizeLimit in {60,80..1400} plus the exact sizes (-1,0,+1) of the 0-, 1-, 2-, (n-1)- and n-key replies, and for n in {5,20,41} (thorough: every n) the exact sizes -3..+3 of the reply with i keys for EVERY i; non-trivial = the reply had to be truncated or could not be sent",
		Assumptions: []string{
			"peer replies come from members only and at most one distinct reply per node (a second copy of the same reply, as produced by relaying, must not be counted again)",
			"the number of members is what memberlist reports after a real Join against the in-memory push/pull responder (k peers + the node itself)",
			"a field absent from a well-formed reply has its zero value (absent Result = failed reply); whether the keys carried by a reply that counts as failed are included in the key counts is left open (lower/upper bound)",
			"key and primary-key counts are compared for non-empty keys only; the Messages map and the counts of non-listing operations are not constrained by the statement",
			"'one key fits' = the reply carrying the first min(1,n) keys (with the node's truncation notice 'truncated key list response, showing first 1 of n keys' when n>1), encoded with the node's own codec, is within the limit; a reply that the node refuses to send because it is over the limit is observed as 'no reply' and counted as exceeding the limit when one key fits",
			"a truncated reply 'states how many of how many' = its message contains the number of keys shown followed by the total as decimal numbers",
			"packets are sent in plaintext (GossipVerifyOutgoing/Incoming=false) so that replies can be read from the transport",
		},
		Run: c23run,
	})
}

func c23run(ctx *vc.Ctx) {
	if ctx.Replay != nil {
		return
	}
	idx := 0
	c23aggregation(ctx, &idx)
	c23sizes(ctx, &idx)
}

// ---- part 1: aggregation --------------------------------------------------

func c23aggregation(ctx *vc.Ctx, idx *int) {
	maxK := 3
	if ctx.Thorough() {
		maxK = 4
	}
	mine := 0
	for _, op := range c23ops() {
		alpha := c23alphabet(op.list)
		for k := 1; k <= maxK; k++ {
			scn := ctx.Scn(fmt.Sprintf("aggregate/%s/peers%d", op.name, k), "cases")
			for _, ms := range c23multisets(len(alpha), k) {
				for local := 0; local < 3; local++ {
					for dup := 0; dup < 2; dup++ {
						for variant := 0; variant < 4; variant++ {
							batch, rev := variant&1, variant>>1
							if rev == 1 && !c23orderMatters(alpha, ms) {
								continue // the reversed arrival order is the same sequence
							}
							*idx++
							if !ctx.Mine(*idx) || !scn.Exhaustive {
								continue
							}
							mine++
							if mine%32 == 0 && time.Now().After(ctx.Deadline) {
								scn.Exhaustive = false
								scn.StopReason = "time budget exhausted"
								continue
							}
							out, nontriv := c23aggCaseRun(ctx, scn, op, alpha, ms, local, dup == 1, batch == 1, rev == 1)
							if ctx.Report.HarnessErr != "" {
								return
							}
							scn.Case(out, nontriv)
						}
					}
				}
			}
		}
	}
}

// c23orderMatters: at least two different replies are actually delivered.
func c23orderMatters(alpha []c23reply, ms []int) bool {
	first := -1
	for _, s := range ms {
		if alpha[s].missing {
			continue
		}
		if first >= 0 && s != first {
			return true
		}
		first = s
	}
	return false
}

func c23aggCaseRun(ctx *vc.Ctx, scn *vc.Scenario, op c23op, alpha []c23reply, ms []int, local int, dup, batch, rev bool) (string, bool) {
	k := len(ms)
	desc := c23aggCase{Op: op.name, Peers: k, Local: c23localName[local], Dup: dup, Batch: batch, Rev: rev}
	for _, s := range ms {
		desc.Replies = append(desc.Replies, alpha[s].name)
	}
	var herr string
	var got *serf.KeyResponse
	var gotErr error
	var returned bool
	var localOK, localSeen bool
	var localKeys []string
	var localPrimary string
	x := vsched.Run(vsched.RunOpts{MaxSteps: 400000}, func() {
		kr, err := memberlist.NewKeyring([][]byte{c23A}, c23A)
		if err != nil {
			herr = err.Error()
			return
		}
		n, err := world.NewNode("a", 0, c22keyringOpt(kr, ""))
		if err != nil {
			herr = err.Error()
			return
		}
		meta := serf.VEncodeTags(n.S, map[string]string{})
		var peers []world.Peer
		for i := 0; i < k; i++ {
			peers = append(peers, world.AlivePeer(string(rune('b'+i)), 1+i, meta))
		}
		if _, err := n.KnowPeers(peers, nil); err != nil {
			herr = "join: " + err.Error()
			return
		}
		vsched.Quiesce()
		if m := n.S.Memberlist().NumMembers(); m != k+1 {
			herr = fmt.Sprintf("memberlist knows %d members, want %d", m, k+1)
			return
		}
		n.Outbox()
		n.Tr.TakeSent()
		timeout := n.S.DefaultQueryTimeout()
		h := vsched.Spawn("keyop", func() {
			got, gotErr = op.call(n.S.KeyManager())
			returned = true
		})
		vsched.Quiesce()
		// the broadcast query
		var q *serf.VMessageQuery
		for _, b := range n.Outbox() {
			if len(b) > 0 && b[0] == serf.VMsgQuery {
				var m serf.VMessageQuery
				if serf.VDecode(b[1:], &m) == nil {
					q = &m
				}
			}
		}
		if q == nil {
			herr = "the key operation did not broadcast a query"
			return
		}
		// the node's own reply
		var localRaw []byte
		for _, p := range n.Tr.TakeSent() {
			if len(p.User) > 0 && p.User[0] == serf.VMsgQueryResponse {
				localRaw = p.User
			}
		}
		if localRaw == nil {
			herr = "the node did not answer its own key query"
			return
		}
		{
			var qr serf.VMessageQueryResponse
			var nk serf.VNodeKeyResponse
			if serf.VDecode(localRaw[1:], &qr) != nil || len(qr.Payload) < 1 || qr.Payload[0] != serf.VMsgKeyResponse || serf.VDecode(qr.Payload[1:], &nk) != nil {
				herr = "cannot decode the node's own reply"
				return
			}
			localOK, localKeys, localPrimary = nk.Result, nk.Keys, nk.PrimaryKey
		}
		deliver := func(raw []byte) {
			n.Delegate().NotifyMsg(raw)
			if dup {
				n.Delegate().NotifyMsg(raw)
			}
			if !batch {
				vsched.Quiesce()
			}
		}
		if local == c23LocalFirst {
			localSeen = true
			deliver(localRaw)
		}
		for j := range ms {
			i := j
			if rev {
				i = len(ms) - 1 - j
			}
			s := ms[i]
			if alpha[s].missing {
				continue
			}
			deliver(serf.VEncode(serf.VMsgQueryResponse, &serf.VMessageQueryResponse{
				LTime: q.LTime, ID: q.ID, From: string(rune('b' + i)), Payload: alpha[s].payload()}))
		}
		if local == c23LocalLast {
			localSeen = true
			deliver(localRaw)
		}
		vsched.Quiesce()
		if !h.Done() {
			vsched.Advance(int64(timeout) + int64(time.Millisecond))
			vsched.Quiesce()
		}
		if !h.Done() {
			return // reported below as "did not return"
		}
		h.Join()
		n.S.Shutdown()
	})
	replay := desc
	if herr != "" {
		ctx.Fail("C23 %+v: %s", desc, herr)
		return "harness", false
	}
	if len(x.Panics) > 0 {
		ctx.Violation(scn.Name, "panic "+x.Panics[0].Frame, fmt.Sprintf("panic %s in case %+v\n%s", x.Panics[0].Value, desc, x.Panics[0].Stack), replay)
		return "panic", false
	}
	if !returned {
		ctx.Violation(scn.Name, "aggregate: operation-never-returns", fmt.Sprintf("the key operation did not return after the query timeout; case %+v; blocked %+v", desc, x.Blocked), replay)
		return "stuck", false
	}
	if got == nil {
		ctx.Violation(scn.Name, "aggregate: nil-response", fmt.Sprintf("no KeyResponse returned (err=%v); case %+v", gotErr, desc), replay)
		return "nil", false
	}
	// reference model
	members := k + 1
	wantResp, wantErr := 0, 0
	wantKeys, wantPrim := map[string]int{}, map[string]int{} // lower bounds
	maxKeys, maxPrim := map[string]int{}, map[string]int{}   // upper bounds (keys carried by failed replies)
	add := func(ok bool, keys []string, prim string) {
		wantResp++
		if !ok {
			wantErr++
		}
		for _, key := range keys {
			maxKeys[key]++
			if ok {
				wantKeys[key]++
			}
		}
		if prim != "" {
			maxPrim[prim]++
			if ok {
				wantPrim[prim]++
			}
		}
	}
	if localSeen {
		add(localOK, localKeys, localPrimary)
	}
	nontriv := false
	for _, s := range ms {
		r := alpha[s]
		if r.name != "ok{A}pA" {
			nontriv = true
		}
		if r.missing {
			continue
		}
		if r.ok {
			add(true, r.keys, r.primary)
		} else if op.list {
			add(false, r.failKeys, r.failPrimary)
		} else {
			add(false, nil, "")
		}
	}
	within := func(got, lo, hi map[string]int) bool {
		for key, v := range got {
			if v < lo[key] || v > hi[key] {
				return false
			}
		}
		for key, v := range lo {
			if got[key] < v {
				return false
			}
		}
		return true
	}
	bounds := func(lo, hi map[string]int) string {
		if c23mapStr(lo) == c23mapStr(hi) {
			return c23mapStr(lo)
		}
		return "between " + c23mapStr(lo) + " and " + c23mapStr(hi)
	}
	wantFail := wantErr > 0 || wantResp < members
	strip := func(m map[string]int) map[string]int {
		o := map[string]int{}
		for key, v := range m {
			if key != "" && v != 0 {
				o[key] = v
			}
		}
		return o
	}
	label := fmt.Sprintf("resp=%d err=%d fail=%v", wantResp, wantErr, wantFail)
	what := fmt.Sprintf("case %+v (node's own reply ok=%v); returned NumNodes=%d NumResp=%d NumErr=%d Keys=%s PrimaryKeys=%s Messages=%v err=%v", desc, localOK, got.NumNodes, got.NumResp, got.NumErr, c23mapStr(got.Keys), c23mapStr(got.PrimaryKeys), got.Messages, gotErr)
	cls := "wellformed-only"
	for _, s := range ms {
		if alpha[s].partial {
			cls = "with-omitted-fields"
		}
	}
	for _, s := range ms {
		switch alpha[s].name {
		case "wrongtype", "empty", "undecodable":
			cls = "with-undecodable"
		}
	}
	switch {
	case got.NumResp != wantResp:
		ctx.Violation(scn.Name, "aggregate: reply-count-wrong ("+cls+")", fmt.Sprintf("%d replies were delivered but NumResp=%d; %s", wantResp, got.NumResp, what), replay)
		return "bad-numresp", nontriv
	case got.NumErr != wantErr:
		ctx.Violation(scn.Name, "aggregate: failure-count-wrong ("+cls+")", fmt.Sprintf("%d replies were failed or undecodable but NumErr=%d; %s", wantErr, got.NumErr, what), replay)
		return "bad-numerr", nontriv
	case (gotErr != nil) != wantFail:
		why := "no node failed and all members replied"
		if wantFail {
			why = fmt.Sprintf("%d failures, %d of %d members replied", wantErr, wantResp, members)
		}
		ctx.Violation(scn.Name, fmt.Sprintf("aggregate: error-result-wrong (want error=%v, %s)", wantFail, cls), fmt.Sprintf("%s, but the operation returned err=%v; %s", why, gotErr, what), replay)
		return "bad-error", nontriv
	}
	if op.list {
		if g := strip(got.Keys); !within(g, wantKeys, maxKeys) {
			ctx.Violation(scn.Name, "aggregate: key-counts-wrong ("+cls+")", fmt.Sprintf("key holders should be %s, got %s; %s", bounds(wantKeys, maxKeys), c23mapStr(g), what), replay)
			return "bad-keys", nontriv
		}
		if g := strip(got.PrimaryKeys); !within(g, wantPrim, maxPrim) {
			ctx.Violation(scn.Name, "aggregate: primary-key-counts-wrong ("+cls+")", fmt.Sprintf("primary key holders should be %s, got %s; %s", bounds(wantPrim, maxPrim), c23mapStr(g), what), replay)
			return "bad-primary", nontriv
		}
		label += " keys=" + c23mapStr(wantKeys) + " prim=" + c23mapStr(wantPrim)
	}
	if nontriv && len(scn.Samples) < 1 && op.list && wantErr > 0 && len(wantKeys) > 1 {
		scn.Sample(map[string]interface{}{"case": desc, "NumNodes": got.NumNodes, "NumResp": got.NumResp, "NumErr": got.NumErr, "Keys": c23mapStr(got.Keys), "PrimaryKeys": c23mapStr(got.PrimaryKeys), "error": fmt.Sprint(gotErr)})
	}
	return label, nontriv
}

// ---- part 2: reply size ---------------------------------------------------

var c23profiles = []struct {
	name string
	lens []int
}{{"16B", []int{16}}, {"32B", []int{32}}, {"mixed", []int{16, 24, 32}}}

func c23ring(n int, lens []int) [][]byte {
	var out [][]byte
	for j := 0; j < n; j++ {
		k := make([]byte, lens[j%len(lens)])
		for i := range k {
			k[i] = byte(j*7 + i*13 + 1)
		}
		k[0], k[1] = byte(j), 0xee
		out = append(out, k)
	}
	return out
}

const c23truncFmt = "truncated key list response, showing first %d of %d keys"

// c23refReply is the reference encoding of a reply listing the first i of the ring's keys.
func c23refReply(name string, lt serf.LamportTime, id uint32, ring [][]byte, i int) []byte {
	nk := serf.VNodeKeyResponse{Result: true}
	for _, k := range ring[:i] {
		nk.Keys = append(nk.Keys, c23b64(k))
	}
	if len(ring) > 0 {
		nk.PrimaryKey = c23b64(ring[0])
	}
	if i < len(ring) {
		nk.Message = fmt.Sprintf(c23truncFmt, i, len(ring))
	}
	return serf.VEncode(serf.VMsgQueryResponse, &serf.VMessageQueryResponse{LTime: lt, ID: id, From: name, Payload: c23enc(nk)})
}

var c23intRe = regexp.MustCompile(`[0-9]+`)

func c23sizes(ctx *vc.Ctx, idx *int) {
	var counts []int
	if ctx.Thorough() {
		for n := 0; n <= 60; n++ {
			counts = append(counts, n)
		}
	} else {
		counts = []int{0, 1, 2, 3, 4, 5, 7, 10, 15, 20, 27, 33, 40, 41, 42, 56, 60}
	}
	const lt, id = serf.LamportTime(7), uint32(123456)
	mine := 0
	for _, nameLen := range []int{1, 64, 128} {
		name := strings.Repeat("n", nameLen)
		for _, prof := range c23profiles {
			scn := ctx.Scn(fmt.Sprintf("replysize/name%d/keys%s", nameLen, prof.name), "cases")
			for _, n := range counts {
				ring := c23ring(n, prof.lens)
				// reference sizes and the limit grid
				size := make([]int, n+1)
				for i := 0; i <= n; i++ {
					size[i] = len(c23refReply(name, lt, id, ring, i))
				}
				lim := map[int]bool{}
				for l := 60; l <= 1400; l += 20 {
					lim[l] = true
				}
				for _, i := range []int{0, 1, 2, n - 1, n} {
					if i >= 0 && i <= n {
						for d := -1; d <= 1; d++ {
							lim[size[i]+d] = true
						}
					}
				}
				// every truncation boundary: the limit just below, at and just above the exact size of the
				// reply with i keys, for EVERY i (quick: for three key counts) -- an off-by-a-few-bytes
				// size computation only shows at particular residues of limit minus the fixed part
				if ctx.Thorough() || n == 5 || n == 20 || n == 41 {
					for i := 0; i <= n; i++ {
						for d := -3; d <= 3; d++ {
							lim[size[i]+d] = true
						}
					}
				}
				var limits []int
				for l := range lim {
					limits = append(limits, l)
				}
				sort.Ints(limits)
				for _, limit := range limits {
					*idx++
					if !ctx.Mine(*idx) || !scn.Exhaustive {
						continue
					}
					mine++
					if mine%32 == 0 && time.Now().After(ctx.Deadline) {
						scn.Exhaustive = false
						scn.StopReason = "time budget exhausted"
						continue
					}
					out, nontriv := c23sizeCase(ctx, scn, name, prof.name, ring, size, limit, lt, id)
					if ctx.Report.HarnessErr != "" {
						return
					}
					scn.Case(out, nontriv)
				}
			}
		}
	}
}

func c23sizeCase(ctx *vc.Ctx, scn *vc.Scenario, name, prof string, ring [][]byte, size []int, limit int, lt serf.LamportTime, id uint32) (string, bool) {
	n := len(ring)
	desc := map[string]interface{}{"keys": n, "key_lengths": prof, "node_name_len": len(name), "limit": limit}
	var herr string
	var reply *serf.VNodeKeyResponse
	var raw []byte
	x := vsched.Run(vsched.RunOpts{MaxSteps: 400000}, func() {
		var kr *memberlist.Keyring
		var err error
		if n == 0 {
			kr, err = memberlist.NewKeyring(nil, nil)
		} else {
			kr, err = memberlist.NewKeyring(ring, ring[0])
		}
		if err != nil {
			herr = err.Error()
			return
		}
		nd, err := world.NewNode(name, 0, c22keyringOpt(kr, ""), func(c *serf.Config) { c.QueryResponseSizeLimit = limit })
		if err != nil {
			herr = err.Error()
			return
		}
		vsched.Quiesce()
		nd.Tr.TakeSent()
		payload := serf.VEncode(serf.VMsgKeyRequest, &serf.VKeyRequest{})
		nd.Delegate().NotifyMsg(serf.VEncode(serf.VMsgQuery, &serf.VMessageQuery{
			LTime: lt, ID: id, Addr: world.NodeIP(1), Port: 7946, SourceNode: "b",
			Timeout: 1e9, Name: serf.VInternalQueryName("list-keys"), Payload: payload,
		}))
		vsched.Quiesce()
		var cnt int
		reply, raw, cnt = c22keyReply(nd)
		if cnt > 1 {
			herr = fmt.Sprintf("%d replies to one query", cnt)
		}
		nd.S.Shutdown()
	})
	if herr != "" {
		ctx.Fail("C23 %v: %s", desc, herr)
		return "harness", false
	}
	if len(x.Panics) > 0 {
		ctx.Violation(scn.Name, "panic "+x.Panics[0].Frame, fmt.Sprintf("panic %s in case %v\n%s", x.Panics[0].Value, desc, x.Panics[0].Stack), desc)
		return "panic", false
	}
	one := 1
	if n < 1 {
		one = n
	}
	oneFits := size[one] <= limit
	ringCls := "non-empty keyring"
	if n == 0 {
		ringCls = "empty keyring"
	}
	if reply == nil {
		if oneFits {
			ctx.Violation(scn.Name, "replysize: no-reply-although-one-key-fits ("+ringCls+")", fmt.Sprintf("node with %d keys (%s), name length %d, limit %d: a reply with %d key(s) needs %d bytes and fits, but the node sent no reply", n, prof, len(name), limit, one, size[one]), desc)
			return "no-reply", true
		}
		return "none (not even one key fits)", true
	}
	shown := len(reply.Keys)
	what := fmt.Sprintf("node with %d keys (%s), name length %d, limit %d: reply of %d bytes lists %d keys, message %q", n, prof, len(name), limit, len(raw), shown, reply.Message)
	if oneFits && len(raw) > limit {
		ctx.Violation(scn.Name, "replysize: reply-exceeds-limit", what+fmt.Sprintf("; a one-key reply (%d bytes) fits", size[one]), desc)
		return "too-big", true
	}
	if shown > n {
		ctx.Violation(scn.Name, "replysize: reply-not-a-prefix", what+"; more keys than the node holds", desc)
		return "not-prefix", true
	}
	for j, k := range reply.Keys {
		if k != c23b64(ring[j]) {
			ctx.Violation(scn.Name, "replysize: reply-not-a-prefix", what+fmt.Sprintf("; key %d of the reply is %s, the node's key %d is %s", j, k, j, c23b64(ring[j])), desc)
			return "not-prefix", true
		}
	}
	if shown == n {
		return "complete", false
	}
	var nums []int
	for _, s := range c23intRe.FindAllString(reply.Message, -1) {
		v, _ := strconv.Atoi(s)
		nums = append(nums, v)
	}
	stated := false
	for i := 0; i+1 < len(nums); i++ {
		if nums[i] == shown {
			for _, t := range nums[i+1:] {
				if t == n {
					stated = true
				}
			}
		}
	}
	if !stated {
		ctx.Violation(scn.Name, "replysize: truncation-not-stated", what+fmt.Sprintf("; the message does not say %d of %d", shown, n), desc)
		return "not-stated", true
	}
	if len(scn.Samples) < 1 && shown > 2 {
		scn.Sample(map[string]interface{}{"case": desc, "reply_bytes": len(raw), "keys_listed": shown, "message": reply.Message})
	}
	if !oneFits {
		return "truncated (one key does not fit: open)", true
	}
	return "truncated", true
}
