package checks

import (
	"encoding/json"
	"fmt"
	"math"
	"math/big"

	"verifharness/vc"

	"github.com/hashicorp/serf/coordinate"
)

// C21: Round-trip time estimates follow the documented formula.
//
// Oracle (exactly the statement): for two valid coordinates of equal dimension,
// heights >= 0, |components|,heights <= 1e4 s, any finite adjustments:
//   (a) DistanceTo >= 0
//   (b) |d(a,b) - d(b,a)| <= 1 ns
//   (c) d(a,b) == F up to floating-point rounding, where with
//       E = |va-vb| + ha + hb and S = E + adj_a + adj_b (exact arithmetic):
//       F = S if S > 0 else E.
// and DistanceTo on different dimensions panics with DimensionalityConflictError.
//
// The reference is evaluated with 2048-bit big.Float (exact for every operand
// in the domain, the square root is correct to 2048 bits).

const (
	c21prec = 2048
	// relative rounding allowance: 64 units of 2^-53 of the largest magnitude
	// that takes part in the sums (E + |adj_a| + |adj_b|)
	c21relTol = 64.0 / (1 << 53)

	c21sigGuard    = "asymmetric: adjustment guard decided differently per operand order"
	c21sigAbsorb   = "asymmetric: operand-order rounding of adjustments >= 2^23 s"
	c21sigOverflow = "overflow: estimate beyond int64 nanoseconds is returned as a negative duration"
)

type c21coord struct {
	Vec    []float64
	Height float64
	Adj    float64
}

type c21case struct {
	A, B c21coord
}

func (c c21coord) real() *coordinate.Coordinate {
	return &coordinate.Coordinate{Vec: append([]float64{}, c.Vec...), Error: 1.5, Adjustment: c.Adj, Height: c.Height}
}

func c21big(f float64) *big.Float { return new(big.Float).SetPrec(c21prec).SetFloat64(f) }

// c21exactE = Euclidean distance + both heights, 2048-bit.
func c21exactE(va, vb []float64, ha, hb float64) *big.Float {
	sum := new(big.Float).SetPrec(c21prec)
	for i := range va {
		d := new(big.Float).SetPrec(c21prec).Sub(c21big(va[i]), c21big(vb[i]))
		d.Mul(d, d)
		sum.Add(sum, d)
	}
	e := new(big.Float).SetPrec(c21prec).Sqrt(sum)
	e.Add(e, c21big(ha))
	e.Add(e, c21big(hb))
	return e
}

// c21rawFloat replicates rawDistanceTo's operand order in float64 (used only to
// place adversarial adjustments next to the guard and to classify asymmetries).
func c21rawFloat(va, vb []float64, ha, hb float64) float64 {
	s := 0.0
	for i := range va {
		d := va[i] - vb[i]
		s += d * d
	}
	return math.Sqrt(s) + ha + hb
}

// c21scratch holds preallocated big.Float temporaries of one precision.
type c21scratch struct {
	prec             uint
	E, S, w, t, nano *big.Float
}

func c21newScratch(prec uint) *c21scratch {
	n := func() *big.Float { return new(big.Float).SetPrec(prec) }
	sc := &c21scratch{prec: prec, E: n(), S: n(), w: n(), t: n(), nano: n()}
	sc.nano.SetFloat64(1e9)
	return sc
}

var (
	c21lo = c21newScratch(320)     // exact for 1e-30 <= |adjustment| < 1e30 (operand exponents span < 260 bits)
	c21hi = c21newScratch(c21prec) // adjustments up to 1e300
)

// c21noRounding reports whether distance + heights + adjustments evaluates
// without any rounding in float64 under every association order a natural
// implementation may use (both operand orders, adjustments one after the other
// or summed first). sc.E must hold the exact distance + heights.
func c21noRounding(sc *c21scratch, cs c21case) bool {
	s := 0.0
	for i := range cs.A.Vec {
		d := cs.A.Vec[i] - cs.B.Vec[i]
		s += d * d
	}
	mag := math.Sqrt(s)
	ha, hb, aa, ab := cs.A.Height, cs.B.Height, cs.A.Adj, cs.B.Adj
	raws := []float64{mag + ha + hb, mag + hb + ha, mag + (ha + hb)}
	for _, r := range raws {
		if sc.E.Cmp(sc.t.SetFloat64(r)) != 0 {
			return false
		}
	}
	r := raws[0]
	exactSum := func(x, y float64) bool { // x + y exact in float64?
		sc.w.Add(sc.t.SetFloat64(x), sc.w.SetFloat64(y))
		if sc.w.Acc() != big.Exact {
			return false // not even the scratch precision holds the sum
		}
		return sc.w.Cmp(sc.t.SetFloat64(x+y)) == 0
	}
	return exactSum(r, aa) && exactSum(r+aa, ab) && exactSum(r, ab) && exactSum(r+ab, aa) && exactSum(aa, ab) && exactSum(r, aa+ab)
}

// c21judge evaluates one ordered pair and the reverse order. E is the exact
// raw distance. Returns outcome label and, on a violation, signature+message.
func c21judge(cs c21case, E *big.Float) (string, string, string) {
	return c21judgeOn(cs, E, cs.A.real(), cs.B.real())
}

// c21judgeOn is c21judge on caller-provided real coordinates equal to cs.A, cs.B.
func c21judgeOn(cs c21case, E *big.Float, a, b *coordinate.Coordinate) (string, string, string) {
	dab := int64(a.DistanceTo(b))
	dba := int64(b.DistanceTo(a))

	maxAdj := math.Max(math.Abs(cs.A.Adj), math.Abs(cs.B.Adj))
	sc := c21lo
	tiny := func(f float64) bool { return f != 0 && math.Abs(f) < 1e-30 }
	if maxAdj >= 1e30 || tiny(cs.A.Adj) || tiny(cs.B.Adj) {
		sc = c21hi
	}
	sc.E.Set(E) // rounds to the scratch precision (relative 2^-320 at worst)
	// exact adjusted sum
	sc.S.Add(sc.E, sc.t.SetFloat64(cs.A.Adj))
	sc.S.Add(sc.S, sc.t.SetFloat64(cs.B.Adj))
	Ef, _ := sc.E.Float64()
	Sf, _ := sc.S.Float64()
	// rounding allowance (the allowance itself needs no exactness)
	tolS := c21relTol * (Ef + math.Abs(cs.A.Adj) + math.Abs(cs.B.Adj)) // seconds
	tolNs := 1 + tolS*1e9                                              // + truncation to whole nanoseconds
	sc.w.Abs(sc.S)
	boundary := sc.w.Cmp(sc.t.SetFloat64(tolS)) <= 0
	if boundary && c21noRounding(sc, cs) {
		// every natural float64 evaluation of the sums is exact: rounding cannot
		// move the adjusted sum across the guard, the formula applies strictly
		boundary = false
	}
	within := func(got int64, want *big.Float) bool { // want in seconds
		sc.w.Mul(want, sc.nano)
		sc.w.Sub(sc.w, sc.t.SetInt64(got))
		d, _ := sc.w.Float64()
		return math.Abs(d) <= tolNs
	}
	F := sc.E
	label := "raw (guard: adjusted sum not positive)"
	if sc.S.Sign() > 0 {
		F = sc.S
		label = "adjusted"
	}
	desc := func() string {
		return fmt.Sprintf("A={vec %v height %g adj %g} B={vec %v height %g adj %g}: DistanceTo(A,B)=%dns DistanceTo(B,A)=%dns; exact distance+heights=%.17g s, exact adjusted sum=%.17g s",
			cs.A.Vec, cs.A.Height, cs.A.Adj, cs.B.Vec, cs.B.Height, cs.B.Adj, dab, dba, Ef, Sf)
	}
	// representable?
	if Ff, _ := F.Float64(); Ff >= 9.2233720368e9 {
		// the formula's value does not fit a time.Duration
		if dab < 0 || dba < 0 {
			return "overflow", c21sigOverflow, "negative estimate: " + desc()
		}
		if dab != math.MaxInt64 || dba != math.MaxInt64 {
			return "overflow", "overflow: unrepresentable estimate neither saturated nor rejected", desc()
		}
		return "overflow-saturated", "", ""
	}
	if dab < 0 || dba < 0 {
		return "negative", "negative-estimate", desc()
	}
	asym := dab-dba > 1 || dba-dab > 1
	// (c) formula, both orders
	formulaOK := true
	for _, got := range []int64{dab, dba} {
		ok := within(got, F)
		if !ok && boundary {
			// the exact adjusted sum is zero up to rounding: either side of the guard
			if sc.S.Sign() > 0 {
				ok = within(got, sc.E)
			} else {
				ok = got <= int64(tolNs)
			}
		}
		if !ok {
			formulaOK = false
		}
	}
	if !formulaOK && !asym {
		return "formula", "formula-mismatch", "estimate differs from distance + heights (+ adjustments when positive): " + desc()
	}
	// (b) symmetry
	if asym {
		rab := c21rawFloat(cs.A.Vec, cs.B.Vec, cs.A.Height, cs.B.Height)
		rba := c21rawFloat(cs.B.Vec, cs.A.Vec, cs.B.Height, cs.A.Height)
		sab := rab + cs.A.Adj + cs.B.Adj
		sba := rba + cs.B.Adj + cs.A.Adj
		switch {
		case formulaOK && boundary && (sab > 0) != (sba > 0):
			return "asym-guard", c21sigGuard, "not symmetric: " + desc()
		case formulaOK && (sab > 0) == (sba > 0) && maxAdj >= 1<<23:
			return "asym-absorb", c21sigAbsorb, "not symmetric: " + desc()
		}
		return "asym", "asymmetric-estimate", "not symmetric: " + desc()
	}
	if boundary {
		label = "guard boundary (adjusted sum zero up to rounding)"
	}
	return label, "", ""
}

func c21signs(vals []float64) []float64 {
	var out []float64
	for _, v := range vals {
		out = append(out, v)
		if v != 0 {
			out = append(out, -v)
		}
	}
	return out
}

func c21vectors(dim int, alpha []float64) [][]float64 {
	if dim == 0 {
		return [][]float64{{}}
	}
	var out [][]float64
	for _, p := range c21vectors(dim-1, alpha) {
		for _, a := range alpha {
			out = append(out, append(append([]float64{}, p...), a))
		}
	}
	return out
}

func c21patterns8() [][]float64 {
	rep := func(v float64) []float64 {
		o := make([]float64, 8)
		for i := range o {
			o[i] = v
		}
		return o
	}
	alt := make([]float64, 8)
	for i := range alt {
		alt[i] = 1e4
		if i%2 == 1 {
			alt[i] = -1e4
		}
	}
	return [][]float64{
		rep(0), rep(1), rep(-1), rep(1e4), rep(-1e4), rep(1e-6), alt,
		{1e4, 0, 0, 0, 0, 0, 0, 0},
		{3, 4, 0, 0, 0, 0, 0, 0},
		{0.5, 1, 3, 1e4, -0.5, -1, -3, -1e4},
		{1e-6, 0, 0, 0, 0, 0, 0, 1e4},
		{0.1, 0.2, 0.3, 0.4, 0.5, 0.6, 0.7, 0.8},
		{0, 0, 0, -0.003, 0.02, 0, 0.15, 0},
	}
}

func init() {
	vc.Register(&vc.Check{
		ID:    "C21",
		Level: "exploration",
		Rule: "cases: every ordered pair (A,B) of coordinates from a grid: dimension 1 with components {0,±1e-6,±0.5,±1,±3,±1e4} x heights {0,1e-6,1e-5,0.5,1,3,1e4}; dimension 2 over {0,0.5,-3,1e4}^2 x heights {0,1e-5,0.5,1e4} (thorough {0,±1e-6,±0.5,1,-3,±1e4}^2 x heights {0,1e-5,0.5,1,1e4}); dimension 3 over {0,3,-4}^3 x heights {0,0.5}; dimension 8 over 13 pattern vectors x heights {0,1e-5,0.5,1e4} (thorough all 7 heights); " +
			"adjustment of A from {0,±1e-17,±1e-9,±0.5,±1,±1e4,±1e300,±1e10,9.2e9,12345678.9,-87654321.0123,-raw,-raw/2} and of B from the same fixed values plus the five floats around -(raw+adjA) (the guard) and -raw-adjA evaluated in the other order; each case evaluates the real DistanceTo in both orders against a 2048-bit evaluation of the documented formula. " +
			"every dimensionality 1..12 in ascending and again in descending order (each one also after a larger one in the same process); non-trivial = at least one adjustment is non-zero and the two coordinates differ. mismatch: every ordered pair of dimensions from {0,1,2,3,7,8,9} x 3 fillings: different dimensions must panic with DimensionalityConflictError, equal ones must not",
		Assumptions: []string{
			"'up to floating-point rounding' = |estimate - formula| <= 1 ns + 64*2^-53*(distance+heights+|adjA|+|adjB|); when the exact adjusted sum is zero within that allowance either side of the 'keeps it positive' guard is accepted for the formula clause, unless every float64 evaluation order of the sums is exact (then the formula applies strictly); the symmetry clause is demanded regardless",
			"'symmetric to within a nanosecond' = |d(A,B)-d(B,A)| <= 1 ns exactly as stated, for any finite adjustments",
			"when the formula's value exceeds the int64 nanosecond range no Duration equals it; a negative result is reported (non-negativity is unconditional in the statement), a saturated MaxInt64 would be accepted",
			"DistanceTo is a pure function of its operands (no scheduler needed); float-to-int conversion behaviour is that of the build platform (amd64)",
		},
		Run: c21run,
	})
}

func c21run(ctx *vc.Ctx) {
	if ctx.Replay != nil {
		var cs c21case
		if json.Unmarshal(ctx.Replay, &cs) != nil || len(cs.A.Vec) != len(cs.B.Vec) {
			return
		}
		scn := ctx.Scn("replay", "cases")
		out, sig, msg := c21judge(cs, c21exactE(cs.A.Vec, cs.B.Vec, cs.A.Height, cs.B.Height))
		fmt.Printf("replay outcome=%s signature=%q\n  %s\n", out, sig, msg)
		if sig != "" {
			ctx.Violation(scn.Name, sig, msg, cs)
		}
		scn.Case(out, true)
		return
	}
	heights := []float64{0, 1e-6, 1e-5, 0.5, 1, 3, 1e4}
	hquick := []float64{0, 1e-5, 0.5, 1e4}
	type grid struct {
		name    string
		vecs    [][]float64
		heights []float64
	}
	grids := []grid{
		{"dim1", c21vectors(1, c21signs([]float64{0, 1e-6, 0.5, 1, 3, 1e4})), heights},
		{"dim3", c21vectors(3, []float64{0, 3, -4}), []float64{0, 0.5}},
	}
	if ctx.Thorough() {
		grids = append(grids, grid{"dim8", c21patterns8(), heights},
			grid{"dim2", c21vectors(2, []float64{0, 1e-6, -1e-6, 0.5, -0.5, 1, -3, 1e4, -1e4}), []float64{0, 1e-5, 0.5, 1, 1e4}})
	} else {
		grids = append(grids, grid{"dim8", c21patterns8(), hquick},
			grid{"dim2", c21vectors(2, []float64{0, 0.5, -3, 1e4}), hquick})
	}
	// every dimensionality 1..12 (the default is 8): the zero vector, every unit vector (each component
	// on its own: a component that is skipped or counted twice shows) and a ramp
	for d := 1; d <= 12; d++ {
		vecs := [][]float64{make([]float64, d)}
		ramp := make([]float64, d)
		for i := 0; i < d; i++ {
			e := make([]float64, d)
			e[i] = 0.5
			vecs = append(vecs, e)
			ramp[i] = 0.01 * float64(i+1)
		}
		vecs = append(vecs, ramp)
		grids = append(grids, grid{fmt.Sprintf("every-dimension/dim%d", d), vecs, []float64{0, 0.5}})
	}
	// ... and again in descending order, so that every dimensionality is also computed after a larger
	// one in the same process (scratch space kept from an earlier, longer vector)
	for d := 11; d >= 1; d-- {
		ramp, first, last := make([]float64, d), make([]float64, d), make([]float64, d)
		for i := 0; i < d; i++ {
			ramp[i] = 0.01 * float64(i+1)
		}
		first[0], last[d-1] = 0.5, -0.5
		grids = append(grids, grid{fmt.Sprintf("every-dimension/after-a-larger-one/dim%d", d), [][]float64{make([]float64, d), first, last, ramp}, []float64{0, 0.5}})
	}
	fixed := c21signs([]float64{0, 1e-17, 1e-9, 0.5, 1, 1e4, 1e300, 1e10})
	fixed = append(fixed, 9.2e9, 12345678.9, -87654321.0123)
	idx := 0
	var adjA, adjB []float64
	for _, g := range grids {
		scn := ctx.Scn("formula/"+g.name, "cases")
		for _, va := range g.vecs {
			for _, vb := range g.vecs {
				for _, ha := range g.heights {
					for _, hb := range g.heights {
						idx++
						if !ctx.Mine(idx) {
							continue
						}
						E := c21exactE(va, vb, ha, hb)
						raw := c21rawFloat(va, vb, ha, hb)
						same := ha == hb
						for i := range va {
							if va[i] != vb[i] {
								same = false
							}
						}
						adjA = append(append(adjA[:0], fixed...), -raw, -raw/2)
						ca := &coordinate.Coordinate{Vec: va, Error: 1.5, Height: ha}
						cb := &coordinate.Coordinate{Vec: vb, Error: 1.5, Height: hb}
						for _, aa := range adjA {
							t1 := -(raw + aa)
							t2 := -raw - aa
							adjB = append(append(adjB[:0], fixed...), t1, math.Nextafter(t1, math.Inf(1)), math.Nextafter(t1, math.Inf(-1)),
								math.Nextafter(math.Nextafter(t1, math.Inf(1)), math.Inf(1)), math.Nextafter(math.Nextafter(t1, math.Inf(-1)), math.Inf(-1)))
							if t2 != t1 {
								adjB = append(adjB, t2)
							}
							for _, ab := range adjB {
								cs := c21case{A: c21coord{va, ha, aa}, B: c21coord{vb, hb, ab}}
								ca.Adjustment, cb.Adjustment = aa, ab
								out, sig, msg := c21judgeOn(cs, E, ca, cb)
								if sig != "" {
									ctx.Violation(scn.Name, sig, msg, cs)
									out = sig
								}
								nt := (aa != 0 || ab != 0) && !(same && aa == ab)
								if nt && sig == "" && len(scn.Samples) < 2 && raw > 1 && aa == 0.5 && ab == -1 {
									ef, _ := E.Float64()
									scn.Sample(map[string]interface{}{"A": cs.A, "B": cs.B, "exact_distance_plus_heights_s": ef,
										"DistanceTo_A_B_ns": int64(ca.DistanceTo(cb)), "DistanceTo_B_A_ns": int64(cb.DistanceTo(ca)), "verdict": out})
								}
								scn.Case(out, nt)
							}
						}
					}
				}
			}
		}
	}

	// dimension mismatch
	mm := ctx.Scn("mismatch", "cases")
	dims := []int{0, 1, 2, 3, 7, 8, 9}
	fills := []float64{0, 1, -1e4}
	for _, da := range dims {
		for _, db := range dims {
			for _, f := range fills {
				idx++
				if !ctx.Mine(idx) {
					continue
				}
				mk := func(d int) *coordinate.Coordinate {
					v := make([]float64, d)
					for i := range v {
						v[i] = f
					}
					return &coordinate.Coordinate{Vec: v, Error: 1.5, Height: 1e-5}
				}
				a, b := mk(da), mk(db)
				var got interface{}
				var ret int64
				returned := false
				func() {
					defer func() { got = recover() }()
					ret = int64(a.DistanceTo(b))
					returned = true
				}()
				rep := map[string]interface{}{"dimA": da, "dimB": db, "fill": f}
				switch {
				case da == db:
					if !returned {
						ctx.Violation(mm.Name, "equal-dimension-rejected", fmt.Sprintf("DistanceTo on two %d-dimensional coordinates panicked: %v", da, got), rep)
					}
					mm.Case("equal dimension: compared", false)
				case returned:
					ctx.Violation(mm.Name, "dimension-mismatch-compared", fmt.Sprintf("DistanceTo on dimensions %d and %d returned %d ns instead of a dimensionality error", da, db, ret), rep)
					mm.Case("compared", true)
				default:
					if _, ok := got.(coordinate.DimensionalityConflictError); !ok {
						ctx.Violation(mm.Name, "dimension-mismatch-wrong-error", fmt.Sprintf("DistanceTo on dimensions %d and %d panicked with %T %v, not DimensionalityConflictError", da, db, got, got), rep)
						mm.Case("wrong error", true)
					} else {
						mm.Case("dimensionality error", true)
					}
				}
			}
		}
	}
	mm.Sample("dims 8 vs 7 -> panic(DimensionalityConflictError)")
}
