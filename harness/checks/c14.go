package checks

import (
	"encoding/json"
	"fmt"
	"net"
	"os"
	"runtime"
	"runtime/debug"
	"sort"
	"strconv"
	"strings"
	"time"

	"verifharness/vc"
	"verifharness/world"

	"github.com/hashicorp/memberlist"
	"github.com/hashicorp/serf/serf"
	"github.com/hashicorp/serf/zzverif/vos"
	"github.com/hashicorp/serf/zzverif/vsched"
)

// C14: A restarted node never re-delivers old user events or queries.
//
// A real Serf node (serf.Create over the inert memberlist, snapshot on vos)
// receives a history of user events and queries, is stopped (clean shutdown or
// crash at a quiescent point), and a second node is created from the directory
// image. Old and new messages are then injected through every entry point; the
// application's event channel must never show a user event / query whose
// Lamport time is at or below the newest one found in the snapshot file by an
// independent parser.

const c14path = "/snap/a.snapshot"

// c14op is one step before the restart.
type c14op struct {
	K  string `json:"k"` // U user event by gossip, P user event by push/pull, Q query, T +600ms
	LT uint64 `json:"lt,omitempty,string"`
}

func (o c14op) String() string {
	if o.K == "T" {
		return "T"
	}
	return fmt.Sprintf("%s(%d)", o.K, o.LT)
}

// c14parse is the independent reader of the snapshot file: the newest recorded
// user-event and query Lamport times (complete lines only; a leave resets).
func c14parse(file string) (ev, q uint64, hasEv, hasQ bool) {
	for {
		i := strings.IndexByte(file, '\n')
		if i < 0 {
			return
		}
		line := file[:i]
		file = file[i+1:]
		switch {
		case strings.HasPrefix(line, "event-clock: "):
			if v, err := strconv.ParseUint(line[len("event-clock: "):], 10, 64); err == nil {
				ev, hasEv = v, true
			}
		case strings.HasPrefix(line, "query-clock: "):
			if v, err := strconv.ParseUint(line[len("query-clock: "):], 10, 64); err == nil {
				q, hasQ = v, true
			}
		case line == "leave":
			ev, q, hasEv, hasQ = 0, 0, false, false
		}
	}
}

type c14delivery struct {
	Kind string // "user" / "query"
	LT   uint64
	Name string
}

func c14drain(n *world.Node) []c14delivery {
	var out []c14delivery
	for _, e := range n.DrainEvents() {
		switch t := e.(type) {
		case serf.UserEvent:
			out = append(out, c14delivery{"user", uint64(t.LTime), t.Name})
		case *serf.Query:
			out = append(out, c14delivery{"query", uint64(t.LTime), t.Name})
		}
	}
	return out
}

func c14userMsg(lt uint64, name string) []byte {
	return serf.VEncode(serf.VMsgUserEvent, &serf.VMessageUserEvent{LTime: serf.LamportTime(lt), Name: name, Payload: []byte("p")})
}

func c14queryMsg(lt uint64, id uint32, name string) []byte {
	return serf.VEncode(serf.VMsgQuery, &serf.VMessageQuery{LTime: serf.LamportTime(lt), ID: id, Addr: []byte{10, 0, 0, 9}, Port: 7946, SourceNode: "src", Timeout: time.Second, Name: name, Payload: []byte("p")})
}

func c14pushPull(lt uint64, name string) []byte {
	return serf.VEncode(serf.VMsgPushPull, &serf.VMessagePushPull{
		LTime: 1, StatusLTimes: map[string]serf.LamportTime{}, EventLTime: serf.LamportTime(lt + 1), QueryLTime: 1,
		Events: []*serf.VUserEvents{{LTime: serf.LamportTime(lt), Events: []serf.VUserEvent{{Name: name, Payload: []byte("p")}}}},
	})
}

func c14runErr(x *vsched.Exec, err string) string {
	if err != "" {
		return err
	}
	if len(x.Panics) > 0 {
		return "panic: " + x.Panics[0].Value + " at " + x.Panics[0].Frame
	}
	if x.CapHit {
		return "step cap hit"
	}
	if !x.RootDone {
		return fmt.Sprintf("stuck: %+v", x.Blocked)
	}
	return ""
}

// c14before runs the first incarnation and returns the directory image.
func c14before(ops []c14op, clean bool) (image map[string]string, delivered []c14delivery, errs string) {
	fs := vos.NewFS(nil)
	vos.Install(fs)
	defer vos.Install(nil)
	x := vsched.Run(vsched.RunOpts{MaxSteps: 1 << 20}, func() {
		n, err := world.NewNode("a", 0, func(c *serf.Config) { c.SnapshotPath = c14path })
		if err != nil {
			errs = "serf.Create: " + err.Error()
			return
		}
		vsched.Quiesce()
		for i, op := range ops {
			switch op.K {
			case "U":
				n.Delegate().NotifyMsg(c14userMsg(op.LT, fmt.Sprintf("u%d", i)))
			case "P":
				n.Delegate().MergeRemoteState(c14pushPull(op.LT, fmt.Sprintf("p%d", i)), false)
			case "Q":
				n.Delegate().NotifyMsg(c14queryMsg(op.LT, uint32(100+i), fmt.Sprintf("q%d", i)))
			case "T":
				vsched.Advance(int64(600 * time.Millisecond))
			}
			vsched.Quiesce()
		}
		delivered = c14drain(n)
		if clean {
			if err := n.S.Shutdown(); err != nil {
				errs = "Shutdown: " + err.Error()
			}
			vsched.Quiesce()
		}
		image = fs.Image()
	})
	return image, delivered, c14runErr(x, errs)
}

// c14inj is one message injected into the restarted node.
type c14inj struct {
	Kind string `json:"kind"` // user / query
	// Route: gossip (NotifyMsg), sync (MergeRemoteState, periodic), join
	// (MergeRemoteState, join), empty-join (a join state sync from a peer that has
	// seen no events: event clock 1, no events; LT unused), ignore-old-join (a
	// real Serf.Join(peer, ignoreOld=true) answered by a push/pull reply whose
	// serf state has event clock LT and the buffered events Buf)
	Route string `json:"route"`
	LT    uint64 `json:"lt,string"`
	// Buf: Lamport times (decimal) of the user events buffered in the reply of
	// an ignore-old-join.
	Buf []string `json:"buf,omitempty"`
}

func (j c14inj) String() string {
	if j.Route == "ignore-old-join" {
		return fmt.Sprintf("Join(ignoreOld=true) answered with event clock %d and buffered user events %v", j.LT, j.Buf)
	}
	return fmt.Sprintf("%s(%d) via %s", j.Kind, j.LT, j.Route)
}

// c14joinReply is the serf part of the peer's push/pull reply.
func c14joinReply(j c14inj, name string) []byte {
	pp := &serf.VMessagePushPull{LTime: 1, StatusLTimes: map[string]serf.LamportTime{}, EventLTime: serf.LamportTime(j.LT), QueryLTime: 1}
	for k, b := range j.Buf {
		lt, _ := strconv.ParseUint(b, 10, 64)
		pp.Events = append(pp.Events, &serf.VUserEvents{LTime: serf.LamportTime(lt), Events: []serf.VUserEvent{{Name: fmt.Sprintf("%sb%d", name, k), Payload: []byte("p")}}})
	}
	return serf.VEncode(serf.VMsgPushPull, pp)
}

// c14after creates the second incarnation from the image, injects the messages
// in order and returns what the application saw after each.
func c14after(image map[string]string, injs []c14inj) (got [][]c14delivery, minEv, minQ uint64, errs string) {
	fs := vos.NewFS(image)
	vos.Install(fs)
	defer vos.Install(nil)
	x := vsched.Run(vsched.RunOpts{MaxSteps: 1 << 20}, func() {
		n, err := world.NewNode("a", 0, func(c *serf.Config) { c.SnapshotPath = c14path })
		if err != nil {
			errs = "serf.Create: " + err.Error()
			return
		}
		vsched.Quiesce()
		if pre := c14drain(n); len(pre) > 0 {
			// nothing has been injected yet
			got = append(got, pre)
			errs = "delivery-before-injection"
			return
		}
		st := serf.VDump(n.S)
		minEv, minQ = st.EventMinTime, st.QueryMinTime
		for i, j := range injs {
			name := fmt.Sprintf("r%d", i)
			switch {
			case j.Route == "empty-join":
				n.Delegate().MergeRemoteState(serf.VEncode(serf.VMsgPushPull, &serf.VMessagePushPull{LTime: 1, StatusLTimes: map[string]serf.LamportTime{}, EventLTime: 1, QueryLTime: 1}), true)
			case j.Route == "ignore-old-join":
				reply := c14joinReply(j, name)
				n.Tr.Dial = func(memberlist.Address) (net.Conn, error) {
					return world.NewPushPullConn(func(req []byte) []byte {
						return world.EncodePushPull([]world.Peer{world.AlivePeer("b", 1, serf.VEncodeTags(n.S, nil))}, reply, false)
					}), nil
				}
				_, err := n.S.Join([]string{"b/10.0.0.2:7946"}, true)
				n.Tr.Dial = nil
				if err != nil {
					errs = "harness: Join failed: " + err.Error()
					return
				}
			case j.Kind == "user" && j.Route == "gossip":
				n.Delegate().NotifyMsg(c14userMsg(j.LT, name))
			case j.Kind == "user" && j.Route == "sync":
				n.Delegate().MergeRemoteState(c14pushPull(j.LT, name), false)
			case j.Kind == "user" && j.Route == "join":
				n.Delegate().MergeRemoteState(c14pushPull(j.LT, name), true)
			case j.Kind == "query":
				n.Delegate().NotifyMsg(c14queryMsg(j.LT, uint32(1000+i), name))
			}
			vsched.Quiesce()
			got = append(got, c14drain(n))
		}
	})
	return got, minEv, minQ, c14runErr(x, errs)
}

type c14replay struct {
	Check string   `json:"check"`
	Ops   []c14op  `json:"ops"`
	Clean bool     `json:"clean_shutdown"`
	Injs  []c14inj `json:"injections"`
	Tail  string   `json:"torn_tail,omitempty"` // bytes of an unfinished line at the end of the file (crash mid-write)
}

// c14withTail returns the image with an unterminated fragment appended to the snapshot file.
func c14withTail(image map[string]string, tail string) map[string]string {
	if tail == "" {
		return image
	}
	out := map[string]string{}
	for k, v := range image {
		out[k] = v
	}
	out[c14path] += tail
	return out
}

// c14maxSig classifies failures that need a recorded Lamport time of 2^64-1
// (the restart cut-off "recorded+1" is not representable).
const c14maxSig = "recorded-ltime-2^64-1: restart cut-off overflows"

func init() {
	vc.Register(&vc.Check{
		ID:    "C14",
		Level: "model_checking",
		Rule: "cases: every history of 0..N steps (N=3 quick, 4 thorough) before the restart over {user event by gossip with LTime 1,2,10,2^63; user event by push/pull with LTime 5; query with LTime 1,2,10,2^63; +600 ms} delivered to a real Serf node with a snapshot, x stop mode {clean Shutdown, crash at the quiescent point (directory image taken as is, buffered lines lost)}; the node re-created from the image then receives, oldest first, every Lamport time used before the restart plus {rec-1, rec, rec+1, rec+1000} for the recorded event clock and query clock (rec read from the image by an independent parser), user events through each of gossip (NotifyMsg), periodic state sync and join state sync (MergeRemoteState false/true), and gossip preceded by a join state sync from a peer that has seen no events; where the snapshot recorded a user-event time, additionally: a real Serf.Join(peer, ignoreOld=true) (what the automatic re-join after a restart uses) answered by an in-memory push/pull responder whose event clock is one of {0, 1, rec-1, rec, rec+1, rec+5} (all six for histories of <= 2 steps quick / <= 3 thorough, {0, rec-1} for the longest histories and in the fresh-node-per-message scenario) and whose reply buffers user events just below and at that clock and at rec, followed by every Lamport time by gossip and by state sync; queries through gossip; one case = one (history, stop mode, route) with all its injections in one restarted node (routes other than gossip only where the snapshot recorded a user-event time); thorough also runs every injection in a fresh restarted node. A separate small scenario uses LTime 2^64-1. " +
			"A case is non-trivial if the snapshot recorded a time >= 1 for the injected kind and at least one injected message is at or below it. Outcomes = (stop mode, route, which clocks were recorded, number of old / new messages injected, number delivered).",
		Assumptions: []string{
			"'recorded in the snapshot' = what an independent parser finds in the snapshot file of the directory image at the restart (complete lines, last event-clock / query-clock value); an image without such a line constrains nothing",
			"delivery = appearance on the application's EventCh of the restarted node (user-event coalescing off, the default)",
			"crash = the process disappears at a quiescent point; the image is the file content (what was written through the file handle), buffered lines are lost; crashes inside file operations are C11",
			"messages are injected at the memberlist delegate interface (NotifyMsg, MergeRemoteState); join replay with ignore-old off is MergeRemoteState(isJoin=true), with ignore-old on it is a real Serf.Join over the inert memberlist whose stream dial is answered by the harness",
			"no graceful leave before the restart",
		},
		Run: c14runCheck,
	})
}

func c14hist(alpha []c14op, maxLen int, f func(h []c14op) bool) {
	h := make([]c14op, 0, maxLen)
	var rec func() bool
	rec = func() bool {
		if !f(h) {
			return false
		}
		if len(h) == maxLen {
			return true
		}
		for _, o := range alpha {
			h = append(h, o)
			if !rec() {
				return false
			}
			h = h[:len(h)-1]
		}
		return true
	}
	rec()
}

// c14injections builds the injection list (ascending Lamport time) for a route.
func c14injections(ops []c14op, route string, ev, q uint64, hasEv, hasQ bool) []c14inj {
	evs, qs := map[uint64]bool{}, map[uint64]bool{}
	for _, op := range ops {
		switch op.K {
		case "U", "P":
			evs[op.LT] = true
		case "Q":
			qs[op.LT] = true
		}
	}
	around := func(m map[uint64]bool, rec uint64) {
		m[rec] = true
		if rec > 0 {
			m[rec-1] = true
		}
		if rec+1 > rec {
			m[rec+1] = true
		}
		if rec+1000 > rec {
			m[rec+1000] = true
		}
	}
	if hasEv {
		around(evs, ev)
	}
	if hasQ {
		around(qs, q)
	}
	evs[1], qs[1] = true, true
	var out []c14inj
	for lt := range evs {
		out = append(out, c14inj{Kind: "user", Route: route, LT: lt})
	}
	if route == "gossip" {
		for lt := range qs {
			out = append(out, c14inj{Kind: "query", Route: route, LT: lt})
		}
	}
	sort.Slice(out, func(i, j int) bool {
		if out[i].LT != out[j].LT {
			return out[i].LT < out[j].LT
		}
		return out[i].Kind < out[j].Kind
	})
	return out
}

// c14tail is the torn tail of the case being run (recorded in replay artefacts).
var c14tail string

// c14tornTails: the node died while the buffered writer was handing the OS a chunk that ends inside
// the next clock line. Every proper prefix of a next "event-clock" / "query-clock" line whose decimal
// prefixes are smaller than the recorded value (1 followed by the recorded digits).
func c14tornTails(ev, q uint64, hasEv, hasQ bool) []string {
	var out []string
	add := func(key string, rec uint64) {
		line := fmt.Sprintf("%s: 1%d", key, rec)
		for i := 1; i < len(line); i++ {
			out = append(out, line[:i])
		}
	}
	if hasEv && ev >= 1 && ev < 1<<60 {
		add("event-clock", ev)
	}
	if hasQ && q >= 1 && q < 1<<60 {
		add("query-clock", q)
	}
	return out
}

func c14runCheck(ctx *vc.Ctx) {
	debug.SetGCPercent(800)
	runtime.GOMAXPROCS(1) // the controlled scheduler runs one thread at a time
	if ctx.Replay != nil {
		var rp c14replay
		if json.Unmarshal(ctx.Replay, &rp) != nil || rp.Check != "C14" {
			return
		}
		scn := ctx.Scn("replay", "cases")
		image, _, errs := c14before(rp.Ops, rp.Clean)
		if errs != "" {
			fmt.Println("replay: first incarnation:", errs)
			return
		}
		c14tail = rp.Tail
		out := c14case(ctx, scn, rp.Ops, rp.Clean, c14withTail(image, rp.Tail), rp.Injs, true)
		fmt.Printf("replay outcome=%s\n", out)
		return
	}
	alpha := []c14op{{"U", 1}, {"U", 2}, {"U", 10}, {"U", 1 << 63}, {"P", 5}, {"Q", 1}, {"Q", 2}, {"Q", 10}, {"Q", 1 << 63}, {"T", 0}}
	maxLen := 3
	if ctx.Thorough() {
		maxLen = 4
	}
	type scnT struct {
		name   string
		alpha  []c14op
		maxLen int
		fresh  bool
		torn   bool
	}
	scns := []scnT{{fmt.Sprintf("restart/hist<=%d", maxLen), alpha, maxLen, false, false}}
	if ctx.Thorough() {
		scns = append(scns, scnT{"restart/hist<=3/fresh-node-per-message", alpha, 3, true, false})
	}
	const max64 = ^uint64(0)
	tornLen := 2
	if ctx.Thorough() {
		tornLen = 3
	}
	scns = append(scns, scnT{fmt.Sprintf("restart/torn-tail/hist<=%d", tornLen), []c14op{{"U", 2}, {"U", 10}, {"P", 5}, {"Q", 2}, {"Q", 10}, {"T", 0}}, tornLen, false, true})
	scns = append(scns, scnT{"restart/hist<=3/ltime-2^64-1", []c14op{{"U", 2}, {"U", max64}, {"Q", 2}, {"Q", max64}, {"P", max64}, {"T", 0}}, 3, false, false})
	idx, mine := 0, 0
	stop := false
	only := os.Getenv("VERIF_ONLY")
	for _, sc := range scns {
		if only != "" && !strings.Contains(sc.name, only) {
			continue
		}
		scn := ctx.Scn(sc.name, "cases")
		if stop {
			scn.Exhaustive = false
			scn.StopReason = "time budget"
			continue
		}
		c14hist(sc.alpha, sc.maxLen, func(h []c14op) bool {
			for _, clean := range []bool{true, false} {
				if sc.torn && clean {
					continue
				}
				idx++
				if !ctx.Mine(idx) {
					continue
				}
				mine++
				if mine%64 == 0 && time.Now().After(ctx.Deadline) {
					stop = true
					return false
				}
				ops := append([]c14op{}, h...)
				image, _, errs := c14before(ops, clean)
				if errs != "" {
					ctx.Violation(scn.Name, "node-failed-before-restart", fmt.Sprintf("history %v clean=%v: %s", ops, clean, errs), c14replay{Check: "C14", Ops: ops, Clean: clean})
					scn.Case("FAILED", false)
					continue
				}
				ev, q, hasEv, hasQ := c14parse(image[c14path])
				if sc.torn {
					// the same crash, but the file ends in an unfinished line: what the
					// snapshot "recorded" is what its complete lines say
					for _, tail := range c14tornTails(ev, q, hasEv, hasQ) {
						c14tail = tail
						c14runInjs(ctx, scn, ops, clean, c14withTail(image, tail), c14injections(ops, "gossip", ev, q, hasEv, hasQ), false)
					}
					c14tail = ""
					continue
				}
				for _, route := range []string{"gossip", "sync", "join", "gossip-after-empty-join"} {
					// the routes that carry only user events constrain nothing when
					// the snapshot recorded no user-event time
					if route != "gossip" && !(hasEv && ev >= 1) {
						continue
					}
					injs := c14injections(ops, strings.TrimSuffix(route, "-after-empty-join"), ev, q, hasEv, hasQ)
					if route == "gossip-after-empty-join" {
						injs = append([]c14inj{{Kind: "sync", Route: "empty-join"}}, injs...)
					}
					c14runInjs(ctx, scn, ops, clean, image, injs, sc.fresh)
				}
				// a real ignore-old join first (what the automatic re-join after a
				// restart does), against a peer whose event clock is behind / at /
				// ahead of the snapshot, then every Lamport time by gossip and by
				// state sync. Only where the snapshot constrains user events.
				if hasEv && ev >= 1 {
					fullJoins := 2 // longest history that gets all six peer clocks
					if ctx.Thorough() {
						fullJoins = 3
					}
					for _, join := range c14joins(ev) {
						// {0, rec-1} only for the longest histories and in the fresh-node-per-message scenario
						if (len(ops) > fullJoins || sc.fresh) && join.LT != 0 && join.LT != ev-1 {
							continue
						}
						injs := []c14inj{join}
						for _, j := range c14injections(ops, "gossip", ev, q, hasEv, false) {
							if j.Kind == "user" {
								injs = append(injs, j, c14inj{Kind: "user", Route: "sync", LT: j.LT})
							}
						}
						c14runInjs(ctx, scn, ops, clean, image, injs, sc.fresh)
					}
				}
			}
			return true
		})
		if stop {
			scn.Exhaustive = false
			scn.StopReason = "time budget"
		}
		if ctx.Shard == 0 && !strings.HasPrefix(sc.name, "restart/torn") {
			scn.Sample("before: [U(2) T U(10) Q(2)] clean shutdown -> file records event-clock 10, query-clock 2; after restart user(1,2,9,10) and query(1,2) must not be delivered by any route; user(11), user(1010), query(3) may")
		}
	}
}

// c14joins lists the ignore-old joins tried for a recorded event clock: the
// peer's event clock from {0, 1, rec-1, rec, rec+1, rec+5}, its reply buffering
// user events just below and at its clock and at the recorded time.
func c14joins(rec uint64) []c14inj {
	var out []c14inj
	seen := map[uint64]bool{}
	add := func(elt uint64) {
		if seen[elt] {
			return
		}
		seen[elt] = true
		bufSeen := map[uint64]bool{}
		var buf []string
		for _, b := range []uint64{elt - 1, elt, rec} {
			if (b == elt-1 && elt == 0) || bufSeen[b] {
				continue
			}
			bufSeen[b] = true
			buf = append(buf, strconv.FormatUint(b, 10))
		}
		out = append(out, c14inj{Kind: "join", Route: "ignore-old-join", LT: elt, Buf: buf})
	}
	add(0)
	add(1)
	add(rec - 1)
	add(rec)
	if rec+1 > rec {
		add(rec + 1)
	}
	if rec+5 > rec {
		add(rec + 5)
	}
	return out
}

// c14runInjs runs the injections in one restarted node, or (fresh) each message
// in its own restarted node after the leading join, if any.
func c14runInjs(ctx *vc.Ctx, scn *vc.Scenario, ops []c14op, clean bool, image map[string]string, injs []c14inj, fresh bool) {
	if !fresh {
		c14case(ctx, scn, ops, clean, image, injs, true)
		return
	}
	var lead []c14inj
	if len(injs) > 0 && (injs[0].Route == "empty-join" || injs[0].Route == "ignore-old-join") {
		lead = injs[:1]
		injs = injs[1:]
	}
	for _, j := range injs {
		c14case(ctx, scn, ops, clean, image, append(append([]c14inj{}, lead...), j), true)
	}
}

// c14case runs one restarted node with the given injections and applies the oracle.
func c14case(ctx *vc.Ctx, scn *vc.Scenario, ops []c14op, clean bool, image map[string]string, injs []c14inj, count bool) string {
	file := image[c14path]
	ev, q, hasEv, hasQ := c14parse(file)
	rp := c14replay{Check: "C14", Ops: ops, Clean: clean, Injs: injs, Tail: c14tail}
	got, minEv, minQ, errs := c14after(image, injs)
	mode := "crash"
	if clean {
		mode = "clean shutdown"
	}
	desc := fmt.Sprintf("before the restart %v, %s; snapshot file %q => recorded event clock %d (present=%v), query clock %d (present=%v); restarted node has eventMinTime=%d queryMinTime=%d", ops, mode, file, ev, hasEv, q, hasQ, minEv, minQ)
	isMax := (hasEv && ev == ^uint64(0)) || (hasQ && q == ^uint64(0))
	cls := func(s string) string {
		if isMax {
			return c14maxSig
		}
		return s
	}
	if errs != "" {
		ctx.Violation(scn.Name, cls("restarted-node-failed"), desc+": "+errs, rp)
		if count {
			scn.Case("FAILED", false)
		}
		return "FAILED"
	}
	route := ""
	if len(injs) > 0 {
		route = injs[0].Route
		if route == "empty-join" {
			route = "gossip-after-empty-join"
		}
		if route == "ignore-old-join" {
			switch {
			case injs[0].LT <= ev:
				route = "after-ignore-old-join/peer-clock-behind"
			case injs[0].LT == ev+1:
				route = "after-ignore-old-join/peer-clock-level"
			default:
				route = "after-ignore-old-join/peer-clock-ahead"
			}
		}
	}
	old, fresh, deliveredN := 0, 0, 0
	bad := false
	for i, j := range injs {
		isOld := (j.Kind == "user" && hasEv && ev >= 1 && j.LT <= ev) || (j.Kind == "query" && hasQ && q >= 1 && j.LT <= q)
		if isOld {
			old++
		} else if j.Route != "empty-join" && j.Route != "ignore-old-join" {
			fresh++
		}
		for _, d := range got[i] {
			deliveredN++
			if d.Kind == "user" && hasEv && ev >= 1 && d.LT <= ev {
				ctx.Violation(scn.Name, cls("old-user-event-delivered-after-restart via "+route), fmt.Sprintf("%s; injecting %v (after %v) delivered user event LTime=%d name=%s, which is <= the recorded %d", desc, j, injs[:i], d.LT, d.Name, ev), rp)
				bad = true
			}
			if d.Kind == "query" && hasQ && q >= 1 && d.LT <= q {
				ctx.Violation(scn.Name, cls("old-query-delivered-after-restart"), fmt.Sprintf("%s; injecting %v (after %v) delivered query LTime=%d name=%s, which is <= the recorded %d", desc, j, injs[:i], d.LT, d.Name, q), rp)
				bad = true
			}
		}
	}
	rec := ""
	if hasEv && ev >= 1 {
		rec += "E"
	}
	if hasQ && q >= 1 {
		rec += "Q"
	}
	out := fmt.Sprintf("%s route=%s recorded=%s old=%d new=%d delivered=%d", mode, route, rec, old, fresh, deliveredN)
	if bad {
		out = "REDELIVERED"
	}
	if count {
		scn.Case(out, old > 0)
		scn.Transitions += len(ops) + len(injs)
		scn.AddState(fmt.Sprintf("%s|%s|%s|%d|%d|%d", mode, route, rec, old, fresh, deliveredN))
	}
	return out
}
