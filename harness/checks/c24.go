package checks

import (
	"encoding/hex"
	"bytes"
	"encoding/base64"
	"encoding/json"
	"fmt"
	"io"
	"net"
	"reflect"
	"sort"
	"strings"
	"time"

	"verifharness/vc"
	"verifharness/world"

	"github.com/hashicorp/go-msgpack/v2/codec"
	"github.com/hashicorp/memberlist"
	"github.com/hashicorp/serf/cmd/serf/command/agent"
	"github.com/hashicorp/serf/serf"
	"github.com/hashicorp/serf/zzverif/vsched"
)

// C24: RPC commands take effect only after handshake and authentication.
// C25SEQ (part of C25, same runs): every reply header carries the Seq of a request
// already sent on that connection (or of a stream opened by such a request).
//
// System: a real agent.Agent over the inert memberlist of package world, a real
// agent.AgentIPC on an in-memory listener. The harness root thread is the client:
// it writes msgpack requests into the connection, lets the agent run to quiescence
// (virtual time), and decodes everything the agent wrote back.

// ---------------------------------------------------------------------------
// in-memory net.Listener / net.Conn that never block for real

type c24addr string

func (a c24addr) Network() string { return "mem" }
func (a c24addr) String() string  { return string(a) }

type c24conn struct {
	name   string
	in     []byte // client -> server, not yet read
	eof    bool   // client closed its write side
	closed bool   // server closed the connection
	out    []byte // server -> client
}

func (c *c24conn) Read(p []byte) (int, error) {
	for {
		if c.closed {
			return 0, net.ErrClosed
		}
		if len(c.in) > 0 {
			n := copy(p, c.in)
			c.in = c.in[n:]
			return n, nil
		}
		if c.eof || vsched.Killing() || !vsched.InRun() {
			return 0, io.EOF
		}
		vsched.Point(vsched.KIO, "conn.read", func() bool { return c.closed || len(c.in) > 0 || c.eof })
	}
}

func (c *c24conn) Write(p []byte) (int, error) {
	if c.closed {
		return 0, net.ErrClosed
	}
	c.out = append(c.out, p...)
	return len(p), nil
}

func (c *c24conn) Close() error                       { c.closed = true; return nil }
func (c *c24conn) LocalAddr() net.Addr                { return c24addr("agent") }
func (c *c24conn) RemoteAddr() net.Addr               { return c24addr(c.name) }
func (c *c24conn) SetDeadline(t time.Time) error      { return nil }
func (c *c24conn) SetReadDeadline(t time.Time) error  { return nil }
func (c *c24conn) SetWriteDeadline(t time.Time) error { return nil }

type c24listener struct {
	pending []*c24conn
	closed  bool
}

func (l *c24listener) Accept() (net.Conn, error) {
	for {
		if l.closed || vsched.Killing() || !vsched.InRun() {
			return nil, net.ErrClosed
		}
		if len(l.pending) > 0 {
			c := l.pending[0]
			l.pending = l.pending[1:]
			return c, nil
		}
		vsched.Point(vsched.KIO, "accept", func() bool { return l.closed || len(l.pending) > 0 })
	}
}

func (l *c24listener) Close() error   { l.closed = true; return nil }
func (l *c24listener) Addr() net.Addr { return c24addr("agent") }

// ---------------------------------------------------------------------------
// wire structs (field names as in client/const.go and agent/ipc.go)

type c24reqHeader struct {
	Command string
	Seq     uint64
}
type c24handshakeReq struct{ Version int32 }
type c24authReq struct{ AuthKey string }
type c24coordReq struct{ Node string }
type c24eventReq struct {
	Name     string
	Payload  []byte
	Coalesce bool
}
type c24forceLeaveReq struct {
	Node  string
	Prune bool
}
type c24joinReq struct {
	Existing []string
	Replay   bool
}
type c24membersFilteredReq struct {
	Tags   map[string]string
	Status string
	Name   string
}
type c24keyReq struct{ Key string }
type c24monitorReq struct{ LogLevel string }
type c24streamReq struct{ Type string }
type c24stopReq struct{ Stop uint64 }
type c24tagsReq struct {
	Tags       map[string]string
	DeleteTags []string
}
type c24queryReq struct {
	FilterNodes []string
	FilterTags  map[string]string
	RequestAck  bool
	RelayFactor uint8
	Timeout     time.Duration
	Name        string
	Payload     []byte
}
type c24respondReq struct {
	ID      uint64
	Payload []byte
}

func c24handle() *codec.MsgpackHandle {
	h := &codec.MsgpackHandle{WriteExt: true}
	h.TimeNotBuiltin = true
	h.MapType = reflect.TypeOf(map[string]interface{}{})
	return h
}

// ---------------------------------------------------------------------------
// command alphabet

type c24cmd struct {
	label   string
	command string
	body    func(i int) interface{} // nil: the command has no body
	raw     []byte                  // explicit body bytes (malformed body)

	isHs     bool
	version  int32
	isAuth   bool
	key      string
	terminal bool   // the server may stop reading the connection after this request
	lastOnly bool   // enumerated only as the last request of a script
	effect   string // kind of attributable effect ("" = none)
	data     string // key that identifies the response body the command returns ("" = none)
	stream   string // key that identifies the records of the stream it opens ("" = none)
	clock    string // serf clock the command may advance: "event", "query", "intent"
}

const (
	c24authKey  = "k"
	c24wrongKey = "x"
)

func c24keyFor(i int) string {
	b := make([]byte, 16)
	for j := range b {
		b[j] = byte(0xA0 + i)
	}
	return base64.StdEncoding.EncodeToString(b)
}

func c24joinAddr(i int) string { return fmt.Sprintf("10.9.0.%d:7946", i+1) }

var c24alphabet = []c24cmd{
	{label: "hs", command: "handshake", isHs: true, version: 1, body: func(i int) interface{} { return &c24handshakeReq{Version: 1} }},
	{label: "hs-v2", command: "handshake", isHs: true, version: 2, body: func(i int) interface{} { return &c24handshakeReq{Version: 2} }},
	{label: "auth-ok", command: "auth", isAuth: true, key: c24authKey, body: func(i int) interface{} { return &c24authReq{AuthKey: c24authKey} }},
	{label: "auth-bad", command: "auth", isAuth: true, key: c24wrongKey, body: func(i int) interface{} { return &c24authReq{AuthKey: c24wrongKey} }},
	{label: "event", command: "event", effect: "event", clock: "event", body: func(i int) interface{} {
		return &c24eventReq{Name: fmt.Sprintf("ev%d", i), Payload: []byte("p")}
	}},
	{label: "tags", command: "tags", effect: "tags", body: func(i int) interface{} {
		return &c24tagsReq{Tags: map[string]string{fmt.Sprintf("t%d", i): "v"}}
	}},
	{label: "join", command: "join", effect: "join", data: "Num", body: func(i int) interface{} {
		return &c24joinReq{Existing: []string{c24joinAddr(i)}}
	}},
	{label: "force-leave", command: "force-leave", effect: "force-leave", clock: "intent", body: func(i int) interface{} {
		return &c24forceLeaveReq{Node: fmt.Sprintf("fl%d", i)}
	}},
	{label: "members", command: "members", data: "Members"},
	{label: "members-filtered", command: "members-filtered", data: "Members", body: func(i int) interface{} {
		return &c24membersFilteredReq{Status: "alive", Name: ".*"}
	}},
	{label: "stats", command: "stats", data: "runtime"},
	{label: "stream", command: "stream", stream: "Event", body: func(i int) interface{} { return &c24streamReq{Type: "*"} }},
	{label: "monitor", command: "monitor", stream: "Log", body: func(i int) interface{} { return &c24monitorReq{LogLevel: "debug"} }},
	{label: "query", command: "query", effect: "query", clock: "query", stream: "Type", body: func(i int) interface{} {
		return &c24queryReq{Name: fmt.Sprintf("q%d", i), Payload: []byte("p"), Timeout: c24queryTimeout}
	}},
	{label: "respond", command: "respond", body: func(i int) interface{} { return &c24respondReq{ID: 1, Payload: []byte("r")} }},
	{label: "install-key", command: "install-key", effect: "install-key", clock: "query", data: "NumNodes", body: func(i int) interface{} {
		return &c24keyReq{Key: c24keyFor(i)}
	}},
	{label: "list-keys", command: "list-keys", clock: "query", data: "NumNodes"},
	{label: "get-coordinate", command: "get-coordinate", data: "Coord", body: func(i int) interface{} { return &c24coordReq{Node: "a"} }},
	{label: "leave", command: "leave", effect: "leave", clock: "intent", terminal: true, lastOnly: true},
	{label: "malformed", command: "event", terminal: true, raw: []byte{0x07}}, // body is the integer 7 instead of a map
	{label: "unknown", command: "bogus", terminal: true},
}

// additional letters used by the extended scenarios
var c24extra = []c24cmd{
	{label: "hs-v0", command: "handshake", isHs: true, version: 0, body: func(i int) interface{} { return &c24handshakeReq{Version: 0} }},
	{label: "hs-v-1", command: "handshake", isHs: true, version: -1, body: func(i int) interface{} { return &c24handshakeReq{Version: -1} }},
	{label: "auth-empty", command: "auth", isAuth: true, key: "", body: func(i int) interface{} { return &c24authReq{AuthKey: ""} }},
	{label: "auth-nokey", command: "auth", isAuth: true, key: "", raw: []byte{0x80}}, // body = empty map: no AuthKey field at all
	{label: "auth-prefix", command: "auth", isAuth: true, key: "kk", body: func(i int) interface{} { return &c24authReq{AuthKey: "kk"} }},
	{label: "stop", command: "stop", body: func(i int) interface{} { return &c24stopReq{Stop: 11} }},
	{label: "use-key", command: "use-key", clock: "query", data: "NumNodes", body: func(i int) interface{} { return &c24keyReq{Key: c24keyFor(i)} }},
	{label: "remove-key", command: "remove-key", effect: "remove-key", clock: "query", data: "NumNodes", body: func(i int) interface{} {
		return &c24keyReq{Key: c24key1b64}
	}},
	{label: "force-leave-prune", command: "force-leave", effect: "force-leave", clock: "intent", body: func(i int) interface{} {
		return &c24forceLeaveReq{Node: fmt.Sprintf("fl%d", i), Prune: true}
	}},
	{label: "members-bad-regex", command: "members-filtered", terminal: true, data: "Members", body: func(i int) interface{} {
		return &c24membersFilteredReq{Name: "("}
	}},
	{label: "malformed-auth", command: "auth", isAuth: true, key: "\x00never", terminal: true, raw: []byte{0xc0}}, // body nil
	{label: "malformed-hs", command: "handshake", isHs: true, version: -99, terminal: true, raw: []byte{0xa1, 'x'}},
}

var (
	c24key0    = []byte("0123456789abcdef")
	c24key1    = []byte("fedcba9876543210")
	c24key1b64 = base64.StdEncoding.EncodeToString(c24key1) // a non-primary key that is installed at start (removable)
)

func c24find(label string) *c24cmd {
	for i := range c24alphabet {
		if c24alphabet[i].label == label {
			return &c24alphabet[i]
		}
	}
	for i := range c24extra {
		if c24extra[i].label == label {
			return &c24extra[i]
		}
	}
	// "auth:<hex>": an auth request presenting the key with these bytes (long / structured keys)
	if strings.HasPrefix(label, "auth:") {
		if c, ok := c24dyn[label]; ok {
			return c
		}
		b, err := hex.DecodeString(label[5:])
		if err != nil {
			return nil
		}
		key := string(b)
		c := &c24cmd{label: label, command: "auth", isAuth: true, key: key, body: func(i int) interface{} { return &c24authReq{AuthKey: key} }}
		c24dyn[label] = c
		return c
	}
	return nil
}

var c24dyn = map[string]*c24cmd{}

// c24keyVariants: what may be presented instead of the configured key: the key itself, one byte
// changed at every position class (first, last, around byte 64), truncations and extensions.
func c24keyVariants(key string) []string {
	out := []string{key, "", key + "x", key + key}
	flip := func(i int) {
		if i >= 0 && i < len(key) {
			b := []byte(key)
			b[i] ^= 0x01
			out = append(out, string(b))
		}
	}
	for _, i := range []int{0, 1, len(key) / 2, 31, 32, 62, 63, 64, 65, len(key) - 2, len(key) - 1} {
		flip(i)
	}
	for _, n := range []int{1, 32, 63, 64, 65, len(key) - 1} {
		if n > 0 && n < len(key) {
			out = append(out, key[:n])
		}
	}
	seen := map[string]bool{}
	var uniq []string
	for _, v := range out {
		if !seen[v] {
			seen[v] = true
			uniq = append(uniq, v)
		}
	}
	return uniq
}

// c24authKeys: configured keys of several lengths and every variant of each presented after a
// handshake, followed by two commands that must stay gated unless the key was the right one.
func (k *c24sink) authKeys() {
	ctx := k.ctx
	scn := ctx.Scn("auth-keys", "cases")
	mk := func(n int) string {
		b := make([]byte, n)
		for i := range b {
			b[i] = byte('a' + i%23)
		}
		return string(b)
	}
	for _, key := range []string{"k", mk(16), mk(63), mk(64), mk(65), mk(96), mk(200), "k\x00k", "\xff\xfe"} {
		for _, pres := range c24keyVariants(key) {
			k.idx++
			if !ctx.Mine(k.idx) {
				continue
			}
			cs := &c24case{Scenario: scn.Name, AuthKey: key, Script: []string{"hs", "auth:" + hex.EncodeToString([]byte(pres)), "stats", "tags", "members"}}
			k.runCase(scn, cs)
		}
	}
}

func c24seq(i int) uint64 { return uint64(11 * (i + 1)) }

func c24encodeReq(c *c24cmd, i int, seq uint64) []byte {
	var buf bytes.Buffer
	enc := codec.NewEncoder(&buf, c24handle())
	if err := enc.Encode(&c24reqHeader{Command: c.command, Seq: seq}); err != nil {
		panic(err)
	}
	if c.raw != nil {
		buf.Write(c.raw)
	} else if c.body != nil {
		if err := enc.Encode(c.body(i)); err != nil {
			panic(err)
		}
	}
	return buf.Bytes()
}

// ---------------------------------------------------------------------------
// reference model of the connection state machine

type c24verdict struct {
	gateRej   bool   // must be rejected (and have no effect, return no data)
	gate      string // "handshake" or "auth" (which gate rejects it)
	mayUnread bool   // an earlier request allows the server to have stopped reading (terminal request or any rejection)
	repeat    bool   // an earlier request makes the real agent stop reading: the case repeats a shorter script
	hsOK      bool   // this request is a successful handshake
	authOK    bool   // this request is a successful authentication
}

func c24model(authKey string, script []*c24cmd) []c24verdict {
	out := make([]c24verdict, len(script))
	hs, au, closedMaybe, stops := false, false, false, false
	for i, c := range script {
		v := &out[i]
		v.mayUnread = closedMaybe
		v.repeat = stops
		switch {
		case c.isHs:
			if !hs && c.version >= agent.MinIPCVersion && c.version <= agent.MaxIPCVersion && c.raw == nil {
				hs = true
				v.hsOK = true
			}
		case !hs:
			v.gateRej, v.gate = true, "handshake"
			closedMaybe = true
			stops = true // the agent drops a client that speaks before the handshake
		case c.isAuth:
			if c.key == authKey && c.raw == nil {
				if !au {
					v.authOK = true
				}
				au = true
			}
		case authKey != "" && !au:
			v.gateRej, v.gate = true, "auth"
			closedMaybe = true // dropping the client after the error reply would be legitimate as well
		}
		if c.terminal {
			closedMaybe = true
			stops = true
		}
	}
	return out
}

// ---------------------------------------------------------------------------
// one execution

type c24entry struct {
	Seq    uint64
	Error  string
	Bodies []map[string]interface{}
	Other  []interface{} // non-map values following the header
	Step   int           // number of requests that had been sent when the entry was written (1-based chunk)
}

type c24handler struct {
	user, query []string
}

func (h *c24handler) HandleEvent(e serf.Event) {
	switch t := e.(type) {
	case serf.UserEvent:
		h.user = append(h.user, t.Name)
	case *serf.Query:
		h.query = append(h.query, t.Name)
	}
}

type c24result struct {
	x        *vsched.Exec
	err      string
	entries  []c24entry // connection under test
	garbled  string
	pre      []c24entry // the other (authenticated) connection, if any
	user     []string
	query    []string
	tags     []string
	dials    []string
	intents  []string
	keys     []string
	state    string
	dEvent   int64
	dQuery   int64
	dClock   int64
	probed   bool
	sentUpTo []int // per chunk: number of requests sent after the chunk
}

type c24case struct {
	Scenario string   `json:"scenario"`
	AuthKey  string   `json:"authKey"`
	Script   []string `json:"script"`
	Stepwise bool     `json:"stepwise"`
	Pre      []string `json:"pre,omitempty"`
}

// The user query outlives the run: when a query reaches its deadline while the
// connection is open, queryResponseStream.Stream spins on the closed response channels
// until its own timer fires (that belongs to C25's query-stream part); in virtual time
// that spin never ends. Internal key queries use the default 1.6 s timeout.
const c24queryTimeout = time.Hour

const c24stepTime = int64(2 * time.Second) // > default query timeout (1.6 s): key commands and queries complete

func c24decodeSegment(seg []byte, step int, into *[]c24entry) string {
	if len(seg) == 0 {
		return ""
	}
	dec := codec.NewDecoderBytes(seg, c24handle())
	for {
		var v interface{}
		if err := dec.Decode(&v); err != nil {
			if err == io.EOF {
				break
			}
			return fmt.Sprintf("reply stream cannot be decoded after %d entries: %v", len(*into), err)
		}
		m, isMap := v.(map[string]interface{})
		if isMap && len(m) == 2 {
			_, hasSeq := m["Seq"]
			_, hasErr := m["Error"]
			if hasSeq && hasErr {
				e := c24entry{Step: step}
				switch s := m["Seq"].(type) {
				case uint64:
					e.Seq = s
				case int64:
					e.Seq = uint64(s)
				default:
					return fmt.Sprintf("header with non-integer Seq %T", m["Seq"])
				}
				e.Error, _ = m["Error"].(string)
				*into = append(*into, e)
				continue
			}
		}
		if len(*into) == 0 || (*into)[len(*into)-1].Step != step {
			return fmt.Sprintf("a body (%v) was written without a preceding reply header", v)
		}
		last := &(*into)[len(*into)-1]
		if isMap {
			last.Bodies = append(last.Bodies, m)
		} else {
			last.Other = append(last.Other, v)
		}
	}
	return ""
}

func c24exec(cs *c24case) *c24result {
	res := &c24result{}
	script := make([]*c24cmd, len(cs.Script))
	for i, l := range cs.Script {
		script[i] = c24find(l)
		if script[i] == nil {
			res.err = "unknown letter " + l
			return res
		}
	}
	res.x = vsched.Run(vsched.RunOpts{MaxSteps: 2000000}, func() {
		vsched.Branching(false)
		tr := world.NewTransport()
		conf := world.NewConfig("a", 0, tr, nil)
		kr, err := memberlist.NewKeyring([][]byte{c24key1}, c24key0)
		if err != nil {
			res.err = err.Error()
			return
		}
		conf.MemberlistConfig.Keyring = kr
		lw := agent.NewLogWriter(64)
		a, err := agent.Create(agent.DefaultConfig(), conf, io.Discard)
		if err != nil {
			res.err = err.Error()
			return
		}
		h := &c24handler{}
		a.RegisterEventHandler(h)
		if err := a.Start(); err != nil {
			res.err = err.Error()
			return
		}
		lis := &c24listener{}
		ipc := agent.NewAgentIPC(a, cs.AuthKey, lis, lw, lw, false)
		vsched.Quiesce()
		base := serf.VDump(a.Serf())

		// optional other connection that authenticates properly and stays open
		var other *c24conn
		if len(cs.Pre) > 0 {
			other = &c24conn{name: "client-a"}
			lis.pending = append(lis.pending, other)
			for i, l := range cs.Pre {
				other.in = append(other.in, c24encodeReq(c24find(l), 100+i, uint64(901+i))...)
			}
			vsched.Advance(c24stepTime)
		}

		conn := &c24conn{name: "client-b"}
		lis.pending = append(lis.pending, conn)
		mark := 0
		flush := func(step int) {
			if res.garbled == "" {
				res.garbled = c24decodeSegment(conn.out[mark:], step, &res.entries)
			}
			mark = len(conn.out)
		}
		if cs.Stepwise {
			for i, c := range script {
				conn.in = append(conn.in, c24encodeReq(c, i, c24seq(i))...)
				vsched.Advance(c24stepTime)
				flush(i + 1)
			}
		} else {
			for i, c := range script {
				conn.in = append(conn.in, c24encodeReq(c, i, c24seq(i))...)
			}
			vsched.Advance(c24stepTime * int64(len(script)+1))
			flush(len(script))
		}
		// probes: anything that was registered on the connection now produces records
		if a.Serf().State() == serf.SerfAlive {
			res.probed = true
			a.UserEvent("zzprobe", nil, false)
			lw.Write([]byte("2020/01/01 00:00:00 [INFO] zzprobe\n"))
			vsched.Advance(int64(100 * time.Millisecond))
			flush(len(script))
		}
		conn.eof = true
		vsched.Advance(c24stepTime)
		flush(len(script))
		if other != nil {
			c24decodeSegment(other.out, 0, &res.pre)
		}

		// observations
		for _, n := range h.user {
			if n != "zzprobe" {
				res.user = append(res.user, n)
			}
		}
		res.query = h.query
		for k := range a.SerfConfig().Tags {
			res.tags = append(res.tags, k)
		}
		sort.Strings(res.tags)
		res.dials = append(res.dials, tr.Dials...)
		st := serf.VDump(a.Serf())
		for _, in := range st.Intents {
			res.intents = append(res.intents, in.Node)
		}
		for _, m := range st.Members {
			if m.Name != "a" {
				res.intents = append(res.intents, m.Name)
			}
		}
		for _, k := range kr.GetKeys() {
			res.keys = append(res.keys, base64.StdEncoding.EncodeToString(k))
		}
		sort.Strings(res.keys)
		res.state = a.Serf().State().String()
		res.dEvent = int64(st.EventClock) - int64(base.EventClock)
		res.dQuery = int64(st.QueryClock) - int64(base.QueryClock)
		res.dClock = int64(st.Clock) - int64(base.Clock)

		ipc.Shutdown()
		a.Shutdown()
		vsched.Quiesce()
	})
	return res
}

// ---------------------------------------------------------------------------
// oracle

type c24finding struct{ sig, msg string }

func c24indexOf(prefix, name string) int {
	if !strings.HasPrefix(name, prefix) {
		return -1
	}
	n := 0
	rest := name[len(prefix):]
	if rest == "" {
		return -1
	}
	for _, ch := range rest {
		if ch < '0' || ch > '9' {
			return -1
		}
		n = n*10 + int(ch-'0')
	}
	return n
}

// c24judge applies the C24 oracle to one execution. It returns the findings and an
// outcome label.
func c24judge(cs *c24case, script []*c24cmd, model []c24verdict, r *c24result) ([]c24finding, string) {
	var fs []c24finding
	add := func(sig, format string, a ...interface{}) {
		fs = append(fs, c24finding{sig, fmt.Sprintf(format, a...)})
	}
	bySeq := map[uint64]int{}
	for i := range script {
		bySeq[c24seq(i)] = i
	}
	// (a) replies to gate-rejected requests. A request was certainly read by the agent
	// when nothing before it allows the agent to hang up, or when a later request was
	// answered (requests of a connection are processed in order).
	lastReplied := -1
	for _, e := range r.entries {
		if i, ok := bySeq[e.Seq]; ok && i > lastReplied {
			lastReplied = i
		}
	}
	nrej, nacc, nunread := 0, 0, 0
	for i, c := range script {
		v := model[i]
		if !v.gateRej {
			if !c.isHs && !c.isAuth {
				nacc++
			}
			continue
		}
		var mine []c24entry
		for _, e := range r.entries {
			if e.Seq == c24seq(i) {
				mine = append(mine, e)
			}
		}
		if len(mine) == 0 {
			if !v.mayUnread || i < lastReplied {
				add(fmt.Sprintf("no-error-reply before %s: %s", v.gate, c.label), "request #%d (%s, seq %d) has to be rejected (%s gate) and was read by the agent, but received no reply at all", i, c.label, c24seq(i), v.gate)
			} else {
				nunread++
			}
			continue
		}
		nrej++
		for _, e := range mine {
			if e.Error == "" {
				add(fmt.Sprintf("ok-reply before %s: %s", v.gate, c.label), "request #%d (%s, seq %d) has to be rejected (%s gate) but was answered without an error", i, c.label, c24seq(i), v.gate)
			}
			if len(e.Bodies)+len(e.Other) > 0 {
				add(fmt.Sprintf("data before %s: %s", v.gate, c.label), "request #%d (%s, seq %d) has to be rejected (%s gate) but data was returned under its seq: %v %v", i, c.label, c24seq(i), v.gate, e.Bodies, e.Other)
			}
		}
	}
	// (b) attributed effects
	effect := func(kind string, idx int, what string) {
		if idx < 0 || idx >= len(script) || script[idx].effect != kind {
			add("unattributable effect: "+kind, "observed %s which no request of the script asks for", what)
			return
		}
		if model[idx].gateRej {
			add(fmt.Sprintf("effect before %s: %s", model[idx].gate, script[idx].label), "request #%d (%s) has to be rejected (%s gate) but took effect: %s", idx, script[idx].label, model[idx].gate, what)
		}
	}
	for _, n := range r.user {
		if n == "zzprobe" {
			continue
		}
		effect("event", c24indexOf("ev", n), "user event "+n+" delivered to the agent")
	}
	for _, n := range r.query {
		effect("query", c24indexOf("q", n), "query "+n+" delivered to the agent")
	}
	for _, n := range r.tags {
		effect("tags", c24indexOf("t", n), "tag "+n+" set on the agent")
	}
	for _, d := range r.dials {
		idx := -1
		for i := range script {
			if strings.Contains(d, c24joinAddr(i)) {
				idx = i
			}
		}
		effect("join", idx, "join dial to "+d)
	}
	for _, n := range r.intents {
		effect("force-leave", c24indexOf("fl", n), "leave intent / member entry for node "+n)
	}
	haveKey1 := false
	for _, k := range r.keys {
		if k == base64.StdEncoding.EncodeToString(c24key0) {
			continue
		}
		if k == c24key1b64 {
			haveKey1 = true
			continue
		}
		idx := -1
		for i := range script {
			if k == c24keyFor(i) {
				idx = i
			}
		}
		effect("install-key", idx, "key "+k+" in the keyring")
	}
	if !haveKey1 {
		// the removable key disappeared: some remove-key request must be allowed
		ok := false
		idx := -1
		for i, c := range script {
			if c.effect == "remove-key" {
				idx = i
				if !model[i].gateRej {
					ok = true
				}
			}
		}
		if !ok {
			if idx < 0 {
				add("unattributable effect: remove-key", "the pre-installed secondary key disappeared from the keyring")
			} else {
				add(fmt.Sprintf("effect before %s: remove-key", model[idx].gate), "request #%d (remove-key) has to be rejected but the key was removed from the keyring", idx)
			}
		}
	}
	if r.state != "alive" {
		idx := -1
		for i, c := range script {
			if c.effect == "leave" {
				idx = i
			}
		}
		effect("leave", idx, "serf state "+r.state)
	}
	// (c) clocks: only accepted commands may advance them
	maxE, maxQ, maxC := int64(0), int64(0), int64(0)
	if r.probed {
		maxE++
	}
	for i, c := range script {
		if model[i].gateRej {
			continue
		}
		switch c.clock {
		case "event":
			maxE++
		case "query":
			maxQ++
		case "intent":
			maxC++
		}
	}
	for _, l := range cs.Pre { // the other connection
		if c := c24find(l); c != nil {
			switch c.clock {
			case "event":
				maxE++
			case "query":
				maxQ++
			case "intent":
				maxC++
			}
		}
	}
	if r.dEvent > maxE {
		add("clock effect: event", "the user-event clock advanced by %d although only %d accepted commands send events", r.dEvent, maxE)
	}
	if r.dQuery > maxQ {
		add("clock effect: query", "the query clock advanced by %d although only %d accepted commands issue queries", r.dQuery, maxQ)
	}
	if r.dClock > maxC {
		add("clock effect: intent", "the member clock advanced by %d although only %d accepted commands create intents", r.dClock, maxC)
	}
	// (d) positional: nothing but bare headers before the reply to the first
	// successful handshake, and (with a key) to the first successful authentication
	firstHs, firstAuth := -1, -1
	for i := range script {
		if model[i].hsOK && firstHs < 0 {
			firstHs = i
		}
		if model[i].authOK && firstAuth < 0 {
			firstAuth = i
		}
	}
	gate, upto := "handshake", firstHs
	if cs.AuthKey != "" && (firstHs >= 0) {
		gate, upto = "auth", firstAuth
	}
	for _, e := range r.entries {
		if upto >= 0 && e.Seq == c24seq(upto) {
			break
		}
		if len(e.Bodies)+len(e.Other) > 0 {
			lbl := "?"
			if i, ok := bySeq[e.Seq]; ok {
				lbl = script[i].label
			}
			add(fmt.Sprintf("data before %s: %s", gate, lbl), "a reply with data (seq %d, %v %v) was sent before the %s completed", e.Seq, e.Bodies, e.Other, gate)
			break
		}
	}
	return fs, fmt.Sprintf("acc%d rej%d unread%d", nacc, nrej, nunread)
}

// c24seqFindings is the C25 part: every reply header carries the Seq of a request
// already sent on the connection; records of a stream carry the seq of a request that
// opens such a stream; a response body belongs to a command that returns it.
func c24seqFindings(script []*c24cmd, r *c24result) []c24finding {
	var fs []c24finding
	add := func(sig, format string, a ...interface{}) {
		fs = append(fs, c24finding{sig, fmt.Sprintf(format, a...)})
	}
	if r.garbled != "" {
		add("reply stream garbled", "%s", r.garbled)
	}
	for _, e := range r.entries {
		idx := -1
		for i := range script {
			if c24seq(i) == e.Seq {
				idx = i
			}
		}
		if idx < 0 {
			add("reply with unknown seq", "reply header {Seq:%d Error:%q} but no request with that seq was sent (sent: %d requests)", e.Seq, e.Error, len(script))
			continue
		}
		if idx >= e.Step {
			add("reply before request", "reply header {Seq:%d} was written when only %d requests had been sent; seq %d belongs to request #%d", e.Seq, e.Step, e.Seq, idx)
			continue
		}
		c := script[idx]
		for _, o := range e.Other {
			add("reply body of wrong kind: "+c.label, "seq %d (%s) carries a non-map body %v", e.Seq, c.label, o)
		}
		for _, b := range e.Bodies {
			ok := false
			if c.data != "" {
				if _, has := b[c.data]; has {
					ok = true
				}
			}
			if c.stream != "" {
				if _, has := b[c.stream]; has {
					ok = true
				}
			}
			if !ok {
				keys := []string{}
				for k := range b {
					keys = append(keys, k)
				}
				sort.Strings(keys)
				add("reply body of wrong kind: "+c.label, "seq %d belongs to request #%d (%s) but carries a body with fields %v", e.Seq, idx, c.label, keys)
			}
		}
	}
	return fs
}

// ---------------------------------------------------------------------------
// enumeration

func c24letters(extra ...string) []*c24cmd {
	var out []*c24cmd
	for i := range c24alphabet {
		out = append(out, &c24alphabet[i])
	}
	for _, l := range extra {
		out = append(out, c24find(l))
	}
	return out
}

func c24pick(labels ...string) []*c24cmd {
	var out []*c24cmd
	for _, l := range labels {
		c := c24find(l)
		if c == nil {
			panic("c24: no letter " + l)
		}
		out = append(out, c)
	}
	return out
}

// c24scripts calls f for every script of length 1..maxLen over alpha (lastOnly letters only last).
func c24scripts(alpha []*c24cmd, maxLen int, f func(s []*c24cmd)) {
	var rec func(cur []*c24cmd)
	rec = func(cur []*c24cmd) {
		if len(cur) > 0 {
			f(cur)
		}
		if len(cur) == maxLen || (len(cur) > 0 && cur[len(cur)-1].lastOnly) {
			return
		}
		for _, c := range alpha {
			rec(append(cur, c))
		}
	}
	rec(nil)
}

type c24scenario struct {
	name     string
	alpha    []*c24cmd
	maxLen   int
	keys     []string
	stepwise bool
	pre      []string
	prefix   []string // fixed first requests of every script (not counted in maxLen)
}

type c24sink struct {
	ctx   *vc.Ctx
	which string // "C24" or "C25SEQ"
	idx   int
}

func (k *c24sink) runScenario(sc c24scenario) {
	ctx := k.ctx
	scn := ctx.Scn(sc.name, "cases")
	scn.Bound = sc.maxLen
	for _, key := range sc.keys {
		c24scripts(sc.alpha, sc.maxLen, func(s []*c24cmd) {
			k.idx++
			if !ctx.Mine(k.idx) {
				return
			}
			cs := &c24case{Scenario: sc.name, AuthKey: key, Stepwise: sc.stepwise, Pre: sc.pre}
			cs.Script = append(cs.Script, sc.prefix...)
			for _, c := range s {
				cs.Script = append(cs.Script, c.label)
			}
			k.runCase(scn, cs)
		})
	}
}

func (k *c24sink) runCase(scn *vc.Scenario, cs *c24case) {
	ctx := k.ctx
	script := c24pick(cs.Script...)
	r := c24exec(cs)
	desc := fmt.Sprintf("authKey=%q script=%v stepwise=%v", cs.AuthKey, cs.Script, cs.Stepwise)
	if len(cs.Pre) > 0 {
		desc += fmt.Sprintf(" (another connection did %v first)", cs.Pre)
	}
	if r.err != "" {
		ctx.Fail("%s: %s: set-up failed: %s", k.which, desc, r.err)
		return
	}
	if len(r.x.Panics) > 0 {
		ctx.Violation(scn.Name, "panic "+r.x.Panics[0].Frame, fmt.Sprintf("%s: panic in %s: %s\n%s", desc, r.x.Panics[0].Thread, r.x.Panics[0].Value, r.x.Panics[0].Stack), cs)
		scn.Case("panic", true)
		return
	}
	if !r.x.RootDone || r.x.CapHit {
		ctx.Fail("%s: %s: execution did not finish (capHit=%v blocked=%+v)", k.which, desc, r.x.CapHit, r.x.Blocked)
		return
	}
	model := c24model(cs.AuthKey, script)
	var fs []c24finding
	label := ""
	nontrivial := false
	if k.which == "C24" {
		fs, label = c24judge(cs, script, model, r)
		if !model[len(script)-1].repeat { // otherwise the case repeats a shorter script
			for _, c := range script {
				if !c.isHs && !c.isAuth {
					nontrivial = true // contains a gated command
				}
			}
		}
	} else {
		fs = c24seqFindings(script, r)
		streams, dup := 0, 0
		cnt := map[uint64]int{}
		for _, e := range r.entries {
			cnt[e.Seq]++
			if len(e.Bodies) > 0 && c24hasStreamKey(e.Bodies[0]) {
				streams++
			}
		}
		for i, c := range script {
			if c.stream == "" && cnt[c24seq(i)] > 1 {
				dup++
			}
		}
		label = fmt.Sprintf("replies%d", len(r.entries))
		if streams > 0 {
			label += " +records"
		}
		if dup > 0 {
			label += " +dup"
			ctx.Note("observation (not a violation of the statement): a command rejected by the authentication gate is answered twice with the same seq when it has a body, because ipc.go:488-493 does not consume the body and the body is then decoded as the next request header (which leaves Command/Seq unchanged)")
		}
		nontrivial = len(r.entries) >= 2 && !model[len(script)-1].repeat
	}
	for _, f := range fs {
		ctx.Violation(scn.Name, f.sig, desc+": "+f.msg+c24transcript(script, r), cs)
	}
	if len(fs) > 0 {
		label = "VIOLATION"
	}
	scn.Case(label, nontrivial)
	if len(scn.Samples) < 2 && len(script) >= 3 && nontrivial && len(fs) == 0 && k.ctx.Shard == 0 {
		scn.Sample(map[string]interface{}{"case": desc, "replies": c24replies(r), "outcome": label})
	}
}

func c24hasStreamKey(b map[string]interface{}) bool {
	for _, k := range []string{"Event", "Log", "Type"} {
		if _, ok := b[k]; ok {
			return true
		}
	}
	return false
}

func c24replies(r *c24result) []string {
	var out []string
	for _, e := range r.entries {
		s := fmt.Sprintf("seq%d", e.Seq)
		if e.Error != "" {
			s += " err=" + e.Error
		}
		for _, b := range e.Bodies {
			keys := []string{}
			for k := range b {
				keys = append(keys, k)
			}
			sort.Strings(keys)
			s += " body{" + strings.Join(keys, ",") + "}"
		}
		out = append(out, s)
	}
	return out
}

func c24transcript(script []*c24cmd, r *c24result) string {
	var sb strings.Builder
	sb.WriteString("\nrequests:")
	for i, c := range script {
		fmt.Fprintf(&sb, " #%d %s(seq %d)", i, c.label, c24seq(i))
	}
	sb.WriteString("\nreplies: " + strings.Join(c24replies(r), " | "))
	fmt.Fprintf(&sb, "\neffects: userEvents=%v queries=%v tags=%v dials=%v intents=%v keys=%d state=%s clocks(event+%d query+%d member+%d)", r.user, r.query, r.tags, r.dials, r.intents, len(r.keys), r.state, r.dEvent, r.dQuery, r.dClock)
	return sb.String()
}

// c24vacuity makes sure the harness can observe the effect of every command when it is allowed.
func c24vacuity(ctx *vc.Ctx) {
	all := append(c24letters(), c24pick("use-key", "remove-key", "force-leave-prune", "stop")...)
	for _, c := range all {
		if c.isHs || c.isAuth || c.raw != nil || c.command == "bogus" {
			continue
		}
		cs := &c24case{Scenario: "vacuity", AuthKey: c24authKey, Script: []string{"hs", "auth-ok", c.label}}
		if c.label == "stream" {
			cs.Script = append(cs.Script, "event")
		}
		script := c24pick(cs.Script...)
		r := c24exec(cs)
		if r.err != "" || r.x == nil || !r.x.RootDone || len(r.x.Panics) > 0 {
			ctx.Fail("C24 vacuity run %v failed: %s %+v", cs.Script, r.err, r.x)
			return
		}
		fs, _ := c24judge(cs, script, c24model(cs.AuthKey, script), r)
		fs = append(fs, c24seqFindings(script, r)...)
		if len(fs) > 0 {
			continue // reported by the enumeration
		}
		var mine []c24entry
		for _, e := range r.entries {
			if e.Seq == c24seq(2) {
				mine = append(mine, e)
			}
		}
		if len(mine) == 0 {
			ctx.Fail("C24 vacuity: accepted %s got no reply%s", c.label, c24transcript(script, r))
			return
		}
		seen := false
		switch c.effect {
		case "event":
			seen = len(r.user) == 1
		case "query":
			seen = len(r.query) == 1
		case "tags":
			seen = len(r.tags) == 1
		case "join":
			seen = len(r.dials) == 1
		case "force-leave":
			seen = len(r.intents) == 1
		case "install-key":
			seen = len(r.keys) == 3
		case "remove-key":
			seen = len(r.keys) == 1
		case "leave":
			seen = r.state != "alive"
		default:
			seen = true
		}
		if !seen {
			ctx.Fail("C24 vacuity: the harness does not observe the effect of an accepted %s%s", c.label, c24transcript(script, r))
			return
		}
		has := func(key string) bool {
			for _, e := range mine {
				for _, b := range e.Bodies {
					if _, ok := b[key]; ok {
						return true
					}
				}
			}
			return false
		}
		if c.data != "" && !has(c.data) {
			ctx.Fail("C24 vacuity: accepted %s returned no %s body%s", c.label, c.data, c24transcript(script, r))
			return
		}
		// (the records of a query stream cannot be produced here: acks and responses travel
		// over the inert transport and the completion record needs the deadline, see c24queryTimeout)
		if c.stream != "" && c.label != "query" && !has(c.stream) {
			ctx.Fail("C24 vacuity: the stream opened by an accepted %s produced no record%s", c.label, c24transcript(script, r))
			return
		}
	}
}

func c24scenarios(ctx *vc.Ctx) []c24scenario {
	keys := []string{"", c24authKey}
	full := c24letters()
	ext := c24letters("hs-v0", "hs-v-1", "auth-empty", "auth-nokey", "auth-prefix", "stop", "use-key", "remove-key", "force-leave-prune", "members-bad-regex", "malformed-auth", "malformed-hs")
	out := []c24scenario{
		{name: "pipelined/len<=3", alpha: full, maxLen: 3, keys: keys},
		{name: "stepwise/len<=2", alpha: full, maxLen: 2, keys: keys, stepwise: true},
		{name: "stepwise/hs+len<=2", alpha: full, maxLen: 2, keys: keys, stepwise: true, prefix: []string{"hs"}},
		{name: "second-connection/len<=2", alpha: full, maxLen: 2, keys: []string{c24authKey}, pre: []string{"hs", "auth-ok", "stream", "monitor"}},
		{name: "pipelined/hs+len<=3", alpha: full, maxLen: 3, keys: keys, prefix: []string{"hs"}},
		{name: "second-connection/auth-variants/hs+len<=3", alpha: c24pick("auth-nokey", "auth-empty", "auth-bad", "auth-prefix", "stats", "members", "event"), maxLen: 3, keys: []string{c24authKey}, prefix: []string{"hs"}, pre: []string{"hs", "auth-ok", "stream", "monitor"}},
		{name: "pipelined/extended/len<=2", alpha: ext, maxLen: 2, keys: keys},
		{name: "pipelined/extended/hs+len<=2", alpha: ext, maxLen: 2, keys: keys, prefix: []string{"hs"}},
	}
	if ctx.Thorough() {
		reduced := c24pick("hs", "hs-v2", "auth-ok", "auth-bad", "event", "tags", "members", "stream", "monitor", "query", "install-key", "leave", "malformed", "unknown")
		out = append(out,
			c24scenario{name: "pipelined/len<=4", alpha: full, maxLen: 4, keys: keys},
			c24scenario{name: "stepwise/len<=3", alpha: full, maxLen: 3, keys: keys, stepwise: true},
			c24scenario{name: "stepwise/reduced/len<=4", alpha: reduced, maxLen: 4, keys: keys, stepwise: true},
			c24scenario{name: "pipelined/extended/len<=3", alpha: ext, maxLen: 3, keys: keys},
			c24scenario{name: "stepwise/hs+len<=3", alpha: full, maxLen: 3, keys: keys, prefix: []string{"hs"}, stepwise: true},
			c24scenario{name: "pipelined/hs,auth-ok+len<=3", alpha: full, maxLen: 3, keys: []string{c24authKey}, prefix: []string{"hs", "auth-ok"}},
			c24scenario{name: "second-connection/len<=3", alpha: full, maxLen: 3, keys: []string{c24authKey}, pre: []string{"hs", "auth-ok", "stream", "monitor"}},
		)
	}
	return out
}

func c24runAll(ctx *vc.Ctx, which string) {
	k := &c24sink{ctx: ctx, which: which}
	if ctx.Replay != nil {
		var cs c24case
		if json.Unmarshal(ctx.Replay, &cs) != nil || len(cs.Script) == 0 {
			return
		}
		scn := ctx.Scn(cs.Scenario, "cases")
		k.runCase(scn, &cs)
		script := c24pick(cs.Script...)
		r := c24exec(&cs)
		fmt.Printf("replay %s: authKey=%q script=%v%s\n", which, cs.AuthKey, cs.Script, c24transcript(script, r))
		return
	}
	if ctx.Shard == 0 {
		c24vacuity(ctx)
	}
	for _, sc := range c24scenarios(ctx) {
		k.runScenario(sc)
	}
	k.authKeys()
}

func c24run(ctx *vc.Ctx) { c24runAll(ctx, "C24") }

// c25SeqCorrelation is the part of C25 that is checked on the C24 request sequences.
func c25SeqCorrelation(ctx *vc.Ctx) { c24runAll(ctx, "C25SEQ") }

func init() {
	rule := "cases: every request script of length 1..L over the command alphabet {handshake v1, handshake v2, auth right key, auth wrong key, event, tags, join, force-leave, members, members-filtered, stats, stream, monitor, query, respond, install-key, list-keys, get-coordinate, leave (last only), event with an undecodable body, unknown command} x authKey in {\"\",\"k\"}, each on a fresh real Agent+AgentIPC, delivered (a) pipelined: whole script in one write, (b) stepwise: one request per write with quiescence in between (quick: L-1, alone and after a handshake), (c) on a second connection while another connection is authenticated with open stream and monitor (L-1; also, after a handshake, L=3 over {auth body without a key field, auth \"\", auth wrong key, auth \"kk\", stats, members, event}), (d) pipelined after a fixed successful handshake (L more requests); and over the extended alphabet (below) with L=2 alone and after a handshake; quick L=3; thorough adds L=4 pipelined over the full alphabet, L=4 stepwise over a 14-letter sub-alphabet and L=3 over the alphabet extended by handshake v0/v-1, auth \"\"/\"kk\", stop, use-key, remove-key, force-leave prune, members-filtered with a bad regex, undecodable auth/handshake bodies, (d) also stepwise and after handshake+right key. (auth-keys) configured keys of 1, 16, 63, 64, 65, 96 and 200 bytes and with NUL / non-UTF-8 bytes x every presented variant (the key, one bit changed at the first, middle, last position and around bytes 31-32 and 62-65, every truncation at those lengths, extensions, the empty key), each after a handshake and followed by stats, tags, members. "
	vc.Register(&vc.Check{
		ID:    "C24",
		Level: "exploration",
		Rule:  rule + "non-trivial = the script contains a command other than handshake/auth and its last request is certainly read by the agent (no earlier request after which the agent may drop the connection; otherwise the case only repeats a shorter script with an unread suffix)",
		Assumptions: []string{
			"supported IPC versions are exactly agent.MinIPCVersion..agent.MaxIPCVersion; a handshake with another version is not a successful handshake",
			"the agent may stop reading a connection after: any command it rejected (it does so after a missing handshake), an unknown command, an undecodable body, leave, a members filter that does not compile; a rejected request after such a point needs a reply only if a later request was answered (in-order processing), but whatever is processed must still obey the gates",
			"'takes effect' is observed as: user events and queries delivered to an agent event handler, agent tags, join dial attempts on the transport, leave intents / member entries, keyring contents, serf state, the three serf Lamport clocks, stream/monitor/query records under the request's seq (probe event and probe log line after the script); every request carries its position in its names so effects are attributed exactly",
			"commands that pass the gates and then fail for other reasons (join to an unreachable address, respond without pending query) count as legitimately attempted",
			"memberlist is real but inert (no peers, transport refuses dials); time is virtual, 2 s per step so key commands and queries (1.6 s timeout) complete",
			"one client goroutine per connection processes requests in order (as in handleClient); the second-connection scenario checks that the state is per connection",
		},
		Run: c24run,
	})
	vc.Register(&vc.Check{
		ID:    "C25SEQ",
		Level: "exploration",
		Rule:  rule + "non-trivial = at least two reply headers were received and the last request is certainly read by the agent",
		Assumptions: []string{
			"a reply header is a msgpack map with exactly the fields Seq and Error; every other value is the body of the preceding header",
			"stepwise delivery: a header counts as 'already sent request' only if its request was written before the agent ran",
		},
		Run: c25SeqCorrelation,
	})
}
