package checks

import (
	"bytes"
	"fmt"
	"sort"
	"strings"
	"time"

	"verifharness/vc"
	"verifharness/world"

	"github.com/hashicorp/serf/serf"
	"github.com/hashicorp/serf/zzverif/vsched"
)

// C04: Gossip of intents, user events and queries always dies out.
//
// One real Serf node whose member table holds one member in every state
// (b unknown, c alive, d leaving, e left, f failed, the node itself), all put
// there through the real handlers. Histories of gossip deliveries with
// repetition; after every delivery the broadcast queue is drained and every
// queued copy of a delivered message is one re-broadcast of that message.
//
// The reference model does not predict whether a message is re-broadcast (the
// statement only bounds it). It tracks when the node may legitimately have
// forgotten a message (the end of a retention epoch):
//   - an intent about node X is remembered through X's member record or, for
//     an unknown X, through the buffered intent. The record is erased by an
//     accepted pruning leave (time newer than the recorded status time); the
//     buffered intents expire after RecentIntentTimeout;
//   - a user event / query is remembered while its Lamport time is inside the
//     node's event / query window (clock - buffer size).

const (
	c04short = 40 * time.Second // stays below RecentIntentTimeout (5 min) over a whole history
	c04long  = 6 * time.Minute  // every buffered intent is expired and reaped afterwards
)

var c04idx = map[string]int{"a": 0, "a1": 0, "a2": 1, "b": 2, "c": 3, "d": 4, "e": 5, "f": 6, "g": 7, "h": 8, "i": 9, "j": 10}

var c04stateOf = map[string]string{"b": "unknown", "c": "alive", "d": "leaving", "e": "left", "f": "failed",
	"g": "failed+stale-join", "h": "failed+stale-leave", "i": "alive+stale-join", "j": "alive+stale-leave"}

// c04stale: members whose record was CREATED FROM A BUFFERED INTENT (time 4) and
// has since moved on to status time 6; the consumed buffer entry is still there
// (entries are only removed by the reaper). g/h have failed since, i/j are alive.
var c04stale = map[string]struct {
	leave  bool // the buffered intent is a leave (else a join)
	failed bool
}{"g": {false, true}, "h": {true, true}, "i": {false, false}, "j": {true, false}}

type c04ev struct {
	lt   uint64
	name string
}

type c04act struct {
	kind string // msg | merge | adv | advlong | mljoin | mlleave | uevent | uquery | echo
	msg  []byte // kind msg
	node string // mljoin / mlleave
	// merge
	status map[string]uint64
	left   []string
	events []c04ev
	evLT   uint64
	qLT    uint64
	label  string
}

func (a c04act) String() string { return a.label }

func c04join(node string, lt uint64) c04act {
	return c04act{kind: "msg", label: fmt.Sprintf("join(%s,%d)", node, lt),
		msg: serf.VEncode(serf.VMsgJoin, &serf.VMessageJoin{LTime: serf.LamportTime(lt), Node: node})}
}

func c04leave(node string, lt uint64, prune bool) c04act {
	l := fmt.Sprintf("leave(%s,%d)", node, lt)
	if prune {
		l = fmt.Sprintf("leave-prune(%s,%d)", node, lt)
	}
	return c04act{kind: "msg", label: l,
		msg: serf.VEncode(serf.VMsgLeave, &serf.VMessageLeave{LTime: serf.LamportTime(lt), Node: node, Prune: prune})}
}

func c04event(lt uint64, name string) c04act {
	return c04act{kind: "msg", label: fmt.Sprintf("event(%d,%s)", lt, name),
		msg: serf.VEncode(serf.VMsgUserEvent, &serf.VMessageUserEvent{LTime: serf.LamportTime(lt), Name: name, Payload: []byte("p")})}
}

func c04query(lt uint64, id uint32, nobc, filt bool) c04act {
	q := serf.VMessageQuery{LTime: serf.LamportTime(lt), ID: id, Addr: []byte{10, 0, 0, 9}, Port: 7946, SourceNode: "src",
		Timeout: time.Second, Name: "q", Payload: []byte("p")}
	l := fmt.Sprintf("query(%d,id=%d", lt, id)
	if nobc {
		q.Flags |= serf.VQueryFlagNoBroadcast
		l += ",no-broadcast"
	}
	if filt {
		q.Filters = [][]byte{serf.VEncodeFilter(serf.VFilterNodeType, serf.VFilterNode{"zz"})}
		l += ",filter-excludes-me"
	}
	return c04act{kind: "msg", label: l + ")", msg: serf.VEncode(serf.VMsgQuery, &q)}
}

func c04merge(label string, status map[string]uint64, left []string, events []c04ev, evLT, qLT uint64) c04act {
	return c04act{kind: "merge", label: "merge(" + label + ")", status: status, left: left, events: events, evLT: evLT, qLT: qLT}
}

func (a c04act) pushpull() []byte {
	pp := serf.VMessagePushPull{LTime: 1, EventLTime: serf.LamportTime(a.evLT), QueryLTime: serf.LamportTime(a.qLT),
		StatusLTimes: map[string]serf.LamportTime{}, LeftMembers: append([]string{}, a.left...)}
	for k, v := range a.status {
		pp.StatusLTimes[k] = serf.LamportTime(v)
	}
	for _, e := range a.events {
		var g *serf.VUserEvents
		for _, x := range pp.Events {
			if uint64(x.LTime) == e.lt {
				g = x
			}
		}
		if g == nil {
			g = &serf.VUserEvents{LTime: serf.LamportTime(e.lt)}
			pp.Events = append(pp.Events, g)
		}
		g.Events = append(g.Events, serf.VUserEvent{Name: e.name, Payload: []byte("p")})
	}
	return serf.VEncode(serf.VMsgPushPull, &pp)
}

// c04info is a decoded gossip message.
type c04info struct {
	kind  string // join | leave | leave-prune | event | query | other
	node  string
	lt    uint64
	desc  string
	valid bool
}

func c04parse(b []byte) c04info {
	if len(b) < 2 {
		return c04info{kind: "other", desc: fmt.Sprintf("%x", b)}
	}
	switch b[0] {
	case serf.VMsgJoin:
		var j serf.VMessageJoin
		if serf.VDecode(b[1:], &j) == nil {
			return c04info{kind: "join", node: j.Node, lt: uint64(j.LTime), valid: true, desc: fmt.Sprintf("join(%s,%d)", j.Node, j.LTime)}
		}
	case serf.VMsgLeave:
		var l serf.VMessageLeave
		if serf.VDecode(b[1:], &l) == nil {
			k := "leave"
			if l.Prune {
				k = "leave-prune"
			}
			return c04info{kind: k, node: l.Node, lt: uint64(l.LTime), valid: true, desc: fmt.Sprintf("%s(%s,%d)", k, l.Node, l.LTime)}
		}
	case serf.VMsgUserEvent:
		var e serf.VMessageUserEvent
		if serf.VDecode(b[1:], &e) == nil {
			return c04info{kind: "event", lt: uint64(e.LTime), valid: true, desc: fmt.Sprintf("event(%d,%s)", e.LTime, e.Name)}
		}
	case serf.VMsgQuery:
		var q serf.VMessageQuery
		if serf.VDecode(b[1:], &q) == nil {
			return c04info{kind: "query", lt: uint64(q.LTime), valid: true, desc: fmt.Sprintf("query(%d,id=%d,flags=%d,filters=%d)", q.LTime, q.ID, q.Flags, len(q.Filters))}
		}
	}
	return c04info{kind: "other", desc: fmt.Sprintf("type %d", b[0])}
}

// c04model: what the node may have forgotten.
type c04model struct {
	self    string
	n       uint64            // event buffer size
	nq      uint64            // query buffer size
	lt      map[string]uint64 // recorded status time of every known member
	intent  map[string]uint64 // buffered intent time (unknown or formerly unknown nodes)
	epoch   map[string]int    // number of times the record of a node was legitimately forgotten
	evClock uint64
	qClock  uint64
	last    map[string]int  // intent message -> 1 + epoch of its node when it was last re-broadcast
	preset  map[string]bool // intent messages the set-up delivered (and the node re-broadcast) before the history
	seen    map[string]bool // event / query message re-broadcast before
	clearT  int64           // virtual time of the last expiry of all buffered intents
}

func c04newModel(self string, n, nq int, known []string) *c04model {
	m := &c04model{self: self, n: uint64(n), nq: uint64(nq), lt: map[string]uint64{}, intent: map[string]uint64{}, epoch: map[string]int{},
		evClock: 1, qClock: 1, last: map[string]int{}, preset: map[string]bool{}, seen: map[string]bool{}}
	for _, k := range known {
		m.lt[k] = 5
	}
	return m
}

func c04witness(c *uint64, l uint64) {
	if l >= *c {
		*c = l + 1
	}
}

func c04inWindow(clock, l, n uint64) bool { return !(clock > n && l < clock-n) }

func (m *c04model) upsert(node string, l uint64) {
	if cur, ok := m.intent[node]; !ok || l > cur {
		m.intent[node] = l
	}
}

func (m *c04model) join(node string, l uint64) {
	cur, known := m.lt[node]
	if !known {
		m.upsert(node, l)
		return
	}
	if l > cur {
		m.lt[node] = l
	}
}

func (m *c04model) leave(node string, l uint64, prune bool) {
	cur, known := m.lt[node]
	if !known {
		m.upsert(node, l)
		return
	}
	if l <= cur {
		return
	}
	if node == m.self {
		return // a running member refutes instead (C03); its record is never erased
	}
	m.lt[node] = l
	if prune {
		delete(m.lt, node)
		m.epoch[node]++
	}
}

func (m *c04model) mljoin(node string) {
	if _, known := m.lt[node]; !known {
		m.lt[node] = m.intent[node] // 0 when nothing is buffered
	}
}

func (m *c04model) expire() {
	for node := range m.intent {
		if _, known := m.lt[node]; !known {
			m.epoch[node]++
		}
	}
	m.intent = map[string]uint64{}
	m.clearT = vsched.Elapsed()
}

func (m *c04model) apply(i c04info) {
	switch i.kind {
	case "join":
		m.join(i.node, i.lt)
	case "leave":
		m.leave(i.node, i.lt, false)
	case "leave-prune":
		m.leave(i.node, i.lt, true)
	case "event":
		c04witness(&m.evClock, i.lt)
	case "query":
		c04witness(&m.qClock, i.lt)
	}
}

func (m *c04model) class(node string) string {
	if node == m.self {
		return "self"
	}
	if s, ok := c04stateOf[node]; ok {
		return "initially-" + s + " member"
	}
	return "peer member"
}

// c04node is a real node plus its model.
type c04node struct {
	n       *world.Node
	m       *c04model
	lastOwn []byte
	viol    string
	sig     string
	hist    *[]string
}

func (c *c04node) fail(sig, format string, a ...interface{}) {
	if c.viol == "" {
		c.sig = sig
		c.viol = fmt.Sprintf("history %v: ", *c.hist) + fmt.Sprintf(format, a...)
	}
}

func c04new(name string, idx int, n, nq int, peers []string, hist *[]string, stale ...string) *c04node {
	node, err := world.NewNode(name, idx, func(c *serf.Config) { c.EventBuffer = n; c.QueryBuffer = nq })
	if err != nil {
		panic(err)
	}
	vsched.SetHorizon(vsched.Elapsed() + int64(3*time.Second))
	ml := func(x string) { node.Events().NotifyJoin(node.MLNode(x, c04idx[x], nil)) }
	msg := func(a c04act) { node.Delegate().NotifyMsg(a.msg) }
	known := []string{name, "c", "d", "e", "f"}
	ml("c")
	msg(c04join("c", 5))
	ml("d")
	msg(c04join("d", 4))
	msg(c04leave("d", 5, false))
	ml("e")
	msg(c04leave("e", 5, false))
	node.Events().NotifyLeave(node.MLNode("e", c04idx["e"], nil))
	ml("f")
	msg(c04join("f", 5))
	node.Events().NotifyLeave(node.MLNode("f", c04idx["f"], nil))
	for _, p := range peers {
		ml(p)
		msg(c04join(p, 5))
		known = append(known, p)
	}
	msg(c04join(name, 5))
	wantIntents := map[string]string{}
	want := map[string]string{name: "alive", "c": "alive", "d": "leaving", "e": "left", "f": "failed"}
	for _, x := range stale {
		sp := c04stale[x]
		if sp.leave {
			msg(c04leave(x, 4, false)) // buffered: x is not known yet
			wantIntents[x] = fmt.Sprintf("%d:4", serf.VMsgLeave)
		} else {
			msg(c04join(x, 4))
			wantIntents[x] = fmt.Sprintf("%d:4", serf.VMsgJoin)
		}
		ml(x)              // record created from the buffered intent (status time 4)
		msg(c04join(x, 6)) // moved on: alive at 6
		want[x] = "alive"
		if sp.failed {
			node.Events().NotifyLeave(node.MLNode(x, c04idx[x], nil))
			want[x] = "failed"
		}
		known = append(known, x)
	}
	vsched.Quiesce()
	preOut := node.Outbox()
	node.DrainEvents()
	c := &c04node{n: node, m: c04newModel(name, n, nq, known), hist: hist}
	// the set-up is part of the history: what it re-broadcast counts for epoch 0
	for _, o := range preOut {
		switch c04parse(o).kind {
		case "join", "leave", "leave-prune":
			c.m.last[string(o)] = 1
			c.m.preset[string(o)] = true
		}
	}
	for _, x := range stale {
		c.m.intent[x] = 4
	}
	// the set-up must have produced one member per state; the recorded status
	// times (5 on the unchanged tree) are taken over as the model's starting point
	st := serf.VDump(node.S)
	for _, p := range peers {
		want[p] = "alive"
	}
	for _, x := range st.Members {
		if want[x.Name] != x.Status {
			panic(fmt.Sprintf("c04: preset failed: member %s is %s, want %s", x.Name, x.Status, want[x.Name]))
		}
		c.m.lt[x.Name] = x.StatusLTime
		delete(want, x.Name)
	}
	for _, in := range st.Intents {
		if wantIntents[in.Node] != fmt.Sprintf("%d:%d", in.Type, in.LTime) {
			panic(fmt.Sprintf("c04: preset failed: unexpected buffered intent %+v", in))
		}
		delete(wantIntents, in.Node)
	}
	if len(want) != 0 || len(wantIntents) != 0 {
		panic(fmt.Sprintf("c04: preset failed: missing members %v, missing buffered intents %v", want, wantIntents))
	}
	c.m.clearT = vsched.Elapsed()
	return c
}

func (c *c04node) isOwnJoin(b []byte) bool {
	i := c04parse(b)
	return i.kind == "join" && i.node == c.m.self
}

// deliver hands one gossip message to the node, lets it settle, drains the
// broadcast queue and applies the at-most-once-per-epoch oracle. It returns
// everything that was queued and whether the delivered message was re-broadcast.
func (c *c04node) deliver(b []byte) (out [][]byte, requeued bool) {
	in := c04parse(b)
	m := c.m
	if vsched.Elapsed()-m.clearT > int64(c04safe) {
		panic("c04: harness: a buffered intent may have expired without the model knowing")
	}
	e0 := m.epoch[in.node]
	cls := m.class(in.node)
	m.apply(in)
	// a pruning leave about a leaving member sleeps for the propagation delay
	vsched.SetHorizon(vsched.Elapsed() + int64(3*time.Second))
	c.n.Delegate().NotifyMsg(b)
	vsched.Quiesce()
	out = c.n.Outbox()
	c.n.DrainEvents()
	for _, o := range out {
		same := bytes.Equal(o, b)
		if same {
			requeued = true
		}
		if !same && c.isOwnJoin(o) {
			continue // the node's own refutation (an origination, C03)
		}
		oi := c04parse(o)
		key := string(o)
		switch oi.kind {
		case "join", "leave", "leave-prune":
			e := m.epoch[oi.node]
			ocls := m.class(oi.node)
			if same {
				e, ocls = e0, cls
			}
			if m.last[key] == e+1 {
				c.fail(fmt.Sprintf("re-broadcast twice: %s intent about %s", oi.kind, ocls),
					"%s was re-broadcast a second time on delivery of %s although the node's record of %s was not erased and no buffered intent expired in between%s", oi.desc, in.desc, oi.node, map[bool]string{true: " (the first re-broadcast happened while the start state was built: the set-up delivered this message once)", false: ""}[m.preset[key] && e == 0])
			}
			m.last[key] = e + 1
		case "event":
			if m.seen[key] && c04inWindow(m.evClock, oi.lt, m.n) {
				c.fail("re-broadcast twice: user event inside the window",
					"%s was re-broadcast a second time on delivery of %s while still inside the event window (event clock %d, event buffer %d, query buffer %d)", oi.desc, in.desc, m.evClock, m.n, m.nq)
			}
			m.seen[key] = true
		case "query":
			if m.seen[key] && c04inWindow(m.qClock, oi.lt, m.nq) {
				c.fail("re-broadcast twice: query inside the window",
					"%s was re-broadcast a second time on delivery of %s while still inside the query window (query clock %d, query buffer %d, event buffer %d)", oi.desc, in.desc, m.qClock, m.nq, m.n)
			}
			m.seen[key] = true
		}
	}
	return out, requeued
}

// c04safe: histories never let this much virtual time pass without a long advance.
const c04safe = 290 * time.Second

// merge runs a state-sync merge; nothing may be queued except the node's own refuting join.
func (c *c04node) merge(a c04act) {
	m := c.m
	selfLeft := false
	isLeft := map[string]bool{}
	for _, x := range a.left {
		isLeft[x] = true
		if x == m.self {
			selfLeft = true
		}
		m.leave(x, a.status[x]+1, false)
	}
	for x, l := range a.status {
		if !isLeft[x] {
			m.join(x, l)
		}
	}
	if a.evLT > 0 {
		c04witness(&m.evClock, a.evLT-1)
	}
	if a.qLT > 0 {
		c04witness(&m.qClock, a.qLT-1)
	}
	for _, e := range a.events {
		c04witness(&m.evClock, e.lt)
	}
	vsched.SetHorizon(vsched.Elapsed() + int64(3*time.Second))
	c.n.Delegate().MergeRemoteState(a.pushpull(), false)
	vsched.Quiesce()
	for _, o := range c.n.Outbox() {
		if selfLeft && c.isOwnJoin(o) {
			continue
		}
		oi := c04parse(o)
		k := oi.kind
		if k == "join" && oi.node == m.self {
			k = "join about self without a claim"
		}
		c.fail("state-sync merge queued a broadcast: "+k, "%s left %s on the broadcast queue", a.label, oi.desc)
	}
	c.n.DrainEvents()
}

// step executes one action of a history; suppressed reports a delivery that was not re-broadcast.
func (c *c04node) step(a c04act) (suppressed bool) {
	m := c.m
	switch a.kind {
	case "msg":
		_, re := c.deliver(a.msg)
		return !re
	case "echo":
		if c.lastOwn != nil {
			_, re := c.deliver(c.lastOwn)
			return !re
		}
	case "merge":
		c.merge(a)
	case "adv":
		vsched.Advance(int64(c04short))
	case "advlong":
		vsched.Advance(int64(c04long))
		m.expire()
	case "mljoin":
		m.mljoin(a.node)
		c.n.Events().NotifyJoin(c.n.MLNode(a.node, c04idx[a.node], nil))
	case "mlleave":
		c.n.Events().NotifyLeave(c.n.MLNode(a.node, c04idx[a.node], nil))
	case "uevent":
		l := m.evClock
		m.evClock++
		if err := c.n.S.UserEvent("u", []byte("p"), false); err != nil {
			panic(err)
		}
		vsched.Quiesce()
		for _, o := range c.n.Outbox() {
			if oi := c04parse(o); oi.kind == "event" && oi.lt == l {
				c.lastOwn = o
			}
		}
	case "uquery":
		l := m.qClock
		c04witness(&m.qClock, l)
		if _, err := c.n.S.Query("q", []byte("p"), &serf.QueryParam{Timeout: time.Second}); err != nil {
			panic(err)
		}
		vsched.Quiesce()
		for _, o := range c.n.Outbox() {
			if oi := c04parse(o); oi.kind == "query" && oi.lt == l {
				c.lastOwn = o
			}
		}
	}
	vsched.Quiesce()
	c.n.Outbox()
	c.n.DrainEvents()
	return false
}

// stateKey is the canonical private state (no wall-clock ages).
func c04stateKey(n *world.Node) (string, map[string]uint64) {
	st := serf.VDump(n.S)
	var ms, in []string
	lts := map[string]uint64{}
	for _, x := range st.Members {
		ms = append(ms, fmt.Sprintf("%s:%s:%d", x.Name, x.Status, x.StatusLTime))
		lts[x.Name] = x.StatusLTime
	}
	for _, x := range st.Intents {
		in = append(in, fmt.Sprintf("%s:%d:%d", x.Node, x.Type, x.LTime))
	}
	return fmt.Sprintf("clock=%d ev=%d q=%d %v intents=%v events=%v queries=%v", st.Clock, st.EventClock, st.QueryClock, ms, in, st.EventBuffer, st.QueryBuffer), lts
}

// modelMismatch compares the model's member table with the node's (harness sanity).
func (c *c04node) modelMismatch(lts map[string]uint64) string {
	var d []string
	for k, v := range c.m.lt {
		if k == c.m.self {
			continue
		}
		if r, ok := lts[k]; !ok || r != v {
			d = append(d, fmt.Sprintf("%s: model %d, node %d (present=%v)", k, v, r, ok))
		}
	}
	for k := range lts {
		if _, ok := c.m.lt[k]; !ok {
			d = append(d, fmt.Sprintf("%s: erased in the model, present in the node", k))
		}
	}
	sort.Strings(d)
	return strings.Join(d, "; ")
}

func init() {
	vc.Register(&vc.Check{
		ID:    "C04",
		Level: "model_checking",
		Rule:  "histories: every sequence WITH repetition of deliveries to one real Serf node whose member table was filled through the real handlers with one member per state (b unknown, c alive, d leaving, e left, f failed, the node itself alive; recorded status time 5); shorter sequences are checked as prefixes (oracle after every step). intents/<state> (one scenario per member X; quick length 4): join intents about X at times {5,6,7}, leave intents at {5,6,7}, pruning leave intents at {6,7} (equal/higher than the record, lower/equal/higher than a buffered intent), state-sync merges carrying X as joined at 6 / as left after 5, memberlist alive notification about X, memberlist dead notification (flaps), a 6 min tick (expires buffered intents; for b also a 40 s tick that must not). intents/<state>+stale-join|leave (4 more start states, quick length 4): a member whose record was created from a buffered join resp. leave intent at time 4 and has moved on to status time 6 (alive, or failed since), with the consumed buffer entry still parked: joins at {4,5,6,7}, leaves at {5,7}, pruning leave at 7, merges carrying it as joined at 5 / left after 4, alive and dead notifications (flaps), 6 min tick. The set-up deliveries count as part of every history (what they re-broadcast is already used up). Thorough: 'wide' (length 4: also time 4, prune at 5, 40 s tick) and 'deep' (length 5 on 10-11 letters). events/queries for equal event and query buffer sizes 2 and 4 (length 4; thorough length 5 for buffer 2): user events (2 names, times 0,1,N,N+1,2N+1 colliding in slots), queries (ids 7,8,9, slot collisions, NoBroadcast flag, a filter excluding the node), merges carrying events or moving the event/query clock, the node's own UserEvent/Query and the echo of it; events/queries with UNEQUAL rings (EventBuffer 8 / QueryBuffer 2 and 2 / 8; length 4, thorough 5): times 0, 1, r+1, 2r+1 (slot collisions of the ring under test, size r) and o+1, o+r+1 (around the window edge of the other ring, size o), merges moving the clock past both edges (2r+2, 2o+2), the node's own UserEvent/Query. mixed (length 4 quick, 5 thorough; thorough also length 6 on 7 letters): letters of every kind over all members incl. merges naming everybody. Each step is Delegate.NotifyMsg / MergeRemoteState / a local call on the real node, run to quiescence, then the broadcast queue is drained and queued copies are counted per message (byte identity). closure: two real nodes a1, a2 with the same member table (knowing each other), every ordered pair (thorough: also triples on a reduced alphabet) of 70 messages (intents about a1,a2,b..f at 5,6,7, events, queries) injected into a1 (or into both), then each node's queue is fed to the other until both are empty; plus pairs of events/queries at times 1,3,5,9,11 with rings 8/2 and 2/8. A state is the canonical private state after a history. non-trivial = history/closure in which at least one delivery was NOT re-broadcast (duplicate, stale or refused message). intents/retention-band: a join / leave intent about an unknown member (buffered for RecentIntentTimeout T = 60 s, reaper every R = 10 s) arriving at every phase of the reaper's period, its duplicate at ages {1 s, T-R-1 s, T-R, T-R/2, T-1 s, T-1 ns}: never re-broadcast",
		Assumptions: []string{
			"'retention window' (epoch) of an intent about X ends when the node legitimately forgets it: X's member record is erased by an accepted pruning leave (the same message is then new again), or the buffered intent about an unknown X expires (RecentIntentTimeout); for user events and queries it ends when the Lamport time leaves the node's window for that kind (event clock - EventBuffer for user events, query clock - QueryBuffer for queries). Erasure by the reaper after Tombstone/Reconnect timeouts (24 h) is not explored",
			"only copies of a delivered message count as re-broadcasts; the node's own originations (UserEvent, Query, refuting join about itself) do not",
			"a state-sync merge may leave exactly one kind of broadcast behind: the node's refuting join when the merge claims the node itself has left",
			"closure bound: without time passing a node can re-broadcast one message at most twice (once as known member, once more after a prune erased the record), so two nodes feeding each other must fall silent within 4*(distinct messages)+2 exchange rounds",
			"deliveries are serial (memberlist's packet handler); Lamport times near 2^64 are excluded (C19)",
		},
		Run: c04run,
	})
}

type c04scn struct {
	name   string
	n      int
	nq     int // query buffer size (0: same as n)
	depth  int
	acts   []c04act
	member string
	stale  []string // extra start-state members (c04stale)
}

// c04memberAlphabet: letters about one member. level quick (depth 4), wide (every
// letter, depth 4, thorough) or deep (reduced, depth 5, thorough).
func c04memberAlphabet(x string, level string) []c04act {
	var acts []c04act
	jl, ll, pl := []uint64{5, 6, 7}, []uint64{5, 6, 7}, []uint64{6, 7}
	switch level {
	case "wide":
		jl, ll, pl = []uint64{4, 5, 6, 7}, []uint64{4, 5, 6, 7}, []uint64{5, 6, 7}
	case "deep":
		jl = []uint64{6, 7}
	}
	for _, l := range jl {
		acts = append(acts, c04join(x, l))
	}
	for _, l := range ll {
		acts = append(acts, c04leave(x, l, false))
	}
	for _, l := range pl {
		acts = append(acts, c04leave(x, l, true))
	}
	acts = append(acts, c04merge(x+" left after 5", map[string]uint64{x: 5}, []string{x}, nil, 1, 1), c04act{kind: "advlong", label: "tick(6m)"})
	if level != "deep" {
		acts = append(acts, c04merge(x+" joined at 6", map[string]uint64{x: 6}, nil, nil, 1, 1))
	}
	if level == "wide" || (level == "quick" && x == "b") {
		acts = append(acts, c04act{kind: "adv", label: "tick(40s)"})
	}
	if x != "a" {
		acts = append(acts, c04act{kind: "mljoin", node: x, label: "alive(" + x + ")"})
		if level != "deep" {
			acts = append(acts, c04act{kind: "mlleave", node: x, label: "dead(" + x + ")"})
		}
	}
	return acts
}

// c04staleAlphabet: letters about a member with a stale buffered intent at 4 and
// real status time 6: intents around both values, flaps (alive/dead), merges
// between the two values, the 6 min tick that expires the stale entry.
func c04staleAlphabet(x string, level string) []c04act {
	var acts []c04act
	jl, ll, pl := []uint64{4, 5, 6, 7}, []uint64{5, 7}, []uint64{7}
	switch level {
	case "wide":
		ll, pl = []uint64{4, 5, 6, 7}, []uint64{5, 6, 7}
	case "deep":
		jl, ll, pl = []uint64{5, 6, 7}, []uint64{5, 7}, nil
	}
	for _, l := range jl {
		acts = append(acts, c04join(x, l))
	}
	for _, l := range ll {
		acts = append(acts, c04leave(x, l, false))
	}
	for _, l := range pl {
		acts = append(acts, c04leave(x, l, true))
	}
	acts = append(acts, c04merge(x+" joined at 5", map[string]uint64{x: 5}, nil, nil, 1, 1),
		c04act{kind: "mljoin", node: x, label: "alive(" + x + ")"}, c04act{kind: "mlleave", node: x, label: "dead(" + x + ")"},
		c04act{kind: "advlong", label: "tick(6m)"})
	if level != "deep" {
		acts = append(acts, c04merge(x+" left after 4", map[string]uint64{x: 4}, []string{x}, nil, 1, 1))
	}
	if level == "wide" {
		acts = append(acts, c04act{kind: "adv", label: "tick(40s)"})
	}
	return acts
}

func c04eventAlphabet(n int) []c04act {
	N := uint64(n)
	return []c04act{
		c04event(0, "u"), c04event(1, "u"), c04event(1, "v"), c04event(N, "u"), c04event(N+1, "u"), c04event(2*N+1, "u"),
		{kind: "uevent", label: "UserEvent()"}, {kind: "echo", label: "echo-own"},
		c04merge("events 1,N+1", nil, nil, []c04ev{{1, "u"}, {N + 1, "u"}}, N+2, 1),
		c04merge(fmt.Sprintf("event clock %d", 2*N+2), nil, nil, nil, 2*N+2, 1),
	}
}

func c04queryAlphabet(n int) []c04act {
	N := uint64(n)
	return []c04act{
		c04query(0, 7, false, false), c04query(1, 7, false, false), c04query(1, 8, false, false), c04query(N+1, 7, false, false), c04query(2*N+1, 7, false, false),
		c04query(1, 7, true, false), c04query(1, 9, false, true),
		{kind: "uquery", label: "Query()"}, {kind: "echo", label: "echo-own"},
		c04merge(fmt.Sprintf("query clock %d", 2*N+2), nil, nil, nil, 1, 2*N+2),
	}
}

// c04unequalEvents / c04unequalQueries: the event ring has size r and the query
// ring size o (resp. the other way round); Lamport times sit around BOTH window
// edges (clock-r and clock-o) and collide in the slots of the ring under test.
func c04unequalEvents(r, o int) []c04act {
	R, O := uint64(r), uint64(o)
	return []c04act{
		c04event(0, "u"), c04event(1, "u"), c04event(R+1, "u"), c04event(2*R+1, "u"), c04event(O+1, "u"), c04event(O+R+1, "u"),
		{kind: "uevent", label: "UserEvent()"},
		c04merge(fmt.Sprintf("event clock %d", 2*R+2), nil, nil, nil, 2*R+2, 1),
		c04merge(fmt.Sprintf("event clock %d", 2*O+2), nil, nil, nil, 2*O+2, 1),
	}
}

func c04unequalQueries(r, o int) []c04act {
	R, O := uint64(r), uint64(o)
	return []c04act{
		c04query(0, 7, false, false), c04query(1, 7, false, false), c04query(R+1, 7, false, false), c04query(2*R+1, 7, false, false), c04query(O+1, 7, false, false), c04query(O+R+1, 7, false, false),
		{kind: "uquery", label: "Query()"},
		c04merge(fmt.Sprintf("query clock %d", 2*R+2), nil, nil, nil, 1, 2*R+2),
		c04merge(fmt.Sprintf("query clock %d", 2*O+2), nil, nil, nil, 1, 2*O+2),
	}
}

func c04mixedAlphabet(deep bool) []c04act {
	all6 := map[string]uint64{"a": 6, "b": 6, "c": 6, "d": 6, "e": 6, "f": 6}
	all5 := map[string]uint64{"a": 5, "b": 5, "c": 5, "d": 5, "e": 5, "f": 5}
	acts := []c04act{
		c04leave("d", 6, false), c04leave("c", 6, true), c04join("b", 6), c04leave("a", 6, false),
		c04event(1, "u"), c04query(1, 7, false, false),
		c04merge("everybody left after 5", all5, []string{"a", "b", "c", "d", "e", "f"}, []c04ev{{1, "u"}}, 2, 2),
	}
	if !deep {
		acts = append(acts, c04merge("everybody joined at 6", all6, nil, nil, 1, 1), c04leave("f", 6, true), c04leave("b", 7, true),
			c04act{kind: "mljoin", node: "b", label: "alive(b)"}, c04act{kind: "advlong", label: "tick(6m)"})
	}
	return acts
}

func c04run(ctx *vc.Ctx) {
	bandIdx := 0
	c04retentionBand(ctx, &bandIdx)
	th := ctx.Thorough()
	var scs []c04scn
	d := 4
	if th {
		d = 5
	}
	for _, x := range []string{"a", "b", "c", "d", "e", "f"} {
		st := "self"
		if x != "a" {
			st = c04stateOf[x]
		}
		if th {
			scs = append(scs, c04scn{name: "intents/" + st + "/wide", n: 4, depth: 4, acts: c04memberAlphabet(x, "wide"), member: x})
			scs = append(scs, c04scn{name: "intents/" + st + "/deep", n: 4, depth: 5, acts: c04memberAlphabet(x, "deep"), member: x})
		} else {
			scs = append(scs, c04scn{name: "intents/" + st, n: 4, depth: 4, acts: c04memberAlphabet(x, "quick"), member: x})
		}
	}
	// members whose record was created from a buffered intent that is still parked
	for _, x := range []string{"g", "h", "i", "j"} {
		st := c04stateOf[x]
		if th {
			scs = append(scs, c04scn{name: "intents/" + st + "/wide", n: 4, depth: 4, acts: c04staleAlphabet(x, "wide"), member: x, stale: []string{x}})
			scs = append(scs, c04scn{name: "intents/" + st + "/deep", n: 4, depth: 5, acts: c04staleAlphabet(x, "deep"), member: x, stale: []string{x}})
		} else {
			scs = append(scs, c04scn{name: "intents/" + st, n: 4, depth: 4, acts: c04staleAlphabet(x, "quick"), member: x, stale: []string{x}})
		}
	}
	for _, n := range []int{2, 4} {
		de := d
		if n == 4 {
			de = 4
		}
		scs = append(scs, c04scn{name: fmt.Sprintf("events/buffer=%d", n), n: n, depth: de, acts: c04eventAlphabet(n)})
		scs = append(scs, c04scn{name: fmt.Sprintf("queries/buffer=%d", n), n: n, depth: de, acts: c04queryAlphabet(n)})
	}
	// unequal event and query rings: each handler must use its own ring size
	for _, p := range [][2]int{{8, 2}, {2, 8}} {
		ne, nq := p[0], p[1]
		scs = append(scs, c04scn{name: fmt.Sprintf("events/buffers=%d,%d", ne, nq), n: ne, nq: nq, depth: d, acts: c04unequalEvents(ne, nq)})
		scs = append(scs, c04scn{name: fmt.Sprintf("queries/buffers=%d,%d", ne, nq), n: ne, nq: nq, depth: d, acts: c04unequalQueries(nq, ne)})
	}
	scs = append(scs, c04scn{name: "mixed", n: 2, depth: d, acts: c04mixedAlphabet(false)})
	if th {
		scs = append(scs, c04scn{name: "mixed/deep", n: 2, depth: 6, acts: c04mixedAlphabet(true)})
	}
	for _, sc := range scs {
		scn := ctx.Scn(sc.name, "states")
		seq := make([]int, sc.depth)
		idx := 0
		for {
			idx++
			if ctx.Mine(idx) {
				c04history(ctx, scn, sc, seq)
			}
			k := sc.depth - 1
			for k >= 0 {
				seq[k]++
				if seq[k] < len(sc.acts) {
					break
				}
				seq[k] = 0
				k--
			}
			if k < 0 {
				break
			}
		}
	}
	c04closures(ctx)
}

func c04history(ctx *vc.Ctx, scn *vc.Scenario, sc c04scn, seq []int) {
	var hist []string
	var viol, sig, final, mismatch string
	nontrivial := false
	x := vsched.Run(vsched.RunOpts{MaxSteps: 2000000}, func() {
		nq := sc.nq
		if nq == 0 {
			nq = sc.n
		}
		c := c04new("a", 0, sc.n, nq, nil, &hist, sc.stale...)
		for _, ai := range seq {
			a := sc.acts[ai]
			hist = append(hist, a.label)
			if c.step(a) {
				nontrivial = true
			}
			if c.viol != "" {
				break
			}
		}
		viol, sig = c.viol, c.sig
		var lts map[string]uint64
		final, lts = c04stateKey(c.n)
		if viol == "" {
			mismatch = c.modelMismatch(lts)
		}
		c.n.S.Shutdown()
	})
	if len(x.Panics) > 0 {
		viol, sig = fmt.Sprintf("history %v: panic %s\n%s", hist, x.Panics[0].Value, x.Panics[0].Stack), "panic "+x.Panics[0].Frame
	} else if !x.RootDone && viol == "" {
		viol, sig = fmt.Sprintf("history %v: the run did not finish: blocked %+v (cap hit %v)", hist, x.Blocked, x.CapHit), "step-blocked"
	}
	scn.Transitions += len(seq)
	scn.AddState(final)
	out := "ok"
	if nontrivial {
		out = "ok-suppressed"
	}
	if mismatch != "" {
		out = "model-differs"
		if len(ctx.Report.Notes) < 3 {
			ctx.Note("%s: history %v: reference member table differs from the node's: %s", scn.Name, hist, mismatch)
		}
	}
	if viol != "" {
		out = sig
		ctx.Violation(scn.Name, sig, viol, map[string]interface{}{"scenario": sc.name, "history": hist})
	}
	scn.Case(out, nontrivial)
	if len(scn.Samples) < 2 && nontrivial {
		scn.Sample(map[string]interface{}{"history": hist, "final_state": final})
	}
}

// ---- closure: two nodes feeding each other ----------------------------------

func c04closureAlphabet(thorough bool) []c04act {
	var acts []c04act
	names := []string{"a1", "a2", "b", "c", "d", "e", "f"}
	lts := []uint64{5, 6, 7}
	if thorough {
		names = []string{"a1", "b", "c", "d", "f"}
		lts = []uint64{6, 7}
	}
	for _, x := range names {
		for _, l := range lts {
			acts = append(acts, c04join(x, l), c04leave(x, l, false), c04leave(x, l, true))
		}
	}
	acts = append(acts, c04event(1, "u"), c04event(3, "u"), c04query(1, 7, false, false), c04query(1, 7, false, true))
	if !thorough {
		acts = append(acts, c04event(1, "v"), c04query(3, 7, false, false), c04query(1, 8, true, false))
	}
	return acts
}

func c04closures(ctx *vc.Ctx) {
	for _, both := range []bool{false, true} {
		k := 2
		acts := c04closureAlphabet(false)
		name := "closure/pairs into a1"
		if both {
			name = "closure/pairs into both"
		}
		c04closureScn(ctx, name, acts, k, both)
	}
	// unequal rings: events and queries only, times around both window edges
	for _, p := range [][2]int{{8, 2}, {2, 8}} {
		var acts []c04act
		for _, l := range []uint64{1, 3, 5, 9, 11} {
			acts = append(acts, c04event(l, "u"), c04query(l, 7, false, false))
		}
		c04closureScn(ctx, fmt.Sprintf("closure/pairs into a1, buffers=%d,%d", p[0], p[1]), acts, 2, false, p[0], p[1])
	}
	if ctx.Thorough() {
		c04closureScn(ctx, "closure/triples into a1", c04closureAlphabet(true), 3, false)
	}
}

func c04closureScn(ctx *vc.Ctx, name string, acts []c04act, k int, both bool, bufs ...int) {
	ne, nq := 2, 2
	if len(bufs) == 2 {
		ne, nq = bufs[0], bufs[1]
	}
	scn := ctx.Scn(name, "cases")
	seq := make([]int, k)
	idx := 0
	for {
		idx++
		if ctx.Mine(idx) {
			c04closure(ctx, scn, acts, seq, both, ne, nq)
		}
		i := k - 1
		for i >= 0 {
			seq[i]++
			if seq[i] < len(acts) {
				break
			}
			seq[i] = 0
			i--
		}
		if i < 0 {
			break
		}
	}
}

func c04closure(ctx *vc.Ctx, scn *vc.Scenario, acts []c04act, seq []int, both bool, ne, nq int) {
	var hist []string
	var viol, sig string
	nontrivial := false
	rounds := 0
	x := vsched.Run(vsched.RunOpts{MaxSteps: 4000000}, func() {
		a1 := c04new("a1", 0, ne, nq, []string{"a2"}, &hist)
		a2 := c04new("a2", 1, ne, nq, []string{"a1"}, &hist)
		distinct := map[string]bool{}
		var to2, to1 [][]byte // queued by a1 for a2, by a2 for a1
		note := func(ms [][]byte) {
			for _, b := range ms {
				distinct[string(b)] = true
			}
		}
		for _, ai := range seq {
			a := acts[ai]
			distinct[string(a.msg)] = true
			hist = append(hist, "a1<-"+a.label)
			out, re := a1.deliver(a.msg)
			if !re {
				nontrivial = true
			}
			note(out)
			to2 = append(to2, out...)
			if both {
				hist = append(hist, "a2<-"+a.label)
				out, re := a2.deliver(a.msg)
				if !re {
					nontrivial = true
				}
				note(out)
				to1 = append(to1, out...)
			}
		}
		for (len(to1) > 0 || len(to2) > 0) && a1.viol == "" && a2.viol == "" {
			rounds++
			if rounds > 4*len(distinct)+2 {
				viol = fmt.Sprintf("injected %v: after %d exchange rounds between two nodes with %d distinct messages ever seen the broadcast queues are still not empty (a1 holds %d, a2 holds %d): the messages are gossiped forever", hist[:len(seq)], rounds-1, len(distinct), len(to2), len(to1))
				sig = "gossip-does-not-die-out between two nodes"
				break
			}
			var n1, n2 [][]byte
			for _, b := range to2 {
				hist = append(hist, "a2<-"+c04parse(b).desc)
				out, re := a2.deliver(b)
				if !re {
					nontrivial = true
				}
				note(out)
				n1 = append(n1, out...)
			}
			for _, b := range to1 {
				hist = append(hist, "a1<-"+c04parse(b).desc)
				out, re := a1.deliver(b)
				if !re {
					nontrivial = true
				}
				note(out)
				n2 = append(n2, out...)
			}
			to1, to2 = n1, n2
		}
		if viol == "" && a1.viol != "" {
			viol, sig = a1.viol, a1.sig
		}
		if viol == "" && a2.viol != "" {
			viol, sig = a2.viol, a2.sig
		}
		a1.n.S.Shutdown()
		a2.n.S.Shutdown()
	})
	if len(x.Panics) > 0 {
		viol, sig = fmt.Sprintf("history %v: panic %s\n%s", hist, x.Panics[0].Value, x.Panics[0].Stack), "panic "+x.Panics[0].Frame
	} else if !x.RootDone && viol == "" {
		viol, sig = fmt.Sprintf("history %v: the run did not finish: blocked %+v (cap hit %v)", hist, x.Blocked, x.CapHit), "step-blocked"
	}
	out := fmt.Sprintf("silent after %d rounds", rounds)
	if viol != "" {
		out = sig
		ctx.Violation(scn.Name, sig, viol, map[string]interface{}{"scenario": scn.Name, "history": hist})
	}
	scn.Case(out, nontrivial)
	if len(scn.Samples) < 2 && rounds >= 3 {
		scn.Sample(map[string]interface{}{"deliveries": hist, "rounds": rounds})
	}
}
