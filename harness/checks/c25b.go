package checks

import (
	"fmt"
	"io"
	"strings"

	"verifharness/vc"
	"verifharness/world"

	"github.com/hashicorp/serf/cmd/serf/command/agent"
	"github.com/hashicorp/serf/serf"
	"github.com/hashicorp/serf/zzverif/vsched"
)

// c25fanoutStreams: the same fan-out as c25fanout, with REAL IPC event streams as the
// handlers (each with its own stream goroutine and a recording client) and the real
// stop sequence of the IPC server (handleStop / deregisterClient: deregister the
// handler, then Stop the stream): an early stream is stopped and a new one is opened
// and stopped while user events are being fanned out. A stream that stays open must
// carry every event exactly once, in order, and nothing may panic.
func c25fanoutStreams(ctx *vc.Ctx, bound int) {
	var recs []*agent.VRecorder
	names := []string{"e1", "e2", "e3"}
	body := func() {
		vsched.Branching(false)
		vsched.StepsIn("agent.(*Agent).eventLoop", "agent.(*Agent).RegisterEventHandler", "agent.(*Agent).DeregisterEventHandler")
		recs = nil
		ac := agent.DefaultConfig()
		ac.NodeName = "a"
		sc := world.NewConfig("a", 0, world.NewTransport(), nil)
		a, err := agent.Create(ac, sc, io.Discard)
		if err != nil {
			panic(err)
		}
		early := agent.VNewEventStream(&agent.VRecorder{}, "user", 90, io.Discard)
		a.RegisterEventHandler(early)
		for i := 0; i < 2; i++ {
			r := &agent.VRecorder{}
			recs = append(recs, r)
			a.RegisterEventHandler(agent.VNewEventStream(r, "user", uint64(100+i), io.Discard))
		}
		if err := a.Start(); err != nil {
			panic(err)
		}
		vsched.Quiesce()
		vsched.Branching(true)
		net := vsched.Spawn("network", func() {
			for i, n := range names {
				sc.MemberlistConfig.Delegate.NotifyMsg(serf.VEncode(serf.VMsgUserEvent, &serf.VMessageUserEvent{LTime: serf.LamportTime(i + 5), Name: n}))
			}
		})
		ipc := vsched.Spawn("ipc-client-handler", func() {
			// stop of the early stream
			a.DeregisterEventHandler(early)
			early.Stop()
			// a new stream is opened and closed again
			y := agent.VNewEventStream(&agent.VRecorder{}, "user", 91, io.Discard)
			a.RegisterEventHandler(y)
			a.DeregisterEventHandler(y)
			y.Stop()
		})
		net.Join()
		ipc.Join()
		vsched.Branching(false)
		vsched.Quiesce()
		a.Shutdown()
		vsched.Quiesce()
	}
	check := func(x *vsched.Exec) (string, string, string) {
		if len(x.Panics) > 0 {
			p := x.Panics[0]
			return "panic", "fan-out to IPC streams: panic " + p.Value + " in " + p.Frame, p.Value + "\n" + p.Stack
		}
		if !x.RootDone {
			return "stuck", "deadlock", fmt.Sprintf("blocked %+v", x.Blocked)
		}
		want := strings.Join(names, ",")
		for i, r := range recs {
			var got []string
			for _, rec := range r.Records {
				if rec.Kind == "user" {
					got = append(got, rec.Name)
				}
			}
			if g := strings.Join(got, ","); g != want {
				return "lost-or-dup", "fan-out to IPC streams: a stream that stayed open missed or repeated an event", fmt.Sprintf("stream %d stayed open while other streams were stopped and opened; user events %s reached the agent in this order, the stream's client was sent [%s]", 100+i, want, g)
			}
		}
		return "all-" + want, "", ""
	}
	ctx.Explore(vc.ExploreOpts{Name: "agent-fan-out/ipc-streams", Bound: bound, MaxSteps: 50000}, body, check)
}
