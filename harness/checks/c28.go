package checks

import (
	"sort"
	"bytes"
	"fmt"
	"regexp"
	"strings"

	"verifharness/vc"

	"github.com/hashicorp/go-msgpack/v2/codec"
	"github.com/hashicorp/logutils"
	"github.com/hashicorp/serf/client"
	"github.com/hashicorp/serf/zzverif/vnet"
	"github.com/hashicorp/serf/zzverif/vsched"
)

// C28: The RPC client never panics and closes subscriber channels once.

type c28reqHeader struct {
	Command string
	Seq     uint64
}
type c28respHeader struct {
	Seq   uint64
	Error string
}

func c28enc(vs ...interface{}) []byte {
	var b bytes.Buffer
	e := codec.NewEncoder(&b, &codec.MsgpackHandle{})
	for _, v := range vs {
		if err := e.Encode(v); err != nil {
			panic(err)
		}
	}
	return b.Bytes()
}

func init() {
	vc.Register(&vc.Check{
		ID:    "C28",
		Level: "exploration",
		Rule: "schedules: all executions within the deviation bound (delay bounding; quick 3, thorough 5; one less for the programs that subscribe on a closed, closing or dropped client) of the real RPCClient (its reader goroutine, the user thread calling Stream/Monitor/Query then Stop and/or Close, and a scripted agent thread answering over an in-memory connection whose reads are scheduling points), with a scheduling point before every statement of respondSeq, deregisterHandler, deregisterAll, Close and the handlers' Handle/Cleanup; per subscriber kind (stream, monitor, query) x user program; non-trivial = at least one non-default choice",
		Assumptions: []string{
			"the agent side is a scripted harness thread speaking the real msgpack wire format; records are sent right after the subscription is confirmed, so they race with Stop/Close",
			"statement-level sequential consistency; a send on a closed channel or a second close surfaces as a panic of the thread that did it",
		},
		Run: c28run,
	})
}

var c28site = regexp.MustCompile(`client\.\(\*\w+\)\.\w+|client\.\w+`)

func c28run(ctx *vc.Ctx) {
	bound := 3
	if ctx.Thorough() {
		bound = 5
	}
	for _, kind := range []string{"stream", "monitor", "query"} {
		progs := []string{"stop", "close", "stop;close"}
		if kind == "query" {
			progs = []string{"close", "wait;close"}
		}
		for _, prog := range progs {
			c28explore(ctx, kind, prog, bound)
		}
		// subscriptions that begin after, or race with, the end of the client: on an explicitly
		// closed client, while another thread closes it, after the agent dropped the connection.
		// The subscribe call may fail; its channel must be closed exactly once all the same.
		for _, prog := range []string{"closed-before", "racing-close", "agent-dropped-before"} {
			c28explore(ctx, kind, prog, bound-1)
		}
	}
}

func c28explore(ctx *vc.Ctx, kind, prog string, bound int) {
	var evCh chan map[string]interface{}
	var logCh chan string
	var ackCh chan string
	var respCh chan client.NodeResponse
	var userErr []string
	var closedOK bool
	var got int
	body := func() {
		vsched.Branching(false)
		vsched.SetHorizon(1000000)
		vsched.StepsIn("client.(*RPCClient).respondSeq", "client.(*RPCClient).deregisterHandler", "client.(*RPCClient).deregisterAll", "client.(*RPCClient).Close",
			"client.(*streamHandler).Handle", "client.(*streamHandler).Cleanup", "client.(*monitorHandler).Handle", "client.(*monitorHandler).Cleanup",
			"client.(*queryHandler).Handle", "client.(*queryHandler).Cleanup", "client.(*RPCClient).listen")
		evCh = make(chan map[string]interface{}, 8)
		logCh = make(chan string, 8)
		ackCh = make(chan string, 8)
		respCh = make(chan client.NodeResponse, 8)
		userErr = nil
		closedOK = false
		got = 0
		pipe := vnet.NewPipe()
		vnet.OnDial = func(network, addr string) (*vnet.TCPConn, error) { return pipe.Client, nil }
		defer func() { vnet.OnDial = nil }()
		// scripted agent
		server := vsched.Spawn("agent", func() {
			dec := codec.NewDecoder(pipe.ServerReader(), &codec.MsgpackHandle{})
			for {
				var h c28reqHeader
				if err := dec.Decode(&h); err != nil {
					return
				}
				var bodyAny map[string]interface{}
				if err := dec.Decode(&bodyAny); err != nil {
					return
				}
				switch h.Command {
				case "handshake", "stop":
					pipe.Feed(c28enc(&c28respHeader{Seq: h.Seq}))
				case "stream":
					pipe.Feed(c28enc(&c28respHeader{Seq: h.Seq}))
					for i := 0; i < 2; i++ {
						pipe.Feed(c28enc(&c28respHeader{Seq: h.Seq}, map[string]interface{}{"Event": "user", "Name": fmt.Sprintf("e%d", i)}))
					}
				case "monitor":
					pipe.Feed(c28enc(&c28respHeader{Seq: h.Seq}))
					for i := 0; i < 2; i++ {
						pipe.Feed(c28enc(&c28respHeader{Seq: h.Seq}, map[string]interface{}{"Log": fmt.Sprintf("line%d", i)}))
					}
				case "query":
					pipe.Feed(c28enc(&c28respHeader{Seq: h.Seq}))
					pipe.Feed(c28enc(&c28respHeader{Seq: h.Seq}, map[string]interface{}{"Type": "ack", "From": "b"}))
					pipe.Feed(c28enc(&c28respHeader{Seq: h.Seq}, map[string]interface{}{"Type": "response", "From": "b", "Payload": []byte("x")}))
					pipe.Feed(c28enc(&c28respHeader{Seq: h.Seq}, map[string]interface{}{"Type": "done"}))
				default:
					pipe.Feed(c28enc(&c28respHeader{Seq: h.Seq, Error: "unsupported"}))
				}
			}
		})
		_ = server
		cl, err := client.ClientFromConfig(&client.Config{Addr: "agent:7373"})
		if err != nil {
			userErr = append(userErr, "connect: "+err.Error())
			return
		}
		late := prog == "closed-before" || prog == "racing-close" || prog == "agent-dropped-before"
		switch prog {
		case "closed-before":
			cl.Close()
			vsched.Quiesce()
		case "agent-dropped-before":
			pipe.CloseServer()
			vsched.Quiesce()
		}
		vsched.Branching(true)
		var closer vsched.Handle
		if prog == "racing-close" {
			closer = vsched.Spawn("closer", func() { cl.Close() })
		}
		user := vsched.Spawn("user", func() {
			var handle client.StreamHandle
			var err error
			switch kind {
			case "stream":
				handle, err = cl.Stream("*", evCh)
			case "monitor":
				handle, err = cl.Monitor(logutils.LogLevel("DEBUG"), logCh)
			case "query":
				err = cl.Query(&client.QueryParam{Name: "q", AckCh: ackCh, RespCh: respCh, RequestAck: true})
			}
			if err != nil {
				userErr = append(userErr, kind+": "+err.Error())
				return
			}
			if late {
				return
			}
			for _, op := range strings.Split(prog, ";") {
				switch op {
				case "stop":
					if err := cl.Stop(handle); err != nil {
						userErr = append(userErr, "stop: "+err.Error())
					}
				case "close":
					cl.Close()
				case "wait":
					vsched.Sleep(1000, "user-wait")
				}
			}
		})
		user.Join()
		if prog == "racing-close" {
			closer.Join()
		}
		vsched.Branching(false)
		vsched.Quiesce()
		cl.Close()
		pipe.CloseServer()
		vsched.Quiesce()
		switch kind {
		case "stream":
			closedOK = !c07drain((<-chan map[string]interface{})(evCh), func(map[string]interface{}) { got++ })
		case "monitor":
			closedOK = !c07drain((<-chan string)(logCh), func(string) { got++ })
		case "query":
			a := !c07drain((<-chan string)(ackCh), func(string) { got++ })
			r := !c07drain((<-chan client.NodeResponse)(respCh), func(client.NodeResponse) { got++ })
			closedOK = a && r
		}
	}
	check := func(x *vsched.Exec) (string, string, string) {
		if len(x.Panics) > 0 {
			p := x.Panics[0]
			site := c28site.FindString(p.Frame)
			if site == "" {
				site = p.Frame
			}
			return "panic", "panic: " + p.Value + " in " + site, fmt.Sprintf("%s subscriber, user program %q: thread %s panicked: %s\n%s", kind, prog, p.Thread, p.Value, p.Stack)
		}
		if !x.RootDone {
			var who []string
			for _, b := range x.Blocked {
				if b.Thread != "root" && b.Thread != "agent" {
					who = append(who, fmt.Sprintf("%s in %s", b.Thread, b.Where))
				}
			}
			sort.Strings(who)
			return "stuck", "deadlock: " + strings.Join(who, ", "), fmt.Sprintf("%s subscriber, user program %q: no thread can run; blocked: %+v", kind, prog, x.Blocked)
		}
		lateProg := prog == "closed-before" || prog == "racing-close" || prog == "agent-dropped-before"
		if len(userErr) > 0 && !lateProg {
			return "user-error:" + strings.Join(userErr, ","), "", ""
		}
		if !closedOK {
			return "open", "subscriber-channel-not-closed " + kind, fmt.Sprintf("%s subscriber, user program %q: after Close() the subscriber channel is still open", kind, prog)
		}
		return fmt.Sprintf("closed,got=%d,errs=%d", got, len(userErr)), "", ""
	}
	ctx.Explore(vc.ExploreOpts{Name: kind + "/" + prog, Bound: bound, MaxSteps: 20000}, body, check)
}
