package checks

import (
	"fmt"
	"net"
	"strings"

	"verifharness/vc"
)

// C11, second part: the node crashes, restarts from the crash image, keeps
// running (more events, more compactions over whatever the crash left in the
// directory, e.g. a stale <snapshot>.compact), shuts down and restarts again.
// The second restart must give exactly the state the first restart recovered plus
// the changes made after it.

// c11parse reads complete lines of a snapshot file into a state.
func c11parse(content string) *c11st {
	st := c11newst()
	for {
		i := strings.IndexByte(content, '\n')
		if i < 0 {
			break
		}
		line := content[:i]
		content = content[i+1:]
		num := func(p string) uint64 {
			var v uint64
			fmt.Sscanf(line[len(p):], "%d", &v)
			return v
		}
		switch {
		case strings.HasPrefix(line, "alive: "):
			rest := line[len("alive: "):]
			if j := strings.LastIndexByte(rest, ' '); j >= 0 {
				st.alive[rest[:j]] = rest[j+1:]
			}
		case strings.HasPrefix(line, "not-alive: "):
			delete(st.alive, line[len("not-alive: "):])
		case strings.HasPrefix(line, "clock: "):
			st.clock = num("clock: ")
		case strings.HasPrefix(line, "event-clock: "):
			st.eclock = num("event-clock: ")
		case strings.HasPrefix(line, "query-clock: "):
			st.qclock = num("query-clock: ")
		case line == "leave":
			st = c11newst()
		}
	}
	return st
}

// c11simFrom applies the symbols to a restarted node whose snapshot gave st.
func c11simFrom(st *c11st, syms string) string {
	lamport := st.clock + 1 // serf.Create: Increment, then Witness(recorded clock)
	if lamport < 1 {
		lamport = 1
	}
	memClock, memE, memQ := st.clock, st.eclock, st.qclock
	clockCheck := func() {
		if seen := lamport - 1; seen > memClock {
			memClock = seen
			st.clock = seen
		}
	}
	for i := 0; i < len(syms); i++ {
		switch sym := syms[i]; sym {
		case 'a', 'A', 'b', 'x':
			n, ip, port := c11member(sym)
			st.alive[n] = (&net.TCPAddr{IP: ip, Port: int(port)}).String()
			clockCheck()
		case 'l', 'f':
			n, _, _ := c11member(sym)
			delete(st.alive, n)
			clockCheck()
		case 'u', 'U':
			t := uint64(1)
			if sym == 'U' {
				t = 3
			}
			if t > memE {
				memE = t
				st.eclock = t
			}
		case 'q':
			if 2 > memQ {
				memQ = 2
				st.qclock = 2
			}
		case 'c':
			lamport++
		case 'w', 't':
			clockCheck()
		}
	}
	clockCheck()
	return st.key()
}

func c11continueRun(ctx *vc.Ctx, idx *int) {
	maxLen := 3
	conts := []string{"lcw", "fl", "cbw"}
	if ctx.Thorough() {
		maxLen = 4
		conts = append(conts, "lfcw", "Acl")
	}
	for _, mc := range []int{1, 64} {
		scn := ctx.Scn(fmt.Sprintf("crash+continue/len<=%d/minCompact=%d", maxLen, mc), "crash_images")
		c11histories(c11alphabet, maxLen, func(h string) {
			if !strings.ContainsAny(h, "aAb") {
				return // nothing alive: the continuation could not shrink anything
			}
			*idx++
			if !ctx.Mine(*idx) {
				return
			}
			r := c11exec(c11opts{minCompact: mc, syms: h})
			if len(r.x.Panics) > 0 || !r.rootEnd {
				return // reported by the first part
			}
			ops := r.fs.Log
			seen := map[[16]byte]bool{}
			for k := 1; k <= len(ops); k++ {
				img := ops[k-1].Image
				if img == nil {
					continue
				}
				ik := c11imageKey(img)
				if seen[ik] {
					continue
				}
				seen[ik] = true
				_, stale := img[c11tmp]
				first := c11recover(img)
				if first.fail != "" {
					continue // reported by the first part
				}
				for _, cont := range conts {
					r2 := c11exec(c11opts{minCompact: mc, syms: cont, image: img})
					out := "ok"
					if len(r2.x.Panics) > 0 {
						out = "panic after restart from a crash image: " + c11serfFrame(r2.x.Panics[0].Stack)
						ctx.Violation(scn.Name, out, fmt.Sprintf("history %q minCompact=%d, crash after op %d (%s), restart, then %q: %s", h, mc, k, c11opName(&ops[k-1]), cont, r2.x.Panics[0].Value), nil)
					} else if r2.rootEnd {
						want := c11simFrom(c11parse(img[c11path]), cont)
						got := c11recover(r2.fs.Image())
						if got.fail != "" || got.key != want {
							pos := "other"
							if stale {
								pos = "stale temporary file present"
							}
							out = "state wrong after crash, restart, more events and a second restart (" + pos + ")"
							ctx.Violation(scn.Name, out, fmt.Sprintf(
								"history %q minCompactSize=%d: crash after file operation %d (%s); directory then: %s\nthe restarted node recovered [%s], then processed %q and shut down cleanly; a second restart gives [%s]%s, expected [%s]\nfinal directory: %s",
								h, mc, k, c11opName(&ops[k-1]), c11imageText(img), first.key, cont, got.key, got.fail, want, c11imageText(r2.fs.Image())), map[string]interface{}{"history": h, "min_compact": mc, "point": k, "continuation": cont})
						}
					}
					scn.Case(out, stale)
				}
			}
		})
		scn.Sample(map[string]string{"history": "aab, crash inside the compaction swap, restart, continuation lcw, restart", "expected": "recovered state of the first restart with a removed, clock advanced"})
	}
}
