package checks

import (
	"encoding/json"
	"fmt"
	"os"
	"path/filepath"
	"reflect"
	"sort"
	"strings"
	"time"

	"verifharness/vc"

	"github.com/hashicorp/serf/cmd/serf/command/agent"
)

// C31: Configuration sources layer predictably without side effects.
//
// The settings are discovered by reflection over agent.Config, so a field that
// is added to the struct (or forgotten in MergeConfig) takes part in the
// enumeration with the rule of its type:
//   string, int, duration : later value if it is not the zero value, else earlier
//   bool                  : earlier || later  (EnableCompression: later)
//   map[string]string     : union, later wins
//   []string              : earlier ++ later
// "<X>Raw" strings that sit next to a duration <X> are the unparsed file form of
// that duration; they are an input representation, not a setting, and are left
// out of the value oracle (they still take part in the immutability and
// associativity comparisons).

type c31leaf struct {
	path  string
	index []int
	kind  string // string | int | duration | bool | tags | list | raw
	ord   int
	key   []string // configuration file key path ("" = not settable from a file)
	raw   int      // duration: index of the leaf holding its raw file form, else -1
	nlev  int      // size of the value domain
}

var c31durT = reflect.TypeOf(time.Duration(0))

func c31leaves(ctx *vc.Ctx) []*c31leaf {
	var out []*c31leaf
	ok := true
	var walk func(t reflect.Type, prefix string, index []int, keys []string)
	walk = func(t reflect.Type, prefix string, index []int, keys []string) {
		for i := 0; i < t.NumField(); i++ {
			f := t.Field(i)
			if !f.IsExported() {
				continue
			}
			idx := append(append([]int{}, index...), i)
			key := f.Tag.Get("mapstructure")
			if i := strings.Index(key, ","); i >= 0 {
				key = key[:i]
			}
			if key == "" {
				key = f.Name
			}
			ks := append(append([]string{}, keys...), key)
			if key == "-" {
				ks = nil
			}
			l := &c31leaf{path: prefix + f.Name, index: idx, key: ks, raw: -1}
			switch {
			case f.Type == c31durT:
				l.kind, l.nlev = "duration", 3
			case f.Type.Kind() == reflect.Struct:
				walk(f.Type, prefix+f.Name+".", idx, ks)
				continue
			case f.Type.Kind() == reflect.String:
				l.kind, l.nlev = "string", 3
			case f.Type.Kind() == reflect.Int:
				l.kind, l.nlev = "int", 3
			case f.Type.Kind() == reflect.Bool:
				l.kind, l.nlev = "bool", 2
			case f.Type == reflect.TypeOf(map[string]string(nil)):
				l.kind, l.nlev = "tags", 4
			case f.Type == reflect.TypeOf([]string(nil)):
				l.kind, l.nlev = "list", 4
			default:
				ctx.Fail("C31: agent.Config field %s has type %s, which the check does not know how to layer; extend c31leaves", l.path, f.Type)
				ok = false
				continue
			}
			l.ord = len(out)
			out = append(out, l)
		}
	}
	walk(reflect.TypeOf(agent.Config{}), "", nil, nil)
	if !ok {
		return nil
	}
	// pair every duration with its raw file form
	byPath := map[string]*c31leaf{}
	for _, l := range out {
		byPath[l.path] = l
	}
	for _, l := range out {
		if l.kind == "string" && strings.HasSuffix(l.path, "Raw") {
			if d := byPath[strings.TrimSuffix(l.path, "Raw")]; d != nil && d.kind == "duration" {
				l.kind = "raw"
				d.raw = l.ord
			}
		}
	}
	return out
}

// gen builds a fresh value of the leaf's domain; level 0 is "unset".
func (l *c31leaf) gen(level int) interface{} {
	lv := level % l.nlev
	switch l.kind {
	case "string":
		if lv == 0 {
			return ""
		}
		return fmt.Sprintf("%s-%d", l.path, lv)
	case "raw":
		return []string{"", "1s", "2s"}[lv]
	case "int":
		if lv == 0 {
			return 0
		}
		return 10 + 2*l.ord + lv
	case "duration":
		if lv == 0 {
			return time.Duration(0)
		}
		return time.Duration(l.ord+1)*time.Second + time.Duration(lv)*time.Millisecond
	case "bool":
		return lv == 1
	case "tags":
		switch lv {
		case 0:
			return map[string]string(nil)
		case 1:
			return map[string]string{}
		case 2:
			return map[string]string{"a": "1"}
		}
		return map[string]string{"a": "2", "b": "1"}
	case "list":
		// lists carry spare capacity filled with a sentinel: an append into the
		// input's backing array is a modification of the input
		var elems []string
		switch lv {
		case 0:
			return []string(nil)
		case 1:
			elems = []string{l.path + "-x"}
		case 2:
			elems = []string{l.path + "-y", l.path + "-z"}
		}
		s := make([]string, len(elems), len(elems)+3)
		copy(s, elems)
		full := s[:cap(s)]
		for i := len(elems); i < len(full); i++ {
			full[i] = "~spare"
		}
		return s
	}
	panic("c31: kind " + l.kind)
}

func c31field(c *agent.Config, l *c31leaf) reflect.Value {
	return reflect.ValueOf(c).Elem().FieldByIndex(l.index)
}

func c31build(ls []*c31leaf, level func(l *c31leaf) int) *agent.Config {
	c := &agent.Config{}
	for _, l := range ls {
		c31field(c, l).Set(reflect.ValueOf(l.gen(level(l))))
	}
	return c
}

// c31clone copies a configuration deeply, spare slice capacity included.
func c31clone(ls []*c31leaf, c *agent.Config) *agent.Config {
	n := *c
	for _, l := range ls {
		v := c31field(c, l)
		switch l.kind {
		case "tags":
			if m, _ := v.Interface().(map[string]string); m != nil {
				cp := make(map[string]string, len(m))
				for k, x := range m {
					cp[k] = x
				}
				c31field(&n, l).Set(reflect.ValueOf(cp))
			}
		case "list":
			if s, _ := v.Interface().([]string); s != nil {
				full := s[:cap(s)]
				cp := make([]string, len(full))
				copy(cp, full)
				c31field(&n, l).Set(reflect.ValueOf(cp[:len(s)]))
			}
		}
	}
	return &n
}

// c31canon renders a value with nil and empty collections identified.
func c31canon(kind string, v interface{}) string {
	switch kind {
	case "tags":
		m := v.(map[string]string)
		var ks []string
		for k := range m {
			ks = append(ks, k)
		}
		sort.Strings(ks)
		s := "{"
		for _, k := range ks {
			s += fmt.Sprintf("%s:%q ", k, m[k])
		}
		return s + "}"
	case "list":
		return fmt.Sprintf("%q", append([]string{}, v.([]string)...))
	}
	return fmt.Sprintf("%#v", v)
}

// c31strict renders a value exactly (nil vs empty, spare capacity) for the
// immutability comparison.
func c31strict(kind string, v interface{}) string {
	switch kind {
	case "tags":
		if v.(map[string]string) == nil {
			return "nil"
		}
	case "list":
		s := v.([]string)
		if s == nil {
			return "nil"
		}
		return fmt.Sprintf("len=%d backing=%q", len(s), s[:cap(s)])
	}
	return c31canon(kind, v)
}

// c31equal compares two values of a leaf without rendering them; strict
// distinguishes nil from empty and looks at the spare capacity of lists.
func c31equal(kind string, a, b interface{}, strict bool) bool {
	switch kind {
	case "tags":
		x, y := a.(map[string]string), b.(map[string]string)
		if strict && (x == nil) != (y == nil) {
			return false
		}
		if len(x) != len(y) {
			return false
		}
		for k, v := range x {
			if w, ok := y[k]; !ok || w != v {
				return false
			}
		}
		return true
	case "list":
		x, y := a.([]string), b.([]string)
		if strict {
			if (x == nil) != (y == nil) || len(x) != len(y) {
				return false
			}
			x, y = x[:cap(x)], y[:cap(y)]
		}
		if len(x) != len(y) {
			return false
		}
		for i := range x {
			if x[i] != y[i] {
				return false
			}
		}
		return true
	}
	return a == b
}

func c31isSet(kind string, v interface{}) bool {
	switch kind {
	case "string", "raw":
		return v.(string) != ""
	case "int":
		return v.(int) != 0
	case "duration":
		return v.(time.Duration) != 0
	case "bool":
		return v.(bool)
	case "tags":
		return len(v.(map[string]string)) > 0
	case "list":
		return len(v.([]string)) > 0
	}
	return false
}

func c31setWord(b bool) string {
	if b {
		return "set"
	}
	return "unset"
}

// c31ref is the layering rule of the property for one setting.
func c31ref(l *c31leaf, a, b interface{}) interface{} {
	switch l.kind {
	case "string", "int", "duration":
		if c31isSet(l.kind, b) {
			return b
		}
		return a
	case "bool":
		if l.path == "EnableCompression" {
			return b
		}
		return a.(bool) || b.(bool)
	case "tags":
		out := map[string]string{}
		for k, v := range a.(map[string]string) {
			out[k] = v
		}
		for k, v := range b.(map[string]string) {
			out[k] = v
		}
		return out
	case "list":
		return append(append([]string{}, a.([]string)...), b.([]string)...)
	}
	panic("c31ref: " + l.kind)
}

type c31env struct {
	ctx      *vc.Ctx
	ls       []*c31leaf
	reported map[string]bool
	firstSig string // first signature raised in the current case
	inputMod bool   // a call of the current case changed one of its own arguments
}

func (e *c31env) violation(scn, sig string, msg func() string) {
	if e.firstSig == "" {
		e.firstSig = sig
	}
	if e.reported[sig] {
		return
	}
	e.reported[sig] = true
	e.ctx.Violation(scn, sig, msg(), nil)
}

func (e *c31env) show(c *agent.Config, l *c31leaf) string {
	return c31strict(l.kind, c31field(c, l).Interface())
}

// merge calls the real MergeConfig and checks the call on its own: the value of
// every setting and the integrity of both arguments.
func (e *c31env) merge(scn, what string, x, y *agent.Config) *agent.Config {
	x0, y0 := c31clone(e.ls, x), c31clone(e.ls, y)
	r := agent.MergeConfig(x, y)
	if r == nil {
		e.violation(scn, "nil-result", func() string { return what + ": MergeConfig returned nil" })
		return &agent.Config{}
	}
	for _, l := range e.ls {
		l := l
		for ai, pair := range [][2]*agent.Config{{x, x0}, {y, y0}} {
			if !c31equal(l.kind, c31field(pair[0], l).Interface(), c31field(pair[1], l).Interface(), true) {
				arg := []string{"first", "second"}[ai]
				e.inputMod = true
				e.violation(scn, fmt.Sprintf("input-modified: %s argument .%s", arg, l.path), func() string {
					return fmt.Sprintf("%s: MergeConfig(a, b) with a.%s=%s b.%s=%s changed its %s argument: .%s is %s after the call (was %s)",
						what, l.path, e.show(x0, l), l.path, e.show(y0, l), arg, l.path, e.show(pair[0], l), e.show(pair[1], l))
				})
			}
		}
		if l.kind == "raw" {
			continue
		}
		av, bv := c31field(x0, l).Interface(), c31field(y0, l).Interface()
		wantV, gotV := c31ref(l, av, bv), c31field(r, l).Interface()
		if !c31equal(l.kind, wantV, gotV, false) {
			want, got := c31canon(l.kind, wantV), c31canon(l.kind, gotV)
			e.violation(scn, fmt.Sprintf("wrong-value: %s [earlier %s, later %s]", l.path, c31setWord(c31isSet(l.kind, av)), c31setWord(c31isSet(l.kind, bv))), func() string {
				return fmt.Sprintf("%s: earlier source has %s=%s, later source has %s=%s: merged value is %s, the layering rule gives %s",
					what, l.path, c31canon(l.kind, av), l.path, c31canon(l.kind, bv), got, want)
			})
		}
	}
	return r
}

func (e *c31env) anySet(c *agent.Config) bool {
	for _, l := range e.ls {
		if c31isSet(l.kind, c31field(c, l).Interface()) {
			return true
		}
	}
	return false
}

func init() {
	vc.Register(&vc.Check{
		ID:    "C31",
		Level: "exploration",
		Rule: "cases: the settings are the exported leaf fields of agent.Config found by reflection (MDNS.* included), each with the domain {unset, v1, v2} (switches {off, on}; tags {nil, {}, {a:1}, {a:2,b:1}}; lists {nil, [], [x], [y,z]} with spare capacity). " +
			"pairs: all 16 uniform level pairs; every field x every (earlier, later) value pair x 9 backgrounds for the other fields; every pair of fields x every value combination (others unset). " +
			"triples (associativity, both groupings run on fresh copies): 64 uniform level triples; every field x every value triple x 3 (thorough 27) backgrounds; thorough: every pair of fields x every value combination. " +
			"files: the same configurations written as JSON: every sequence of 1-3 uniform-level files, every field x value pair in 2 files (thorough: x value triple in 3 files), each read as a path list, as a path list interleaved with directories that contain no .json file, as one directory (with decoy non-.json file and sub-directory) and as file + directory. " +
			"Every MergeConfig call is checked by itself (value of every setting against the layering rule, both arguments unchanged incl. backing arrays). non-trivial = some later source sets at least one setting",
		Assumptions: []string{
			"a setting is 'set' when it differs from the zero value of its type (nil and empty maps/lists are equivalent); negative numbers are outside the domain (the command line uses -1 for 'protocol not given')",
			"the *Raw strings next to parsed durations are the file representation of those durations, not settings: excluded from the value oracle, included in the immutability and associativity comparisons",
			"fields are layered independently: interference is looked for between at most two fields at a time (plus uniform backgrounds), not among arbitrary subsets of the ~50 fields",
			"directory sources: files ending in .json, one level deep, in lexical order (documented for -config-dir); configuration keys are the mapstructure tags (field name when there is none)",
			"'never modifies its inputs' covers everything reachable from the two arguments, including the spare capacity of their slices; aliasing between the result and an input is not by itself a violation",
		},
		Run: c31run,
	})
}

func c31run(ctx *vc.Ctx) {
	if ctx.Replay != nil {
		return
	}
	ls := c31leaves(ctx)
	if ls == nil {
		return
	}
	e := &c31env{ctx: ctx, ls: ls, reported: map[string]bool{}}
	idx := 0
	c31pairs(e, &idx)
	c31triples(e, &idx)
	c31files(e, &idx)
}

func (e *c31env) endCase(scn *vc.Scenario, nontrivial bool) {
	out := "ok"
	if e.firstSig != "" {
		out = e.firstSig
		if len(scn.Outcomes) > 40 && scn.Outcomes[out] == 0 {
			out = "(other failure)"
		}
	}
	scn.Case(out, nontrivial)
	e.firstSig, e.inputMod = "", false
}

// c31combos enumerates all value-level tuples of length n for a leaf.
func c31combos(l *c31leaf, n int) [][]int {
	out := [][]int{nil}
	for i := 0; i < n; i++ {
		var nx [][]int
		for _, p := range out {
			for v := 0; v < l.nlev; v++ {
				nx = append(nx, append(append([]int{}, p...), v))
			}
		}
		out = nx
	}
	return out
}

func c31pairs(e *c31env, idx *int) {
	ctx, ls := e.ctx, e.ls
	scn := ctx.Scn("merge/pairs", "cases")
	run := func(what string, la, lb func(l *c31leaf) int) {
		*idx++
		if !ctx.Mine(*idx) {
			return
		}
		a, b := c31build(ls, la), c31build(ls, lb)
		nt := e.anySet(b)
		e.merge(scn.Name, what, a, b)
		e.endCase(scn, nt)
	}
	for la := 0; la < 4; la++ {
		for lb := 0; lb < 4; lb++ {
			la, lb := la, lb
			run(fmt.Sprintf("all fields at level %d merged with all fields at level %d", la, lb),
				func(*c31leaf) int { return la }, func(*c31leaf) int { return lb })
		}
	}
	for _, f := range ls {
		for _, v := range c31combos(f, 2) {
			for ga := 0; ga < 3; ga++ {
				for gb := 0; gb < 3; gb++ {
					f, v, ga, gb := f, v, ga, gb
					run(fmt.Sprintf("%s levels %v, other fields at levels (%d,%d)", f.path, v, ga, gb),
						func(l *c31leaf) int {
							if l == f {
								return v[0]
							}
							return ga
						}, func(l *c31leaf) int {
							if l == f {
								return v[1]
							}
							return gb
						})
				}
			}
		}
	}
	for i, f := range ls {
		fc := c31combos(f, 2)
		for _, g := range ls[i+1:] {
			gc := c31combos(g, 2)
			for _, v := range fc {
				for _, w := range gc {
					f, g, v, w := f, g, v, w
					lev := func(k int) func(l *c31leaf) int {
						return func(l *c31leaf) int {
							switch l {
							case f:
								return v[k]
							case g:
								return w[k]
							}
							return 0
						}
					}
					run(fmt.Sprintf("%s levels %v and %s levels %v, other fields unset", f.path, v, g.path, w), lev(0), lev(1))
				}
			}
		}
	}
	scn.Sample(map[string]string{"earlier": `{NodeName:"n1" Tags:{a:1} StartJoin:[x] LeaveOnTerm:true EnableCompression:true}`, "later": `{Tags:{a:2,b:1} StartJoin:[y,z]}`, "expected": `{NodeName:"n1" Tags:{a:2,b:1} StartJoin:[x,y,z] LeaveOnTerm:true EnableCompression:false}; inputs unchanged`})
}

func c31triples(e *c31env, idx *int) {
	ctx, ls := e.ctx, e.ls
	scn := ctx.Scn("merge/triples", "cases")
	run := func(what string, lev [3]func(l *c31leaf) int) {
		*idx++
		if !ctx.Mine(*idx) {
			return
		}
		mk := func() (a, b, c *agent.Config) {
			return c31build(ls, lev[0]), c31build(ls, lev[1]), c31build(ls, lev[2])
		}
		a, b, c := mk()
		a0, b0, c0 := mk()
		nt := e.anySet(b) || e.anySet(c)
		left := e.merge(scn.Name, what+" [(a+b)+c, inner]", a, b)
		left = e.merge(scn.Name, what+" [(a+b)+c, outer]", left, c)
		for i, p := range [][2]*agent.Config{{a, a0}, {b, b0}, {c, c0}} {
			for _, l := range ls {
				if !e.inputMod && !c31equal(l.kind, c31field(p[0], l).Interface(), c31field(p[1], l).Interface(), true) {
					l, p, i := l, p, i
					e.violation(scn.Name, "input-modified-through-alias: ."+l.path, func() string {
						return fmt.Sprintf("%s: after (a+b)+c source %d has %s=%s (was %s) although no single call changed its own arguments", what, i+1, l.path, e.show(p[0], l), e.show(p[1], l))
					})
				}
			}
		}
		a2, b2, c2 := mk()
		right := e.merge(scn.Name, what+" [a+(b+c), inner]", b2, c2)
		right = e.merge(scn.Name, what+" [a+(b+c), outer]", a2, right)
		for _, l := range ls {
			if !c31equal(l.kind, c31field(left, l).Interface(), c31field(right, l).Interface(), false) {
				l := l
				lv, rv := c31canon(l.kind, c31field(left, l).Interface()), c31canon(l.kind, c31field(right, l).Interface())
				e.violation(scn.Name, "not-associative: "+l.path, func() string {
					return fmt.Sprintf("%s: %s is %s in (a+b)+c but %s in a+(b+c); a=%s b=%s c=%s", what, l.path, lv, rv, e.show(a0, l), e.show(b0, l), e.show(c0, l))
				})
			}
		}
		e.endCase(scn, nt)
	}
	for x := 0; x < 64; x++ {
		x := x
		run(fmt.Sprintf("all fields at levels (%d,%d,%d)", x/16, x/4%4, x%4), [3]func(*c31leaf) int{
			func(*c31leaf) int { return x / 16 }, func(*c31leaf) int { return x / 4 % 4 }, func(*c31leaf) int { return x % 4 }})
	}
	bgs := [][3]int{{0, 0, 0}, {1, 2, 1}, {2, 1, 2}}
	if ctx.Thorough() {
		bgs = nil
		for x := 0; x < 27; x++ {
			bgs = append(bgs, [3]int{x / 9, x / 3 % 3, x % 3})
		}
	}
	for _, f := range ls {
		for _, v := range c31combos(f, 3) {
			for _, bg := range bgs {
				f, v, bg := f, v, bg
				var lev [3]func(*c31leaf) int
				for k := 0; k < 3; k++ {
					k := k
					lev[k] = func(l *c31leaf) int {
						if l == f {
							return v[k]
						}
						return bg[k]
					}
				}
				run(fmt.Sprintf("%s levels %v, other fields at levels %v", f.path, v, bg), lev)
			}
		}
	}
	if ctx.Thorough() {
		for i, f := range ls {
			fc := c31combos(f, 3)
			for _, g := range ls[i+1:] {
				gc := c31combos(g, 3)
				for _, v := range fc {
					for _, w := range gc {
						f, g, v, w := f, g, v, w
						var lev [3]func(*c31leaf) int
						for k := 0; k < 3; k++ {
							k := k
							lev[k] = func(l *c31leaf) int {
								switch l {
								case f:
									return v[k]
								case g:
									return w[k]
								}
								return 0
							}
						}
						run(fmt.Sprintf("%s levels %v and %s levels %v, other fields unset", f.path, v, g.path, w), lev)
					}
				}
			}
		}
	}
	scn.Sample(map[string]string{"a": `{Tags:{a:1} Profile:"p1"}`, "b": `{Tags:{a:2,b:1}}`, "c": `{Profile:"p2" RetryJoin:[x]}`, "expected": "(a+b)+c == a+(b+c) == {Tags:{a:2,b:1} Profile:p2 RetryJoin:[x]}; a, b, c unchanged"})
}

// ---- files -----------------------------------------------------------------

// c31json renders the file form of a configuration (nil = key absent).
func c31json(ls []*c31leaf, level func(l *c31leaf) int) []byte {
	root := map[string]interface{}{}
	put := func(keys []string, v interface{}) {
		m := root
		for _, k := range keys[:len(keys)-1] {
			sub, _ := m[k].(map[string]interface{})
			if sub == nil {
				sub = map[string]interface{}{}
				m[k] = sub
			}
			m = sub
		}
		m[keys[len(keys)-1]] = v
	}
	for _, l := range ls {
		lv := level(l) % l.nlev
		switch l.kind {
		case "raw":
			continue
		case "duration":
			if l.raw >= 0 && ls[l.raw].key != nil && lv != 0 {
				put(ls[l.raw].key, l.gen(lv).(time.Duration).String())
			}
			continue
		}
		if l.key == nil {
			continue
		}
		switch l.kind {
		case "bool":
			// off is written explicitly at the odd "off" level of 4-level enumerations
			if lv == 1 {
				put(l.key, true)
			} else if level(l) == 2 {
				put(l.key, false)
			}
		case "tags":
			if lv != 0 {
				put(l.key, l.gen(lv))
			}
		case "list":
			if lv != 0 {
				put(l.key, append([]string{}, l.gen(lv).([]string)...))
			}
		default:
			if lv != 0 {
				put(l.key, l.gen(lv))
			}
		}
	}
	b, err := json.Marshal(root)
	if err != nil {
		panic(err)
	}
	return b
}

// c31fileSettable reports whether the file form can express the leaf.
func c31fileSettable(ls []*c31leaf, l *c31leaf) bool {
	switch l.kind {
	case "raw":
		return false
	case "duration":
		return l.raw >= 0 && ls[l.raw].key != nil
	}
	return l.key != nil
}

func c31files(e *c31env, idx *int) {
	ctx, ls := e.ctx, e.ls
	scn := ctx.Scn("files", "cases")
	tmp, err := os.MkdirTemp("", "verif-c31-")
	if err != nil {
		ctx.Fail("C31: %v", err)
		return
	}
	defer os.RemoveAll(tmp)
	caseNo := 0
	names := []string{"a.json", "b.json", "c.json"}
	run := func(what string, lev []func(l *c31leaf) int) {
		forms := []string{"paths", "paths+nojson-dirs"}
		if len(lev) >= 1 {
			forms = append(forms, "dir")
		}
		if len(lev) >= 2 {
			forms = append(forms, "file+dir")
		}
		for _, form := range forms {
			*idx++
			if !ctx.Mine(*idx) {
				continue
			}
			what := what + " read as " + form
			caseNo++
			dir := filepath.Join(tmp, fmt.Sprintf("c%d", caseNo))
			sub := filepath.Join(dir, "conf.d")
			if err := os.MkdirAll(sub, 0o755); err != nil {
				ctx.Fail("C31: %v", err)
				return
			}
			var paths, order []string
			nt := false
			// written in reverse so that creation order differs from lexical order
			for i := len(lev) - 1; i >= 0; i-- {
				d := sub
				if form == "paths" || form == "paths+nojson-dirs" || (form == "file+dir" && i == 0) {
					d = dir
				}
				p := filepath.Join(d, names[i])
				if err := os.WriteFile(p, c31json(ls, lev[i]), 0o644); err != nil {
					ctx.Fail("C31: %v", err)
					return
				}
			}
			for i := range lev {
				switch {
				case form == "paths":
					paths = append(paths, filepath.Join(dir, names[i]))
					order = append(order, filepath.Join(dir, names[i]))
				case form == "paths+nojson-dirs":
					// directories that contain no .json file are sources that set nothing
					if i == 0 {
						ed := filepath.Join(dir, "empty0.d")
						os.MkdirAll(ed, 0o755)
						paths = append(paths, ed)
					}
					paths = append(paths, filepath.Join(dir, names[i]))
					order = append(order, filepath.Join(dir, names[i]))
					nd := filepath.Join(dir, fmt.Sprintf("nojson%d.d", i))
					os.MkdirAll(filepath.Join(nd, "sub.json"), 0o755)
					os.WriteFile(filepath.Join(nd, "x.txt"), []byte(`{"node_name":"decoy"}`), 0o644)
					os.WriteFile(filepath.Join(nd, "sub.json", "z.json"), []byte(`{"node_name":"decoy"}`), 0o644)
					paths = append(paths, nd)
				case form == "file+dir" && i == 0:
					paths = append(paths, filepath.Join(dir, names[i]), sub)
					order = append(order, filepath.Join(dir, names[i]))
				default:
					if form == "dir" && i == 0 {
						paths = append(paths, sub)
					}
					order = append(order, filepath.Join(sub, names[i]))
				}
			}
			if form != "paths" && form != "paths+nojson-dirs" {
				// things a directory source must not read
				os.WriteFile(filepath.Join(sub, "a.json.bak"), []byte("{ not json"), 0o644)
				os.WriteFile(filepath.Join(sub, "b.txt"), []byte(`{"node_name":"decoy"}`), 0o644)
				os.MkdirAll(filepath.Join(sub, "ab.json"), 0o755)
				os.WriteFile(filepath.Join(sub, "ab.json", "z.json"), []byte(`{"node_name":"decoy"}`), 0o644)
			}
			got, err := agent.ReadConfigPaths(paths)
			if err != nil || got == nil {
				e.violation(scn.Name, "files: read failed ("+form+")", func() string {
					return fmt.Sprintf("%s: ReadConfigPaths(%v) failed: %v", what, paths, err)
				})
				e.endCase(scn, true)
				os.RemoveAll(dir)
				continue
			}
			// (1) the same files merged one by one with the real functions
			fold := new(agent.Config)
			okFold := true
			for _, p := range order {
				f, err := os.Open(p)
				if err != nil {
					ctx.Fail("C31: %v", err)
					return
				}
				d, err := agent.DecodeConfig(f)
				f.Close()
				if err != nil {
					okFold = false
					e.violation(scn.Name, "files: decode failed", func() string { return fmt.Sprintf("%s: DecodeConfig(%s): %v", what, p, err) })
					break
				}
				fold = agent.MergeConfig(fold, d)
			}
			// (2) the layering rule applied to what the files say
			want := c31build(ls, func(*c31leaf) int { return 0 })
			for i := range lev {
				src := c31build(ls, lev[i])
				if e.anySet(src) {
					nt = true
				}
				for _, l := range ls {
					if l.kind == "raw" || !c31fileSettable(ls, l) {
						continue
					}
					c31field(want, l).Set(reflect.ValueOf(c31ref(l, c31field(want, l).Interface(), c31field(src, l).Interface())))
				}
			}
			for _, l := range ls {
				l := l
				gv := c31canon(l.kind, c31field(got, l).Interface())
				if okFold {
					if fv := c31canon(l.kind, c31field(fold, l).Interface()); fv != gv {
						e.violation(scn.Name, "files: differs from one-by-one merge", func() string {
							return fmt.Sprintf("%s: ReadConfigPaths gives %s=%s, merging the decoded files one by one gives %s", what, l.path, gv, fv)
						})
					}
				}
				if l.kind == "raw" || !c31fileSettable(ls, l) {
					continue
				}
				wv := c31field(want, l).Interface()
				if c31canon(l.kind, wv) != gv {
					e.violation(scn.Name, fmt.Sprintf("files: wrong-value: %s [want %s, got %s]", l.path, c31setWord(c31isSet(l.kind, wv)), c31setWord(c31isSet(l.kind, c31field(got, l).Interface()))), func() string {
						var srcs []string
						for i := range lev {
							srcs = append(srcs, string(c31json(ls, func(m *c31leaf) int {
								if m == l {
									return lev[i](m)
								}
								return 0
							})))
						}
						return fmt.Sprintf("%s: files set %s to %v in this order; ReadConfigPaths gives %s, the layering rule gives %s", what, l.path, srcs, gv, c31canon(l.kind, wv))
					})
				}
			}
			e.endCase(scn, nt)
			os.RemoveAll(dir)
		}
	}
	uni := func(x int) func(*c31leaf) int { return func(*c31leaf) int { return x } }
	for n := 1; n <= 3; n++ {
		tot := 1
		for i := 0; i < n; i++ {
			tot *= 4
		}
		for x := 0; x < tot; x++ {
			var lev []func(*c31leaf) int
			var lv []int
			for i, y := 0, x; i < n; i, y = i+1, y/4 {
				lev = append(lev, uni(y%4))
				lv = append(lv, y%4)
			}
			run(fmt.Sprintf("%d files with all fields at levels %v", n, lv), lev)
		}
	}
	depth := 2
	for d := 2; d <= 3; d++ {
		if d == 3 && !ctx.Thorough() {
			break
		}
		depth = d
		for _, f := range ls {
			if !c31fileSettable(ls, f) {
				continue
			}
			for _, v := range c31combos(f, depth) {
				f, v := f, v
				var lev []func(*c31leaf) int
				for k := 0; k < depth; k++ {
					k := k
					lev = append(lev, func(l *c31leaf) int {
						if l == f {
							return v[k]
						}
						return 0
					})
				}
				run(fmt.Sprintf("%d files with %s at levels %v", depth, f.path, v), lev)
			}
		}
	}
	scn.Sample(map[string]string{"files": `a.json {"tags":{"a":"1"},"retry_interval":"1s"}  b.json {"tags":{"a":"2","b":"1"},"start_join":["x"]}`, "expected": `ReadConfigPaths([a,b]) == ReadConfigPaths([dir]) == Merge(Merge({},a),b) == {Tags:{a:2,b:1} RetryInterval:1s StartJoin:[x]}`})
	c31unreadable(ctx, tmp, idx)
}

// c31unreadable: a directory entry that cannot be read or decoded (zero-length file, whitespace
// only, a dangling symbolic link, a name that vanished). The statement does not say whether the
// read must fail; what it excludes is a third outcome: if ReadConfigPaths succeeds, the result must
// be the one-by-one merge of the files that COULD be read (an unreadable entry is not a source).
func c31unreadable(ctx *vc.Ctx, tmp string, idx *int) {
	scn := ctx.Scn("files/unreadable-entries", "cases")
	goodA := `{"node_name":"a","enable_compression":true,"tags":{"t":"1"},"retry_interval":"3s","start_join":["x"]}`
	goodC := `{"enable_compression":true,"tags":{"u":"2"},"start_join":["y"]}`
	kinds := []string{"empty-file", "whitespace-file", "dangling-symlink", "empty-object"}
	for ki, kind := range kinds {
		for _, pos := range []string{"last", "middle", "first"} {
			*idx++
			if !ctx.Mine(*idx) {
				continue
			}
			dir := filepath.Join(tmp, fmt.Sprintf("unreadable-%d-%s", ki, pos))
			os.MkdirAll(dir, 0o755)
			bad := map[string]string{"last": "z.json", "middle": "b.json", "first": "0.json"}[pos]
			os.WriteFile(filepath.Join(dir, "a.json"), []byte(goodA), 0o644)
			os.WriteFile(filepath.Join(dir, "c.json"), []byte(goodC), 0o644)
			switch kind {
			case "empty-file":
				os.WriteFile(filepath.Join(dir, bad), nil, 0o644)
			case "whitespace-file":
				os.WriteFile(filepath.Join(dir, bad), []byte(" \n"), 0o644)
			case "dangling-symlink":
				os.Symlink(filepath.Join(dir, "no-such-target"), filepath.Join(dir, bad))
			case "empty-object":
				os.WriteFile(filepath.Join(dir, bad), []byte("{}"), 0o644) // readable: a source that sets nothing but the compression switch
			}
			got, err := agent.ReadConfigPaths([]string{dir})
			out := "refused"
			if err == nil {
				readable := []string{filepath.Join(dir, "a.json"), filepath.Join(dir, "c.json")}
				if kind == "empty-object" {
					readable = []string{filepath.Join(dir, "0.json"), filepath.Join(dir, "a.json"), filepath.Join(dir, "b.json"), filepath.Join(dir, "c.json"), filepath.Join(dir, "z.json")}
					var ex []string
					for _, r := range readable {
						if _, e := os.Stat(r); e == nil {
							ex = append(ex, r)
						}
					}
					readable = ex
				}
				want, werr := agent.ReadConfigPaths(readable)
				out = "read, equals the merge of the readable files"
				if werr != nil || !reflect.DeepEqual(got, want) {
					out = "differs"
					ctx.Violation(scn.Name, "files: an entry that cannot be read changes the result", fmt.Sprintf("directory with a.json %s, c.json %s and %s as %q (%s): ReadConfigPaths succeeded with %+v; the files that can be read, merged one by one, give %+v (err %v)", goodA, goodC, bad, kind, pos, *got, want, werr), nil)
				}
			}
			scn.Case(out, true)
		}
	}
}
