package checks

import (
	"fmt"
	"strings"
	"time"

	"verifharness/vc"
	"verifharness/world"

	"github.com/hashicorp/serf/serf"
	"github.com/hashicorp/serf/zzverif/vsched"
)

// C34: Serf lifecycle state only moves forward.

type c34call struct {
	op         string
	begin, end int
	err        error
	done       bool
	stateAtBeg serf.SerfState
}

type c34obs struct {
	tick  int
	state serf.SerfState
	who   string
}

func init() {
	vc.Register(&vc.Check{
		ID:    "C34",
		Level: "exploration",
		Rule:  "schedules: all interleavings up to the preemption bound (quick 3, thorough 4) of 2-3 threads each running a program of 1-3 lifecycle calls from {Join, Leave, Shutdown} (\"sleep\" = 1.5 s of virtual time, so that calls also start after earlier ones completed; \"sleep:<d>\" places a second call inside each phase of a running Leave: intent wait, wait inside memberlist.Leave, propagation delay; bound one less there; memberlist.Shutdown itself takes 1 ms of virtual time with Serf's state lock held, and a Shutdown / double Shutdown is also placed 0.5 ms before the instant the Leave's propagation delay ends) plus an observer thread reading State() every 400 ms of virtual time, on a real Serf node alone, with a peer known to Serf (so that the leave-intent broadcast wait is exercised), and with a silent peer known to memberlist (so that memberlist.Leave times out inside Serf.Leave); virtual time lets Leave's waits elapse; non-trivial = at least one non-default scheduling choice",
		Assumptions: []string{
			"inert real memberlist; a Join dial is refused by the transport (the join attempt itself is the observable effect)",
			"'had begun before it was called' is applied in its weakest sound form: a Join called after a Leave/Shutdown returned, or after State() was observed to be past alive, must be refused",
			"memberlist's own panic(\"leave after shutdown\") when Leave races Shutdown is outside the property text and is recorded as an observation, not a violation",
		},
		Run: c34run,
	})
}

func c34run(ctx *vc.Ctx) {
	bound := 3
	if ctx.Thorough() {
		bound = 4
	}
	// each thread runs a short program ("a;b" = a then b)
	combos := [][]string{
		{"leave", "shutdown"}, {"leave;leave", "sleep;shutdown"}, {"leave;join", "leave"}, {"join", "leave"}, {"shutdown;shutdown", "leave"}, {"shutdown;join", "join"},
		{"leave;leave;sleep;shutdown", "sleep;leave"},
	}
	if ctx.Thorough() {
		combos = append(combos, []string{"join", "leave", "shutdown"}, []string{"leave;leave", "leave", "shutdown"}, []string{"leave;shutdown;leave", "join;join"})
	}
	for _, peer := range []int{0, 1} {
		for _, combo := range combos {
			b := bound
			if len(combo) == 3 {
				b = 2
			}
			c34explore(ctx, combo, peer, b)
		}
	}
	// peer=2: memberlist itself knows an alive peer that never answers, so memberlist.Leave waits out the
	// broadcast timeout and reports an error inside Serf.Leave (which Serf only logs): the state must
	// still move forward only
	for _, combo := range [][]string{{"leave", "shutdown"}, {"leave;leave", "sleep;shutdown"}, {"leave;join", "leave"}, {"join", "leave"}} {
		c34explore(ctx, combo, 2, bound-1)
	}
	// a second call that begins in each phase of a running Leave: while it waits for its intent to go
	// out (0-1 ms, when Serf knows a peer), while it is blocked inside memberlist.Leave (the next
	// millisecond, when memberlist knows a peer), during the propagation delay (1 s), and after it
	for _, peer := range []int{0, 1, 2} {
		for _, off := range []string{"500us", "1500us", "500ms"} {
			for _, op := range []string{"shutdown", "join", "leave", "shutdown;shutdown"} {
				if op == "shutdown;shutdown" && off != "1500us" {
					continue
				}
				c34explore(ctx, []string{"leave", "sleep:" + off + ";" + op}, peer, bound-2)
			}
		}
		// a Shutdown that is in progress (memberlist.Shutdown takes 1 ms of virtual time, with
		// Serf's state lock held) exactly when the Leave's propagation delay ends
		end := map[int]string{0: "999500us", 1: "1000500us", 2: "1001500us"}[peer]
		for _, op := range []string{"shutdown", "shutdown;shutdown"} {
			c34explore(ctx, []string{"leave", "sleep:" + end + ";" + op}, peer, bound-2)
		}
	}
}

func c34explore(ctx *vc.Ctx, combo []string, peer int, bound int) {
	var calls []*c34call
	var obs []c34obs
	var clock int
	var n *world.Node
	var leaveIntents, dials int
	name := fmt.Sprintf("%s/peer=%v", strings.Join(combo, "+"), peer)
	body := func() {
		vsched.Branching(false)
		calls, obs, clock = nil, nil, 0
		leaveIntents, dials = 0, 0
		vsched.SetHorizon(int64(10 * time.Second))
		var err error
		n, err = world.NewNode("a", 0)
		if err != nil {
			panic(err)
		}
		switch peer {
		case 1:
			n.Events().NotifyJoin(n.MLNode("b", 1, nil))
		case 2:
			if k, err := n.KnowPeers([]world.Peer{world.AlivePeer("b", 1, serf.VEncodeTags(n.S, nil))}, nil); err != nil || k != 1 {
				panic(fmt.Sprintf("setup: memberlist join: %d %v", k, err))
			}
		}
		vsched.Quiesce()
		n.Outbox()
		n.Tr.Dials = nil
		look := func(who string) serf.SerfState {
			st := n.S.State()
			clock++
			obs = append(obs, c34obs{clock, st, who})
			return st
		}
		vsched.Branching(true)
		var hs []vsched.Handle
		for i, prog := range combo {
			var mine []*c34call
			for _, op := range strings.Split(prog, ";") {
				c := &c34call{op: op}
				calls = append(calls, c)
				mine = append(mine, c)
			}
			hs = append(hs, vsched.Spawn(fmt.Sprintf("%s#%d", prog, i), func() {
				for _, c := range mine {
					if c.op == "sleep" {
						vsched.Sleep(int64(1500*time.Millisecond), "harness-sleep")
						c.done = true
						continue
					}
					if strings.HasPrefix(c.op, "sleep:") {
						d, err := time.ParseDuration(c.op[6:])
						if err != nil {
							panic(err)
						}
						vsched.Sleep(int64(d), "harness-sleep")
						c.op = "sleep"
						c.done = true
						continue
					}
					c.stateAtBeg = look(c.op + ":before")
					clock++
					c.begin = clock
					switch c.op {
					case "join":
						_, c.err = n.S.Join([]string{"b/10.0.0.2:7946"}, false)
					case "leave":
						c.err = n.S.Leave()
					case "shutdown":
						c.err = n.S.Shutdown()
					}
					clock++
					c.end = clock
					c.done = true
					look(c.op + ":after")
				}
			}))
		}
		hs = append(hs, vsched.Spawn("observer", func() {
			for i := 0; i < 6; i++ {
				look("observer")
				vsched.Sleep(int64(400*time.Millisecond), "observer-sleep")
			}
		}))
		for _, h := range hs {
			h.Join()
		}
		vsched.Branching(false)
		vsched.Quiesce()
		look("final")
		for _, b := range n.Outbox() {
			if b[0] == serf.VMsgLeave {
				leaveIntents++
			}
		}
		dials = len(n.Tr.Dials)
		if n.S.State() != serf.SerfShutdown {
			n.S.Shutdown()
		}
	}
	check := func(x *vsched.Exec) (string, string, string) {
		for _, p := range x.Panics {
			if strings.Contains(p.Value, "leave after shutdown") {
				return "obs:memberlist-panic-leave-after-shutdown", "", ""
			}
			return "panic", "panic " + p.Frame, p.Value + "\n" + p.Stack
		}
		if !x.RootDone {
			return "stuck", "deadlock", fmt.Sprintf("blocked: %+v", x.Blocked)
		}
		// (1) monotone state
		var seq []string
		for i, o := range obs {
			seq = append(seq, o.state.String())
			if i > 0 && o.state < obs[i-1].state {
				return "backwards", fmt.Sprintf("state-backwards %s->%s", obs[i-1].state, o.state), fmt.Sprintf("State() observed %s (by %s) and later %s (by %s); calls %s", obs[i-1].state, obs[i-1].who, o.state, o.who, c34fmt(calls))
			}
		}
		firstNotAlive := 1 << 30
		for _, o := range obs {
			if o.state != serf.SerfAlive && o.tick < firstNotAlive {
				firstNotAlive = o.tick
			}
		}
		for _, c := range calls {
			if !c.done {
				return "unfinished", "call-did-not-return " + c.op, fmt.Sprintf("%s never returned; calls %s; blocked %+v", c.op, c34fmt(calls), x.Blocked)
			}
		}
		for _, c := range calls {
			for _, d := range calls {
				if c == d || d.end >= c.begin {
					continue
				}
				// d returned before c was called
				switch {
				case c.op == "shutdown" && d.op == "shutdown" && d.err == nil && c.err != nil:
					return "shutdown2", "repeated-shutdown-fails", fmt.Sprintf("second Shutdown returned %v; calls %s", c.err, c34fmt(calls))
				case c.op == "leave" && d.op == "leave" && d.err == nil && c.err != nil && c.stateAtBeg == serf.SerfLeft:
					return "leave2", "leave-after-leave-fails", fmt.Sprintf("Leave after a completed Leave returned %v; calls %s", c.err, c34fmt(calls))
				case c.op == "join" && (d.op == "leave" || d.op == "shutdown") && c.err == nil:
					return "join-late", "join-after-" + d.op + "-accepted", fmt.Sprintf("Join called after %s had returned was not refused; calls %s", d.op, c34fmt(calls))
				}
			}
			if c.op == "join" && c.begin > firstNotAlive && (c.err == nil || !strings.Contains(c.err.Error(), "can't Join")) {
				return "join-late", "join-after-state-left-alive", fmt.Sprintf("Join was called after State() had been observed past alive but was not refused (err=%v, dials=%d); calls %s", c.err, dials, c34fmt(calls))
			}
		}
		allowed := 0
		for _, c := range calls {
			if c.op == "join" && (c.err == nil || !strings.Contains(c.err.Error(), "can't Join")) {
				allowed++
			}
		}
		if dials > allowed {
			return "join-late", "refused-join-had-effect", fmt.Sprintf("%d dial attempts although only %d Join calls were not refused; calls %s", dials, allowed, c34fmt(calls))
		}
		nLeave := 0
		for _, c := range calls {
			if c.op == "leave" {
				nLeave++
			}
		}
		if leaveIntents > 1 {
			return "leave-twice", "leave-intent-broadcast-twice", fmt.Sprintf("%d leave intents were queued by %d Leave calls (a repeated Leave must have no effect); calls %s", leaveIntents, nLeave, c34fmt(calls))
		}
		return strings.Join(seq, ">") + "|" + c34fmt(calls), "", ""
	}
	ctx.Explore(vc.ExploreOpts{Name: name, Bound: bound, MaxSteps: 20000}, body, check)
}

func c34fmt(calls []*c34call) string {
	var s []string
	for _, c := range calls {
		e := "ok"
		if c.err != nil {
			e = "err"
		}
		s = append(s, fmt.Sprintf("%s[%d-%d]=%s", c.op, c.begin, c.end, e))
	}
	return strings.Join(s, " ")
}
