package checks

import (
	"fmt"
	"net"
	"strings"
	"time"

	"verifharness/vc"

	"github.com/hashicorp/serf/serf"
)

// C11, third part ("burst"): many members with ~200-byte names join within one
// flush interval, so more than 4096 bytes of snapshot lines are pending and the
// snapshotter's bufio.Writer hands the OS a 4096-byte chunk that ends in the
// middle of a line. A crash after such a write leaves a torn last line; the
// restart must recover a state the file held completely (complete lines only),
// never a member, address or clock value read out of the fragment.
//
// The names are chosen so that a fragment can be a valid shorter line:
// m{190}-node-1 is a prefix of m{190}-node-10..19, the recorded clocks are 1 and
// then 150 ("clock: 1" / "clock: 15" are fragments of "clock: 150"), addresses
// lose their port or their last digits. The length of the second member's name
// is swept over a whole window so that the 4096-byte boundary falls on every byte
// of the lines of interest.

// c11tsym is a scenario-defined symbol.
type c11tsym struct {
	kind byte // 'J' join, 'N' leave, 'F' failed, 'K' local clock witnesses val, 'E' user event, 'Q' query
	name string
	ip   net.IP
	port uint16
	val  uint64
	desc string
}

func (d c11tsym) event() serf.Event {
	mem := []serf.Member{{Name: d.name, Addr: d.ip, Port: d.port}}
	switch d.kind {
	case 'J':
		return serf.MemberEvent{Type: serf.EventMemberJoin, Members: mem}
	case 'N':
		return serf.MemberEvent{Type: serf.EventMemberLeave, Members: mem}
	case 'F':
		return serf.MemberEvent{Type: serf.EventMemberFailed, Members: mem}
	case 'E':
		return serf.UserEvent{LTime: serf.LamportTime(d.val), Name: "burst"}
	case 'Q':
		return &serf.Query{LTime: serf.LamportTime(d.val), Name: "burst"}
	}
	return nil
}

// c11simulateT is c11simulate for symbol strings that use a table.
func c11simulateT(syms string, table map[byte]c11tsym) *c11model {
	m := &c11model{syms: syms}
	st := c11newst()
	m.states = append(m.states, st.key())
	lamport := uint64(1)
	var memClock, memE, memQ uint64
	emit := func(l c11line) {
		m.lines = append(m.lines, l)
		l.apply(st)
		m.states = append(m.states, st.key())
	}
	clockCheck := func(ev int) {
		if seen := lamport - 1; seen > memClock {
			memClock = seen
			emit(c11line{kind: 'C', val: seen, ev: ev})
		}
	}
	for i := 0; i < len(syms); i++ {
		d, ok := table[syms[i]]
		if !ok {
			switch syms[i] {
			case 'c':
				lamport++
			case 'w', 't':
				clockCheck(i)
			default:
				panic("c11simulateT: symbol without definition")
			}
			continue
		}
		switch d.kind {
		case 'J':
			emit(c11line{kind: 'A', name: d.name, addr: (&net.TCPAddr{IP: d.ip, Port: int(d.port)}).String(), ev: i})
			clockCheck(i)
		case 'N', 'F':
			emit(c11line{kind: 'N', name: d.name, ev: i})
			clockCheck(i)
		case 'K':
			if d.val+1 > lamport {
				lamport = d.val + 1
			}
		case 'E':
			if d.val > memE {
				memE = d.val
				emit(c11line{kind: 'E', val: d.val, ev: i})
			}
		case 'Q':
			if d.val > memQ {
				memQ = d.val
				emit(c11line{kind: 'Q', val: d.val, ev: i})
			}
		}
	}
	clockCheck(len(syms))
	return m
}

// c11burstScript builds one burst history. shift lengthens the name of the second
// member (the first line is flushed on its own because nothing was flushed
// before; everything after it stays buffered until 4096 bytes are pending).
func c11burstScript(script string, shift int) (string, map[byte]c11tsym) {
	table := map[byte]c11tsym{}
	var syms []byte
	next := byte(0x80)
	add := func(d c11tsym) {
		table[next] = d
		syms = append(syms, next)
		next++
	}
	pad := strings.Repeat("m", 190)
	node := func(i int) (string, net.IP) { return fmt.Sprintf("%s-node-%d", pad, i), net.IP{10, 0, 1, byte(i)} }
	join := func(i int) {
		n, ip := node(i)
		add(c11tsym{kind: 'J', name: n, ip: ip, port: 7946, desc: fmt.Sprintf("join node-%d", i)})
	}
	add(c11tsym{kind: 'J', name: "first", ip: net.IP{10, 0, 0, 1}, port: 7946, desc: "join first"})
	add(c11tsym{kind: 'J', name: strings.Repeat("s", 1+shift), ip: net.IP{10, 0, 0, 2}, port: 7946, desc: fmt.Sprintf("join s{%d}", 1+shift)})
	switch script {
	case "members+clock":
		// ... alive node-17 / clock: 150 / not-alive node-10 / not-alive node-11 around the boundary
		syms = append(syms, 'c')
		for i := 1; i <= 16; i++ {
			join(i) // the first of them is followed by "clock: 1"
		}
		add(c11tsym{kind: 'K', val: 150, desc: "local clock witnesses 150"})
		join(17) // followed by "clock: 150"
		n10, ip10 := node(10)
		add(c11tsym{kind: 'N', name: n10, ip: ip10, port: 7946, desc: "leave node-10"})
		n11, ip11 := node(11)
		add(c11tsym{kind: 'F', name: n11, ip: ip11, port: 7946, desc: "failed node-11"})
		for i := 18; i <= 21; i++ {
			join(i)
		}
	case "clocks+address":
		// ... not-alive node-12 / alive node-1 <new address> / event-clock: 150 / query-clock: 150 around the boundary
		add(c11tsym{kind: 'E', val: 1, desc: "user event LTime 1"})
		add(c11tsym{kind: 'Q', val: 1, desc: "query LTime 1"})
		for i := 1; i <= 16; i++ {
			join(i)
		}
		n12, ip12 := node(12)
		add(c11tsym{kind: 'F', name: n12, ip: ip12, port: 7946, desc: "failed node-12"})
		n1, _ := node(1)
		add(c11tsym{kind: 'J', name: n1, ip: net.IP{10, 9, 9, 199}, port: 7000, desc: "join node-1 at 10.9.9.199:7000"})
		add(c11tsym{kind: 'E', val: 150, desc: "user event LTime 150"})
		add(c11tsym{kind: 'Q', val: 150, desc: "query LTime 150"})
		for i := 17; i <= 20; i++ {
			join(i)
		}
	default:
		panic("c11burstScript: unknown script " + script)
	}
	// the flush interval passes; the next line flushes whatever is still pending
	syms = append(syms, 'w')
	join(30)
	return string(syms), table
}

// shifts 0..459: the boundary sweeps over about two member lines and the clock
// lines between them in each script (a longer second name would cross the
// compaction threshold of a two-member cluster and reset the buffer early)
const c11burstWindow = 460

func c11burstRun(ctx *vc.Ctx, idx *int) {
	scripts := []string{"members+clock", "clocks+address"}
	step := 1
	for _, sc := range scripts {
		scn := ctx.Scn("burst/"+sc, "crash_images")
		for shift := 0; shift < c11burstWindow; shift += step {
			*idx++
			if !ctx.Mine(*idx) {
				continue
			}
			if time.Now().After(ctx.Deadline) {
				scn.Exhaustive = false
				scn.StopReason = "time budget"
				break
			}
			c11burstCase(ctx, scn, sc, shift, false)
		}
	}
}

func c11burstCase(ctx *vc.Ctx, scn *vc.Scenario, script string, shift int, verbose bool) {
	const mc = 64 // irrelevant here: the size threshold is 256 bytes x members
	syms, table := c11burstScript(script, shift)
	c11crashPoints(ctx, scn, &c11job{
		minCompact: mc, label: fmt.Sprintf("burst %q with shift %d", script, shift), nsyms: len(syms),
		symName: func(i int) string {
			if d, ok := table[syms[i]]; ok {
				return d.desc
			}
			return fmt.Sprintf("%q", syms[i])
		},
		m:       c11simulateT(syms, table),
		r:       c11exec(c11opts{minCompact: mc, syms: syms, table: table}),
		rp:      c11replay{Check: "C11", MinCompact: mc, Burst: script, Shift: shift},
		verbose: verbose, sample: shift == 100, burst: true,
	})
}
