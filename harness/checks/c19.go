package checks

import (
	"fmt"
	"strings"

	"verifharness/vc"

	"github.com/hashicorp/serf/serf"
	"github.com/hashicorp/serf/zzverif/vatomic"
	"github.com/hashicorp/serf/zzverif/vsched"
)

// C19: Lamport clocks never go backwards and witnessing moves them past the value.

type c19op struct {
	kind byte // 'T', 'I', 'W'
	arg  uint64
}

func (o c19op) String() string {
	if o.kind == 'W' {
		return fmt.Sprintf("W(%d)", o.arg)
	}
	return string(o.kind)
}

type c19res struct {
	op  c19op
	val uint64
}

const c19max64 = ^uint64(0)

// c19wrapSig classifies every failure that needs the counter to step past the
// largest representable time (Witness(max) or Increment at max).
const c19wrapSig = "clock-wrap-at-max"

// c19checkThread validates one thread's observations; max is the largest
// representable time (2^64-1, or 2^w-1 in the width-reduced instance).
func c19checkThread(name string, rs []c19res, lb uint64, max uint64) (uint64, string, string) {
	for i, r := range rs {
		switch r.op.kind {
		case 'T':
			if r.val < lb {
				return lb, "time-went-backwards", fmt.Sprintf("%s op %d Time()=%d but this thread had already observed/witnessed a clock >= %d", name, i, r.val, lb)
			}
			lb = r.val
		case 'I':
			if r.val <= lb && !(lb == max) {
				if lb == 0 && r.val == 0 {
					return lb, "increment-not-later", fmt.Sprintf("%s op %d Increment()=%d", name, i, r.val)
				}
				if r.val < lb {
					return lb, "increment-went-backwards", fmt.Sprintf("%s op %d Increment()=%d after the thread had seen %d", name, i, r.val, lb)
				}
				if lb > 0 {
					return lb, "increment-not-later", fmt.Sprintf("%s op %d Increment()=%d is not later than %d seen before", name, i, r.val, lb)
				}
			}
			if r.val > lb {
				lb = r.val
			}
		case 'W':
			if r.op.arg < max && r.op.arg+1 > lb {
				lb = r.op.arg + 1
			}
		}
	}
	return lb, "", ""
}

func c19progs(alpha []c19op, n int) [][]c19op {
	if n == 0 {
		return [][]c19op{nil}
	}
	var out [][]c19op
	for _, p := range c19progs(alpha, n-1) {
		for _, o := range alpha {
			q := append(append([]c19op{}, p...), o)
			out = append(out, q)
		}
	}
	return out
}

func init() {
	vc.Register(&vc.Check{
		ID:    "C19",
		Level: "exploration",
		Rule: "schedules: every interleaving (no preemption bound) of 2-3 threads running 2 clock operations each from {Time, Increment, Witness(v)} at every atomic operation of the real LamportClock, for every program over the alphabet; non-trivial = at least one non-default scheduling choice. " +
			"cases: the same lamport.go compiled against an 8-bit atomic (arithmetic wraps at 2^8): all 256x256 (counter,v) Witness pairs, all 3-operation sequences from all 256 start values, plus the 64-bit boundary set; non-trivial = case whose operation changes the clock or whose argument is at/above the clock",
		Assumptions: []string{
			"atomic operations are sequentially consistent (the scheduler interleaves at atomic-operation granularity)",
			"width-reduced instance: identical source, vatomic.Uint64 truncates stores/adds to 8 bits, so wrap-around behaviour is that of the 64-bit code at 2^64",
			"'strictly greater after witness' is not demanded for the maximal representable value (no clock can satisfy it); monotonicity is",
		},
		Run: c19run,
	})
}

func c19run(ctx *vc.Ctx) {
	c19schedules(ctx)
	c19sequential(ctx)
}

func c19schedules(ctx *vc.Ctx) {
	alpha := []c19op{{'T', 0}, {'I', 0}, {'W', 2}}
	if ctx.Thorough() {
		alpha = append(alpha, c19op{'W', 5})
	}
	type cfg struct {
		name    string
		threads int
		init    uint64
	}
	cfgs := []cfg{{"2x2+obs/init0", 2, 0}, {"2x2+obs/init3", 2, 3}}
	if ctx.Thorough() {
		cfgs = append(cfgs, cfg{"3x2/init0", 3, 0}, cfg{"3x2/init4", 3, 4})
	}
	explore := func(scn string, ci int, prog [][]c19op, init0 uint64) {
		var obs [][]c19res
		var final uint64
		body := func() {
			vsched.Branching(false)
			var c serf.LamportClock
			for i := uint64(0); i < init0; i++ {
				c.Increment()
			}
			obs = make([][]c19res, len(prog))
			vsched.Branching(true)
			var hs []vsched.Handle
			for ti := range prog {
				ti := ti
				hs = append(hs, vsched.Spawn(fmt.Sprintf("t%d", ti), func() {
					for _, o := range prog[ti] {
						var v uint64
						switch o.kind {
						case 'T':
							v = uint64(c.Time())
						case 'I':
							v = uint64(c.Increment())
						case 'W':
							c.Witness(serf.LamportTime(o.arg))
						}
						obs[ti] = append(obs[ti], c19res{o, v})
					}
				}))
			}
			for _, h := range hs {
				h.Join()
			}
			vsched.Branching(false)
			final = uint64(c.Time())
		}
		check := func(x *vsched.Exec) (string, string, string) {
			if len(x.Panics) > 0 {
				return "panic", "panic " + x.Panics[0].Frame, x.Panics[0].Value
			}
			if !x.RootDone {
				return "stuck", "deadlock", fmt.Sprintf("blocked: %+v", x.Blocked)
			}
			var sb strings.Builder
			incs := map[uint64]int{}
			maxlb := init0
			for ti, rs := range obs {
				lb, sig, msg := c19checkThread(fmt.Sprintf("t%d%v", ti, prog[ti]), rs, init0, c19max64)
				if sig != "" {
					return sig, sig, fmt.Sprintf("program %v init=%d: %s; observations %v", prog, init0, msg, obs)
				}
				if lb > maxlb {
					maxlb = lb
				}
				for _, r := range rs {
					if r.op.kind == 'I' {
						incs[r.val]++
						if incs[r.val] > 1 {
							return "dup-increment", "duplicate-increment", fmt.Sprintf("program %v init=%d: two Increment() calls returned %d; observations %v", prog, init0, r.val, obs)
						}
					}
					fmt.Fprintf(&sb, "%d,", r.val)
				}
				sb.WriteByte('|')
			}
			if final < maxlb {
				return "final-low", "final-below-observed", fmt.Sprintf("program %v: final Time()=%d below %d already observed/witnessed", prog, final, maxlb)
			}
			return sb.String(), "", ""
		}
		// every program combination is its own exploration; statistics are pooled per configuration
		ctx.Explore(vc.ExploreOpts{Name: fmt.Sprintf("%s#%d", scn, ci), Bound: 1 << 20, FreeSwitches: true, MaxSteps: 2000}, body, check)
	}
	for _, cf := range cfgs {
		al := alpha
		if cf.threads == 3 {
			al = alpha[:3] // 3 threads: the 3-operation alphabet keeps the thorough tier at minutes
		}
		progs := c19progs(al, 2)
		// all assignments of programs to threads (ordered; symmetric duplicates kept small by requiring non-decreasing index)
		var combos [][]int
		var rec func(start int, cur []int)
		rec = func(start int, cur []int) {
			if len(cur) == cf.threads {
				combos = append(combos, append([]int{}, cur...))
				return
			}
			for i := start; i < len(progs); i++ {
				rec(i, append(cur, i))
			}
		}
		rec(0, nil)
		for ci, combo := range combos {
			name := fmt.Sprintf("sched/%s/p%d", cf.name, ci)
			if ctx.Replay == nil {
				name = "sched/" + cf.name
			}
			_ = name
			var prog [][]c19op
			for _, pi := range combo {
				prog = append(prog, progs[pi])
			}
			if cf.threads == 2 {
				prog = append(prog, []c19op{{'T', 0}, {'T', 0}})
			}
			explore("sched/"+cf.name, ci, prog, cf.init)
		}
		// pool per-combination scenarios into one record
		poolScenarios(ctx, "sched/"+cf.name+"#", "sched/"+cf.name)
	}
	// one operation against MANY interfering ones (a retry loop that gives up, or falls back to another
	// path, after k lost races only shows when k+1 operations of other threads land inside one call)
	I, T := c19op{'I', 0}, c19op{'T', 0}
	long := [][][]c19op{
		{{{'W', 3}}, {I, I, I, I, I, I}},
		{{{'W', 3}, T}, {{'W', 9}, I, I, I, I}},
		{{{'W', 3}, I}, {I, I, I, I, I}},
		{{{'W', 6}}, {I, I, I}, {I, I, I}},
	}
	for ci, prog := range long {
		for _, init0 := range []uint64{0, 3} {
			explore("sched/one-vs-many", ci*2+int(init0)/3, prog, init0)
		}
	}
	poolScenarios(ctx, "sched/one-vs-many#", "sched/one-vs-many")
}

// poolScenarios merges all scenarios whose name starts with prefix into one named pooled.
func poolScenarios(ctx *vc.Ctx, prefix, pooled string) {
	if ctx.Replay != nil {
		return
	}
	var keep []*vc.Scenario
	var tgt *vc.Scenario
	for _, s := range ctx.Report.Scenarios {
		if !strings.HasPrefix(s.Name, prefix) {
			keep = append(keep, s)
			continue
		}
		if tgt == nil {
			cp := *s
			cp.Name = pooled
			cp.Outcomes = map[string]int{}
			tgt = &cp
			tgt.Evaluations, tgt.Nontrivial, tgt.CapHits = 0, 0, 0
			tgt.Samples = nil
		}
		tgt.Evaluations += s.Evaluations
		tgt.Nontrivial += s.Nontrivial
		tgt.CapHits += s.CapHits
		if s.MaxPoints > tgt.MaxPoints {
			tgt.MaxPoints = s.MaxPoints
		}
		for k, v := range s.Outcomes {
			if len(tgt.Outcomes) < 64 || tgt.Outcomes[k] > 0 {
				tgt.Outcomes[k] += v
			} else {
				tgt.Outcomes["(other)"] += v
			}
		}
		if !s.Exhaustive {
			tgt.Exhaustive = false
			tgt.StopReason = s.StopReason
		}
		for _, x := range s.Samples {
			if len(tgt.Samples) < 3 {
				tgt.Samples = append(tgt.Samples, fmt.Sprintf("%s %v", s.Name, x))
			}
		}
	}
	if tgt != nil {
		keep = append(keep, tgt)
	}
	ctx.Report.Scenarios = keep
}

func c19sequential(ctx *vc.Ctx) {
	if ctx.Replay != nil {
		return
	}
	scn := ctx.Scn("seq/width8", "cases")
	defer func() { vatomic.Width = 0 }()
	vatomic.Width = 8
	const max = 255
	set := func(c *serf.LamportClock, v uint64) {
		*c = serf.LamportClock{}
		if v > 0 {
			c.Witness(serf.LamportTime(v - 1))
		}
	}
	idx := 0
	// all (counter, v) pairs
	for cnt := uint64(0); cnt <= max; cnt++ {
		for v := uint64(0); v <= max; v++ {
			idx++
			if !ctx.Mine(idx) {
				continue
			}
			var c serf.LamportClock
			set(&c, cnt)
			if uint64(c.Time()) != cnt {
				ctx.Fail("C19: cannot set the clock to %d (got %d)", cnt, c.Time())
				return
			}
			c.Witness(serf.LamportTime(v))
			after := uint64(c.Time())
			out := "unchanged"
			if after != cnt {
				out = "advanced"
			}
			if after < cnt {
				cls := "witness-backwards v<max"
				if v == max {
					cls = c19wrapSig
				}
				ctx.Violation(scn.Name, cls, fmt.Sprintf("8-bit instance: clock=%d, Witness(%d) leaves clock=%d (moved backwards)", cnt, v, after), map[string]uint64{"width": 8, "counter": cnt, "witness": v})
				out = "backwards"
			} else if v < max && after <= v {
				ctx.Violation(scn.Name, "witness-not-greater", fmt.Sprintf("8-bit instance: clock=%d, Witness(%d) leaves clock=%d, not strictly greater", cnt, v, after), map[string]uint64{"width": 8, "counter": cnt, "witness": v})
				out = "not-greater"
			}
			scn.Case(out, v >= cnt)
		}
	}
	scn.Sample("counter=7 Witness(9) -> 10")
	// 3-operation sequences
	seq := ctx.Scn("seq/width8/len3", "cases")
	for cnt := uint64(0); cnt <= max; cnt++ {
		args := []uint64{0, 1, cnt - 1, cnt, cnt + 1, cnt + 2, 253, 254}
		alpha := []c19op{{'T', 0}, {'I', 0}}
		for _, a := range args {
			alpha = append(alpha, c19op{'W', a & max})
		}
		for _, p := range c19progs(alpha, 3) {
			idx++
			if !ctx.Mine(idx) {
				continue
			}
			var c serf.LamportClock
			set(&c, cnt)
			var rs []c19res
			wrapAllowed := false
			for _, o := range p {
				var v uint64
				switch o.kind {
				case 'T':
					v = uint64(c.Time())
				case 'I':
					if uint64(c.Time()) == max {
						wrapAllowed = true // increment at the maximum
					}
					v = uint64(c.Increment())
				case 'W':
					if o.arg == max {
						wrapAllowed = true // witness of the maximum
					}
					c.Witness(serf.LamportTime(o.arg))
				}
				rs = append(rs, c19res{o, v})
			}
			_, sig, msg := c19checkThread("seq", rs, cnt, max)
			out := "ok"
			if sig != "" {
				if wrapAllowed {
					sig = c19wrapSig
				}
				out = sig
				ctx.Violation(seq.Name, sig, fmt.Sprintf("8-bit instance: start=%d ops=%v: %s", cnt, p, msg), map[string]interface{}{"width": 8, "counter": cnt, "ops": fmt.Sprint(p)})
			}
			seq.Case(out, p[0].kind != 'T' || p[1].kind != 'T' || p[2].kind != 'T')
		}
	}
	seq.Sample("start=5 ops=[I W(7) T] -> [6 _ 8]")
	// 64-bit boundary set
	vatomic.Width = 0
	b64 := ctx.Scn("seq/width64/boundary", "cases")
	bs := []uint64{0, 1, 2, 1<<32 - 1, 1 << 32, 1<<32 + 1, 1<<63 - 1, 1 << 63, 1<<63 + 1, c19max64 - 2, c19max64 - 1, c19max64}
	for _, cnt := range bs {
		for _, v := range bs {
			idx++
			if !ctx.Mine(idx) {
				continue
			}
			var c serf.LamportClock
			set(&c, cnt)
			if uint64(c.Time()) != cnt {
				ctx.Fail("C19: cannot set the 64-bit clock to %d", cnt)
				return
			}
			c.Witness(serf.LamportTime(v))
			after := uint64(c.Time())
			out := "ok"
			if after < cnt {
				cls := "witness-backwards v<max"
				if v == c19max64 {
					cls = c19wrapSig
				}
				out = cls
				ctx.Violation(b64.Name, cls, fmt.Sprintf("clock=%d, Witness(%d) leaves clock=%d (moved backwards)", cnt, v, after), map[string]uint64{"width": 64, "counter": cnt, "witness": v})
			} else if v < c19max64 && after <= v {
				out = "witness-not-greater"
				ctx.Violation(b64.Name, out, fmt.Sprintf("clock=%d, Witness(%d) leaves clock=%d, not strictly greater", cnt, v, after), map[string]uint64{"width": 64, "counter": cnt, "witness": v})
			}
			b64.Case(out, v >= cnt)
		}
	}
	b64.Sample("counter=2^63 Witness(2^64-2) -> 2^64-1")
}
