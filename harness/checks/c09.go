package checks

import (
	"encoding/binary"
	"encoding/hex"
	"encoding/json"
	"fmt"
	"math"
	"os"
	"sort"
	"strings"
	"time"

	"verifharness/vc"
	"verifharness/world"

	"github.com/hashicorp/memberlist"
	"github.com/hashicorp/serf/coordinate"
	"github.com/hashicorp/serf/serf"
	"github.com/hashicorp/serf/zzverif/vsched"
)

// C09: No network input crashes a node.
//
// Every case is (entry point, byte string). The byte string is handed to a real
// Serf node (inert memberlist) through the interface memberlist would use; the
// oracle is: no controlled thread panics, the delivering thread returns, an
// input that does not decode as its kind leaves the node untouched, and after
// the input(s) the node still lists its members and delivers a fresh user event.

// ---------------------------------------------------------------------------
// a tiny msgpack writer (old-spec raw strings, as serf's codec handle writes them)

func c09nil() []byte { return []byte{0xc0} }

func c09bool(b bool) []byte {
	if b {
		return []byte{0xc3}
	}
	return []byte{0xc2}
}

func c09uint(v uint64) []byte {
	switch {
	case v <= 0x7f:
		return []byte{byte(v)}
	case v <= 0xff:
		return []byte{0xcc, byte(v)}
	case v <= 0xffff:
		return []byte{0xcd, byte(v >> 8), byte(v)}
	case v <= 0xffffffff:
		b := []byte{0xce, 0, 0, 0, 0}
		binary.BigEndian.PutUint32(b[1:], uint32(v))
		return b
	}
	b := []byte{0xcf, 0, 0, 0, 0, 0, 0, 0, 0}
	binary.BigEndian.PutUint64(b[1:], v)
	return b
}

func c09int(v int64) []byte {
	if v >= 0 {
		return c09uint(uint64(v))
	}
	if v >= -32 {
		return []byte{byte(v)}
	}
	b := []byte{0xd3, 0, 0, 0, 0, 0, 0, 0, 0}
	binary.BigEndian.PutUint64(b[1:], uint64(v))
	return b
}

func c09float(f float64) []byte {
	b := []byte{0xcb, 0, 0, 0, 0, 0, 0, 0, 0}
	binary.BigEndian.PutUint64(b[1:], math.Float64bits(f))
	return b
}

func c09rawHdr(n int) []byte {
	switch {
	case n < 32:
		return []byte{0xa0 | byte(n)}
	case n <= 0xffff:
		return []byte{0xda, byte(n >> 8), byte(n)}
	}
	b := []byte{0xdb, 0, 0, 0, 0}
	binary.BigEndian.PutUint32(b[1:], uint32(n))
	return b
}

func c09str(s string) []byte  { return append(c09rawHdr(len(s)), s...) }
func c09bytes(b []byte) []byte { return append(c09rawHdr(len(b)), b...) }

func c09arrHdr(n int) []byte {
	switch {
	case n < 16:
		return []byte{0x90 | byte(n)}
	case n <= 0xffff:
		return []byte{0xdc, byte(n >> 8), byte(n)}
	}
	b := []byte{0xdd, 0, 0, 0, 0}
	binary.BigEndian.PutUint32(b[1:], uint32(n))
	return b
}

func c09arr(items ...[]byte) []byte {
	out := c09arrHdr(len(items))
	for _, it := range items {
		out = append(out, it...)
	}
	return out
}

func c09mapHdr(n int) []byte {
	switch {
	case n < 16:
		return []byte{0x80 | byte(n)}
	case n <= 0xffff:
		return []byte{0xde, byte(n >> 8), byte(n)}
	}
	b := []byte{0xdf, 0, 0, 0, 0}
	binary.BigEndian.PutUint32(b[1:], uint32(n))
	return b
}

// c09kv is one map entry; v == nil means "field absent".
type c09kv struct {
	k string
	v []byte
}

func c09map(kvs ...c09kv) []byte {
	n := 0
	for _, e := range kvs {
		if e.v != nil {
			n++
		}
	}
	out := c09mapHdr(n)
	for _, e := range kvs {
		if e.v != nil {
			out = append(out, c09str(e.k)...)
			out = append(out, e.v...)
		}
	}
	return out
}

func c09cat(parts ...[]byte) []byte {
	var out []byte
	for _, p := range parts {
		out = append(out, p...)
	}
	return out
}

// ---------------------------------------------------------------------------
// field domains

type c09val struct {
	label string
	enc   []byte // nil = absent
}

type c09field struct {
	name string
	vals []c09val
}

func c09v(label string, enc []byte) c09val { return c09val{label, enc} }

var (
	c09long    = strings.Repeat("x", 300)
	c09absent  = c09val{"absent", nil}
	c09nilv    = c09val{"nil", c09nil()}
	c09wrongS  = c09val{"wrong-type:string", c09str("x")}
	c09wrongU  = c09val{"wrong-type:uint", c09uint(7)}
	c09wrongA  = c09val{"wrong-type:array", c09arr()}
	c09wrongM  = c09val{"wrong-type:map", c09map()}
	c09hdrOnly = c09val{"str32-header-64KiB-no-body", []byte{0xdb, 0, 1, 0, 0}}
	c09arrBomb = c09val{"array32-header-4G-no-body", []byte{0xdd, 0xff, 0xff, 0xff, 0xff}}
	c09mapBomb = c09val{"map32-header-4G-no-body", []byte{0xdf, 0xff, 0xff, 0xff, 0xff}}
)

func c09uintD(extra ...c09val) []c09val {
	d := []c09val{c09absent, c09nilv, c09v("0", c09uint(0)), c09v("1", c09uint(1)), c09v("max-uint64", c09uint(math.MaxUint64)),
		c09v("-1", c09int(-1)), c09wrongS, c09v("float", c09float(1.5))}
	return append(d, extra...)
}

func c09strD(names ...string) []c09val {
	d := []c09val{c09absent, c09nilv, c09v(`""`, c09str(""))}
	for _, n := range names {
		d = append(d, c09v(fmt.Sprintf("%q", n), c09str(n)))
	}
	return append(d, c09v("long-string", c09str(c09long)), c09wrongU, c09wrongA, c09hdrOnly)
}

func c09bytesD(extra ...c09val) []c09val {
	d := []c09val{c09absent, c09nilv, c09v("empty", c09bytes(nil)), c09v("1-byte", c09bytes([]byte{7})), c09v("long", c09bytes([]byte(c09long))),
		c09wrongU, c09v("array-of-ints", c09arr(c09uint(1), c09uint(2))), c09v("bin8", []byte{0xc4, 2, 9, 9})}
	return append(d, extra...)
}

func c09boolD() []c09val {
	return []c09val{c09absent, c09nilv, c09v("false", c09bool(false)), c09v("true", c09bool(true)), c09wrongS, c09v("uint-1", c09uint(1))}
}

// c09product enumerates the product of the field domains as msgpack maps.
func c09product(fields []c09field, f func(body []byte, labels []string)) {
	idx := make([]int, len(fields))
	kvs := make([]c09kv, len(fields))
	labels := make([]string, len(fields))
	for {
		for i, fl := range fields {
			kvs[i] = c09kv{fl.name, fl.vals[idx[i]].enc}
			labels[i] = fl.name + "=" + fl.vals[idx[i]].label
		}
		f(c09map(kvs...), labels)
		k := len(fields) - 1
		for k >= 0 {
			idx[k]++
			if idx[k] < len(fields[k].vals) {
				break
			}
			idx[k] = 0
			k--
		}
		if k < 0 {
			return
		}
	}
}

// c09sweep varies one field at a time over its domain, all others at their first value.
func c09sweep(fields []c09field, f func(body []byte, labels []string)) {
	kvs := make([]c09kv, len(fields))
	labels := make([]string, len(fields))
	for v := range fields {
		for j := range fields[v].vals {
			for i, fl := range fields {
				x := fl.vals[0]
				if i == v {
					x = fl.vals[j]
				}
				kvs[i] = c09kv{fl.name, x.enc}
				labels[i] = fl.name + "=" + x.label
			}
			f(c09map(kvs...), labels)
		}
	}
}

// ---------------------------------------------------------------------------
// environment: one real node "a" that knows b (alive) and c (failed)

type c09envSpec struct {
	Keyring bool   `json:"keyring,omitempty"`
	Merge   bool   `json:"merge,omitempty"`
	Open    string `json:"open,omitempty"` // "", query, query-ack, conflict, keys-list, keys-install
	Buf     int    `json:"buffers,omitempty"` // EventBuffer = QueryBuffer = Buf (0: the default 512)
}

type c09env struct {
	n      *world.Node
	spec   c09envSpec
	qLTime uint64
	qID    uint32
	kr     *memberlist.Keyring
	fresh  int
	opDone *bool
	open   *serf.QueryResponse
}

type c09acceptMerge struct{}

func (c09acceptMerge) NotifyMerge([]*serf.Member) error { return nil }

var (
	c09keyA = []byte("0123456789abcdef")
	c09keyB = []byte("fedcba9876543210")
)

// open-query coordinates are deterministic (fresh clocks, scripted random ids); they
// are measured once per environment by a probe run and asserted in every run.
type c09probe struct {
	lt uint64
	id uint32
}

func c09setup(spec c09envSpec) (*c09env, error) {
	vsched.Branching(false)
	e := &c09env{spec: spec}
	var opts []world.Opt
	if spec.Keyring {
		kr, err := memberlist.NewKeyring([][]byte{c09keyA, c09keyB}, c09keyA)
		if err != nil {
			return nil, err
		}
		e.kr = kr
		// packets stay plaintext so that the node's replies can be read from the transport
		opts = append(opts, func(c *serf.Config) {
			c.MemberlistConfig.Keyring = kr
			c.MemberlistConfig.GossipVerifyOutgoing = false
			c.MemberlistConfig.GossipVerifyIncoming = false
		})
	}
	if spec.Buf > 0 {
		opts = append(opts, func(c *serf.Config) { c.EventBuffer, c.QueryBuffer = spec.Buf, spec.Buf })
	}
	if spec.Merge {
		opts = append(opts, func(c *serf.Config) { c.Merge = c09acceptMerge{} })
	}
	n, err := world.NewNode("a", 0, opts...)
	if err != nil {
		return nil, err
	}
	e.n = n
	n.Events().NotifyJoin(n.MLNode("b", 1, map[string]string{"role": "web"}))
	n.Events().NotifyJoin(n.MLNode("c", 2, nil))
	n.Events().NotifyLeave(n.MLNode("c", 2, nil))
	vsched.Quiesce()
	n.DrainEvents()
	n.Outbox()
	n.Tr.TakeSent()
	switch spec.Open {
	case "":
		// a prune request sleeps (virtually) for the leave propagation delay in the delivering thread
		vsched.SetHorizon(int64(2 * time.Second))
	case "query", "query-ack":
		vsched.SetHorizon(int64(2 * time.Second))
		resp, err := n.S.Query("c09-open", []byte("p"), &serf.QueryParam{RequestAck: spec.Open == "query-ack", Timeout: time.Hour})
		if err != nil {
			return nil, err
		}
		e.qLTime, e.qID = serf.VQueryInfo(resp)
		e.open = resp
	case "conflict":
		self := n.S.Memberlist().LocalNode()
		n.Conflict().NotifyConflict(self, n.MLNode("a", 5, nil))
	case "keys-list", "keys-install":
		done := false
		e.opDone = &done
		vsched.Spawn("keyop", func() {
			if spec.Open == "keys-list" {
				n.S.KeyManager().ListKeys()
			} else {
				n.S.KeyManager().InstallKey("MDEyMzQ1Njc4OWFiY2RlZg==")
			}
			done = true
		})
	default:
		return nil, fmt.Errorf("unknown open-query kind %q", spec.Open)
	}
	vsched.Quiesce()
	if spec.Open == "conflict" || strings.HasPrefix(spec.Open, "keys-") {
		found := false
		for _, b := range n.Outbox() {
			if len(b) > 0 && b[0] == serf.VMsgQuery {
				var q serf.VMessageQuery
				if serf.VDecode(b[1:], &q) == nil {
					e.qLTime, e.qID, found = uint64(q.LTime), q.ID, true
				}
			}
		}
		if !found {
			return nil, fmt.Errorf("open=%s: no query was broadcast", spec.Open)
		}
	} else {
		n.Outbox()
	}
	n.DrainEvents()
	n.Tr.TakeSent()
	return e, nil
}

// drainOpen plays the application reading the result streams of its open query
// (harness code must not block on serf's channels, so it polls).
func (e *c09env) drainOpen() {
	if e.open == nil {
		return
	}
	c07drain(e.open.ResponseCh(), func(serf.NodeResponse) {})
	c07drain(e.open.AckCh(), func(string) {})
}

// snapshot renders everything a malformed input must leave untouched.
func (e *c09env) snapshot() string {
	st := serf.VDump(e.n.S)
	for i := range st.Intents {
		st.Intents[i].Age = 0
	}
	for i := range st.Members {
		if st.Members[i].LeaveAge > 0 {
			st.Members[i].LeaveAge = 0
		}
	}
	s := fmt.Sprintf("%+v", *st)
	if c, err := e.n.S.GetCoordinate(); err == nil && c != nil {
		s += fmt.Sprintf(" coord=%+v", *c)
	}
	if c, ok := e.n.S.GetCachedCoordinate("b"); ok && c != nil {
		s += fmt.Sprintf(" coord[b]=%+v", *c)
	}
	if e.kr != nil {
		s += fmt.Sprintf(" keys=%x primary=%x", e.kr.GetKeys(), e.kr.GetPrimaryKey())
	}
	var tags []string
	for _, m := range e.n.S.Members() {
		tags = append(tags, fmt.Sprintf("%s%v", m.Name, c09sortedTags(m.Tags)))
	}
	sort.Strings(tags)
	return s + " tags=" + strings.Join(tags, ",")
}

func c09sortedTags(t map[string]string) []string {
	var out []string
	for k, v := range t {
		out = append(out, k+"="+v)
	}
	sort.Strings(out)
	return out
}

// serves is the "keeps serving" half of the oracle.
func (e *c09env) serves() string {
	ms := e.n.S.Members()
	self := false
	for _, m := range ms {
		if m.Name == "a" {
			self = true
		}
	}
	if !self {
		return fmt.Sprintf("Members() no longer lists the node itself: %v", e.n.SortedMembers())
	}
	if st := e.n.S.State(); st != serf.SerfAlive {
		return fmt.Sprintf("node state is %v", st)
	}
	e.n.DrainEvents()
	e.fresh++
	name := fmt.Sprintf("c09-fresh-%d", e.fresh)
	lt := serf.VDump(e.n.S).EventClock
	e.n.Delegate().NotifyMsg(serf.VEncode(serf.VMsgUserEvent, &serf.VMessageUserEvent{LTime: serf.LamportTime(lt), Name: name, Payload: []byte("p")}))
	vsched.Quiesce()
	for _, ev := range e.n.DrainEvents() {
		if u, ok := ev.(serf.UserEvent); ok && u.Name == name {
			return ""
		}
	}
	return fmt.Sprintf("a fresh user event %q (LTime %d = event clock) delivered afterwards did not reach the application", name, lt)
}

// ---------------------------------------------------------------------------
// entry points

type c09entry struct {
	name    string
	env     c09envSpec
	batch   int
	deliver func(e *c09env, i int, in []byte)
	// wellformed: the input decodes as its kind (reaches a handler). Inputs that are
	// not well-formed must be ignored when ignoreOracle is set.
	wellformed   func(in []byte) bool
	ignoreOracle bool
	class        func(in []byte) string
}

var c09entries = map[string]*c09entry{}

func c09reg(e *c09entry) *c09entry {
	if e.batch == 0 {
		e.batch = 256
	}
	c09entries[e.name] = e
	return e
}

func c09short(name string) string {
	if i := strings.LastIndex(name, "/"); i >= 0 {
		return name[i+1:]
	}
	return name
}

var c09kindName = map[byte]string{
	serf.VMsgLeave: "leave", serf.VMsgJoin: "join", serf.VMsgPushPull: "push/pull", serf.VMsgUserEvent: "user event", serf.VMsgQuery: "query",
	serf.VMsgQueryResponse: "query response", serf.VMsgConflictResponse: "conflict response", serf.VMsgKeyRequest: "key request",
	serf.VMsgKeyResponse: "key response", serf.VMsgRelay: "relay envelope",
}

// c09decodeMsg decodes a gossip message the way NotifyMsg would.
func c09decodeMsg(buf []byte) (interface{}, bool) {
	if len(buf) == 0 {
		return nil, false
	}
	switch buf[0] {
	case serf.VMsgLeave:
		var m serf.VMessageLeave
		return &m, serf.VDecode(buf[1:], &m) == nil
	case serf.VMsgJoin:
		var m serf.VMessageJoin
		return &m, serf.VDecode(buf[1:], &m) == nil
	case serf.VMsgUserEvent:
		var m serf.VMessageUserEvent
		return &m, serf.VDecode(buf[1:], &m) == nil
	case serf.VMsgQuery:
		var m serf.VMessageQuery
		return &m, serf.VDecode(buf[1:], &m) == nil
	case serf.VMsgQueryResponse:
		var m serf.VMessageQueryResponse
		return &m, serf.VDecode(buf[1:], &m) == nil
	case serf.VMsgRelay:
		var m serf.VRelayHeader
		return &m, serf.VDecode(buf[1:], &m) == nil
	}
	return nil, false
}

var c09keyQueries = map[string]bool{"install-key": true, "use-key": true, "remove-key": true}

func c09internalName(name string) (string, bool) {
	if !strings.HasPrefix(name, serf.InternalQueryPrefix) {
		return "", false
	}
	short := name[len(serf.InternalQueryPrefix):]
	switch short {
	case "ping", "conflict", "install-key", "use-key", "remove-key", "list-keys":
		return short, true
	}
	return "unknown", true
}

func c09queryClass(q *serf.VMessageQuery) string {
	for _, f := range q.Filters {
		if len(f) == 0 {
			return "query with zero-length filter"
		}
	}
	if short, ok := c09internalName(q.Name); ok {
		if c09keyQueries[short] && len(q.Payload) == 0 {
			return short + " query with empty payload"
		}
		return "internal query " + short
	}
	return "query"
}

func c09msgClass(buf []byte) string {
	if len(buf) == 0 {
		return "empty message"
	}
	kind, known := c09kindName[buf[0]]
	m, ok := c09decodeMsg(buf)
	if m == nil {
		if known {
			return kind + " type byte outside its envelope"
		}
		return "message of unknown type"
	}
	if !ok {
		return "undecodable " + kind
	}
	if q, isq := m.(*serf.VMessageQuery); isq {
		return c09queryClass(q)
	}
	return kind
}

func c09msgWellformed(buf []byte) bool {
	_, ok := c09decodeMsg(buf)
	return ok
}

func c09ppWellformed(buf []byte) bool {
	if len(buf) == 0 || buf[0] != serf.VMsgPushPull {
		return false
	}
	var pp serf.VMessagePushPull
	return serf.VDecode(buf[1:], &pp) == nil
}

func c09pingWellformed(buf []byte) bool {
	if len(buf) == 0 || buf[0] != serf.PingVersion {
		return false
	}
	var c coordinate.Coordinate
	return serf.VDecode(buf[1:], &c) == nil
}

func c09metaWellformed(buf []byte) bool {
	if len(buf) == 0 || buf[0] != serf.VTagMagicByte {
		return false
	}
	m := map[string]string{}
	return serf.VDecode(buf[1:], &m) == nil
}

func c09filterWellformed(buf []byte) bool {
	if len(buf) == 0 {
		return false
	}
	switch buf[0] {
	case serf.VFilterNodeType:
		var f serf.VFilterNode
		return serf.VDecode(buf[1:], &f) == nil
	case serf.VFilterTagType:
		var f serf.VFilterTag
		return serf.VDecode(buf[1:], &f) == nil
	}
	return false
}

func c09class(wf func([]byte) bool, kind string) func([]byte) string {
	return func(in []byte) string {
		if len(in) == 0 {
			return "empty " + kind
		}
		if !wf(in) {
			return "undecodable " + kind
		}
		return kind
	}
}

const c09rtt = 10 * time.Millisecond

var c09qid uint32 = 1000

func c09wrapQuery(i int, name string, filters [][]byte, payload []byte) []byte {
	return serf.VEncode(serf.VMsgQuery, &serf.VMessageQuery{LTime: 1, ID: uint32(5000 + i), Addr: []byte{10, 0, 0, 2}, Port: 7946, SourceNode: "b",
		Filters: filters, Flags: serf.VQueryFlagAck, Timeout: time.Second, Name: name, Payload: payload})
}

func c09wrapReply(e *c09env, i int, payload []byte) []byte {
	return serf.VEncode(serf.VMsgQueryResponse, &serf.VMessageQueryResponse{LTime: serf.LamportTime(e.qLTime), ID: e.qID, From: fmt.Sprintf("p%d", i), Payload: payload})
}

func c09metaNode(e *c09env, name string, idx int, meta []byte) *memberlist.Node {
	nd := e.n.MLNode(name, idx, nil)
	nd.Meta = meta
	return nd
}

func init() {
	c09reg(&c09entry{name: "NotifyMsg", ignoreOracle: true, wellformed: c09msgWellformed, class: c09msgClass,
		deliver: func(e *c09env, i int, in []byte) { e.n.Delegate().NotifyMsg(in) }})
	for _, open := range []string{"query", "query-ack"} {
		c09reg(&c09entry{name: "NotifyMsg[open " + open + "]", env: c09envSpec{Open: open}, ignoreOracle: true, wellformed: c09msgWellformed, class: c09msgClass,
			deliver: func(e *c09env, i int, in []byte) { e.n.Delegate().NotifyMsg(in) }})
	}
	c09reg(&c09entry{name: "NotifyMsg[keyring]", env: c09envSpec{Keyring: true}, ignoreOracle: true, wellformed: c09msgWellformed, class: c09msgClass,
		deliver: func(e *c09env, i int, in []byte) { e.n.Delegate().NotifyMsg(in) }})
	for _, join := range []bool{false, true} {
		join := join
		c09reg(&c09entry{name: fmt.Sprintf("MergeRemoteState(join=%v)", join), ignoreOracle: true, wellformed: c09ppWellformed, class: c09class(c09ppWellformed, "push/pull state"),
			deliver: func(e *c09env, i int, in []byte) { e.n.Delegate().MergeRemoteState(in, join) }})
	}
	// nodes whose event and query rings are smaller than what the network sends
	for _, buf := range []int{1, 2} {
		tag := fmt.Sprintf("[buffers=%d]", buf)
		c09reg(&c09entry{name: "NotifyMsg" + tag, env: c09envSpec{Buf: buf}, ignoreOracle: true, wellformed: c09msgWellformed, class: c09msgClass,
			deliver: func(e *c09env, i int, in []byte) { e.n.Delegate().NotifyMsg(in) }})
		for _, join := range []bool{false, true} {
			join := join
			c09reg(&c09entry{name: fmt.Sprintf("MergeRemoteState(join=%v)%s", join, tag), env: c09envSpec{Buf: buf}, ignoreOracle: true, wellformed: c09ppWellformed,
				class:   c09class(c09ppWellformed, "push/pull state"),
				deliver: func(e *c09env, i int, in []byte) { e.n.Delegate().MergeRemoteState(in, join) }})
		}
		// input = a sequence of gossip messages, each prefixed by its 2-byte length, delivered one after the other
		c09reg(&c09entry{name: "NotifyMsg sequence" + tag, env: c09envSpec{Buf: buf}, batch: 1,
			wellformed: func(in []byte) bool {
				ms, ok := c09splitSeq(in)
				for _, m := range ms {
					ok = ok && c09msgWellformed(m)
				}
				return ok && len(ms) > 0
			},
			class: func(in []byte) string {
				ms, _ := c09splitSeq(in)
				var cl []string
				for _, m := range ms {
					cl = append(cl, c09msgClass(m))
				}
				return "sequence of " + strings.Join(cl, ", ")
			},
			deliver: func(e *c09env, i int, in []byte) {
				ms, _ := c09splitSeq(in)
				for _, m := range ms {
					e.n.Delegate().NotifyMsg(m)
					vsched.Quiesce()
				}
			}})
	}
	c09reg(&c09entry{name: "NotifyPingComplete", ignoreOracle: true, wellformed: c09pingWellformed, class: c09class(c09pingWellformed, "ping payload"),
		deliver: func(e *c09env, i int, in []byte) {
			e.n.Ping().NotifyPingComplete(e.n.MLNode("b", 1, nil), c09rtt, in)
			e.n.Ping().AckPayload()
		}})
	metaClass := c09class(c09metaWellformed, "member metadata")
	c09reg(&c09entry{name: "NotifyJoin(Meta)", wellformed: c09metaWellformed, class: metaClass,
		deliver: func(e *c09env, i int, in []byte) { e.n.Events().NotifyJoin(c09metaNode(e, fmt.Sprintf("d%d", i), 3, in)) }})
	c09reg(&c09entry{name: "NotifyUpdate(Meta)", wellformed: c09metaWellformed, class: metaClass,
		deliver: func(e *c09env, i int, in []byte) { e.n.Events().NotifyUpdate(c09metaNode(e, "b", 1, in)) }})
	c09reg(&c09entry{name: "NotifyMerge(Meta)", env: c09envSpec{Merge: true}, wellformed: c09metaWellformed, class: metaClass,
		deliver: func(e *c09env, i int, in []byte) {
			m := e.n.Conf.MemberlistConfig.Merge
			m.NotifyMerge([]*memberlist.Node{e.n.MLNode("b", 1, map[string]string{"role": "web"}), c09metaNode(e, fmt.Sprintf("d%d", i), 3, in)})
		}})
	c09reg(&c09entry{name: "NotifyAlive(Meta)", env: c09envSpec{Merge: true}, wellformed: c09metaWellformed, class: metaClass,
		deliver: func(e *c09env, i int, in []byte) {
			e.n.Conf.MemberlistConfig.Alive.NotifyAlive(c09metaNode(e, fmt.Sprintf("d%d", i), 3, in))
		}})
	c09reg(&c09entry{name: "query filter", wellformed: c09filterWellformed,
		class: func(in []byte) string {
			if len(in) == 0 {
				return "query with zero-length filter"
			}
			return c09class(c09filterWellformed, "query filter")(in)
		},
		deliver: func(e *c09env, i int, in []byte) { e.n.Delegate().NotifyMsg(c09wrapQuery(i, "q", [][]byte{in}, []byte("p"))) }})
	for _, kr := range []bool{false, true} {
		for _, short := range []string{"ping", "conflict", "install-key", "use-key", "remove-key", "list-keys", "zz"} {
			short, kr := short, kr
			name := "internal query " + short
			if kr {
				name += "[keyring]"
			}
			wf := func(in []byte) bool { return true }
			if c09keyQueries[short] {
				wf = func(in []byte) bool {
					if len(in) == 0 {
						return false
					}
					var r serf.VKeyRequest
					return serf.VDecode(in[1:], &r) == nil
				}
			}
			c09reg(&c09entry{name: name, env: c09envSpec{Keyring: kr}, wellformed: wf, ignoreOracle: c09keyQueries[short],
				class: func(in []byte) string {
					if c09keyQueries[short] {
						if len(in) == 0 {
							return short + " query with empty payload"
						}
						if !wf(in) {
							return short + " query with undecodable payload"
						}
					}
					return "internal query " + short
				},
				deliver: func(e *c09env, i int, in []byte) {
					e.n.Delegate().NotifyMsg(c09wrapQuery(i, serf.VInternalQueryName(short), nil, in))
				}})
		}
	}
	replyWF := func(t byte, mk func() interface{}) func([]byte) bool {
		return func(in []byte) bool { return len(in) > 0 && in[0] == t && serf.VDecode(in[1:], mk()) == nil }
	}
	conflictWF := replyWF(serf.VMsgConflictResponse, func() interface{} { return &serf.Member{} })
	keyWF := replyWF(serf.VMsgKeyResponse, func() interface{} { return &serf.VNodeKeyResponse{} })
	c09reg(&c09entry{name: "conflict reply", env: c09envSpec{Open: "conflict"}, wellformed: conflictWF, class: c09class(conflictWF, "conflict reply"),
		deliver: func(e *c09env, i int, in []byte) { e.n.Delegate().NotifyMsg(c09wrapReply(e, i, in)) }})
	for _, op := range []string{"keys-list", "keys-install"} {
		c09reg(&c09entry{name: "key reply[" + op + "]", env: c09envSpec{Keyring: true, Open: op}, batch: 1, wellformed: keyWF, class: c09class(keyWF, "key reply"),
			deliver: func(e *c09env, i int, in []byte) { e.n.Delegate().NotifyMsg(c09wrapReply(e, i, in)) }})
	}

	vc.Register(&vc.Check{
		ID:    "C09",
		Level: "exploration",
		Rule: "cases: every (entry point, byte string) of a bounded adversarial space handed to a real Serf node ('a', knows an alive member 'b' and a failed member 'c'; with/without keyring, with/without merge delegate, with an open query where replies are the input) through the memberlist-facing interface: Delegate.NotifyMsg, Delegate.MergeRemoteState(join=false/true), PingDelegate.NotifyPingComplete(+AckPayload), EventDelegate.NotifyJoin/NotifyUpdate and Merge/Alive delegates with arbitrary Meta, a query's single filter, the payload of each internal query (_serf_ping/conflict/install-key/use-key/remove-key/list-keys/unknown, with and without keyring), the payload of a reply into an open conflict query and an open ListKeys/InstallKey query. Spaces: (i) all byte strings of length <=2 at the top-level entry points (NotifyMsg, MergeRemoteState x2, NotifyPingComplete, NotifyJoin metadata); at the nested ones (filter, internal-query payloads, replies, the other three metadata paths) the quick tier takes length <=1 plus length 2 behind each of 12 type/version/msgpack-header bytes and the thorough tier all of length <=2 (payload-blind internal queries ping/list-keys/unknown: length <=1); thorough adds length 3 for NotifyMsg with first byte = each of the 10 message types; these sweeps deliver 256 inputs one after the other to the same node (a batch with any failure is re-run input by input), all other cases get a fresh node each; (ii) hand-encoded msgpack maps: full products of per-field domains {absent, nil, 0/empty, 1/1-element, max, negative, wrong msgpack type, long string, length header without body} for leave, join, user event, query response (against no/an open query), relay envelope (header fields x inner reply kinds), push/pull, conflict response, key response, key request, coordinate; for queries the products filters x flags x relay factor x address x name, name x payload x keyring x flags x relay factor, and the scalar fields (thorough) resp. one-field sweeps (quick); (ii') inputs larger than the receiver's own structures: nodes with EventBuffer=QueryBuffer=1 and 2 (and the default 512) receive every push/pull Events list of length 0..5 over {nil, slot LTime 1, 2, 3} (nil and non-nil at every position, times colliding modulo the ring), lists of 511..1025 entries with real slots at and beyond index 512, every sequence of <=3 gossip messages over 7 user events and 6 queries whose Lamport times {0,1,2,3,5,max} collide modulo the ring, and the user-event / query / push/pull field products; (iii) every truncation and every single-byte substitution by {00,01,7f,80,90,a0,c0,c3,cf,db,df,ff} of a valid seed encoding of every kind. Oracle per case: no controlled thread (delivering thread, serf's handler goroutines, timers) panics, the delivering call returns, an input that does not decode as its kind changes nothing (private state, coordinate, keyring, events, outbox, transport) resp. a key request that does not decode is answered with Result=false, and afterwards Members() lists the node, the node is alive and a fresh user event reaches the event channel. non-trivial = the input decodes as its kind, i.e. gets past the first rejection and reaches a handler",
		Assumptions: []string{
			"one node over an inert real memberlist; inputs are delivered serially, each followed by running all of serf's threads to quiescence",
			"'malformed' is taken as: not decodable by the msgpack decoder into the structure of its kind (or unknown type byte / wrong version byte); only for those the 'is ignored' half is asserted",
			"allocation bombs were ruled out by reading the decoder (go-msgpack v2.1.5 grows byte strings, slices and maps in bounded chunks while reading; a length header without body ends in a decode error after at most 256 KiB): such headers are part of the field domains, no larger inputs are generated",
			"losing a name-conflict vote shuts the node down by design; the keep-serving check for conflict replies runs while the vote is still open",
			"panics inside uninstrumented memberlist/codec threads are outside the scheduler's view; all of serf's own goroutines are controlled",
		},
		Run: c09run,
	})
}

// ---------------------------------------------------------------------------
// runner

type c09replay struct {
	Entry string   `json:"entry"`
	Input string   `json:"input_hex"`
	Batch []string `json:"batch_hex,omitempty"`
}

type c09runner struct {
	ctx    *vc.Ctx
	idx    int
	probes map[c09envSpec]c09probe
}

// result of one run
type c09result struct {
	herr    string
	panics  []vsched.PanicInfo
	stuck   string
	notIgn  int    // index of the first input that was not ignored although malformed (-1)
	notIgnD string // what changed
	serve   string
}

// c09exec runs the inputs against a fresh environment in one execution.
func (r *c09runner) exec(ent *c09entry, inputs [][]byte) c09result {
	res := c09result{notIgn: -1}
	finished := false
	x := vsched.Run(vsched.RunOpts{MaxSteps: 400000 + 40000*len(inputs)}, func() {
		e, err := c09setup(ent.env)
		if err != nil {
			res.herr = err.Error()
			return
		}
		if p, ok := r.probes[ent.env]; ok && (p.lt != e.qLTime || p.id != e.qID) {
			res.herr = fmt.Sprintf("open query coordinates differ between runs: probe (%d,%d), now (%d,%d)", p.lt, p.id, e.qLTime, e.qID)
			return
		}
		prev := "" // snapshot taken after the previous input, valid while nothing was delivered since (outbox and transport drained)
		for i, in := range inputs {
			check := ent.ignoreOracle && !ent.wellformed(in)
			keyq := check && strings.HasPrefix(ent.name, "internal query")
			before := ""
			if check {
				if prev != "" {
					before = prev
				} else {
					e.n.Outbox()
					e.n.Tr.TakeSent()
					before = e.snapshot()
				}
			}
			prev = ""
			ent.deliver(e, i, in)
			vsched.Quiesce()
			e.drainOpen()
			evs := e.n.DrainEvents()
			if check && res.notIgn < 0 {
				out := e.n.Outbox()
				sent := e.n.Tr.TakeSent()
				after := e.snapshot()
				prev = after
				switch {
				case keyq:
					// a key request is answered with an error; nothing else may change
					if d := c09keyReplies(sent); d != "" {
						res.notIgn, res.notIgnD = i, d
					} else if kb, ka := c09keysOf(before), c09keysOf(after); kb != ka {
						res.notIgn, res.notIgnD = i, fmt.Sprintf("keyring changed: %s -> %s", kb, ka)
					}
				case before != after:
					res.notIgn, res.notIgnD = i, fmt.Sprintf("state changed:\n before %s\n after  %s", before, after)
				case len(evs) > 0:
					res.notIgn, res.notIgnD = i, fmt.Sprintf("the application received %s", world.DescribeEvent(evs[0]))
				case len(out) > 0:
					res.notIgn, res.notIgnD = i, fmt.Sprintf("%d message(s) were queued for gossip, first: %x", len(out), out[0])
				case len(sent) > 0:
					res.notIgn, res.notIgnD = i, fmt.Sprintf("%d packet(s) were sent, first to %s: %x", len(sent), sent[0].To, sent[0].Raw)
				}
			}
			if i%64 == 63 {
				e.n.Outbox()
				e.n.Tr.TakeSent()
			}
		}
		res.serve = e.serves()
		if ent.env.Open == "conflict" || strings.HasPrefix(ent.env.Open, "keys-") {
			// let the open internal query run into its timeout so that the collecting thread finishes its tail
			vsched.Advance(int64(3 * time.Second))
		}
		finished = true
		e.n.S.Shutdown()
	})
	res.panics = x.Panics
	if !finished && len(x.Panics) == 0 && res.herr == "" {
		if x.CapHit {
			res.herr = "step cap hit"
		} else {
			res.stuck = fmt.Sprintf("%+v", x.Blocked)
		}
	}
	return res
}

func c09keysOf(snap string) string {
	if i := strings.Index(snap, " keys="); i >= 0 {
		j := strings.Index(snap[i:], " tags=")
		if j > 0 {
			return snap[i : i+j]
		}
	}
	return ""
}

// c09keyReplies checks that every key reply among the sent packets reports failure.
func c09keyReplies(sent []world.Packet) string {
	for _, p := range sent {
		raw := p.User
		if len(raw) > 0 && raw[0] == serf.VMsgRelay {
			continue
		}
		if len(raw) == 0 || raw[0] != serf.VMsgQueryResponse {
			continue
		}
		var qr serf.VMessageQueryResponse
		if serf.VDecode(raw[1:], &qr) != nil || qr.Flags&serf.VQueryFlagAck != 0 {
			continue
		}
		var nk serf.VNodeKeyResponse
		if len(qr.Payload) < 1 || qr.Payload[0] != serf.VMsgKeyResponse || serf.VDecode(qr.Payload[1:], &nk) != nil {
			return fmt.Sprintf("the reply is not a key response: %x", qr.Payload)
		}
		if nk.Result {
			return fmt.Sprintf("the reply reports success: %+v", nk)
		}
	}
	return ""
}

// run evaluates a list of inputs for one entry point and records the verdicts.
// batch > 1: that many inputs are delivered one after the other to the same node
// (raw byte sweeps); a batch with any failure is re-run input by input.
func (r *c09runner) run(scn *vc.Scenario, ent *c09entry, inputs [][]byte, note func(i int) string, batch int) {
	if batch > ent.batch {
		batch = ent.batch
	}
	if batch < 1 {
		batch = 1
	}
	bad := func(x c09result) bool { return len(x.panics) > 0 || x.stuck != "" || x.notIgn >= 0 || x.serve != "" }
	if os.Getenv("C09_TIMING") != "" && r.ctx.Shard == 0 {
		t0 := time.Now()
		defer func() {
			if f, err := os.OpenFile(os.Getenv("C09_TIMING"), os.O_APPEND|os.O_CREATE|os.O_WRONLY, 0o644); err == nil {
				fmt.Fprintf(f, "%8.2fs %7d %s\n", time.Since(t0).Seconds(), len(inputs), scn.Name)
				f.Close()
			}
		}()
	}
	for lo := 0; lo < len(inputs); lo += batch {
		hi := lo + batch
		if hi > len(inputs) {
			hi = len(inputs)
		}
		r.idx++
		if !r.ctx.Mine(r.idx) {
			continue
		}
		chunk := inputs[lo:hi]
		res := r.exec(ent, chunk)
		if res.herr != "" {
			r.ctx.Fail("C09 %s [%s]: %s", scn.Name, ent.name, res.herr)
			return
		}
		anyBad := false
		for i, in := range chunk {
			one := res
			if bad(res) && len(chunk) > 1 {
				one = r.exec(ent, [][]byte{in})
				if one.herr != "" {
					r.ctx.Fail("C09 %s [%s]: %s", scn.Name, ent.name, one.herr)
					return
				}
			}
			wf := ent.wellformed(in)
			out := "ok:rejected"
			if wf {
				out = "ok:handled"
			}
			if bad(one) {
				anyBad = true
				out = r.report(scn, ent, in, one, note, lo+i)
			} else if wf && len(scn.Samples) < 2 {
				s := map[string]interface{}{"entry": ent.name, "input_hex": hex.EncodeToString(in), "class": ent.class(in), "verdict": "no panic, handled, node keeps serving"}
				if note != nil {
					s["case"] = note(lo + i)
				}
				scn.Sample(s)
			}
			scn.Case(out, wf)
		}
		if bad(res) && !anyBad {
			// the failure needs the whole batch (state carried from input to input)
			var hx []string
			for _, in := range chunk {
				hx = append(hx, hex.EncodeToString(in))
			}
			msg := fmt.Sprintf("entry %s: a batch of %d inputs delivered one after the other to the same node fails although each input alone passes: panics=%d stuck=%q not-ignored=%d (%s) serve=%q", ent.name, len(chunk), len(res.panics), res.stuck, res.notIgn, res.notIgnD, res.serve)
			if len(res.panics) > 0 {
				msg += "\n" + res.panics[0].Value + "\n" + res.panics[0].Stack
			}
			r.ctx.Violation(scn.Name, "sequence-dependent failure at "+ent.name, msg, c09replay{Entry: ent.name, Batch: hx})
		}
	}
}

func (r *c09runner) report(scn *vc.Scenario, ent *c09entry, in []byte, res c09result, note func(i int) string, i int) string {
	class := ent.class(in)
	desc := fmt.Sprintf("entry %s, input (%d bytes) %x, class %q", ent.name, len(in), in, class)
	if note != nil {
		desc += ", case " + note(i)
	}
	rp := c09replay{Entry: ent.name, Input: hex.EncodeToString(in)}
	var sig string
	switch {
	case len(res.panics) > 0:
		p := res.panics[0]
		sig = "panic " + c09short(p.Frame) + " " + class
		r.ctx.Violation(scn.Name, sig, fmt.Sprintf("%s: thread %q panicked: %s\n%s", desc, p.Thread, p.Value, p.Stack), rp)
	case res.stuck != "":
		sig = "stuck " + class
		r.ctx.Violation(scn.Name, sig, fmt.Sprintf("%s: the delivering call never returned; blocked threads: %s", desc, res.stuck), rp)
	case res.notIgn >= 0:
		sig = "malformed input not ignored: " + class
		r.ctx.Violation(scn.Name, sig, fmt.Sprintf("%s: the input does not decode as its kind but was not ignored: %s", desc, res.notIgnD), rp)
	default:
		sig = "stops serving after " + class
		r.ctx.Violation(scn.Name, sig, fmt.Sprintf("%s: afterwards %s", desc, res.serve), rp)
	}
	return sig
}

// ---------------------------------------------------------------------------
// the case spaces

func c09allBytes(maxLen int) [][]byte {
	out := [][]byte{{}}
	if maxLen >= 1 {
		for a := 0; a < 256; a++ {
			out = append(out, []byte{byte(a)})
		}
	}
	if maxLen >= 2 {
		for a := 0; a < 256; a++ {
			for b := 0; b < 256; b++ {
				out = append(out, []byte{byte(a), byte(b)})
			}
		}
	}
	return out
}

var c09subst = []byte{0x00, 0x01, 0x7f, 0x80, 0x90, 0xa0, 0xc0, 0xc3, 0xcf, 0xdb, 0xdf, 0xff}

// c09mutations: every proper truncation and every single-byte substitution.
func c09mutations(seed []byte) ([][]byte, []string) {
	var out [][]byte
	var notes []string
	for l := 0; l < len(seed); l++ {
		out = append(out, append([]byte{}, seed[:l]...))
		notes = append(notes, fmt.Sprintf("truncated to %d of %d bytes", l, len(seed)))
	}
	for p := 0; p < len(seed); p++ {
		for _, s := range c09subst {
			if seed[p] == s {
				continue
			}
			m := append([]byte{}, seed...)
			m[p] = s
			out = append(out, m)
			notes = append(notes, fmt.Sprintf("byte %d: %02x -> %02x", p, seed[p], s))
		}
	}
	out = append(out, append([]byte{}, seed...))
	notes = append(notes, "seed unchanged")
	return out, notes
}

func c09run(ctx *vc.Ctx) {
	r := &c09runner{ctx: ctx, probes: map[c09envSpec]c09probe{}}
	if ctx.Replay != nil {
		var rp c09replay
		if json.Unmarshal(ctx.Replay, &rp) != nil || c09entries[rp.Entry] == nil {
			ctx.Fail("C09: bad replay artefact")
			return
		}
		ent := c09entries[rp.Entry]
		var inputs [][]byte
		for _, h := range append([]string{rp.Input}, rp.Batch...) {
			if b, err := hex.DecodeString(h); err == nil && (h != "" || len(rp.Batch) == 0) {
				inputs = append(inputs, b)
			}
		}
		scn := ctx.Scn("replay", "cases")
		r.run(scn, ent, inputs, nil, len(inputs))
		return
	}
	if !c09selftest(ctx) {
		return
	}
	// probe the deterministic coordinates of the open queries
	for _, spec := range []c09envSpec{{Open: "query"}, {Open: "query-ack"}, {Open: "conflict"}, {Keyring: true, Open: "keys-list"}, {Keyring: true, Open: "keys-install"}} {
		spec := spec
		var p c09probe
		var herr string
		vsched.Run(vsched.RunOpts{MaxSteps: 400000}, func() {
			e, err := c09setup(spec)
			if err != nil {
				herr = err.Error()
				return
			}
			p = c09probe{e.qLTime, e.qID}
			e.n.S.Shutdown()
		})
		if herr != "" {
			ctx.Fail("C09 probe %+v: %s", spec, herr)
			return
		}
		r.probes[spec] = p
	}
	c09rawBytes(r)
	c09fields(r)
	c09rings(r)
	c09seeds(r)
}

func c09splitSeq(in []byte) ([][]byte, bool) {
	var out [][]byte
	for len(in) >= 2 {
		n := int(in[0])<<8 | int(in[1])
		if len(in) < 2+n {
			return out, false
		}
		out = append(out, in[2:2+n])
		in = in[2+n:]
	}
	return out, len(in) == 0
}

func c09joinSeq(ms ...[]byte) []byte {
	var out []byte
	for _, m := range ms {
		out = append(out, byte(len(m)>>8), byte(len(m)))
		out = append(out, m...)
	}
	return out
}

// c09selftest validates the hand-written msgpack writer against serf's own decoder.
func c09selftest(ctx *vc.Ctx) bool {
	body := c09map(c09kv{"LTime", c09uint(1 << 40)}, c09kv{"ID", c09uint(70000)}, c09kv{"Addr", c09bytes([]byte{1, 2, 3, 4})}, c09kv{"Port", c09uint(7946)},
		c09kv{"SourceNode", c09str("b")}, c09kv{"Filters", c09arr(c09bytes([]byte{0, 0x91, 0xa1, 'a'}), c09bytes(nil))}, c09kv{"Flags", c09uint(3)},
		c09kv{"RelayFactor", c09uint(200)}, c09kv{"Timeout", c09int(-5)}, c09kv{"Name", c09str(c09long)}, c09kv{"Payload", nil})
	var q serf.VMessageQuery
	if err := serf.VDecode(body, &q); err != nil {
		ctx.Fail("C09 selftest: writer output does not decode: %v", err)
		return false
	}
	if q.LTime != 1<<40 || q.ID != 70000 || string(q.Addr) != "\x01\x02\x03\x04" || q.Port != 7946 || q.SourceNode != "b" || len(q.Filters) != 2 ||
		len(q.Filters[0]) != 4 || len(q.Filters[1]) != 0 || q.Flags != 3 || q.RelayFactor != 200 || q.Timeout != -5 || q.Name != c09long || q.Payload != nil {
		ctx.Fail("C09 selftest: writer output decodes to %+v", q)
		return false
	}
	ref := serf.VEncode(serf.VMsgLeave, &serf.VMessageLeave{LTime: 300, Node: "b", Prune: true})
	mine := c09cat([]byte{serf.VMsgLeave}, c09map(c09kv{"LTime", c09uint(300)}, c09kv{"Node", c09str("b")}, c09kv{"Prune", c09bool(true)}))
	if string(ref) != string(mine) {
		ctx.Fail("C09 selftest: writer %x differs from serf's encoder %x", mine, ref)
		return false
	}
	return true
}

// ---------------------------------------------------------------------------
// (i) all short byte strings at every entry point

func c09entryNames() []string {
	var names []string
	for n := range c09entries {
		names = append(names, n)
	}
	sort.Strings(names)
	return names
}

func c09rawBytes(r *c09runner) {
	all2 := c09allBytes(2)
	all1 := c09allBytes(1)
	for _, name := range c09entryNames() {
		ent := c09entries[name]
		if strings.HasPrefix(name, "NotifyMsg[") || strings.HasPrefix(name, "NotifyMsg sequence") || strings.Contains(name, "[buffers=") {
			continue // a string of <=3 bytes cannot address an open query or a key; covered by the plain node
		}
		inputs := all2
		full := name == "NotifyMsg" || strings.HasPrefix(name, "MergeRemoteState") || name == "NotifyPingComplete" || name == "NotifyJoin(Meta)"
		switch {
		case strings.HasPrefix(name, "internal query ping"), strings.HasPrefix(name, "internal query list-keys"), strings.HasPrefix(name, "internal query zz"):
			inputs = all1 // these handlers never look at the payload
		case !full && !r.ctx.Thorough():
			// quick tier: the nested inputs (filters, payloads, replies) and the three other metadata
			// paths take length <=1 and length 2 behind the type/version/msgpack-header bytes
			inputs = append([][]byte{}, all1...)
			for _, t := range []byte{0x00, 0x01, 0x02, 0x06, 0x07, 0x08, 0x09, 0x80, 0x90, 0xa0, 0xc0, 0xff} {
				for b := 0; b < 256; b++ {
					inputs = append(inputs, []byte{t, byte(b)})
				}
			}
		}
		r.run(r.ctx.Scn("bytes<=2 @ "+name, "cases"), ent, inputs, nil, 256)
	}
	if r.ctx.Thorough() {
		ent := c09entries["NotifyMsg"]
		for t := 0; t < 10; t++ {
			var inputs [][]byte
			for a := 0; a < 256; a++ {
				for b := 0; b < 256; b++ {
					inputs = append(inputs, []byte{byte(t), byte(a), byte(b)})
				}
			}
			r.run(r.ctx.Scn(fmt.Sprintf("bytes=3 @ NotifyMsg type %d (%s)", t, c09kindName[byte(t)]), "cases"), ent, inputs, nil, 256)
		}
	}
}

// ---------------------------------------------------------------------------
// (ii) structurally valid messages whose fields take arbitrary values

type c09cases struct {
	inputs [][]byte
	notes  []string
}

func (c *c09cases) add(in []byte, note string) {
	c.inputs = append(c.inputs, in)
	c.notes = append(c.notes, note)
}

func (c *c09cases) note(i int) string { return c.notes[i] }

// c09build renders product (or sweep) cases with a prefix (type byte) and an optional suffix.
func c09build(prefix []byte, fields []c09field, sweep bool, suffix []byte, tag string) *c09cases {
	cs := &c09cases{}
	f := func(body []byte, labels []string) {
		cs.add(c09cat(prefix, body, suffix), tag+"{"+strings.Join(labels, " ")+"}")
	}
	if sweep {
		c09sweep(fields, f)
	} else {
		c09product(fields, f)
	}
	return cs
}

func (r *c09runner) cases(scn string, entry string, cs *c09cases) {
	ent := c09entries[entry]
	if ent == nil {
		r.ctx.Fail("C09: unknown entry %q", entry)
		return
	}
	r.run(r.ctx.Scn(scn, "cases"), ent, cs.inputs, cs.note, 1)
}

func c09pick(d []c09val, labels ...string) []c09val {
	var out []c09val
	for _, l := range labels {
		found := false
		for _, v := range d {
			if v.label == l {
				out = append(out, v)
				found = true
			}
		}
		if !found {
			panic("c09pick: no value " + l)
		}
	}
	return out
}

func c09filterVals() []c09val {
	raw := func(b ...byte) []byte { return c09bytes(b) }
	nodeF := func(names ...string) []byte {
		var it [][]byte
		for _, n := range names {
			it = append(it, c09str(n))
		}
		return c09bytes(c09cat([]byte{serf.VFilterNodeType}, c09arr(it...)))
	}
	tagF := func(tag, expr string) []byte {
		return c09bytes(c09cat([]byte{serf.VFilterTagType}, c09map(c09kv{"Tag", c09str(tag)}, c09kv{"Expr", c09str(expr)})))
	}
	return []c09val{
		c09absent, c09nilv, c09v("[]", c09arr()),
		c09v("[zero-length filter]", c09arr(raw())),
		c09v("[nil filter]", c09arr(c09nil())),
		c09v("[[0]]", c09arr(raw(0))), c09v("[[1]]", c09arr(raw(1))), c09v("[[2,9,9]]", c09arr(raw(2, 9, 9))),
		c09v("[[0,garbage]]", c09arr(raw(0, 0xc1, 0xff))), c09v("[[1,garbage]]", c09arr(raw(1, 0xc1, 0xff))),
		c09v("[node filter matching]", c09arr(nodeF("b", "a"))), c09v("[node filter not matching]", c09arr(nodeF("b"))),
		c09v("[tag filter not matching]", c09arr(tagF("role", "web"))), c09v("[tag filter matching]", c09arr(tagF("role", "^$"))),
		c09v("[tag filter invalid regex]", c09arr(tagF("role", "(("))),
		c09v("[matching, zero-length]", c09arr(nodeF("a"), raw())),
		c09v("[not matching, zero-length]", c09arr(nodeF("b"), raw())),
		c09wrongU, c09v("[wrong element type]", c09arr(c09uint(7))), c09arrBomb,
	}
}

func c09keyReq(first byte, key []byte) []byte {
	return c09cat([]byte{first}, c09map(c09kv{"Key", key}))
}

func c09queryFields(over map[string][]c09val) []c09field {
	def := []c09field{
		{"LTime", []c09val{c09v("1", c09uint(1))}},
		{"ID", []c09val{c09v("5", c09uint(5))}},
		{"Addr", []c09val{c09v("10.0.0.2", c09bytes([]byte{10, 0, 0, 2}))}},
		{"Port", []c09val{c09v("7946", c09uint(7946))}},
		{"SourceNode", []c09val{c09v(`"b"`, c09str("b"))}},
		{"Filters", []c09val{c09absent}},
		{"Flags", []c09val{c09v("ack", c09uint(1))}},
		{"RelayFactor", []c09val{c09absent}},
		{"Timeout", []c09val{c09v("1s", c09uint(uint64(time.Second)))}},
		{"Name", []c09val{c09v(`"q"`, c09str("q"))}},
		{"Payload", []c09val{c09v(`"b"`, c09str("b"))}},
	}
	for i := range def {
		if v, ok := over[def[i].name]; ok {
			def[i].vals = v
			delete(over, def[i].name)
		}
	}
	if len(over) > 0 {
		panic(fmt.Sprintf("c09queryFields: unknown fields %v", over))
	}
	return def
}

func c09fields(r *c09runner) {
	th := r.ctx.Thorough()
	T := func(t byte) []byte { return []byte{t} }

	// leave, join, user event: full products
	r.cases("fields leave", "NotifyMsg", c09build(T(serf.VMsgLeave), []c09field{
		{"LTime", c09uintD()}, {"Node", c09strD("a", "b", "c", "zz")}, {"Prune", c09boolD()}}, false, nil, "leave"))
	r.cases("fields join", "NotifyMsg", c09build(T(serf.VMsgJoin), []c09field{
		{"LTime", c09uintD()}, {"Node", c09strD("a", "b", "c", "zz")}, {"Zzz", []c09val{c09absent, c09v("1", c09uint(1)), c09wrongM}}}, false, nil, "join"))
	r.cases("fields user event", "NotifyMsg", c09build(T(serf.VMsgUserEvent), []c09field{
		{"LTime", c09uintD()}, {"Name", c09strD("ev")}, {"Payload", c09bytesD()}, {"CC", c09boolD()}}, false, nil, "user-event"))

	// query responses against no open query, an open query without and with ack collection
	for _, entry := range []string{"NotifyMsg", "NotifyMsg[open query]", "NotifyMsg[open query-ack]"} {
		p := r.probes[c09entries[entry].env]
		lt := []c09val{c09v("matching", c09uint(p.lt)), c09absent, c09v("0", c09uint(0)), c09v("matching+1", c09uint(p.lt+1)), c09v("max-uint64", c09uint(math.MaxUint64)), c09wrongS}
		id := []c09val{c09v("matching", c09uint(uint64(p.id))), c09absent, c09v("matching+1", c09uint(uint64(p.id)+1)), c09v("2^32 (overflows)", c09uint(1<<32)), c09wrongS}
		from := []c09val{c09v(`"b"`, c09str("b")), c09absent, c09nilv, c09v(`""`, c09str("")), c09v("long-string", c09str(c09long)), c09wrongU}
		flags := []c09val{c09v("0", c09uint(0)), c09absent, c09v("ack", c09uint(1)), c09v("2", c09uint(2)), c09v("max-uint32", c09uint(math.MaxUint32)), c09v("2^32 (overflows)", c09uint(1<<32)), c09wrongS}
		payload := c09bytesD()
		if entry == "NotifyMsg" {
			lt[0], id[0] = c09v("1", c09uint(1)), c09v("5", c09uint(5))
			lt, id = lt[:5], id[:4]
		}
		fs := []c09field{{"LTime", lt}, {"ID", id}, {"From", from}, {"Flags", flags}, {"Payload", payload}}
		if th {
			r.cases("fields query response @ "+entry, entry, c09build(T(serf.VMsgQueryResponse), fs, false, nil, "query-response"))
		} else {
			r.cases("fields query response (one-field sweeps) @ "+entry, entry, c09build(T(serf.VMsgQueryResponse), fs, true, nil, "query-response"))
			small := []c09field{{"LTime", lt[:2]}, {"ID", id[:3]}, {"From", from[:2]}, {"Flags", flags[:3]}, {"Payload", c09pick(payload, "absent", "1-byte", "wrong-type:uint")}}
			r.cases("fields query response (reduced product) @ "+entry, entry, c09build(T(serf.VMsgQueryResponse), small, false, nil, "query-response"))
		}
	}

	// queries
	flags4 := []c09val{c09v("ack", c09uint(1)), c09absent, c09v("no-broadcast", c09uint(2)), c09v("ack|no-broadcast", c09uint(3))}
	addr := []c09val{c09v("10.0.0.2", c09bytes([]byte{10, 0, 0, 2})), c09absent, c09v("1-byte", c09bytes([]byte{1})), c09v("long", c09bytes([]byte(c09long)))}
	relay := []c09val{c09absent, c09v("1", c09uint(1)), c09v("2", c09uint(2)), c09v("255", c09uint(255)), c09v("256 (overflows)", c09uint(256))}
	r.cases("fields query: filters x flags x relay x addr x name", "NotifyMsg", c09build(T(serf.VMsgQuery), c09queryFields(map[string][]c09val{
		"Filters": c09filterVals(), "Flags": flags4, "RelayFactor": relay[:4], "Addr": addr,
		"Name": {c09v(`"q"`, c09str("q")), c09v("_serf_ping", c09str("_serf_ping")), c09v("_serf_conflict", c09str("_serf_conflict"))},
	}), false, nil, "query"))
	names := []c09val{c09v(`"q"`, c09str("q")), c09absent, c09v(`""`, c09str("")), c09v("long-string", c09str(c09long)), c09v("_serf_", c09str("_serf_")), c09v("_serf_zz", c09str("_serf_zz")), c09wrongU}
	for _, s := range []string{"ping", "conflict", "install-key", "use-key", "remove-key", "list-keys"} {
		names = append(names, c09v("_serf_"+s, c09str(serf.VInternalQueryName(s))))
	}
	payloads := []c09val{c09absent, c09nilv, c09v("empty", c09bytes(nil)), c09v("[type]", c09bytes([]byte{serf.VMsgKeyRequest})),
		c09v("[type,garbage]", c09bytes([]byte{serf.VMsgKeyRequest, 0xc1, 0xff})),
		c09v("[type,key request new key]", c09bytes(c09keyReq(serf.VMsgKeyRequest, c09bytes([]byte("ABCDEFGHIJKLMNOP"))))),
		c09v("[type,key request primary key]", c09bytes(c09keyReq(serf.VMsgKeyRequest, c09bytes(c09keyA)))),
		c09v("[type,key request other installed key]", c09bytes(c09keyReq(serf.VMsgKeyRequest, c09bytes(c09keyB)))),
		c09v("[type,array]", c09bytes(c09cat([]byte{serf.VMsgKeyRequest}, c09arr(c09uint(1), c09uint(2))))),
		c09v("[type,map of other shape]", c09bytes(c09cat([]byte{serf.VMsgKeyRequest}, c09map(c09kv{"Key", c09map()})))),
		c09v(`"b"`, c09str("b")), c09v(`"a"`, c09str("a")), c09wrongU}
	for _, entry := range []string{"NotifyMsg", "NotifyMsg[keyring]"} {
		r.cases("fields query: name x payload x flags x relay x addr @ "+entry, entry, c09build(T(serf.VMsgQuery), c09queryFields(map[string][]c09val{
			"Name": names, "Payload": payloads, "Flags": flags4, "RelayFactor": relay[:2], "Addr": addr[:3],
		}), false, nil, "query"))
	}
	scalars := c09queryFields(map[string][]c09val{
		"LTime":      append([]c09val{c09v("1", c09uint(1))}, c09uintD()...),
		"ID":         append([]c09val{c09v("5", c09uint(5))}, c09uintD(c09v("2^32 (overflows)", c09uint(1<<32)))...),
		"Port":       append([]c09val{c09v("7946", c09uint(7946))}, c09uintD(c09v("65535", c09uint(65535)), c09v("65536 (overflows)", c09uint(65536)))...),
		"Timeout":    {c09v("1s", c09uint(uint64(time.Second))), c09absent, c09nilv, c09v("0", c09uint(0)), c09v("max-int64", c09uint(math.MaxInt64)), c09v("-1", c09int(-1)), c09v("min-int64", c09int(math.MinInt64)), c09v("max-uint64 (overflows)", c09uint(math.MaxUint64)), c09wrongS},
		"SourceNode": {c09v(`"b"`, c09str("b")), c09absent, c09v("long-string", c09str(c09long)), c09wrongU},
	})
	if th {
		r.cases("fields query: scalar fields", "NotifyMsg", c09build(T(serf.VMsgQuery), scalars, false, nil, "query"))
	} else {
		r.cases("fields query: scalar fields (one-field sweeps)", "NotifyMsg", c09build(T(serf.VMsgQuery), scalars, true, nil, "query"))
	}

	// the filter bytes themselves
	{
		cs := &c09cases{}
		add := func(note string, b ...[]byte) { cs.add(c09cat(b...), "filter "+note) }
		add("zero-length")
		add("[0]", []byte{0})
		add("[1]", []byte{1})
		add("[2]", []byte{2})
		add("[255,...]", []byte{255, 1, 2})
		add("[0,garbage]", []byte{0, 0xc1})
		add("[1,garbage]", []byte{1, 0xc1})
		add("node [a]", []byte{0}, c09arr(c09str("a")))
		add("node [b]", []byte{0}, c09arr(c09str("b")))
		add("node []", []byte{0}, c09arr())
		add("node nil", []byte{0}, c09nil())
		add("node [7]", []byte{0}, c09arr(c09uint(7)))
		add("node string", []byte{0}, c09str("a"))
		add("node map", []byte{0}, c09map(c09kv{"a", c09uint(1)}))
		add("node array32 header", []byte{0}, c09arrBomb.enc)
		add("node [long]", []byte{0}, c09arr(c09str(c09long)))
		for _, t := range []c09val{c09absent, c09nilv, c09v(`""`, c09str("")), c09v("role", c09str("role")), c09v("missing-tag", c09str("nope")), c09wrongU} {
			for _, x := range []c09val{c09absent, c09nilv, c09v(`""`, c09str("")), c09v("web", c09str("web")), c09v("((", c09str("((")), c09v("nested repeat", c09str("(a{1000}){1000}")),
				c09v("long", c09str(c09long)), c09v("invalid utf-8", c09str("\xff\xfe")), c09wrongU, c09hdrOnly} {
				add("tag{Tag="+t.label+" Expr="+x.label+"}", []byte{1}, c09map(c09kv{"Tag", t.enc}, c09kv{"Expr", x.enc}))
			}
		}
		add("tag array form", []byte{1}, c09arr(c09str("role"), c09str("web")))
		add("tag nil", []byte{1}, c09nil())
		r.cases("fields query filter", "query filter", cs)
	}

	// key requests as payload of the key queries
	keyVals := []c09val{c09absent, c09nilv, c09v("empty", c09bytes(nil)), c09v("16-byte new key", c09bytes([]byte("ABCDEFGHIJKLMNOP"))), c09v("15-byte key", c09bytes([]byte("ABCDEFGHIJKLMNO"))),
		c09v("32-byte key", c09bytes([]byte("ABCDEFGHIJKLMNOPABCDEFGHIJKLMNOP"))), c09v("primary key", c09bytes(c09keyA)), c09v("other installed key", c09bytes(c09keyB)),
		c09wrongU, c09v("array-of-ints", c09arr(c09uint(1), c09uint(2))), c09v("array-of-strings", c09arr(c09str("k"))), c09hdrOnly}
	for _, kr := range []string{"", "[keyring]"} {
		for _, s := range []string{"install-key", "use-key", "remove-key"} {
			cs := &c09cases{}
			cs.add(nil, "payload empty")
			for _, first := range []byte{serf.VMsgKeyRequest, 0, 255} {
				cs.add([]byte{first}, fmt.Sprintf("payload [%d]", first))
				cs.add([]byte{first, 0xc1}, fmt.Sprintf("payload [%d,garbage]", first))
				cs.add(c09cat([]byte{first}, c09arr(c09uint(1), c09uint(2))), fmt.Sprintf("payload [%d,array]", first))
				cs.add(c09cat([]byte{first}, c09str("x")), fmt.Sprintf("payload [%d,string]", first))
				cs.add(c09cat([]byte{first}, c09uint(5)), fmt.Sprintf("payload [%d,uint]", first))
				cs.add(c09cat([]byte{first}, c09map(c09kv{"Other", c09uint(1)})), fmt.Sprintf("payload [%d,map without Key]", first))
				cs.add(c09cat([]byte{first}, c09mapBomb.enc), fmt.Sprintf("payload [%d,map32 header]", first))
				for _, k := range keyVals {
					cs.add(c09keyReq(first, k.enc), fmt.Sprintf("payload [%d,{Key=%s}]", first, k.label))
				}
			}
			r.cases("fields key request @ internal query "+s+kr, "internal query "+s+kr, cs)
		}
	}

	// relay envelopes: header fields x what is wrapped
	{
		p := r.probes[c09envSpec{Open: "query-ack"}]
		udp := func(kv ...c09kv) []byte { return c09map(kv...) }
		ip4 := c09bytes([]byte{10, 0, 0, 2})
		dest := []c09val{c09v("10.0.0.2:7946", udp(c09kv{"IP", ip4}, c09kv{"Port", c09uint(7946)}, c09kv{"Zone", c09str("")})),
			c09absent, c09nilv, c09v("{}", udp()), c09v("{IP 1 byte}", udp(c09kv{"IP", c09bytes([]byte{1})})), c09v("{IP long}", udp(c09kv{"IP", c09bytes([]byte(c09long))})),
			c09v("{IP 16 bytes, Zone long}", udp(c09kv{"IP", c09bytes(make([]byte, 16))}, c09kv{"Zone", c09str(c09long)})),
			c09v("{Port max-uint64}", udp(c09kv{"IP", ip4}, c09kv{"Port", c09uint(math.MaxUint64)})), c09v("{Port -1}", udp(c09kv{"IP", ip4}, c09kv{"Port", c09int(-1)})),
			c09v("{IP wrong type}", udp(c09kv{"IP", c09uint(7)})), c09wrongS, c09v("array form", c09arr(ip4, c09uint(1))), c09mapBomb}
		resp := func(flags uint32, payload []byte) []byte {
			return serf.VEncode(serf.VMsgQueryResponse, &serf.VMessageQueryResponse{LTime: serf.LamportTime(p.lt), ID: p.id, From: "b", Flags: flags, Payload: payload})
		}
		inner := []c09val{c09v("nothing", []byte{}), c09v("response", resp(0, []byte("x"))), c09v("ack", resp(serf.VQueryFlagAck, nil)), c09v("[response type byte]", []byte{serf.VMsgQueryResponse}),
			c09v("conflict reply", resp(0, serf.VEncode(serf.VMsgConflictResponse, &serf.Member{Name: "a"}))),
			c09v("key reply", resp(0, serf.VEncode(serf.VMsgKeyResponse, &serf.VNodeKeyResponse{Result: true}))),
			c09v("query", c09wrapQuery(1, "q", nil, nil)), c09v("garbage", []byte{0xff, 0xc1}),
			c09v("relay in relay", c09cat([]byte{serf.VMsgRelay}, c09map(c09kv{"DestName", c09str("c")}), resp(0, nil)))}
		for _, in := range inner {
			cs := c09build(T(serf.VMsgRelay), []c09field{{"DestAddr", dest}, {"DestName", c09strD("b", "a")}}, false, in.enc, "relay("+in.label+")")
			r.cases("fields relay envelope", "NotifyMsg[open query-ack]", cs)
		}
		// every truncation of the header in front of every reply kind
		hdr := c09map(c09kv{"DestAddr", dest[0].enc}, c09kv{"DestName", c09str("b")})
		cs := &c09cases{}
		for _, in := range inner[1:6] {
			for l := 0; l < len(hdr); l++ {
				cs.add(c09cat(T(serf.VMsgRelay), hdr[:l], in.enc), fmt.Sprintf("relay header cut to %d of %d bytes, then %s", l, len(hdr), in.label))
			}
		}
		r.cases("relay envelope: truncated header x reply kind", "NotifyMsg[open query-ack]", cs)
	}

	// push/pull state
	{
		ev := c09map(c09kv{"Name", c09str("e")}, c09kv{"Payload", c09str("p")})
		ue := func(lt uint64, evs []byte) []byte { return c09map(c09kv{"LTime", c09uint(lt)}, c09kv{"Events", evs}) }
		m := func(kv ...c09kv) []byte { return c09map(kv...) }
		status := []c09val{c09v("{b:1}", m(c09kv{"b", c09uint(1)})), c09absent, c09nilv, c09v("{}", m()), c09v("{a:9}", m(c09kv{"a", c09uint(9)})), c09v("{b:max}", m(c09kv{"b", c09uint(math.MaxUint64)})),
			c09v("{zz:3,c:4}", m(c09kv{"zz", c09uint(3)}, c09kv{"c", c09uint(4)})), c09wrongA, c09v("{b:string}", m(c09kv{"b", c09str("x")})),
			c09v("{int key}", c09cat(c09mapHdr(1), c09uint(1), c09uint(1))), c09mapBomb}
		left := []c09val{c09v(`["b"]`, c09arr(c09str("b"))), c09absent, c09nilv, c09v("[]", c09arr()), c09v(`["a"]`, c09arr(c09str("a"))), c09v(`["zz"]`, c09arr(c09str("zz"))),
			c09v(`["b","b"]`, c09arr(c09str("b"), c09str("b"))), c09v(`[""]`, c09arr(c09str(""))), c09v(`["c"]`, c09arr(c09str("c"))), c09wrongS, c09v("[7]", c09arr(c09uint(7))), c09arrBomb}
		events := []c09val{c09v("[{1,[e]}]", c09arr(ue(1, c09arr(ev)))), c09absent, c09nilv, c09v("[]", c09arr()), c09v("[nil]", c09arr(c09nil())),
			c09v("[{max,nil}]", c09arr(ue(math.MaxUint64, c09nil()))), c09v("[{}]", c09arr(m())), c09wrongS, c09v("[7]", c09arr(c09uint(7))),
			c09v("[{1,[7]}]", c09arr(ue(1, c09arr(c09uint(7))))), c09v("[{1,[e,e]},{1,[e]}]", c09arr(ue(1, c09arr(ev, ev)), ue(1, c09arr(ev)))), c09arrBomb}
		lt := []c09val{c09v("5", c09uint(5)), c09absent, c09v("0", c09uint(0)), c09v("max-uint64", c09uint(math.MaxUint64)), c09wrongS}
		elt := []c09val{c09v("5", c09uint(5)), c09absent, c09v("0", c09uint(0)), c09v("max-uint64", c09uint(math.MaxUint64))}
		qlt := []c09val{c09absent, c09v("5", c09uint(5)), c09v("max-uint64", c09uint(math.MaxUint64))}
		if !th {
			lt, elt, qlt = lt[:1], elt[:2], qlt[:1]
		}
		fs := []c09field{{"LTime", lt}, {"StatusLTimes", status}, {"LeftMembers", left}, {"EventLTime", elt}, {"Events", events}, {"QueryLTime", qlt}}
		for _, entry := range []string{"MergeRemoteState(join=false)", "MergeRemoteState(join=true)", "MergeRemoteState(join=false)[buffers=1]"} {
			r.cases("fields push/pull @ "+entry, entry, c09build(T(serf.VMsgPushPull), fs, false, nil, "push/pull"))
			if !th {
				full := []c09field{{"LTime", c09uintD()}, {"StatusLTimes", status}, {"LeftMembers", left}, {"EventLTime", c09uintD()}, {"Events", events}, {"QueryLTime", c09uintD()}}
				r.cases("fields push/pull (one-field sweeps) @ "+entry, entry, c09build(T(serf.VMsgPushPull), full, true, nil, "push/pull"))
			}
		}
	}

	// conflict responses into the open conflict query
	{
		tags := func(kv ...c09kv) []byte { return c09map(kv...) }
		nm := []c09val{c09v(`"a"`, c09str("a")), c09absent, c09wrongU}
		if !th {
			nm = nm[:1]
		}
		fs := []c09field{{"Name", nm},
			{"Addr", []c09val{c09v("10.0.0.1 (ours)", c09bytes([]byte{10, 0, 0, 1})), c09absent, c09nilv, c09v("10.0.0.6", c09bytes([]byte{10, 0, 0, 6})), c09v("16 bytes", c09bytes(make([]byte, 16))),
				c09v("1 byte", c09bytes([]byte{1})), c09v("long", c09bytes([]byte(c09long))), c09wrongU}},
			{"Port", []c09val{c09v("7946", c09uint(7946)), c09absent, c09v("0", c09uint(0)), c09v("65536 (overflows)", c09uint(65536)), c09wrongS}},
			{"Tags", []c09val{c09absent, c09nilv, c09v("{}", tags()), c09v("{k:v}", tags(c09kv{"k", c09str("v")})), c09wrongS, c09v("{k:7}", tags(c09kv{"k", c09uint(7)})), c09mapBomb}},
			{"Status", []c09val{c09v("1", c09uint(1)), c09absent, c09v("max-uint64", c09uint(math.MaxUint64)), c09wrongS, c09v("-1", c09int(-1))}}}
		r.cases("fields conflict response", "conflict reply", c09build(T(serf.VMsgConflictResponse), fs, false, nil, "conflict-response"))
	}

	// key responses into an open ListKeys / InstallKey
	{
		fs := []c09field{{"Result", c09boolD()},
			{"Message", []c09val{c09absent, c09v(`""`, c09str("")), c09v(`"m"`, c09str("m")), c09v("long-string", c09str(c09long)), c09wrongU}},
			{"Keys", []c09val{c09absent, c09nilv, c09v("[]", c09arr()), c09v(`["k"]`, c09arr(c09str("k"))), c09v(`["k","k"]`, c09arr(c09str("k"), c09str("k"))), c09wrongS, c09v("[7]", c09arr(c09uint(7))), c09arrBomb}},
			{"PrimaryKey", []c09val{c09absent, c09v(`""`, c09str("")), c09v(`"k"`, c09str("k")), c09wrongU}}}
		for _, op := range []string{"keys-list", "keys-install"} {
			r.cases("fields key response @ "+op, "key reply["+op+"]", c09build(T(serf.VMsgKeyResponse), fs, false, nil, "key-response"))
		}
	}

	// probe-ack payloads: version byte + coordinate
	{
		fl := func(v float64, n int) []byte {
			var it [][]byte
			for i := 0; i < n; i++ {
				it = append(it, c09float(v))
			}
			return c09arr(it...)
		}
		ints := func(n int) []byte {
			var it [][]byte
			for i := 0; i < n; i++ {
				it = append(it, c09uint(uint64(i)))
			}
			return c09arr(it...)
		}
		fs := []c09field{
			{"Vec", []c09val{c09v("8 x 0.001", fl(0.001, 8)), c09absent, c09nilv, c09v("[]", c09arr()), c09v("7 floats", fl(0.001, 7)), c09v("9 floats", fl(0.001, 9)), c09v("8 x NaN", fl(math.NaN(), 8)),
				c09v("8 x +Inf", fl(math.Inf(1), 8)), c09v("8 x 1e308", fl(1e308, 8)), c09wrongS, c09v("8 ints", ints(8)), c09v("[string]", c09arr(c09str("x"))), c09arrBomb}},
			{"Error", []c09val{c09v("1.5", c09float(1.5)), c09absent, c09v("0", c09float(0)), c09v("NaN", c09float(math.NaN())), c09v("+Inf", c09float(math.Inf(1))), c09v("-1", c09float(-1)), c09wrongS}},
			{"Adjustment", []c09val{c09v("0", c09float(0)), c09absent, c09v("NaN", c09float(math.NaN())), c09v("1e300", c09float(1e300))}},
			{"Height", []c09val{c09v("1e-5", c09float(1e-5)), c09absent, c09v("0", c09float(0)), c09v("NaN", c09float(math.NaN())), c09v("-1", c09float(-1))}}}
		r.cases("fields ping payload", "NotifyPingComplete", c09build([]byte{serf.PingVersion}, fs, false, nil, "coordinate"))
		cs := &c09cases{}
		valid := c09map(c09kv{"Vec", fl(0.001, 8)}, c09kv{"Error", c09float(1.5)}, c09kv{"Adjustment", c09float(0)}, c09kv{"Height", c09float(1e-5)})
		for _, v := range []byte{0, 2, 3, 127, 128, 255} {
			cs.add(c09cat([]byte{v}, valid), fmt.Sprintf("version %d + valid coordinate", v))
		}
		cs.add(c09cat([]byte{1}, c09arr(fl(0.001, 8), c09float(1.5), c09float(0), c09float(1e-5))), "coordinate in array form")
		cs.add(c09cat([]byte{1}, valid, []byte{0xff, 0xff}), "valid coordinate + trailing bytes")
		r.cases("fields ping payload (version byte)", "NotifyPingComplete", cs)
	}

	// member metadata
	{
		cs := &c09cases{}
		M := []byte{serf.VTagMagicByte}
		cs.add(nil, "empty")
		cs.add([]byte("web"), "role string")
		cs.add([]byte(strings.Repeat("r", 512)), "512-byte role string")
		cs.add(M, "magic byte only")
		cs.add(c09cat(M, c09map()), "no tags")
		cs.add(c09cat(M, c09nil()), "nil map")
		cs.add(c09cat(M, c09map(c09kv{"role", c09str("web")}, c09kv{"dc", c09str("east")})), "two tags")
		cs.add(c09cat(M, c09map(c09kv{"role", c09uint(7)})), "tag value of wrong type")
		cs.add(c09cat(M, c09map(c09kv{"role", c09nil()})), "nil tag value")
		cs.add(c09cat(M, c09map(c09kv{"role", c09map()})), "map as tag value")
		cs.add(c09cat(M, c09mapHdr(1), c09uint(1), c09str("v")), "int key")
		cs.add(c09cat(M, c09mapHdr(2), c09str("role"), c09str("web")), "map announces 2 entries, has 1")
		cs.add(c09cat(M, c09arr(c09str("role"), c09str("web"))), "array instead of map")
		cs.add(c09cat(M, c09str("web")), "string instead of map")
		cs.add(c09cat(M, c09mapBomb.enc), "map32 header without body")
		cs.add(c09cat(M, c09map(c09kv{c09long, c09str(c09long)})), "600 bytes of tags")
		cs.add(c09cat(M, c09map(c09kv{"role", c09str("web")}), []byte{0xc1, 0xff}), "valid tags + trailing bytes")
		cs.add(c09cat(M, c09map(c09kv{"", c09str("")}, c09kv{"", c09str("x")})), "duplicate empty keys")
		for _, entry := range []string{"NotifyJoin(Meta)", "NotifyUpdate(Meta)", "NotifyMerge(Meta)", "NotifyAlive(Meta)"} {
			r.cases("fields member metadata @ "+entry, entry, cs)
		}
	}
}

// ---------------------------------------------------------------------------
// (ii') inputs that are larger than the receiver's own structures: the event and
// query rings (EventBuffer/QueryBuffer 1 and 2, and the default 512) against
// push/pull event lists of every shape up to length 5 (and just beyond 512), and
// message sequences whose Lamport times collide modulo the ring

func c09rings(r *c09runner) {
	th := r.ctx.Thorough()
	T := func(t byte) []byte { return []byte{t} }
	ev := func(name string) []byte { return c09map(c09kv{"Name", c09str(name)}, c09kv{"Payload", c09str("p")}) }
	ue := func(lt uint64, evs ...[]byte) []byte { return c09map(c09kv{"LTime", c09uint(lt)}, c09kv{"Events", c09arr(evs...)}) }
	pp := func(elt uint64, events []byte) []byte {
		return c09cat(T(serf.VMsgPushPull), c09map(c09kv{"LTime", c09uint(5)}, c09kv{"StatusLTimes", c09map(c09kv{"b", c09uint(1)})}, c09kv{"LeftMembers", c09arr()},
			c09kv{"EventLTime", c09uint(elt)}, c09kv{"Events", events}, c09kv{"QueryLTime", c09uint(5)}))
	}
	// every Events list of length 0..5 over {nil, slot with LTime 1, 2, 3 (1 and 3 collide modulo 2, all modulo 1)}
	slotVals := []c09val{c09nilv, c09v("{1,[e]}", ue(1, ev("e"))), c09v("{2,[e]}", ue(2, ev("e"))), c09v("{3,[f,e]}", ue(3, ev("f"), ev("e")))}
	lists := &c09cases{}
	maxLen := 5
	for n := 0; n <= maxLen; n++ {
		idx := make([]int, n)
		for {
			var items [][]byte
			var lab []string
			for _, k := range idx {
				items = append(items, slotVals[k].enc)
				lab = append(lab, slotVals[k].label)
			}
			lists.add(pp(4, c09arr(items...)), "push/pull{Events=["+strings.Join(lab, ",")+"]}")
			k := n - 1
			for k >= 0 {
				idx[k]++
				if idx[k] < len(slotVals) {
					break
				}
				idx[k] = 0
				k--
			}
			if k < 0 {
				break
			}
		}
	}
	// lists just beyond the default ring of 512: nil entries with one or two real slots at and after the local length
	long := func(n int, at ...int) []byte {
		items := make([][]byte, n)
		for i := range items {
			items[i] = c09nil()
		}
		for j, p := range at {
			items[p] = ue(uint64(600+j), ev("e"))
		}
		return pp(700, c09arr(items...))
	}
	for _, c := range []struct {
		n  int
		at []int
	}{{511, []int{510}}, {512, []int{511}}, {513, []int{512}}, {513, []int{0, 512}}, {514, []int{513}}, {1024, []int{1023}}, {1025, []int{512, 1024}}} {
		lists.add(long(c.n, c.at...), fmt.Sprintf("push/pull{Events=%d entries, non-nil at %v}", c.n, c.at))
	}
	entries := []string{"MergeRemoteState(join=false)", "MergeRemoteState(join=false)[buffers=1]", "MergeRemoteState(join=false)[buffers=2]", "MergeRemoteState(join=true)[buffers=1]", "MergeRemoteState(join=true)[buffers=2]"}
	if th {
		entries = append(entries, "MergeRemoteState(join=true)")
	}
	for _, entry := range entries {
		r.cases("push/pull event lists longer than the local ring @ "+entry, entry, lists)
	}

	// sequences of user events and queries whose Lamport times collide modulo the ring
	var alpha []c09val
	for _, lt := range []uint64{0, 1, 2, 3, 5, math.MaxUint64} {
		alpha = append(alpha, c09v(fmt.Sprintf("event(%d,e)", lt), serf.VEncode(serf.VMsgUserEvent, &serf.VMessageUserEvent{LTime: serf.LamportTime(lt), Name: "e", Payload: []byte("p")})))
	}
	alpha = append(alpha, c09v("event(1,f)", serf.VEncode(serf.VMsgUserEvent, &serf.VMessageUserEvent{LTime: 1, Name: "f"})))
	for _, lt := range []uint64{0, 1, 2, 3, math.MaxUint64} {
		alpha = append(alpha, c09v(fmt.Sprintf("query(%d,id5)", lt), serf.VEncode(serf.VMsgQuery, &serf.VMessageQuery{LTime: serf.LamportTime(lt), ID: 5, Addr: []byte{10, 0, 0, 2}, Port: 7946, SourceNode: "b", Flags: serf.VQueryFlagAck, Timeout: time.Second, Name: "q"})))
	}
	alpha = append(alpha, c09v("query(1,id6)", serf.VEncode(serf.VMsgQuery, &serf.VMessageQuery{LTime: 1, ID: 6, Addr: []byte{10, 0, 0, 2}, Port: 7946, SourceNode: "b", Name: "q"})))
	seqs := &c09cases{}
	depth := 3
	for n := 1; n <= depth; n++ {
		idx := make([]int, n)
		for {
			var ms [][]byte
			var lab []string
			for _, k := range idx {
				ms = append(ms, alpha[k].enc)
				lab = append(lab, alpha[k].label)
			}
			seqs.add(c09joinSeq(ms...), "sequence "+strings.Join(lab, " "))
			k := n - 1
			for k >= 0 {
				idx[k]++
				if idx[k] < len(alpha) {
					break
				}
				idx[k] = 0
				k--
			}
			if k < 0 {
				break
			}
		}
	}
	for _, buf := range []int{1, 2} {
		entry := fmt.Sprintf("NotifyMsg sequence[buffers=%d]", buf)
		r.cases("message sequences colliding modulo the ring @ "+entry, entry, seqs)
	}

	// the field products of the ring-indexed kinds on the tiny rings
	for _, buf := range []int{1, 2} {
		entry := fmt.Sprintf("NotifyMsg[buffers=%d]", buf)
		r.cases("fields user event @ "+entry, entry, c09build(T(serf.VMsgUserEvent), []c09field{
			{"LTime", c09uintD(c09v("2", c09uint(2)), c09v("3", c09uint(3)))}, {"Name", c09strD("ev")}, {"Payload", c09pick(c09bytesD(), "absent", "1-byte", "wrong-type:uint")}, {"CC", c09pick(c09boolD(), "absent", "true")}}, false, nil, "user-event"))
		r.cases("fields query: ring-relevant scalars @ "+entry, entry, c09build(T(serf.VMsgQuery), c09queryFields(map[string][]c09val{
			"LTime": c09uintD(c09v("2", c09uint(2)), c09v("3", c09uint(3))),
			"ID":    c09uintD(c09v("2^32 (overflows)", c09uint(1<<32))),
			"Flags": {c09v("ack", c09uint(1)), c09absent},
			"Name":  {c09v(`"q"`, c09str("q")), c09v("_serf_ping", c09str("_serf_ping"))},
		}), false, nil, "query"))
	}
}

// ---------------------------------------------------------------------------
// (iii) truncations and substitutions of valid seeds

func c09seeds(r *c09runner) {
	type seed struct {
		entry, name string
		b           []byte
	}
	qa := r.probes[c09envSpec{Open: "query-ack"}]
	nodeF := serf.VEncodeFilter(serf.VFilterNodeType, serf.VFilterNode{"a", "b"})
	tagF := serf.VEncodeFilter(serf.VFilterTagType, &serf.VFilterTag{Tag: "role", Expr: "^$"})
	query := func(name string, filters [][]byte, relay uint8, payload []byte) []byte {
		return serf.VEncode(serf.VMsgQuery, &serf.VMessageQuery{LTime: 2, ID: 77, Addr: []byte{10, 0, 0, 2}, Port: 7946, SourceNode: "b", Filters: filters,
			Flags: serf.VQueryFlagAck, RelayFactor: relay, Timeout: time.Second, Name: name, Payload: payload})
	}
	keyReq := serf.VEncode(serf.VMsgKeyRequest, serf.VKeyRequest{Key: []byte("ABCDEFGHIJKLMNOP")})
	resp := serf.VEncode(serf.VMsgQueryResponse, &serf.VMessageQueryResponse{LTime: serf.LamportTime(qa.lt), ID: qa.id, From: "b", Payload: []byte("pl")})
	ack := serf.VEncode(serf.VMsgQueryResponse, &serf.VMessageQueryResponse{LTime: serf.LamportTime(qa.lt), ID: qa.id, From: "b", Flags: serf.VQueryFlagAck})
	relayHdr := c09map(c09kv{"DestAddr", c09map(c09kv{"IP", c09bytes([]byte{10, 0, 0, 2})}, c09kv{"Port", c09uint(7946)}, c09kv{"Zone", c09str("")})}, c09kv{"DestName", c09str("b")})
	pp := serf.VEncode(serf.VMsgPushPull, &serf.VMessagePushPull{LTime: 7, StatusLTimes: map[string]serf.LamportTime{"b": 3}, LeftMembers: []string{"c"}, EventLTime: 4,
		Events: []*serf.VUserEvents{nil, {LTime: 2, Events: []serf.VUserEvent{{Name: "e", Payload: []byte("p")}}}}, QueryLTime: 5})
	fl := func(v float64, n int) []byte {
		var it [][]byte
		for i := 0; i < n; i++ {
			it = append(it, c09float(v))
		}
		return c09arr(it...)
	}
	ping := c09cat([]byte{serf.PingVersion}, c09map(c09kv{"Vec", fl(0.001, 8)}, c09kv{"Error", c09float(1.5)}, c09kv{"Adjustment", c09float(0)}, c09kv{"Height", c09float(1e-5)}))
	meta := c09cat([]byte{serf.VTagMagicByte}, c09map(c09kv{"role", c09str("web")}, c09kv{"dc", c09str("east")}))
	member := serf.VEncode(serf.VMsgConflictResponse, &serf.Member{Name: "a", Addr: []byte{10, 0, 0, 1}, Port: 7946, Tags: map[string]string{"role": "web"}, Status: serf.StatusAlive,
		ProtocolMin: 1, ProtocolMax: 5, ProtocolCur: 2, DelegateMin: 2, DelegateMax: 5, DelegateCur: 5})
	keyResp := serf.VEncode(serf.VMsgKeyResponse, &serf.VNodeKeyResponse{Result: true, Message: "m", Keys: []string{"MDEyMzQ1Njc4OWFiY2RlZg=="}, PrimaryKey: "MDEyMzQ1Njc4OWFiY2RlZg=="})
	seeds := []seed{
		{"NotifyMsg", "leave", serf.VEncode(serf.VMsgLeave, &serf.VMessageLeave{LTime: 9, Node: "b"})},
		{"NotifyMsg", "leave+prune", serf.VEncode(serf.VMsgLeave, &serf.VMessageLeave{LTime: 9, Node: "c", Prune: true})},
		{"NotifyMsg", "join", serf.VEncode(serf.VMsgJoin, &serf.VMessageJoin{LTime: 9, Node: "b"})},
		{"NotifyMsg", "user event", serf.VEncode(serf.VMsgUserEvent, &serf.VMessageUserEvent{LTime: 3, Name: "deploy", Payload: []byte("x"), CC: true})},
		{"NotifyMsg", "query with node and tag filters, ack, relay", query("q", [][]byte{nodeF, tagF}, 1, []byte("pl"))},
		{"NotifyMsg", "conflict query", query(serf.VInternalQueryName("conflict"), nil, 0, []byte("b"))},
		{"NotifyMsg[keyring]", "install-key query", query(serf.VInternalQueryName("install-key"), nil, 0, keyReq)},
		{"NotifyMsg[keyring]", "list-keys query", query(serf.VInternalQueryName("list-keys"), [][]byte{nodeF}, 1, nil)},
		{"NotifyMsg", "remove-key query (no keyring)", query(serf.VInternalQueryName("remove-key"), nil, 0, keyReq)},
		{"NotifyMsg[open query-ack]", "query response", resp},
		{"NotifyMsg[open query-ack]", "query ack", ack},
		{"NotifyMsg[open query-ack]", "relay envelope around a response", c09cat([]byte{serf.VMsgRelay}, relayHdr, resp)},
		{"MergeRemoteState(join=false)", "push/pull", pp},
		{"MergeRemoteState(join=true)", "push/pull", pp},
		{"NotifyPingComplete", "ping payload", ping},
		{"NotifyJoin(Meta)", "tags", meta},
		{"NotifyUpdate(Meta)", "tags", meta},
		{"NotifyMerge(Meta)", "tags", meta},
		{"NotifyAlive(Meta)", "tags", meta},
		{"query filter", "node filter", nodeF},
		{"query filter", "tag filter", tagF},
		{"internal query install-key[keyring]", "key request", keyReq},
		{"internal query use-key[keyring]", "key request", keyReq},
		{"internal query remove-key", "key request", keyReq},
		{"conflict reply", "conflict response", member},
		{"key reply[keys-list]", "key response", keyResp},
		{"key reply[keys-install]", "key response", keyResp},
	}
	for _, s := range seeds {
		ins, notes := c09mutations(s.b)
		cs := &c09cases{}
		for i := range ins {
			cs.add(ins[i], s.name+": "+notes[i])
		}
		r.cases("mutations of "+s.name+" @ "+s.entry, s.entry, cs)
	}
}
