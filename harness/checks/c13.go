package checks

import (
	"encoding/json"
	"fmt"
	"os"
	"runtime"
	"runtime/debug"
	"sort"
	"strings"
	"time"

	"verifharness/vc"
)

// C13: A graceful leave is remembered across restarts.
//
// Same machinery as C10 (real Snapshotter over vos, virtual time, one event at a
// time): histories with exactly one graceful leave (Snapshotter.Leave) at any
// position, events/ticks/restarts before and after it, both settings of
// rejoinAfterLeave, every compaction threshold.

type c13replay struct {
	Check  string  `json:"check"`
	Ops    []c10op `json:"ops"`
	Rejoin bool    `json:"rejoin"`
}

// c13exp is the reference expectation for one restart.
type c13exp struct {
	phase string            // "pre" (before the leave: not C13's business), "first" (first restart after the leave), "later"
	alive map[string]string // expected rejoin set ("first", "later")
	stale map[string]bool   // "later", rejoin off: names known before the leave-restart and not joined since
}

// c13expect runs the reference model.
func c13expect(ops []c10op, rejoin bool) (exp []c13exp, leaveSet map[string]string, afterLeaveOps int) {
	alive := map[string]string{}
	all := map[string]bool{}      // every name seen so far
	known := map[string]bool{}    // every name seen up to the latest restart that followed a leave
	rejoined := map[string]bool{} // names joined after that restart
	phase := "pre"
	leaving := false
	restart := func() {
		switch {
		case leaving:
			// the node left gracefully and is now restarted
			alive = c10copyMap(leaveSet)
			exp = append(exp, c13exp{phase: "first", alive: c10copyMap(alive)})
			leaving = false
			phase = "later"
			known = map[string]bool{}
			for n := range all {
				known[n] = true
			}
			rejoined = map[string]bool{}
		case phase == "pre":
			exp = append(exp, c13exp{phase: "pre"})
		default:
			st := map[string]bool{}
			for n := range known {
				if !rejoined[n] {
					st[n] = true
				}
			}
			exp = append(exp, c13exp{phase: "later", alive: c10copyMap(alive), stale: st})
		}
	}
	for _, op := range ops {
		switch op.K {
		case "J", "L", "F":
			all[op.Name] = true
			if phase == "later" && !leaving && op.K == "J" {
				rejoined[op.Name] = true
			}
			if leaving {
				afterLeaveOps++
				break // the node has left: "the rejoin set is the one known at the moment of the leave"
			}
			if op.K == "J" {
				alive[op.Name] = c10addr(op.IP, op.Port)
			} else {
				delete(alive, op.Name)
			}
		case "G":
			leaving = true
			if rejoin {
				leaveSet = c10copyMap(alive)
			} else {
				leaveSet = map[string]string{}
			}
		case "S":
			restart()
		default:
			if leaving {
				afterLeaveOps++
			}
		}
	}
	restart()
	return exp, leaveSet, afterLeaveOps
}

func init() {
	vc.Register(&vc.Check{
		ID:    "C13",
		Level: "model_checking",
		Rule: "cases: every history of 1..N operations (quick: N=5 for the name pair (a,'a b'), 4 for the other pairs; thorough: N=6) containing one graceful leave (Snapshotter.Leave) at any position, or two with a restart in between, over join (two addresses)/leave/failed events of two members, clock witness 2^63, +600 ms (ticker tick, flush), shutdown+reopen (so: restarts before the leave, events and ticks between the leave and the shutdown, more events and a second restart after it); name pairs (a,'a b'), ('b ',x:y), ('alive: z',leave), ('','not-alive: q'), each short and stretched to >100 bytes (compaction while members are alive); each history x rejoinAfterLeave in {false,true} is one case and is run on the real Snapshotter under the compaction thresholds {1, 64, 128Ki}, always ending with shutdown+reopen. " +
			"A case is non-trivial if at least one member is known alive at the moment of the leave. Outcomes = (rejoin setting, size of the set at the leave, number of operations between leave and shutdown, restarts after the leave, compactions at/after the leave per threshold). concurrent/leave-during-slow-write: the snapshot goroutine is inside one write that takes 600 ms of virtual time (vos SlowAt) when Leave is called 0/100/300/599 ms into it, all interleavings within the preemption bound (quick 2, thorough 4) of the event producer and the leaver, then a later join, shutdown and reopen, for both rejoin settings.",
		Assumptions: []string{
			"'the snapshot keeps up': one event is handed to the snapshotter, then the system runs to quiescence before the next one; Leave() is called at a quiescent point (Serf.Leave calls it synchronously)",
			"restart = clean shutdown (close of the shutdown channel, Wait) followed by NewSnapshotter on the same directory with the same rejoinAfterLeave setting",
			"'previously known member' at a restart = a member named in any event before the latest restart that followed a leave and not joined again since",
			"after the restart that follows the leave the node is an ordinary node whose known members are the restored rejoin set; C10's statement applied to that incarnation gives the expected set at later restarts (reported under a separate signature)",
			"only the rejoin set is compared (the statement does not mention clocks); member names with newlines are C10's known finding and are not used here",
		},
		Run: c13runCheck,
	})
}

func c13runCheck(ctx *vc.Ctx) {
	debug.SetGCPercent(800)
	runtime.GOMAXPROCS(1) // the controlled scheduler runs one thread at a time; hand-offs are cheapest on one P
	if ctx.Replay != nil {
		var rp c13replay
		if json.Unmarshal(ctx.Replay, &rp) != nil || rp.Check != "C13" {
			c13concurrent(ctx) // a schedule artefact: Explore replays the scenario it names
			c13slowDisk(ctx)
			return
		}
		out := c13one(ctx, ctx.Scn("replay", "cases"), rp.Ops, rp.Rejoin)
		fmt.Printf("replay outcome=%s\n", out)
		return
	}
	c13concurrent(ctx)
	c13slowDisk(ctx)
	pairs := [][2]string{{"a", "a b"}, {"b ", "x:y"}, {"alive: z", "leave"}, {"", "not-alive: q"}}
	short, long := 4, 5
	if ctx.Thorough() {
		short, long = 6, 6
	}
	type scnT struct {
		alpha  c10alpha
		maxLen int
	}
	var scns []scnT
	for i, p := range pairs {
		for _, pad := range []int{0, 100} {
			l := short
			if i == 0 {
				l = long
			}
			scns = append(scns, scnT{c10mkAlpha(fmt.Sprintf("leave/hist<=%d/names(%q,%q)/pad%d", l, p[0], p[1], pad), p[0], p[1], pad, "abclfWTSG"), l})
		}
	}
	idx, mine := 0, 0
	stop := false
	only := os.Getenv("VERIF_ONLY")
	for _, sc := range scns {
		if only != "" && !strings.Contains(sc.alpha.Name, only) {
			continue
		}
		scn := ctx.Scn(sc.alpha.Name, "cases")
		if stop {
			scn.Exhaustive = false
			scn.StopReason = "time budget"
			continue
		}
		c10forEach(sc.alpha.Ops, sc.maxLen, func(h []c10op) bool {
			// one leave, or two with a restart in between (a node leaves once per incarnation)
			if !c13wellFormed(h) {
				return true
			}
			for _, rejoin := range []bool{false, true} {
				idx++
				if !ctx.Mine(idx) {
					continue
				}
				mine++
				if mine%256 == 0 && time.Now().After(ctx.Deadline) {
					stop = true
					return false
				}
				c13one(ctx, scn, h, rejoin)
			}
			return true
		})
		if stop {
			scn.Exhaustive = false
			scn.StopReason = "time budget"
		}
		if ctx.Shard == 0 {
			o := sc.alpha.Ops
			ex := []c10op{o[0], o[2], {K: "G"}, o[3], {K: "S"}, o[1]}
			for _, rj := range []bool{false, true} {
				e, _, _ := c13expect(ex, rj)
				scn.Sample(fmt.Sprintf("rejoinAfterLeave=%v %v -> restart after leave: %s, final restart: %s", rj, ex, c10fmtMap(e[0].alive), c10fmtMap(e[1].alive)))
			}
		}
	}
}

// c13wellFormed: 1 or 2 graceful leaves, and a restart between two of them.
func c13wellFormed(h []c10op) bool {
	g, open := 0, false
	for _, op := range h {
		switch op.K {
		case "G":
			if open {
				return false
			}
			g++
			open = true
		case "S":
			open = false
		}
	}
	return g == 1 || g == 2
}

func c13one(ctx *vc.Ctx, scn *vc.Scenario, h []c10op, rejoin bool) string {
	hist := append([]c10op{}, h...)
	exp, _, afterOps := c13expect(hist, rejoin)
	rp := c13replay{Check: "C13", Ops: hist, Rejoin: rejoin}
	// size of the set known at the leave (whatever the rejoin setting)
	_, setOn, _ := c13expect(hist, true)
	mode := "rejoin-after-leave disabled"
	if rejoin {
		mode = "rejoin-after-leave enabled"
	}
	bad := false
	label := ""
	restartsAfter := 0
	for _, e := range exp {
		if e.phase != "pre" {
			restartsAfter++
		}
	}
	for _, thr := range c10thresholds {
		r := c10exec(hist, thr, rejoin)
		if r.Err != "" {
			ctx.Violation(scn.Name, "snapshotter-failed", fmt.Sprintf("%s, history %v, minCompactSize=%d: %s", mode, hist, thr, r.Err), rp)
			bad = true
			continue
		}
		if len(r.Obs) != len(exp) {
			ctx.Fail("C13: %d observations for %d restarts (history %v)", len(r.Obs), len(exp), hist)
			return "harness"
		}
		for i, e := range exp {
			got := r.Obs[i].Alive
			pre := fmt.Sprintf("%s, history %v, minCompactSize=%d (%d compactions, %d at/after the leave), restart #%d of %d:\n set known at the leave %s\n restored rejoin set %s\n snapshot file at the end: %q",
				mode, hist, thr, r.Compactions, r.AfterLeave, i+1, len(exp), c10fmtMap(setOn), c10fmtMap(got), r.Image[c10path])
			switch e.phase {
			case "first":
				if !rejoin && len(got) != 0 {
					ctx.Violation(scn.Name, "rejoin-disabled: member re-joined after a graceful leave", pre, rp)
					bad = true
				}
				if rejoin && !c10sameMap(got, e.alive) {
					ctx.Violation(scn.Name, "rejoin-enabled: rejoin set differs from the set at the leave", pre, rp)
					bad = true
				}
			case "later":
				var stale []string
				for n := range got {
					if !rejoin && e.stale[n] {
						stale = append(stale, n)
					}
				}
				sort.Strings(stale)
				if len(stale) > 0 {
					ctx.Violation(scn.Name, "rejoin-disabled: pre-leave member re-joined at a later restart", pre+fmt.Sprintf("\n members from before the leave: %q", stale), rp)
					bad = true
				} else if !c10sameMap(got, e.alive) {
					ctx.Violation(scn.Name, "incarnation after the leave: rejoin set mismatch", pre+"\n expected "+c10fmtMap(e.alive), rp)
					bad = true
				}
			}
		}
		b := r.AfterLeave
		if b > 2 {
			b = 3
		}
		label += fmt.Sprintf("%d", b)
	}
	ao := afterOps
	if ao > 2 {
		ao = 3
	}
	out := fmt.Sprintf("rejoin=%v set=%d ops-after-leave=%d restarts-after=%d compactions-after=%s", rejoin, len(setOn), ao, restartsAfter, label)
	if bad {
		out = "MISMATCH"
	}
	scn.Case(out, len(setOn) > 0)
	scn.Transitions += len(h)
	scn.AddState(fmt.Sprintf("%v|%v|%d|%d", rejoin, setOn, ao, restartsAfter))
	return out
}
