package checks

import (
	"fmt"
	"io"
	"net"
	"os"
	"path/filepath"
	"sort"
	"strings"

	"verifharness/vc"
	"verifharness/world"

	"github.com/hashicorp/memberlist"
	"github.com/hashicorp/serf/cmd/serf/command/agent"
	"github.com/hashicorp/serf/serf"
	"github.com/hashicorp/serf/zzverif/vsched"
)

// C30: Tag edits apply as documented and persisted tags match effective tags.

// c30rejectedSig: after an edit that serf rejected (encoded tags above the
// metadata limit) the tags file holds the rejected tags, not the tags in effect.
const c30rejectedSig = "persisted-tags-differ-after-rejected-edit"

// c30appliedSig: the RPC reported an error (broadcast timeout) for an edit that
// Serf had already applied, and the tags file does not hold the tags in effect.
const c30appliedSig = "persisted-tags-differ-after-edit-that-failed-but-took-effect"

func init() {
	vc.Register(&vc.Check{
		ID:    "C30",
		Level: "exploration",
		Rule:  "cases: every history of up to 2 steps (thorough 3; quick adds all length-3 histories over 8 of the edits) over an alphabet of RPC tag edits (set / delete / both, 1-2 keys, keys {a, b, 'é', 'role', '', a key with quote, backslash, newline and control characters}, values {'', 'x', JSON-hostile characters, 300 bytes, 600 bytes, the two lengths at the metadata limit +0/+1}) plus 'restart' (shut the agent down, start a new one from the same tags file), run against a real agent (real IPC handleTags -> Agent.SetTags -> Serf.SetTags, inert memberlist) with a real tags file; after every step a fresh agent.Create on the same tags file is compared with the tags in effect. The histories of up to 2 steps (thorough: plus length 3 over 8 of the edits) are repeated on an agent whose memberlist knows one silent peer, where every applied edit is answered with the broadcast-timeout error. non-trivial = history containing an edit that changes the tags or is rejected",
		Assumptions: []string{
			"'tags in effect' = Serf().LocalMember().Tags of the running agent; 'tags loaded at the next start' = SerfConfig().Tags of a fresh agent.Create with the same TagsFile and an empty tag configuration",
			"an edit whose result encodes (serf's own tag encoder) to at most memberlist.MetaMaxSize = 512 bytes must take effect; for a larger one the only requirement is persisted == effective",
			"no tags are configured besides the tags file (the agent refuses that combination)",
			"the real file system (a temporary directory) without I/O errors",
			"peer family: the peer is learnt by memberlist through a real Join against an in-memory push/pull responder and never receives gossip (GossipNodes = 0), so memberlist.UpdateNode always times out (1 ms of real time) after Serf has replaced its tags; whether an edit 'took effect' is judged on LocalMember().Tags, not on the RPC's error",
		},
		Run: c30run,
	})
}

type c30edit struct {
	Set     map[string]string `json:"set,omitempty"`
	Del     []string          `json:"del,omitempty"`
	Restart bool              `json:"restart,omitempty"`
}

func (e c30edit) String() string {
	if e.Restart {
		return "restart"
	}
	var ks []string
	for k := range e.Set {
		ks = append(ks, k)
	}
	sort.Strings(ks)
	s := "edit{"
	for _, k := range ks {
		v := e.Set[k]
		if len(v) > 24 {
			s += fmt.Sprintf("set %q=<%d bytes> ", k, len(v))
		} else {
			s += fmt.Sprintf("set %q=%q ", k, v)
		}
	}
	for _, k := range e.Del {
		s += fmt.Sprintf("del %q ", k)
	}
	return strings.TrimSpace(s) + "}"
}

func c30copy(m map[string]string) map[string]string {
	o := map[string]string{}
	for k, v := range m {
		o[k] = v
	}
	return o
}

func c30eq(a, b map[string]string) bool {
	if len(a) != len(b) {
		return false
	}
	for k, v := range a {
		if w, ok := b[k]; !ok || w != v {
			return false
		}
	}
	return true
}

func c30show(m map[string]string) string {
	var ks []string
	for k := range m {
		ks = append(ks, k)
	}
	sort.Strings(ks)
	s := "{"
	for i, k := range ks {
		if i > 0 {
			s += ", "
		}
		if v := m[k]; len(v) > 24 {
			s += fmt.Sprintf("%q:<%d bytes>", k, len(v))
		} else {
			s += fmt.Sprintf("%q:%q", k, v)
		}
	}
	return s + "}"
}

// c30apply is the documented edit: previous - deleted + set, set wins.
func c30apply(prev map[string]string, e c30edit) map[string]string {
	o := c30copy(prev)
	for _, k := range e.Del {
		delete(o, k)
	}
	for k, v := range e.Set {
		o[k] = v
	}
	return o
}

const c30metaMax = 512 // memberlist.MetaMaxSize

const c30weird = "q\"\\\n\x01<&> "

func c30alphabet(encLen func(map[string]string) int, thorough bool) []c30edit {
	// value lengths at the limit for tags {"a": v}
	at := 0
	for n := 400; n < 520; n++ {
		if encLen(map[string]string{"a": strings.Repeat("v", n)}) <= c30metaMax {
			at = n
		}
	}
	big := strings.Repeat("B", 600)
	half := strings.Repeat("h", 300)
	fitV := strings.Repeat("v", at)
	overV := strings.Repeat("w", at+1)
	es := []c30edit{
		{Restart: true},
		{Set: map[string]string{"a": "x"}},
		{Set: map[string]string{"a": ""}},
		{Set: map[string]string{"b": "x"}},
		{Set: map[string]string{"role": "web", "é": "ü"}},
		{Set: map[string]string{c30weird: c30weird}},
		{Set: map[string]string{"": "noname"}},
		{Set: map[string]string{"a": big}},
		{Set: map[string]string{"a": fitV}},
		{Set: map[string]string{"a": overV}},
		{Set: map[string]string{"b": half}},
		{Set: map[string]string{"role": half}},
		{Del: []string{"a"}},
		{Del: []string{"b", "role"}},
		{Del: []string{"nope"}},
		{Del: []string{"a"}, Set: map[string]string{"a": "y"}},
		{Del: []string{"a"}, Set: map[string]string{"b": "z"}},
		{Del: []string{"a", "b", "role", "é", "", c30weird}},
		{Del: []string{"b"}, Set: map[string]string{"b": big}},
		{Del: []string{"A", "ROLE"}},
		{},
	}
	if thorough {
		es = append(es,
			c30edit{Set: map[string]string{"é": half}},
			c30edit{Set: map[string]string{"a": "x", "b": "y"}},
			c30edit{Del: []string{"é", "a"}, Set: map[string]string{"é": "again"}},
			c30edit{Del: []string{"é", "É"}},
			c30edit{Set: map[string]string{"b": strings.Repeat("é", 300)}},
		)
	}
	return es
}

func c30run(ctx *vc.Ctx) {
	dir, err := os.MkdirTemp("", "verif-c30-")
	if err != nil {
		ctx.Fail("C30: %v", err)
		return
	}
	defer os.RemoveAll(dir)

	// tag encoder of a throw-away node (only used to pick inputs and to decide
	// whether an edit is within the metadata limit)
	var encLen func(map[string]string) int
	var alpha []c30edit
	vsched.Run(vsched.RunOpts{MaxSteps: 500000}, func() {
		n, err := world.NewNode("enc", 0)
		if err != nil {
			panic(err)
		}
		encLen = func(t map[string]string) int { return len(serf.VEncodeTags(n.S, t)) }
		alpha = c30alphabet(encLen, ctx.Thorough())
		// freeze the sizes needed later: VEncodeTags needs only the protocol version
		n.S.Shutdown()
	})
	if alpha == nil {
		ctx.Fail("C30: cannot build the alphabet")
		return
	}
	maxLen := 2
	if ctx.Thorough() {
		maxLen = 3
	}
	scn := ctx.Scn(fmt.Sprintf("history<=%d", maxLen), "cases")
	idx := 0
	var rec func(prefix []int)
	rec = func(prefix []int) {
		if len(prefix) > 0 {
			idx++
			if ctx.Mine(idx) {
				h := make([]c30edit, len(prefix))
				for i, p := range prefix {
					h[i] = alpha[p]
				}
				c30history(ctx, scn, dir, idx, h, encLen, false)
			}
		}
		if len(prefix) == maxLen {
			return
		}
		for i := range alpha {
			rec(append(append([]int{}, prefix...), i))
		}
	}
	rec(nil)
	if !ctx.Thorough() {
		// quick: histories of length 3 over a reduced alphabet
		red := []c30edit{alpha[0], alpha[1], alpha[5], alpha[9], alpha[10], alpha[11], alpha[12], alpha[15]}
		s3 := ctx.Scn("history=3/reduced-alphabet", "cases")
		for _, a := range red {
			for _, b := range red {
				for _, c := range red {
					idx++
					if ctx.Mine(idx) {
						c30history(ctx, s3, dir, idx, []c30edit{a, b, c}, encLen, false)
					}
				}
			}
		}
		s3.Sample(`[edit{set "b"=<300 bytes>}, edit{set "role"=<300 bytes>} (rejected: 2 x 300 bytes exceed the limit), restart]`)
	}
	// the same histories on an agent whose memberlist knows one (silent) peer
	ps := ctx.Scn("peer/history<=2", "cases")
	var prec func(prefix []int)
	prec = func(prefix []int) {
		if len(prefix) > 0 {
			idx++
			if ctx.Mine(idx) {
				h := make([]c30edit, len(prefix))
				for i, p := range prefix {
					h[i] = alpha[p]
				}
				c30history(ctx, ps, dir, idx, h, encLen, true)
			}
		}
		if len(prefix) == 2 {
			return
		}
		for i := range alpha {
			prec(append(append([]int{}, prefix...), i))
		}
	}
	prec(nil)
	if ctx.Thorough() {
		red := []c30edit{alpha[0], alpha[1], alpha[5], alpha[9], alpha[10], alpha[11], alpha[12], alpha[15]}
		p3 := ctx.Scn("peer/history=3/reduced-alphabet", "cases")
		for _, a := range red {
			for _, b := range red {
				for _, c := range red {
					idx++
					if ctx.Mine(idx) {
						c30history(ctx, p3, dir, idx, []c30edit{a, b, c}, encLen, true)
					}
				}
			}
		}
	}
	ps.Sample(`agent with one known peer: [edit{set "a"="x"} -> RPC error "timeout waiting for update broadcast" but tags in effect {"a":"x"}; the tags file must load as {"a":"x"}], [.., restart] -> {"a":"x"}`)
	scn.Sample(`[edit{set "a"="x"}, edit{set "b"=<600 bytes>} (rejected), restart]: after step 2 the tags in effect are {"a":"x"}; the tags file must load as {"a":"x"}`)
	scn.Sample(`[edit{set "a"="x"}, edit{set "a"="y" del "a"}] -> {"a":"y"} (set wins)`)
}

// c30history runs one history. With peer set, the agent's memberlist knows one
// other live member (learnt through a real Join against an in-memory push/pull
// responder) that never receives anything: every tag update that passes the size
// check is applied by Serf, but memberlist.UpdateNode then gives up waiting for
// the broadcast ("timeout waiting for update broadcast", BroadcastTimeout = 1 ms
// of real time), so the RPC reports an error although the tags took effect.
func c30history(ctx *vc.Ctx, scn *vc.Scenario, dir string, idx int, h []c30edit, encLen func(map[string]string) int, peer bool) {
	file := filepath.Join(dir, fmt.Sprintf("tags-%d.json", idx))
	defer os.Remove(file)
	type viol struct{ sig, msg string }
	var vs []viol
	fail := func(sig, f string, a ...interface{}) {
		vs = append(vs, viol{sig, fmt.Sprintf(f, a...)})
	}
	changed, rejected := false, false
	// stale: the tags file is known to differ from the tags in effect (known
	// finding after a rejected edit). The history goes on so that later edits are
	// still checked, but a restart from the stale file is only a consequence.
	stale := false
	harnessErr := ""
	timeouts := 0
	var trace []string
	x := vsched.Run(vsched.RunOpts{MaxSteps: 4000000}, func() {
		gen := 0
		start := func() *agent.Agent {
			gen++
			ac := agent.DefaultConfig()
			ac.NodeName = "a"
			ac.TagsFile = file
			tr := world.NewTransport()
			sc := world.NewConfig("a", 0, tr, nil)
			a, err := agent.Create(ac, sc, io.Discard)
			if err != nil {
				fail("agent-create-failed", "agent.Create on the tags file failed: %v", err)
				return nil
			}
			if err := a.Start(); err != nil {
				fail("agent-start-failed", "agent start #%d failed: %v", gen, err)
				return nil
			}
			if peer {
				p := world.AlivePeer("peer", 1, serf.VEncodeTags(a.Serf(), map[string]string{}))
				tr.Dial = func(memberlist.Address) (net.Conn, error) {
					return world.NewPushPullConn(func([]byte) []byte { return world.EncodePushPull([]world.Peer{p}, nil, false) }), nil
				}
				n, err := a.Serf().Memberlist().Join([]string{"peer/" + world.NodeIP(1).String() + ":7946"})
				tr.Dial = nil
				vsched.Quiesce()
				if err != nil || n != 1 || a.Serf().Memberlist().NumMembers() != 2 {
					harnessErr = fmt.Sprintf("cannot make the agent's memberlist learn a peer: joined %d, err %v, members %d", n, err, a.Serf().Memberlist().NumMembers())
					a.Shutdown()
					return nil
				}
			}
			return a
		}
		// probe loads the tags file the way the next start would
		probe := func() (map[string]string, error) {
			ac := agent.DefaultConfig()
			ac.NodeName = "a"
			ac.TagsFile = file
			sc := world.NewConfig("a", 0, world.NewTransport(), nil)
			a, err := agent.Create(ac, sc, io.Discard)
			if err != nil {
				return nil, err
			}
			t := c30copy(a.SerfConfig().Tags)
			a.Shutdown()
			return t, nil
		}
		a := start()
		if a == nil {
			return
		}
		defer func() {
			if a != nil {
				a.Shutdown()
				vsched.Quiesce()
			}
		}()
		for si, e := range h {
			prev := c30copy(a.Serf().LocalMember().Tags)
			stepRejected := false
			if e.Restart {
				if stale {
					trace = append(trace, "restart skipped (tags file already reported stale)")
					return
				}
				a.Shutdown()
				vsched.Quiesce()
				a = start()
				if a == nil {
					return
				}
				vsched.Quiesce()
				eff := c30copy(a.Serf().LocalMember().Tags)
				trace = append(trace, fmt.Sprintf("restart -> %s", c30show(eff)))
				if !c30eq(eff, prev) {
					fail("restart-changes-tags", "step %d restart: tags in effect before the restart %s, after the restart (loaded from the tags file) %s", si+1, c30show(prev), c30show(eff))
					return
				}
				continue
			}
			want := c30apply(prev, e)
			respErr, err := agent.VHandleTags(a, e.Set, e.Del)
			if err != nil {
				fail("rpc-handler-error", "step %d %v: handleTags failed: %v", si+1, e, err)
				return
			}
			vsched.Quiesce()
			eff := c30copy(a.Serf().LocalMember().Tags)
			fits := encLen(want) <= c30metaMax
			res := "ok"
			if respErr != "" {
				res = "rejected(" + respErr + ")"
				stepRejected = true
				rejected = true
				if strings.Contains(respErr, "timeout waiting for update broadcast") {
					timeouts++
				}
			}
			trace = append(trace, fmt.Sprintf("%v %s -> %s", e, res, c30show(eff)))
			if !c30eq(eff, prev) {
				changed = true
			}
			if fits && !c30eq(eff, want) {
				sig := "edit-result-wrong"
				if respErr != "" && !strings.Contains(respErr, "timeout waiting for update broadcast") {
					sig = "edit-within-limit-rejected"
				}
				fail(sig, "step %d %v on %s (response error %q): tags in effect %s, want previous - deleted + set = %s", si+1, e, c30show(prev), respErr, c30show(eff), c30show(want))
				return
			}
			if respErr == "" && !c30eq(eff, want) {
				fail("edit-result-wrong", "step %d %v on %s reported success: tags in effect %s, want %s", si+1, e, c30show(prev), c30show(eff), c30show(want))
				return
			}
			loaded, err := probe()
			if err != nil {
				fail("tags-file-unloadable", "step %d %v: the next start fails on the tags file: %v", si+1, e, err)
				return
			}
			if !c30eq(loaded, eff) {
				sig := "persisted-tags-differ-after-accepted-edit"
				if stepRejected {
					sig = c30rejectedSig
					if !c30eq(eff, prev) {
						// the RPC reported an error but the edit is in effect
						sig = c30appliedSig
					}
				}
				fail(sig, "step %d %v (%s): tags in effect %s but the next start would load %s from the tags file", si+1, e, res, c30show(eff), c30show(loaded))
				if sig != c30rejectedSig {
					return
				}
				stale = true
			} else {
				stale = false
			}
		}
	})
	desc := func() string {
		var hs []string
		for _, e := range h {
			hs = append(hs, e.String())
		}
		return "history [" + strings.Join(hs, ", ") + "]; trace: " + strings.Join(trace, " | ")
	}
	if harnessErr != "" {
		ctx.Fail("C30: %s", harnessErr)
		return
	}
	out := "ok"
	switch {
	case len(x.Panics) > 0:
		out = "panic"
		ctx.Violation(scn.Name, "panic "+x.Panics[0].Frame, desc()+": panic "+x.Panics[0].Value, h)
	case len(vs) > 0:
		out = vs[len(vs)-1].sig
		for _, v := range vs {
			ctx.Violation(scn.Name, v.sig, desc()+": "+v.msg, h)
		}
	case !x.RootDone:
		out = "stuck"
		ctx.Violation(scn.Name, "stuck", fmt.Sprintf("%s: blocked %+v caphit=%v", desc(), x.Blocked, x.CapHit), h)
	default:
		if rejected {
			out = "ok/with-rejection"
		}
		if timeouts > 0 {
			out = "ok/with-broadcast-timeout"
		}
	}
	scn.Case(out, changed || rejected)
}
