package checks

import (
	"bytes"
	"encoding/json"
	"fmt"
	"math"
	"strings"
	"time"

	"verifharness/vc"
	"verifharness/world"

	"github.com/hashicorp/go-msgpack/v2/codec"
	"github.com/hashicorp/serf/coordinate"
	"github.com/hashicorp/serf/serf"
	"github.com/hashicorp/serf/zzverif/vrand"
	"github.com/hashicorp/serf/zzverif/vsched"
)

// C20: The network coordinate stays valid whatever peers report.
//
// Oracle after every observation (exactly the statement):
//   1. the local coordinate is finite, has the configured dimensionality and
//      height >= HeightMin;
//   2. its error is within [0, VivaldiErrorMax] as long as every observation the
//      client took in so far reported an error >= 0;
//   3. an observation whose coordinate is invalid (non-finite field or wrong
//      dimension) or whose time is out of range (< 0 or > 10 s) is rejected
//      (error returned) and the complete private state of the client is unchanged;
//   4. through the ping delegate: the cache entry of a peer changes only on an
//      observation that had to be and was taken in (client state advanced), and
//      then holds that peer's reported coordinate.

const c20maxRTT = 10 * time.Second

type c20obs struct {
	Label string
	Node  string
	Co    coordinate.Coordinate
	RTT   time.Duration
	// Adv marks an adversarial observation (anything but a plain, in-range one).
	Adv bool
}

func c20finite(f float64) bool { return !math.IsNaN(f) && !math.IsInf(f, 0) }

func c20coordFinite(c *coordinate.Coordinate) bool {
	for _, v := range c.Vec {
		if !c20finite(v) {
			return false
		}
	}
	return c20finite(c.Error) && c20finite(c.Adjustment) && c20finite(c.Height)
}

// mustReject is the statement's rejection clause.
func (o *c20obs) mustReject(dim int) (bool, string) {
	if len(o.Co.Vec) != dim {
		return true, "wrong-dimension"
	}
	if !c20coordFinite(&o.Co) {
		return true, "non-finite"
	}
	if o.RTT < 0 || o.RTT > c20maxRTT {
		return true, "rtt-out-of-range"
	}
	return false, ""
}

func (o *c20obs) String() string {
	return fmt.Sprintf("{%s: node %s vec %v err %g adj %g height %g rtt %dns}", o.Label, o.Node, o.Co.Vec, o.Co.Error, o.Co.Adjustment, o.Co.Height, int64(o.RTT))
}

func c20clone(c *coordinate.Coordinate) *coordinate.Coordinate {
	return &coordinate.Coordinate{Vec: append([]float64(nil), c.Vec...), Error: c.Error, Adjustment: c.Adjustment, Height: c.Height}
}

// c20local checks clause 1 (and 2 when errBound) on a coordinate of the client.
func c20local(what string, c *coordinate.Coordinate, cfg *coordinate.Config, errBound bool) (string, string) {
	if c == nil {
		return "local-coordinate-missing", what + " is nil"
	}
	if len(c.Vec) != int(cfg.Dimensionality) {
		return "local-dimension-changed", fmt.Sprintf("%s has %d dimensions, configured %d", what, len(c.Vec), cfg.Dimensionality)
	}
	if !c20coordFinite(c) {
		return "local-not-finite", fmt.Sprintf("%s is not finite: vec %v err %g adj %g height %g", what, c.Vec, c.Error, c.Adjustment, c.Height)
	}
	if !(c.Height >= cfg.HeightMin) {
		return "height-below-minimum", fmt.Sprintf("%s has height %g below the minimum %g", what, c.Height, cfg.HeightMin)
	}
	if errBound && !(c.Error >= 0 && c.Error <= cfg.VivaldiErrorMax) {
		return "error-out-of-bounds", fmt.Sprintf("%s has error %g outside [0, %g] although every observation taken in reported a non-negative error", what, c.Error, cfg.VivaldiErrorMax)
	}
	return "", ""
}

// c20result of playing one sequence.
type c20result struct {
	outcome string
	sig     string
	msg     string
}

// c20play feeds seq to a fresh real Client (must run inside a vsched run so that
// random directions are deterministic choices) and applies clauses 1-3 after
// every observation.
func c20play(cfg *coordinate.Config, seq []*c20obs, res *c20result) {
	*res = c20result{}
	cl, err := coordinate.NewClient(cfg)
	if err != nil {
		res.sig, res.msg = "harness", err.Error()
		return
	}
	var out strings.Builder
	errBound := true
	fail := func(i int, sig, msg string) {
		var sb strings.Builder
		for k := 0; k <= i; k++ {
			fmt.Fprintf(&sb, "\n  %d. %s", k+1, seq[k])
		}
		res.sig, res.msg = sig, fmt.Sprintf("%s; after observation %d of:%s", msg, i+1, sb.String())
	}
	for i, o := range seq {
		before := coordinate.VClientState(cl)
		resets := cl.Stats().Resets
		arg := c20clone(&o.Co)
		ret, uerr := cl.Update(o.Node, arg, o.RTT)
		after := coordinate.VClientState(cl)
		rej, why := o.mustReject(int(cfg.Dimensionality))
		switch {
		case rej && uerr == nil:
			fail(i, "accepted-"+why, "an observation that must be rejected ("+why+") was accepted")
			return
		case rej && after != before:
			fail(i, "rejected-observation-changed-state", fmt.Sprintf("a rejected observation (%s) changed the client:\n  before %s\n  after  %s", why, before, after))
			return
		}
		if uerr == nil {
			if !(o.Co.Error >= 0) {
				errBound = false
			}
			if sig, msg := c20local("the coordinate returned by Update", ret, cfg, errBound); sig != "" {
				fail(i, sig, msg)
				return
			}
			if cl.Stats().Resets != resets {
				out.WriteString("reset,")
			} else {
				out.WriteString("taken,")
			}
		} else if rej {
			out.WriteString("rejected(" + why + "),")
		} else {
			out.WriteString("refused,") // left open by the statement
			if after != before {
				out.WriteString("!changed,")
			}
		}
		if sig, msg := c20local("the local coordinate", cl.GetCoordinate(), cfg, errBound); sig != "" {
			fail(i, sig, msg)
			return
		}
	}
	res.outcome = out.String()
}

// c20runSeq plays one sequence in its own scheduler run (default random choices).
func c20runSeq(ctx *vc.Ctx, scn *vc.Scenario, cfg *coordinate.Config, seq []*c20obs) {
	var res c20result
	x := vsched.Run(vsched.RunOpts{MaxSteps: 200000}, func() { c20play(cfg, seq, &res) })
	c20verdict(ctx, scn, x, &res, seq)
}

// c20batch plays many sequences inside one scheduler run (a run per sequence is
// dominated by thread set-up). Random directions take their default answer.
// If anything panics or blocks the batch is re-run one sequence per run so that
// the failure is attributed to its sequence.
type c20batch struct {
	ctx  *vc.Ctx
	scn  *vc.Scenario
	cfg  *coordinate.Config
	seqs [][]*c20obs
}

func (b *c20batch) add(seq []*c20obs) {
	b.seqs = append(b.seqs, append([]*c20obs(nil), seq...))
	if len(b.seqs) >= 512 {
		b.flush()
	}
}

func (b *c20batch) flush() {
	if len(b.seqs) == 0 {
		return
	}
	results := make([]c20result, len(b.seqs))
	x := vsched.Run(vsched.RunOpts{MaxSteps: 1 << 30}, func() {
		vsched.Branching(false)
		for i, s := range b.seqs {
			c20play(b.cfg, s, &results[i])
		}
	})
	if len(x.Panics) > 0 || !x.RootDone {
		for _, s := range b.seqs {
			c20runSeq(b.ctx, b.scn, b.cfg, s)
		}
	} else {
		for i, s := range b.seqs {
			c20verdict(b.ctx, b.scn, x, &results[i], s)
		}
	}
	b.seqs = b.seqs[:0]
}

func c20replayObj(part string, seq []*c20obs) interface{} {
	var l []string
	for _, o := range seq {
		l = append(l, o.String())
	}
	if i := strings.IndexByte(part, '/'); i >= 0 {
		part = part[:i]
	}
	return map[string]interface{}{"part": part, "observations": l}
}

func c20verdict(ctx *vc.Ctx, scn *vc.Scenario, x *vsched.Exec, res *c20result, seq []*c20obs) {
	adv := false
	for _, o := range seq {
		adv = adv || o.Adv
	}
	switch {
	case len(x.Panics) > 0:
		ctx.Violation(scn.Name, "panic "+x.Panics[0].Frame, fmt.Sprintf("panic %s in sequence %v\n%s", x.Panics[0].Value, c20replayObj(scn.Name, seq), x.Panics[0].Stack), c20replayObj(scn.Name, seq))
		scn.Case("panic", adv)
	case !x.RootDone:
		ctx.Violation(scn.Name, "stuck", fmt.Sprintf("sequence did not finish: blocked %+v capHit=%v", x.Blocked, x.CapHit), c20replayObj(scn.Name, seq))
		scn.Case("stuck", adv)
	case res.sig != "":
		ctx.Violation(scn.Name, res.sig, res.msg, c20replayObj(scn.Name, seq))
		scn.Case(res.sig, adv)
	default:
		if adv && len(scn.Samples) < 2 && strings.Contains(res.outcome, "taken") {
			scn.Sample(map[string]interface{}{"observations": c20replayObj(scn.Name, seq).(map[string]interface{})["observations"], "observed": res.outcome})
		}
		scn.Case(res.outcome, adv)
	}
}

// ---- alphabets -------------------------------------------------------------

type c20vec struct {
	name string
	v    []float64
	adv  bool
}

func c20fill(d int, f float64) []float64 {
	v := make([]float64, d)
	for i := range v {
		v[i] = f
	}
	return v
}

func c20at(d, i int, f float64, rest float64) []float64 {
	v := c20fill(d, rest)
	if i >= d {
		i = d - 1
	}
	v[i] = f
	return v
}

// c20validVecs: finite vectors of the configured dimension.
func c20validVecs(d int) []c20vec {
	return []c20vec{
		{"zero", c20fill(d, 0), false},
		{"tiny", c20fill(d, 1e-9), true},
		{"e1", c20at(d, 0, 1, 0), false},
		{"-ones", c20fill(d, -1), false},
		{"far", c20fill(d, 1e4), true},
		{"1e150", c20at(d, 3, 1e150, 0), true},
		{"max", c20at(d, 0, 1e308, 0), true},
		{"-max", c20fill(d, -1e308), true},
		{"denorm", c20at(d, d-1, 5e-324, 0), true},
	}
}

// c20badVecs: non-finite or wrong-dimension vectors.
func c20badVecs(d int) []c20vec {
	return []c20vec{
		{"NaN", c20at(d, 2, math.NaN(), 1), true},
		{"+Inf", c20at(d, 0, math.Inf(1), 0), true},
		{"-Inf", c20at(d, d-1, math.Inf(-1), 0), true},
		{"dim0", nil, true},
		{"dim-1", c20fill(d-1, 0), true},
		{"dim+1", c20at(d+1, 0, 1, 0), true},
	}
}

var c20rtts = []time.Duration{-1, 0, 1, time.Millisecond, c20maxRTT, c20maxRTT + 1, math.MaxInt64, math.MinInt64}

func c20mk(node string, v c20vec, h, e, a float64, rtt time.Duration) *c20obs {
	o := &c20obs{Node: node, Co: coordinate.Coordinate{Vec: v.v, Error: e, Adjustment: a, Height: h}, RTT: rtt}
	o.Label = fmt.Sprintf("%s/h%g/e%g/a%g", v.name, h, e, a)
	plain := !v.adv && h >= 0 && h <= 1 && e >= 0 && e <= 1.5 && math.Abs(a) <= 1 && rtt >= 0 && rtt <= c20maxRTT
	o.Adv = !plain
	return o
}

// c20alphabet is the reduced alphabet for sequences: every factor value occurs,
// combined so that each known mechanism (coincidence, overflow reset, negative
// error, absorbing error, clamps, every rejection reason) is reachable.
func c20alphabet(d int) []*c20obs {
	vv := map[string]c20vec{}
	for _, v := range append(c20validVecs(d), c20badVecs(d)...) {
		vv[v.name] = v
	}
	ms := time.Millisecond
	nan, inf := math.NaN(), math.Inf(1)
	return []*c20obs{
		// taken in
		c20mk("p", vv["zero"], 1e-5, 1.5, 0, ms),
		c20mk("p", vv["e1"], 0, 0, 0, ms),
		c20mk("q", vv["-ones"], 1, 1.5, 1, c20maxRTT),
		c20mk("q", vv["far"], 1e-5, 0.1, -1, 0),
		c20mk("p", vv["tiny"], -1, 1.5, 0, 1),
		c20mk("q", vv["1e150"], 0, 1.5, 0, ms),
		c20mk("p", vv["max"], 1e308, 1e308, 0, c20maxRTT),
		c20mk("q", vv["-max"], 0, 0, 0, ms),
		c20mk("p", vv["denorm"], 1e-5, 1.5, 1e300, ms),
		c20mk("q", vv["e1"], 1, -1, 0, ms),
		c20mk("p", vv["e1"], 0, -1.4, 0, c20maxRTT),
		c20mk("q", vv["zero"], 1e308, 0, 0, 0),
		c20mk("p", vv["far"], 0, 1e308, -1e300, c20maxRTT),
		c20mk("q", vv["e1"], 1e-5, 1.5, -1, ms),
		c20mk("p", vv["zero"], 0, 0, 0, 0),
		c20mk("q", vv["-ones"], -1e308, 5e-324, 0, 1),
		c20mk("p", vv["e1"], 1e-5, -1e308, 0, ms),
		c20mk("p", vv["e1"], 1e-5, 1.5, 0, 3*time.Second),
		// invalid coordinate, time in range
		c20mk("p", vv["NaN"], 1e-5, 1.5, 0, ms),
		c20mk("q", vv["+Inf"], 1e-5, 1.5, 0, ms),
		c20mk("p", vv["-Inf"], 1e-5, 1.5, 0, 0),
		c20mk("q", vv["e1"], nan, 1.5, 0, ms),
		c20mk("p", vv["e1"], -inf, 1.5, 0, ms),
		c20mk("q", vv["e1"], 1e-5, nan, 0, ms),
		c20mk("p", vv["e1"], 1e-5, inf, 0, ms),
		c20mk("q", vv["e1"], 1e-5, 1.5, nan, ms),
		c20mk("p", vv["zero"], 1e-5, 1.5, -inf, ms),
		c20mk("q", vv["dim0"], 1e-5, 1.5, 0, ms),
		c20mk("p", vv["dim-1"], 1e-5, 1.5, 0, ms),
		c20mk("q", vv["dim+1"], 1e-5, 1.5, 0, ms),
		// valid coordinate, time out of range
		c20mk("p", vv["e1"], 1e-5, 1.5, 0, -1),
		c20mk("q", vv["e1"], 1e-5, 1.5, 0, c20maxRTT+1),
		c20mk("p", vv["zero"], 1e-5, 0, 0, math.MaxInt64),
		c20mk("q", vv["far"], 1e-5, 1.5, 0, math.MinInt64),
		// both
		c20mk("p", vv["NaN"], nan, nan, nan, -1),
		c20mk("q", vv["dim+1"], 1e-5, -1, 0, c20maxRTT+1),
	}
}

func init() {
	vc.Register(&vc.Check{
		ID:    "C20",
		Level: "exploration",
		Rule: "cases (real coordinate.Client, default config, dimension 8; every case = one observation sequence, clauses checked after every observation): " +
			"single/*: the full product of 15 vectors (zero, 1e-9, unit, -1, 1e4, 1e150, 1e308, -1e308, denormal, NaN, +Inf, -Inf, dimensions 0/7/9) x 7 heights {-1,0,1e-5,1,1e308,NaN,+Inf} x 6 errors {-1,0,1.5,1e308,NaN,-Inf} x 5 adjustments {0,1,-1,1e300,NaN} x 8 times {-1ns,0,1ns,1ms,10s,10s+1ns,max,min int64} applied to 7 client states (fresh and 6 warmed-up ones: filter full, negative-error history, far away, flung by a 1e300 adjustment, after an overflow reset, error 0); " +
			"seq/len3 (thorough len4): all sequences over a 36-observation alphabet (18 taken in, 12 invalid coordinates, 4 out-of-range times, 2 both) from 2 peers; pairs: all ordered pairs of the valid product (quick 648, thorough 2880 observations) followed by a plain probe observation; " +
			"rand/*: sequences over 4 observations that coincide with the local position (zero, 1e-9 and 5e-7 vectors; one of them keeps the node at the origin so that gravity draws a second direction), under every answer of the random direction menu: dimension 1 sequences of 3 with menu {0,.25,.5,.75,.999}, dimension 2 sequences of 2 with menu {0,.5,.999} (thorough: 5 values), dimension 3 single observations (menu 3 values, thorough 5), dimension 8 single observations with menu {0,.5} (quick: the 3 moving observations, thorough: all 4 = 2^16 directions) and thorough menus of 3 and 5 values on the moving observations; " +
			"cache/*: real Serf node, sequences of 2 (thorough 3) ping completions from a 21-ping alphabet (good payloads, invalid coordinates, out-of-range times, empty/wrong-version/truncated/nil payloads) for 2 peers. " +
			"non-trivial = the sequence contains an adversarial observation (non-finite, wrong dimension, |value|>=1e4, negative or >1 height, negative or >1.5 error, |adjustment|>1, denormal/1e-9 vector, time out of range or malformed payload); rand: at least one non-default direction",
		Assumptions: []string{
			"invalid coordinate = any non-finite field or a vector length other than the configured dimensionality; out-of-range time = negative or above 10 s (coordinate/client.go:219)",
			"'when peers report non-negative errors' = the bound on the local error is demanded on every prefix in which all observations taken in so far reported an error >= 0 (rejected observations are separately shown to change nothing)",
			"'without changing anything' = the client's coordinate, adjustment window and index, per-peer latency filters and reset counter are bit-identical before and after (read through an overlay accessor)",
			"'accepted' at the ping delegate is observed as: the observation is not one the statement requires to be rejected and the client's private state advanced",
			"random directions are environment choices from a 5-value menu per component (default first value); observations arrive one at a time (Update holds the client mutex)",
		},
		Run: c20run,
	})
}

func c20run(ctx *vc.Ctx) {
	// Replay: artefacts name the part of the enumeration they come from; the
	// enumerations are deterministic, so a replay re-runs that part only.
	part := ""
	if ctx.Replay != nil {
		var r struct {
			Part     string `json:"part"`
			Scenario string `json:"scenario"`
		}
		json.Unmarshal(ctx.Replay, &r)
		part = r.Part
		if part == "" && strings.HasPrefix(r.Scenario, "rand/") {
			part = "rand"
		}
	}
	want := func(p string) bool { return part == "" || part == p }
	idx := 0
	if want("single") {
		c20single(ctx, &idx)
	}
	if want("seq") {
		c20sequences(ctx, &idx)
	}
	if want("pairs") {
		c20pairs(ctx, &idx)
	}
	if want("rand") {
		c20rand(ctx)
	}
	if want("cache") {
		c20cache(ctx, &idx)
	}
}

// ---- single observation x warmed-up states -----------------------------------

func c20single(ctx *vc.Ctx, idx *int) {
	cfg := coordinate.DefaultConfig()
	d := int(cfg.Dimensionality)
	vv := map[string]c20vec{}
	for _, v := range c20validVecs(d) {
		vv[v.name] = v
	}
	ms := time.Millisecond
	std := c20mk("p", vv["e1"], 1e-5, 1.5, 0, ms)
	warm := []struct {
		name string
		seq  []*c20obs
	}{
		{"fresh", nil},
		{"filter-full", []*c20obs{std, c20mk("p", vv["e1"], 1e-5, 1.5, 0, 2*ms), c20mk("p", vv["e1"], 1e-5, 1.5, 0, 3*ms)}},
		{"negative-error-history", []*c20obs{std, c20mk("q", vv["e1"], 0, -1.4, 0, c20maxRTT)}},
		{"far-away", []*c20obs{c20mk("q", vv["far"], 1, 0.1, 0, c20maxRTT), c20mk("q", vv["far"], 1, 0.1, 0, c20maxRTT)}},
		{"flung", []*c20obs{c20mk("q", vv["e1"], 1e-5, 0, 1e300, ms)}},
		{"after-reset", []*c20obs{c20mk("q", vv["1e150"], 0, 1.5, 0, ms)}},
		{"error-zero", []*c20obs{c20mk("p", vv["zero"], 1e-5, 1.5, 0, 0), c20mk("q", vv["-ones"], 1, 0, 0, 0)}},
	}
	nan, inf := math.NaN(), math.Inf(1)
	heights := []float64{-1, 0, 1e-5, 1, 1e308, nan, inf}
	errors := []float64{-1, 0, 1.5, 1e308, nan, -inf}
	adjs := []float64{0, 1, -1, 1e300, nan}
	vecs := append(c20validVecs(d), c20badVecs(d)...)
	for _, w := range warm {
		scn := ctx.Scn("single/"+w.name, "cases")
		bt := &c20batch{ctx: ctx, scn: scn, cfg: cfg}
		for _, v := range vecs {
			for _, h := range heights {
				for _, e := range errors {
					for _, a := range adjs {
						*idx++
						if !ctx.Mine(*idx) {
							continue
						}
						for _, rtt := range c20rtts {
							o := c20mk("p", v, h, e, a, rtt)
							bt.add(append(append([]*c20obs{}, w.seq...), o))
						}
					}
				}
			}
		}
		bt.flush()
	}
}

// ---- sequences over the reduced alphabet --------------------------------------

func c20sequences(ctx *vc.Ctx, idx *int) {
	n := 3
	if ctx.Thorough() {
		n = 4
	}
	c20sequencesCfg(ctx, idx, fmt.Sprintf("seq/len%d", n), coordinate.DefaultConfig(), n)
	// non-default configurations: each knob at a value that takes another path through the code
	type knob struct {
		name string
		set  func(c *coordinate.Config)
	}
	knobs := []knob{
		{"height-min=0", func(c *coordinate.Config) { c.HeightMin = 0 }},
		{"height-min=0.5", func(c *coordinate.Config) { c.HeightMin = 0.5 }},
		{"dimensionality=3", func(c *coordinate.Config) { c.Dimensionality = 3 }},
		{"dimensionality=5", func(c *coordinate.Config) { c.Dimensionality = 5 }},
		{"error-max=0.1", func(c *coordinate.Config) { c.VivaldiErrorMax = 0.1 }},
		{"adjustment-window=0", func(c *coordinate.Config) { c.AdjustmentWindowSize = 0 }},
		{"adjustment-window=1", func(c *coordinate.Config) { c.AdjustmentWindowSize = 1 }},
		{"latency-filter=1", func(c *coordinate.Config) { c.LatencyFilterSize = 1 }},
		{"gravity-rho=1", func(c *coordinate.Config) { c.GravityRho = 1 }},
	}
	for _, k := range knobs {
		cfg := coordinate.DefaultConfig()
		k.set(cfg)
		c20sequencesCfg(ctx, idx, fmt.Sprintf("seq/len%d/%s", n-1, k.name), cfg, n-1)
	}
}

func c20sequencesCfg(ctx *vc.Ctx, idx *int, name string, cfg *coordinate.Config, n int) {
	alpha := c20alphabet(int(cfg.Dimensionality))
	scn := ctx.Scn(name, "cases")
	cur := make([]int, n)
	seq := make([]*c20obs, n)
	bt := &c20batch{ctx: ctx, scn: scn, cfg: cfg}
	defer bt.flush()
	for {
		*idx++
		if ctx.Mine(*idx) {
			for i, k := range cur {
				seq[i] = alpha[k]
			}
			bt.add(seq)
		}
		i := n - 1
		for ; i >= 0; i-- {
			cur[i]++
			if cur[i] < len(alpha) {
				break
			}
			cur[i] = 0
		}
		if i < 0 {
			break
		}
	}
	bt.flush()
}

// ---- ordered pairs of the valid product ----------------------------------------

func c20pairs(ctx *vc.Ctx, idx *int) {
	cfg := coordinate.DefaultConfig()
	d := int(cfg.Dimensionality)
	heights := []float64{-1, 1e-5, 1e308}
	errors := []float64{-1, 0, 1.5, 1e308}
	adjs := []float64{0, 1e300}
	rtts := []time.Duration{0, time.Millisecond, c20maxRTT}
	if ctx.Thorough() {
		heights = []float64{-1, 0, 1e-5, 1, 1e308}
		adjs = []float64{0, 1, -1, 1e300}
		rtts = []time.Duration{0, 1, time.Millisecond, c20maxRTT}
	}
	var obs []*c20obs
	for _, v := range c20validVecs(d) {
		for _, h := range heights {
			for _, e := range errors {
				for _, a := range adjs {
					for _, r := range rtts {
						obs = append(obs, c20mk("p", v, h, e, a, r))
					}
				}
			}
		}
	}
	probe := c20mk("q", c20vec{"e1", c20at(d, 0, 1, 0), false}, 1e-5, 1.5, 0, time.Millisecond)
	scn := ctx.Scn(fmt.Sprintf("pairs/%d^2+probe", len(obs)), "cases")
	bt := &c20batch{ctx: ctx, scn: scn, cfg: cfg}
	for _, a := range obs {
		*idx++
		if !ctx.Mine(*idx) {
			continue
		}
		for _, b := range obs {
			bt.add([]*c20obs{a, b, probe})
		}
	}
	bt.flush()
}

// ---- random direction menu ------------------------------------------------------

func c20rand(ctx *vc.Ctx) {
	type rcfg struct {
		tag    string
		dim    uint
		maxLen int
		menu   []float64
		// moving: leave out the observation that keeps the node at the origin
		// (it makes gravity draw a second random direction: menu^(2*dim) runs)
		moving bool
	}
	full := []float64{0, 0.25, 0.5, 0.75, 0.999}
	three := []float64{0, 0.5, 0.999}
	two := []float64{0, 0.5}
	cfgs := []rcfg{{"dim1", 1, 3, full, false}, {"dim2", 2, 2, three, false}, {"dim3", 3, 1, three, false}, {"dim8/menu2", 8, 1, two, true}}
	if ctx.Thorough() {
		cfgs[1].menu = full
		cfgs[2].menu = full
		cfgs[3].moving = false
		cfgs = append(cfgs, rcfg{"dim8/menu3", 8, 1, three, true}, rcfg{"dim8/menu5", 8, 1, full, true})
	}
	saved := vrand.FloatMenu
	defer func() { vrand.FloatMenu = saved }()
	for _, rc := range cfgs {
		cfg := coordinate.DefaultConfig()
		cfg.Dimensionality = rc.dim
		d := int(rc.dim)
		ms := time.Millisecond
		alpha := []*c20obs{
			c20mk("p", c20vec{"zero", c20fill(d, 0), false}, 1e-5, 1.5, 0, ms),
			c20mk("q", c20vec{"zero", c20fill(d, 0), false}, 0, 0, 0, 0),
			c20mk("p", c20vec{"tiny", c20fill(d, 1e-9), true}, 1, 1.5, 1, c20maxRTT),
			c20mk("q", c20vec{"half-threshold", c20at(d, 0, 5e-7, 0), true}, 1e308, 1e308, -1, 1),
		}
		if rc.moving {
			alpha = alpha[:3]
		}
		vrand.FloatMenu = rc.menu
		name := "rand/" + rc.tag
		var seqs [][]*c20obs
		var gen func(cur []*c20obs)
		gen = func(cur []*c20obs) {
			if len(cur) == rc.maxLen {
				seqs = append(seqs, append([]*c20obs{}, cur...))
				return
			}
			for _, o := range alpha {
				gen(append(cur, o))
			}
		}
		gen(nil)
		for si, seq := range seqs {
			seq := seq
			var res c20result
			body := func() { c20play(cfg, seq, &res) }
			check := func(x *vsched.Exec) (string, string, string) {
				if len(x.Panics) > 0 {
					return "panic", "panic " + x.Panics[0].Frame, fmt.Sprintf("%s in %v\n%s", x.Panics[0].Value, c20replayObj("rand", seq), x.Panics[0].Stack)
				}
				if !x.RootDone {
					return "stuck", "stuck", fmt.Sprintf("blocked %+v", x.Blocked)
				}
				if res.sig != "" {
					return res.sig, res.sig, res.msg + fmt.Sprintf("\n  random direction answers (menu %v): %v", rc.menu, x.Choices)
				}
				return res.outcome, "", ""
			}
			ctx.Explore(vc.ExploreOpts{Name: fmt.Sprintf("%s#%d", name, si), Bound: 0, EnvFree: true, MaxSteps: 200000}, body, check)
		}
		poolScenarios(ctx, name+"#", name)
	}
}

// ---- caching through the ping delegate -----------------------------------------

type c20ping struct {
	Label   string
	Peer    string
	Payload []byte
	RTT     time.Duration
	Co      *coordinate.Coordinate // what a well-formed payload carries, nil if malformed
	Reject  bool                   // the statement requires rejection (or there is no observation at all)
}

func c20payload(version byte, co *coordinate.Coordinate) []byte {
	var buf bytes.Buffer
	buf.WriteByte(version)
	if err := codec.NewEncoder(&buf, &codec.MsgpackHandle{}).Encode(co); err != nil {
		panic(err)
	}
	return buf.Bytes()
}

func c20pings(d int) []*c20ping {
	vv := map[string]c20vec{}
	for _, v := range append(c20validVecs(d), c20badVecs(d)...) {
		vv[v.name] = v
	}
	ms := time.Millisecond
	var out []*c20ping
	add := func(o *c20obs) {
		rej, _ := o.mustReject(d)
		out = append(out, &c20ping{Label: o.Label, Peer: o.Node, Payload: c20payload(serf.PingVersion, &o.Co), RTT: o.RTT, Co: c20clone(&o.Co), Reject: rej})
	}
	add(c20mk("b", vv["e1"], 1e-5, 1.5, 0, ms))
	add(c20mk("c", vv["far"], 1, 0.1, -1, c20maxRTT))
	add(c20mk("b", vv["zero"], 1e-5, 0, 0, 0))
	add(c20mk("b", vv["1e150"], 0, 1.5, 0, ms))
	add(c20mk("c", vv["denorm"], 1e-5, 1.5, 1e300, ms))
	add(c20mk("b", vv["-ones"], 1, -1, 0, ms))
	add(c20mk("b", vv["-ones"], 2, 1.5, 1, 2*ms))
	add(c20mk("b", vv["NaN"], 1e-5, 1.5, 0, ms))
	add(c20mk("c", vv["e1"], math.Inf(1), 1.5, 0, ms))
	add(c20mk("c", vv["e1"], 1e-5, math.NaN(), 0, ms))
	add(c20mk("b", vv["dim-1"], 1e-5, 1.5, 0, ms))
	add(c20mk("c", vv["dim+1"], 1e-5, 1.5, 0, ms))
	add(c20mk("b", vv["dim0"], 1e-5, 1.5, 0, ms))
	add(c20mk("b", vv["e1"], 1e-5, 1.5, 0, -1))
	add(c20mk("c", vv["e1"], 1e-5, 1.5, 0, c20maxRTT+1))
	add(c20mk("b", vv["zero"], 1e-5, 1.5, 0, math.MaxInt64))
	good := c20mk("b", vv["e1"], 1e-5, 1.5, 0, ms)
	body := c20payload(serf.PingVersion, &good.Co)
	out = append(out,
		&c20ping{Label: "empty-payload", Peer: "b", Payload: nil, RTT: ms, Reject: true},
		&c20ping{Label: "wrong-version", Peer: "c", Payload: c20payload(serf.PingVersion+1, &good.Co), RTT: ms, Reject: true},
		&c20ping{Label: "version-only", Peer: "b", Payload: []byte{serf.PingVersion}, RTT: ms, Reject: true},
		&c20ping{Label: "truncated", Peer: "c", Payload: body[:len(body)-5], RTT: ms, Reject: true},
		&c20ping{Label: "msgpack-nil", Peer: "b", Payload: []byte{serf.PingVersion, 0xc0}, RTT: ms, Reject: true},
	)
	return out
}

func c20sameCoord(a, b *coordinate.Coordinate) bool {
	if a == nil || b == nil || len(a.Vec) != len(b.Vec) {
		return false
	}
	for i := range a.Vec {
		if math.Float64bits(a.Vec[i]) != math.Float64bits(b.Vec[i]) {
			return false
		}
	}
	return math.Float64bits(a.Error) == math.Float64bits(b.Error) && math.Float64bits(a.Adjustment) == math.Float64bits(b.Adjustment) && math.Float64bits(a.Height) == math.Float64bits(b.Height)
}

func c20cache(ctx *vc.Ctx, idx *int) {
	ccfg := coordinate.DefaultConfig()
	pings := c20pings(int(ccfg.Dimensionality))
	n := 2
	if ctx.Thorough() {
		n = 3
	}
	scn := ctx.Scn(fmt.Sprintf("cache/len%d", n), "cases")
	peers := []string{"b", "c"}
	cur := make([]int, n)
	for {
		*idx++
		if ctx.Mine(*idx) {
			seq := make([]*c20ping, n)
			for i, k := range cur {
				seq[i] = pings[k]
			}
			var sig, msg string
			var out strings.Builder
			describe := func(upto int) string {
				var sb strings.Builder
				for k := 0; k <= upto; k++ {
					p := seq[k]
					fmt.Fprintf(&sb, "\n  %d. ping to %s completed: %s rtt %dns payload %x", k+1, p.Peer, p.Label, int64(p.RTT), p.Payload)
				}
				return sb.String()
			}
			x := vsched.Run(vsched.RunOpts{MaxSteps: 400000}, func() {
				sig, msg = "", ""
				out.Reset()
				nd, err := world.NewNode("a", 0)
				if err != nil {
					sig, msg = "harness", err.Error()
					return
				}
				defer nd.S.Shutdown()
				cl := serf.VCoordClient(nd.S)
				prev := map[string]*coordinate.Coordinate{}
				for i, p := range seq {
					before := coordinate.VClientState(cl)
					idxPeer := 1
					if p.Peer == "c" {
						idxPeer = 2
					}
					nd.Ping().NotifyPingComplete(nd.MLNode(p.Peer, idxPeer, nil), p.RTT, p.Payload)
					after := coordinate.VClientState(cl)
					if p.Reject && after != before {
						sig, msg = "rejected-observation-changed-state", fmt.Sprintf("a ping completion that must be rejected changed the coordinate client:\n  before %s\n  after  %s%s", before, after, describe(i))
						return
					}
					for _, name := range peers {
						got, ok := nd.S.GetCachedCoordinate(name)
						if !ok {
							got = nil
						}
						if got == prev[name] {
							continue
						}
						prev[name] = got
						switch {
						case name != p.Peer:
							sig, msg = "cache: entry of another peer changed", fmt.Sprintf("the cached coordinate of %s changed on a ping to %s%s", name, p.Peer, describe(i))
						case p.Reject || after == before:
							sig, msg = "cache: coordinate cached although the observation was not accepted", fmt.Sprintf("GetCachedCoordinate(%q) now returns %+v although the observation was not accepted (must-reject=%v, client state changed=%v)%s", name, got, p.Reject, after != before, describe(i))
						case !c20sameCoord(got, p.Co):
							sig, msg = "cache: cached value is not the peer's reported coordinate", fmt.Sprintf("GetCachedCoordinate(%q) = %+v, the peer reported %+v%s", name, got, p.Co, describe(i))
						}
						if sig != "" {
							return
						}
						out.WriteString("cached:" + name + ",")
					}
					lc, err := nd.S.GetCoordinate()
					if err != nil {
						sig, msg = "harness", err.Error()
						return
					}
					if s, m := c20local("the node's coordinate", lc, ccfg, false); s != "" {
						sig, msg = s, m+describe(i)
						return
					}
					if after == before {
						out.WriteString("ignored;")
					} else {
						out.WriteString("taken;")
					}
				}
			})
			adv := false
			var rl []string
			for _, p := range seq {
				adv = adv || p.Reject
				rl = append(rl, fmt.Sprintf("%s<-%s rtt=%d payload=%x", p.Peer, p.Label, int64(p.RTT), p.Payload))
			}
			rep := map[string]interface{}{"part": "cache", "pings": rl}
			switch {
			case len(x.Panics) > 0:
				ctx.Violation(scn.Name, "panic "+x.Panics[0].Frame, fmt.Sprintf("panic %s%s\n%s", x.Panics[0].Value, describe(n-1), x.Panics[0].Stack), rep)
				scn.Case("panic", adv)
			case !x.RootDone:
				ctx.Violation(scn.Name, "stuck", fmt.Sprintf("blocked %+v capHit=%v%s", x.Blocked, x.CapHit, describe(n-1)), rep)
				scn.Case("stuck", adv)
			case sig == "harness":
				ctx.Fail("C20 cache: %s", msg)
			case sig != "":
				ctx.Violation(scn.Name, sig, msg, rep)
				scn.Case(sig, adv)
			default:
				if adv && len(scn.Samples) < 2 && strings.Contains(out.String(), "cached") {
					scn.Sample(map[string]interface{}{"pings": rl, "observed": out.String()})
				}
				scn.Case(out.String(), adv)
			}
		}
		i := n - 1
		for ; i >= 0; i-- {
			cur[i]++
			if cur[i] < len(pings) {
				break
			}
			cur[i] = 0
		}
		if i < 0 {
			break
		}
	}
}
