package checks

import (
	"bytes"
	"fmt"
	"io"
	"strings"
	"time"

	"verifharness/vc"
	"verifharness/world"

	"github.com/hashicorp/serf/cmd/serf/command/agent"
	"github.com/hashicorp/serf/serf"
	"github.com/hashicorp/serf/zzverif/vsched"
)

// C25: RPC replies and stream records stay correlated and well-formed.
// Part 1 (reply/Seq correlation over all request scripts) lives in c24.go
// (c25SeqCorrelation); parts 2 and 3 (event stream, query stream) are here.

func init() {
	vc.Register(&vc.Check{
		ID:    "C25",
		Level: "exploration",
		Rule: "cases: every request script of the C24 alphabet (see C24) with every reply header's Seq checked against the requests already written and record bodies against the stream they belong to; schedules: all executions within the deviation bound (quick 3, thorough 4) of (a) a real IPC eventStream fed by a producer thread with 4 events (member, user x2, query; one more than the filter admits) for 5 filter specs (and, at a bound two lower, 8 specs that combine entries: one type bare and named, two names, duplicates, the catch-all next to a name), plus one run crossing the 512-entry buffer, (b) a real agent fanning 3 events out to 3 permanently registered handlers while other handlers (streams) are registered and deregistered, and (c) the real queryResponseStream.Stream on a real Serf.Query result while a network thread delivers acks/responses and virtual time runs serf's close timer and the stream's done timer (both explorable); non-trivial = at least one non-default choice / a script with >=2 reply headers",
		Assumptions: []string{
			"the stream's client is a recording harness object (Send is atomic)",
			"replies reach the node serially; virtual time",
			"an acknowledgement or response record is 'real' iff it repeats a reply the network thread delivered for this query",
		},
		Run: c25run,
	})
}

func c25run(ctx *vc.Ctx) {
	c25SeqCorrelation(ctx)
	bound := 3
	if ctx.Thorough() {
		bound = 4
	}
	for _, spec := range []string{"*", "user:deploy", "member-join", "query:load", "user,member-failed"} {
		c25events(ctx, spec, bound)
	}
	// combinations of entries within one filter: the same type bare and named, two names of one
	// type, a duplicate entry, the catch-all next to a named entry, named entries of two types
	for _, spec := range []string{"user:deploy,user", "user,user:other", "query,query:load", "query:other,query", "user:deploy,user:other", "member-join,member-join",
		"*,user:deploy", "user:nope,query:load,member-failed"} {
		c25events(ctx, spec, bound-2)
	}
	if ctx.Shard == 0 || ctx.Replay != nil {
		c25overflow(ctx)
	}
	c25query(ctx, bound)
	c25fanout(ctx, bound)
	c25fanoutStreams(ctx, bound-1)
}

func c25evs() []serf.Event {
	return []serf.Event{
		serf.MemberEvent{Type: serf.EventMemberJoin, Members: []serf.Member{{Name: "b"}}},
		serf.UserEvent{LTime: 3, Name: "deploy", Payload: []byte("v1")},
		serf.MemberEvent{Type: serf.EventMemberFailed, Members: []serf.Member{{Name: "c"}}},
		serf.UserEvent{LTime: 4, Name: "other", Payload: []byte("v2")},
	}
}

func c25describe(e serf.Event) string {
	switch t := e.(type) {
	case serf.MemberEvent:
		return "member:" + t.Type.String() + ":" + t.Members[0].Name
	case serf.UserEvent:
		return fmt.Sprintf("user:%s:%d", t.Name, t.LTime)
	case *serf.Query:
		return fmt.Sprintf("query:%s:%d", t.Name, t.LTime)
	}
	return "?"
}

func c25recDesc(r agent.VRecord) string {
	switch r.Kind {
	case "member":
		return "member:" + r.Event + ":" + strings.Join(r.Members, ",")
	case "user":
		return fmt.Sprintf("user:%s:%d", r.Name, r.LTime)
	case "query":
		return fmt.Sprintf("query:%s:%d", r.Name, r.LTime)
	}
	return r.Kind + ":" + r.From
}

func c25events(ctx *vc.Ctx, spec string, bound int) {
	var rec *agent.VRecorder
	var want []string
	var logBuf *bytes.Buffer
	body := func() {
		vsched.Branching(false)
		vsched.StepsIn("agent.(*eventStream).HandleEvent", "agent.(*eventStream).stream")
		rec = &agent.VRecorder{}
		logBuf = &bytes.Buffer{}
		want = nil
		// a real query event needs a real node
		n, err := world.NewNode("a", 0)
		if err != nil {
			panic(err)
		}
		n.Delegate().NotifyMsg(serf.VEncode(serf.VMsgQuery, &serf.VMessageQuery{LTime: 9, ID: 5, Addr: world.NodeIP(1), Port: 7946, SourceNode: "b", Name: "load", Timeout: time.Second}))
		vsched.Quiesce()
		var q *serf.Query
		for _, e := range n.DrainEvents() {
			if x, ok := e.(*serf.Query); ok {
				q = x
			}
		}
		evs := c25evs()
		if q != nil {
			evs = append(evs, q)
		}
		es := agent.VNewEventStream(rec, spec, 42, logBuf)
		for _, e := range evs {
			if agent.VFilterMatches(spec, e) {
				want = append(want, c25describe(e))
			}
		}
		vsched.Branching(true)
		p := vsched.Spawn("producer", func() {
			for _, e := range evs {
				es.HandleEvent(e)
			}
		})
		p.Join()
		vsched.Branching(false)
		vsched.Quiesce()
		es.Stop()
		vsched.Quiesce()
		n.S.Shutdown()
	}
	check := func(x *vsched.Exec) (string, string, string) {
		if len(x.Panics) > 0 {
			return "panic", "event-stream panic " + x.Panics[0].Frame, x.Panics[0].Value + "\n" + x.Panics[0].Stack
		}
		if !x.RootDone {
			return "stuck", "deadlock", fmt.Sprintf("blocked %+v", x.Blocked)
		}
		var got []string
		for _, r := range rec.Records {
			if r.Seq != 42 {
				return "seq", "event-stream: wrong seq", fmt.Sprintf("filter %q: record %+v carries Seq %d, the stream's seq is 42", spec, r, r.Seq)
			}
			got = append(got, c25recDesc(r))
		}
		g, w := strings.Join(got, " "), strings.Join(want, " ")
		if g != w && !strings.Contains(logBuf.String(), "Dropping event") {
			return "mismatch", "event-stream: records differ from matching events", fmt.Sprintf("filter %q: matching events in order: [%s]; records sent: [%s]", spec, w, g)
		}
		return g, "", ""
	}
	ctx.Explore(vc.ExploreOpts{Name: "event-stream/" + spec, Bound: bound, MaxSteps: 20000}, body, check)
}

// c25overflow crosses the 512-entry buffer: every matching event must be streamed
// unless the overflow warning fired, and always in order.
func c25overflow(ctx *vc.Ctx) {
	scn := ctx.Scn("event-stream/overflow", "cases")
	for _, stall := range []bool{false, true} {
		var rec *agent.VRecorder
		logBuf := &bytes.Buffer{}
		x := vsched.Run(vsched.RunOpts{MaxSteps: 2000000}, func() {
			rec = &agent.VRecorder{}
			es := agent.VNewEventStream(rec, "user", 7, logBuf)
			for i := 0; i < 520; i++ {
				es.HandleEvent(serf.UserEvent{LTime: serf.LamportTime(i + 1), Name: "e"})
				if !stall && i%100 == 99 {
					vsched.Quiesce()
				}
			}
			vsched.Quiesce()
			es.Stop()
			vsched.Quiesce()
		})
		out := fmt.Sprintf("stall=%v records=%d dropped=%v", stall, len(rec.Records), strings.Contains(logBuf.String(), "Dropping"))
		if len(x.Panics) > 0 {
			ctx.Violation(scn.Name, "event-stream panic "+x.Panics[0].Frame, x.Panics[0].Value, nil)
		}
		last := uint64(0)
		for _, r := range rec.Records {
			if r.LTime <= last {
				ctx.Violation(scn.Name, "event-stream: out of order", fmt.Sprintf("record with LTime %d after %d", r.LTime, last), nil)
			}
			last = r.LTime
		}
		if len(rec.Records) != 520 && !strings.Contains(logBuf.String(), "Dropping") {
			ctx.Violation(scn.Name, "event-stream: event lost without overflow", out, nil)
		}
		if !stall && len(rec.Records) != 520 {
			ctx.Violation(scn.Name, "event-stream: event dropped although the buffer never filled", out, nil)
		}
		scn.Case(out, true)
		scn.Sample(out)
	}
}

type c25reply struct {
	from    string
	ack     bool
	payload string
	late    bool
}

func c25query(ctx *vc.Ctx, bound int) {
	const timeout = time.Second
	script := []c25reply{{"b", true, "", false}, {"b", false, "x", false}, {"c", true, "", false}, {"c", false, "y", true}}
	var rec *agent.VRecorder
	var delivered []c25reply
	body := func() {
		vsched.Branching(false)
		vsched.SetHorizon(int64(5 * time.Second))
		rec = &agent.VRecorder{}
		delivered = nil
		n, err := world.NewNode("a", 0)
		if err != nil {
			panic(err)
		}
		meta := serf.VEncodeTags(n.S, nil)
		if _, err := n.KnowPeers([]world.Peer{world.AlivePeer("b", 1, meta), world.AlivePeer("c", 2, meta)}, nil); err != nil {
			panic(err)
		}
		vsched.Quiesce()
		resp, err := n.S.Query("q", nil, &serf.QueryParam{RequestAck: true, Timeout: timeout})
		if err != nil {
			panic(err)
		}
		lt, id := serf.VQueryInfo(resp)
		vsched.TimerChoice(true)
		vsched.Branching(true)
		st := vsched.Spawn("stream", func() { agent.VStreamQueryResponse(rec, 9, resp, &bytes.Buffer{}) })
		nt := vsched.Spawn("network", func() {
			for _, r := range script {
				if r.late {
					vsched.Sleep(int64(timeout)+1, "late-reply")
				}
				m := serf.VMessageQueryResponse{LTime: serf.LamportTime(lt), ID: id, From: r.from, Payload: []byte(r.payload)}
				if r.ack {
					m.Flags = serf.VQueryFlagAck
				}
				delivered = append(delivered, r)
				n.Delegate().NotifyMsg(serf.VEncode(serf.VMsgQueryResponse, &m))
			}
		})
		nt.Join()
		st.Join()
		vsched.TimerChoice(false)
		vsched.Branching(false)
		vsched.Advance(int64(2 * timeout))
		n.S.Shutdown()
	}
	check := func(x *vsched.Exec) (string, string, string) {
		if len(x.Panics) > 0 {
			return "panic", "query-stream panic " + x.Panics[0].Frame, x.Panics[0].Value + "\n" + x.Panics[0].Stack
		}
		okAck, okResp := map[string]bool{"a": true}, map[string]bool{}
		for _, r := range delivered {
			if r.ack {
				okAck[r.from] = true
			} else {
				okResp[r.from+"="+r.payload] = true
			}
		}
		var got []string
		done := 0
		for i, r := range rec.Records {
			got = append(got, c25recDesc(r)+"="+r.Payload)
			if r.Seq != 9 {
				return "seq", "query-stream: wrong seq", fmt.Sprintf("record %+v carries Seq %d, the stream's seq is 9", r, r.Seq)
			}
			if done > 0 {
				return "after-done", "query-stream: record after done", fmt.Sprintf("records %v: record %d follows the completion record", got, i)
			}
			switch r.Kind {
			case "ack":
				if !okAck[r.From] {
					return "bogus", fmt.Sprintf("query-stream: ack record that is no real acknowledgement (From=%q)", r.From), fmt.Sprintf("the query stream sent %v; replies delivered to the node: %+v", got, delivered)
				}
			case "response":
				if !okResp[r.From+"="+r.Payload] {
					return "bogus", fmt.Sprintf("query-stream: response record that is no real response (From=%q)", r.From), fmt.Sprintf("the query stream sent %v; replies delivered to the node: %+v", got, delivered)
				}
			case "done":
				done++
			default:
				return "kind", "query-stream: unknown record kind", fmt.Sprintf("%+v", r)
			}
		}
		if x.CapHit {
			return "cap", "query-stream: stream did not terminate", fmt.Sprintf("step cap hit; records so far %d: %v ...", len(got), got[:min(len(got), 8)])
		}
		if !x.RootDone {
			return "stuck", "deadlock", fmt.Sprintf("blocked %+v", x.Blocked)
		}
		if done != 1 {
			return "done", "query-stream: completion record count", fmt.Sprintf("%d completion records in %v", done, got)
		}
		return strings.Join(got, " "), "", ""
	}
	ctx.Explore(vc.ExploreOpts{Name: "query-stream", Bound: bound, MaxSteps: 4000}, body, check)
}

type c25rec struct{ got []string }

func (r *c25rec) HandleEvent(e serf.Event) {
	if u, ok := e.(serf.UserEvent); ok {
		r.got = append(r.got, u.Name)
	}
}

// c25fanout: a real agent fans events out to its registered handlers (every IPC
// event stream is such a handler) while streams are opened and closed: a handler
// that stays registered must see every event exactly once, in order.
func c25fanout(ctx *vc.Ctx, bound int) {
	var hs []*c25rec
	names := []string{"e1", "e2", "e3"}
	body := func() {
		vsched.Branching(false)
		vsched.StepsIn("agent.(*Agent).eventLoop", "agent.(*Agent).RegisterEventHandler", "agent.(*Agent).DeregisterEventHandler")
		hs = nil
		ac := agent.DefaultConfig()
		ac.NodeName = "a"
		sc := world.NewConfig("a", 0, world.NewTransport(), nil)
		a, err := agent.Create(ac, sc, io.Discard)
		if err != nil {
			panic(err)
		}
		// an early stream (registered before the permanent ones) and a late one: removing a handler
		// in front of others and behind them are different situations for the dispatch loop
		early := &c25rec{}
		a.RegisterEventHandler(early)
		for i := 0; i < 3; i++ {
			h := &c25rec{}
			hs = append(hs, h)
			a.RegisterEventHandler(h)
		}
		if err := a.Start(); err != nil {
			panic(err)
		}
		vsched.Quiesce()
		vsched.Branching(true)
		net := vsched.Spawn("network", func() {
			for i, n := range names {
				sc.MemberlistConfig.Delegate.NotifyMsg(serf.VEncode(serf.VMsgUserEvent, &serf.VMessageUserEvent{LTime: serf.LamportTime(i + 5), Name: n}))
			}
		})
		reg := vsched.Spawn("streams", func() {
			y := &c25rec{}
			a.DeregisterEventHandler(early)
			a.RegisterEventHandler(y)
			a.DeregisterEventHandler(y)
		})
		net.Join()
		reg.Join()
		vsched.Branching(false)
		vsched.Quiesce()
		a.Shutdown()
		vsched.Quiesce()
	}
	check := func(x *vsched.Exec) (string, string, string) {
		if len(x.Panics) > 0 {
			return "panic", "fan-out panic " + x.Panics[0].Frame, x.Panics[0].Value + "\n" + x.Panics[0].Stack
		}
		if !x.RootDone {
			return "stuck", "deadlock", fmt.Sprintf("blocked %+v", x.Blocked)
		}
		want := strings.Join(names, ",")
		for i, h := range hs {
			if g := strings.Join(h.got, ","); g != want {
				return "lost-or-dup", "fan-out: a handler registered throughout missed or repeated an event", fmt.Sprintf("handler %d stayed registered while other streams were opened and closed; events %s were delivered to the agent in this order, the handler received [%s]", i, want, g)
			}
		}
		return "all-" + want, "", ""
	}
	ctx.Explore(vc.ExploreOpts{Name: "agent-fan-out", Bound: bound, MaxSteps: 50000}, body, check)
}
