package checks

import (
	"encoding/json"
	"fmt"
	"io"
	"log"
	"net"
	"os"
	"runtime"
	"runtime/debug"
	"sort"
	"strconv"
	"strings"
	"time"

	"verifharness/vc"

	"github.com/hashicorp/serf/serf"
	"github.com/hashicorp/serf/zzverif/vos"
	"github.com/hashicorp/serf/zzverif/vsched"
)

// C10: Restart from a snapshot restores the rejoin set and clocks exactly.
//
// The real Snapshotter (both goroutines under the controlled scheduler, the
// file system replaced by vos, time virtual) is driven through every history
// over a small adversarial alphabet, one event at a time ("the snapshot keeps
// up"), shut down and reopened; what the reopened snapshotter reports is
// compared with a map+three-integers reference model, under every compaction
// threshold. This file also holds the history executor shared with C13.

// c10op is one step of a history (JSON form = replay artefact).
type c10op struct {
	// K: J join, L leave, F failed, U update, R reap (member events);
	// E user event, Q query; w clock witness; T +600ms (ticker tick and flush
	// interval); S shutdown + reopen; G graceful leave (Snapshotter.Leave, C13).
	K    string `json:"k"`
	Name string `json:"name,omitempty"`
	IP   string `json:"ip,omitempty"`
	Port uint16 `json:"port,omitempty"`
	LT   uint64 `json:"lt,omitempty,string"`
	// second member of the same event (K == "J" only): coalesced join
	Name2 string `json:"name2,omitempty"`
	IP2   string `json:"ip2,omitempty"`
	Port2 uint16 `json:"port2,omitempty"`
}

// c10q quotes a member name, abbreviating the stretch inserted by c10pad.
func c10q(name string) string {
	q := strconv.Quote(name)
	if i := strings.Index(q, "__________"); i >= 0 {
		j := i
		for j < len(q) && q[j] == '_' {
			j++
		}
		q = q[:i] + fmt.Sprintf("<%d x '_'>", j-i) + q[j:]
	}
	return q
}

func (o c10op) String() string {
	switch o.K {
	case "J", "U":
		if o.IP2 != "" {
			return fmt.Sprintf("%s(%s@%s + %s@%s)", o.K, c10q(o.Name), c10addr(o.IP, o.Port), c10q(o.Name2), c10addr(o.IP2, o.Port2))
		}
		return fmt.Sprintf("%s(%s@%s)", o.K, c10q(o.Name), c10addr(o.IP, o.Port))
	case "L", "F", "R":
		return fmt.Sprintf("%s(%s)", o.K, c10q(o.Name))
	case "E", "Q", "w":
		return fmt.Sprintf("%s(%d)", o.K, o.LT)
	}
	return o.K
}

func c10isMember(k string) bool {
	return k == "J" || k == "L" || k == "F" || k == "U" || k == "R"
}

// c10addr is the reference rendering of "address": host:port, IPv6 in brackets.
func c10addr(ip string, port uint16) string {
	if strings.Contains(ip, ":") {
		return "[" + ip + "]:" + strconv.Itoa(int(port))
	}
	return ip + ":" + strconv.Itoa(int(port))
}

const c10path = "/snap/node.snapshot"

var c10logger = log.New(io.Discard, "", 0)

// c10obs is what a reopened snapshotter reports.
type c10obs struct {
	Alive        map[string]string
	Clock, Ev, Q uint64
}

func (o c10obs) String() string {
	return fmt.Sprintf("alive=%s clock=%d event-clock=%d query-clock=%d", c10fmtMap(o.Alive), o.Clock, o.Ev, o.Q)
}

func c10fmtMap(m map[string]string) string {
	var ks []string
	for k := range m {
		ks = append(ks, k)
	}
	sort.Strings(ks)
	var sb strings.Builder
	sb.WriteByte('{')
	for i, k := range ks {
		if i > 0 {
			sb.WriteString(", ")
		}
		fmt.Fprintf(&sb, "%s@%s", c10q(k), m[k])
	}
	sb.WriteByte('}')
	return sb.String()
}

func c10sameMap(a, b map[string]string) bool {
	if len(a) != len(b) {
		return false
	}
	for k, v := range a {
		if w, ok := b[k]; !ok || w != v {
			return false
		}
	}
	return true
}

func c10copyMap(a map[string]string) map[string]string {
	m := make(map[string]string, len(a))
	for k, v := range a {
		m[k] = v
	}
	return m
}

// c10run is the result of executing one history on the real snapshotter.
type c10run struct {
	Obs         []c10obs // one per S op and one for the final restart
	Compactions int      // renames of the .compact file into place
	AfterLeave  int      // ... of which after the "leave" line reached the file
	Err         string   // panic / stuck / constructor error
	Image       map[string]string
}

// c10exec runs the history on the real code. Every history ends with an
// implicit shutdown + reopen.
// c10stale: the snapshot directory already holds a temporary compaction file left behind by an
// earlier incarnation (a start state, not a fault of this history); it must have no influence.
var c10stale bool

// c10blocked: a directory sits where the temporary compaction file would be created, so every
// compaction fails for the whole history (another start state); nothing recorded may be lost.
var c10blocked bool

const c10staleContent = "alive: stale-node 10.9.9.9:7946\nalive: n1 10.8.8.8:1\nclock: 99\nevent-clock: 99\nquery-clock: 99\n"

func c10exec(ops []c10op, thr int, rejoin bool) *c10run {
	r := &c10run{}
	var img map[string]string
	if c10stale {
		img = map[string]string{c10path + ".compact": c10staleContent}
	}
	fs := vos.NewFS(img)
	if c10blocked {
		fs.Blocked = map[string]bool{c10path + ".compact": true}
	}
	vos.Install(fs)
	defer vos.Install(nil)
	x := vsched.Run(vsched.RunOpts{MaxSteps: 400000}, func() {
		var clock *serf.LamportClock
		var snap *serf.Snapshotter
		var in chan<- serf.Event
		var shut chan struct{}
		open := func(first bool) bool {
			clock = new(serf.LamportClock)
			clock.Increment() // serf.Create: the clock is at least 1
			shut = make(chan struct{})
			var err error
			in, snap, err = serf.NewSnapshotter(c10path, thr, rejoin, c10logger, clock, nil, shut)
			if err != nil {
				r.Err = "NewSnapshotter: " + err.Error()
				return false
			}
			if !first {
				o := c10obs{Alive: map[string]string{}, Clock: uint64(snap.LastClock()), Ev: uint64(snap.LastEventClock()), Q: uint64(snap.LastQueryClock())}
				for _, p := range snap.AliveNodes() {
					o.Alive[p.Name] = p.Addr
				}
				r.Obs = append(r.Obs, o)
			}
			clock.Witness(snap.LastClock()) // serf.Create restores the clock
			return true
		}
		restart := func() bool {
			close(shut)
			vsched.Quiesce()
			snap.Wait()
			return open(false)
		}
		if !open(true) {
			return
		}
		for _, op := range ops {
			switch op.K {
			case "J", "L", "F", "U", "R":
				t := map[string]serf.EventType{"J": serf.EventMemberJoin, "L": serf.EventMemberLeave, "F": serf.EventMemberFailed, "U": serf.EventMemberUpdate, "R": serf.EventMemberReap}[op.K]
				ms := []serf.Member{{Name: op.Name, Addr: net.ParseIP(op.IP), Port: op.Port, Status: serf.StatusAlive}}
				if op.IP2 != "" {
					ms = append(ms, serf.Member{Name: op.Name2, Addr: net.ParseIP(op.IP2), Port: op.Port2, Status: serf.StatusAlive})
				}
				in <- serf.MemberEvent{Type: t, Members: ms}
				vsched.Quiesce()
			case "E":
				in <- serf.UserEvent{LTime: serf.LamportTime(op.LT), Name: "e", Payload: []byte("p")}
				vsched.Quiesce()
			case "Q":
				in <- &serf.Query{LTime: serf.LamportTime(op.LT), Name: "q"}
				vsched.Quiesce()
			case "w":
				clock.Witness(serf.LamportTime(op.LT))
			case "T":
				vsched.Advance(int64(600 * time.Millisecond))
			case "G":
				snap.Leave()
				vsched.Quiesce()
			case "S":
				if !restart() {
					return
				}
			}
		}
		restart()
	})
	if len(x.Panics) > 0 {
		r.Err = "panic: " + x.Panics[0].Value + " at " + x.Panics[0].Frame
	} else if x.CapHit {
		r.Err = "step cap hit"
	} else if !x.RootDone && r.Err == "" {
		r.Err = fmt.Sprintf("stuck: %+v", x.Blocked)
	}
	left := false
	for _, op := range fs.Log {
		if op.Kind == "rename" && op.Err == "" {
			r.Compactions++
			if left {
				r.AfterLeave++
			}
		}
		if !left && op.Image != nil {
			if f := op.Image[c10path]; f == "leave\n" || strings.HasSuffix(f, "\nleave\n") {
				left = true
			}
		}
	}
	r.Image = fs.Image()
	return r
}

// c10model is the reference: a map and three integers.
type c10model struct {
	alive                map[string]string
	clock, last, ev, qry uint64
	pending              bool // clock advanced, not yet followed by a member event or tick
}

func c10newModel() *c10model { return &c10model{alive: map[string]string{}, clock: 1} }

// apply updates the model with one op; ok=false marks a history outside the
// statement's premises (see Assumptions).
func (m *c10model) apply(op c10op) (ok bool) {
	switch op.K {
	case "J":
		m.alive[op.Name] = c10addr(op.IP, op.Port)
		if op.IP2 != "" {
			m.alive[op.Name2] = c10addr(op.IP2, op.Port2)
		}
	case "L", "F":
		delete(m.alive, op.Name)
	case "U":
		// an update neither changes liveness nor (memberlist never reports an
		// address change as an update) the address
		if a, alive := m.alive[op.Name]; alive && a != c10addr(op.IP, op.Port) {
			return false
		}
	case "R":
		// only failed/left members are reaped
		if _, alive := m.alive[op.Name]; alive {
			return false
		}
	case "E":
		if op.LT > m.ev {
			m.ev = op.LT
		}
	case "Q":
		if op.LT > m.qry {
			m.qry = op.LT
		}
	case "w":
		if op.LT+1 > m.clock {
			m.clock = op.LT + 1
			m.pending = true
		}
	case "S":
		if m.pending {
			return false
		}
	}
	if c10isMember(op.K) || op.K == "T" {
		if m.clock-1 > m.last {
			m.last = m.clock - 1
		}
		m.pending = false
	}
	return true
}

func (m *c10model) obs() c10obs {
	return c10obs{Alive: c10copyMap(m.alive), Clock: m.last, Ev: m.ev, Q: m.qry}
}

// c10expect runs the model over a history; ok=false: outside the premises.
func c10expect(ops []c10op) (exp []c10obs, ok bool) {
	m := c10newModel()
	for _, op := range ops {
		if !m.apply(op) {
			return nil, false
		}
		if op.K == "S" {
			exp = append(exp, m.obs())
		}
	}
	if m.pending {
		return nil, false
	}
	return append(exp, m.obs()), true
}

// c10alphabet instantiates the abstract alphabet for two member names.
type c10alpha struct {
	Name string
	Ops  []c10op
}

const (
	c10ip4a = "10.0.0.1"
	c10ip4b = "10.0.0.2"
	c10ip6  = "fe80::1"
)

func c10pad(name string, pad int) string {
	if pad == 0 {
		return name
	}
	// keep the peculiar beginning and end of the name, stretch the middle
	h := len(name) / 2
	return name[:h] + strings.Repeat("_", pad) + name[h:]
}

func c10mkAlpha(label, n1, n2 string, pad int, kinds string) c10alpha {
	p1, p2 := c10pad(n1, pad), c10pad(n2, pad)
	a := c10alpha{Name: label}
	all := map[byte][]c10op{
		'a': {{K: "J", Name: p1, IP: c10ip4a, Port: 7946}},
		'b': {{K: "J", Name: p1, IP: c10ip4b, Port: 8000}}, // same member, new address
		'c': {{K: "J", Name: p2, IP: c10ip6, Port: 7946}},
		'd': {{K: "J", Name: p1, IP: c10ip4a, Port: 7946, Name2: p2, IP2: c10ip6, Port2: 7946}}, // one event, two members
		'l': {{K: "L", Name: p1}},
		'f': {{K: "F", Name: p2}},
		'g': {{K: "F", Name: p1}},
		'm': {{K: "L", Name: p2}},
		'u': {{K: "U", Name: p1, IP: c10ip4a, Port: 7946}},
		'v': {{K: "U", Name: p2, IP: c10ip6, Port: 7946}},
		'r': {{K: "R", Name: p2}},
		'e': {{K: "E", LT: 2}},
		'E': {{K: "E", LT: 10}},
		'x': {{K: "E", LT: 1}},
		'X': {{K: "E", LT: 1 << 63}},
		'q': {{K: "Q", LT: 2}},
		'Q': {{K: "Q", LT: 1 << 63}},
		'y': {{K: "Q", LT: 1}},
		'Y': {{K: "Q", LT: 10}},
		'w': {{K: "w", LT: 5}},
		'W': {{K: "w", LT: 1 << 63}},
		'z': {{K: "w", LT: 2}},
		'T': {{K: "T"}},
		'S': {{K: "S"}},
		'G': {{K: "G"}},
	}
	for i := 0; i < len(kinds); i++ {
		ops, ok := all[kinds[i]]
		if !ok {
			panic("c10: unknown alphabet letter " + string(kinds[i]))
		}
		a.Ops = append(a.Ops, ops...)
	}
	return a
}

// c10newlineSig classifies every mismatch of a history that contains a member
// event whose name contains a newline.
const c10newlineSig = "member-name-contains-newline"

var c10thresholds = []int{1, 64, 128 * 1024}

type c10replay struct {
	Check  string  `json:"check"`
	Ops    []c10op `json:"ops"`
	Rejoin bool    `json:"rejoin"`
}

// c10forEach enumerates every history over alpha with 1..maxLen ops.
func c10forEach(alpha []c10op, maxLen int, f func(h []c10op) bool) {
	h := make([]c10op, 0, maxLen)
	var rec func() bool
	rec = func() bool {
		if len(h) > 0 {
			if !f(h) {
				return false
			}
		}
		if len(h) == maxLen {
			return true
		}
		for _, o := range alpha {
			h = append(h, o)
			if !rec() {
				return false
			}
			h = h[:len(h)-1]
		}
		return true
	}
	rec()
}

func c10count(a, maxLen int) int {
	n, p := 0, 1
	for i := 1; i <= maxLen; i++ {
		p *= a
		n += p
	}
	return n
}

func init() {
	vc.Register(&vc.Check{
		ID:    "C10",
		Level: "model_checking",
		Rule: "cases: every history of 1..N operations, one event at a time, on the real Snapshotter, always ending with shutdown+reopen, compared at every reopen with the reference model and run once per compaction threshold {1, 64, 128Ki} (differential). Alphabet instances: name pairs (a, 'a b'), ('b ', x:y), ('alive: z', leave), ('', 'not-alive: q'), each with short names and with names stretched to >100 bytes (so that compaction also happens while members are alive). " +
			"Letters (13): join n1@IPv4, join n1 at a new address, join n2@IPv6, one join event carrying both members, leave n1, failed n2, update n1, reap n2, user event LTime 2, query LTime 2, clock witness 5, +600 ms (clock ticker + flush interval), shutdown+reopen; N=4 quick / 5 thorough. The pair (a,'a b') uses 10 of these letters with N=5 quick / 6 thorough. 'clocks' instance (13 letters): join/leave of one member, user events LTime 1,2,10,2^63, queries 1,2,2^63, witnesses 2 and 2^63, +600 ms, shutdown+reopen; N=4/5. thorough adds four instances whose names contain a newline (N=4). " +
			"A case is one history (all three thresholds, the smallest threshold once more with a temporary compaction file left behind by an earlier incarnation in the directory, and once more with a directory sitting at the temporary file's path so that every compaction fails); it is non-trivial if the expected restored state at some restart is not the empty state; histories outside the premises (see assumptions) are not counted. Outcomes = (number of alive members, which clocks are non-zero, compaction count bucket per threshold).",
		Assumptions: []string{
			"'the snapshot keeps up': one event is handed to the snapshotter, then the system runs to quiescence before the next one",
			"the Lamport clock given to the snapshotter is >= 1 (serf.Create increments it before anything can reach the snapshotter)",
			"'last recorded clock value' = clock.Time()-1 at the last member event, ticker tick: histories in which a clock witness is not followed by a member event or tick before the next shutdown are outside the premises (the statement does not say whether shutdown records) and are skipped",
			"reap events only for members not currently alive, update events never carry a changed address for an alive member (memberlist reports neither); such histories are skipped",
			"address = host:port as net.JoinHostPort renders it",
			"restart is a clean shutdown (close of the shutdown channel, Wait) followed by NewSnapshotter on the same directory; crashes are C11",
		},
		Run: c10runCheck,
	})
}

type c10scn struct {
	alpha  c10alpha
	maxLen int
}

func c10runCheck(ctx *vc.Ctx) {
	// every run allocates the snapshotter's two 2048-slot channels; with the
	// default GC target the collector runs almost once per run
	debug.SetGCPercent(800)
	runtime.GOMAXPROCS(1) // the controlled scheduler runs one thread at a time; hand-offs are cheapest on one P
	if ctx.Replay != nil {
		var rp c10replay
		if json.Unmarshal(ctx.Replay, &rp) != nil || rp.Check != "C10" {
			return
		}
		scn := ctx.Scn("replay", "cases")
		out, _ := c10one(ctx, scn, rp.Ops)
		fmt.Printf("replay outcome=%s\n", out)
		return
	}
	// full alphabet: abclfgumr eEq w T S  (see c10mkAlpha)
	const members = "abclfur"
	const quickA = members + "deqwTS" // 13 letters
	pairs := [][2]string{{"a", "a b"}, {"b ", "x:y"}, {"alive: z", "leave"}, {"", "not-alive: q"}}
	var scns []c10scn
	short := 4
	long := 5
	if ctx.Thorough() {
		short, long = 5, 6
	}
	for i, p := range pairs {
		for _, pad := range []int{0, 100} {
			l := short
			kinds := quickA
			if i == 0 {
				l = long
				kinds = "abclfuewTS" // 10 letters for the longest histories
			}
			scns = append(scns, c10scn{c10mkAlpha(fmt.Sprintf("hist<=%d/names(%q,%q)/pad%d", l, p[0], p[1], pad), p[0], p[1], pad, kinds), l})
		}
	}
	// clock-heavy alphabet: all Lamport times, one member
	scns = append(scns, c10scn{c10mkAlpha(fmt.Sprintf("hist<=%d/clocks", short), "a", "b", 0, "alxeEXyqQzWTS"), short})
	if ctx.Thorough() {
		for _, p := range [][2]string{{"a\nb", "c"}, {"x\nleave", "y"}, {"n\nalive: evil 6.6.6.6:6", "a"}, {"a\n", "\n"}} {
			scns = append(scns, c10scn{c10mkAlpha(fmt.Sprintf("hist<=4/newline-names(%q,%q)", p[0], p[1]), p[0], p[1], 0, quickA), 4})
		}
	}
	idx, mine := 0, 0
	stop := false
	only := os.Getenv("VERIF_ONLY") // debugging aid: run only scenarios whose name contains this
	for _, sc := range scns {
		if only != "" && !strings.Contains(sc.alpha.Name, only) {
			continue
		}
		scn := ctx.Scn(sc.alpha.Name, "cases")
		if stop { // out of time in an earlier scenario: nothing of this one was run
			scn.Exhaustive = false
			scn.StopReason = "time budget"
			continue
		}
		c10forEach(sc.alpha.Ops, sc.maxLen, func(h []c10op) bool {
			idx++
			if !ctx.Mine(idx) {
				return true
			}
			mine++
			if mine%256 == 0 && time.Now().After(ctx.Deadline) {
				stop = true
				return false
			}
			c10one(ctx, scn, h)
			return true
		})
		if stop {
			scn.Exhaustive = false
			scn.StopReason = "time budget"
		}
		if ctx.Shard == 0 {
			ex := []c10op{sc.alpha.Ops[0], sc.alpha.Ops[2], {K: "T"}, sc.alpha.Ops[3]}
			if e, ok := c10expect(ex); ok {
				scn.Sample(fmt.Sprintf("%v -> restart: %s", ex, e[len(e)-1]))
			}
		}
	}
}

// c10one runs one history under every threshold and compares.
func c10one(ctx *vc.Ctx, scn *vc.Scenario, h []c10op) (string, bool) {
	exp, ok := c10expect(h)
	if !ok {
		return "skipped", false
	}
	hist := append([]c10op{}, h...)
	rp := c10replay{Check: "C10", Ops: hist}
	nontrivial := false
	for _, e := range exp {
		if len(e.Alive) > 0 || e.Clock != 0 || e.Ev != 0 || e.Q != 0 {
			nontrivial = true
		}
	}
	// failure class: histories that contain a member event for a name with a
	// newline are one input class (the line-oriented format cannot hold them)
	nl := false
	for _, op := range hist {
		if c10isMember(op.K) && strings.Contains(op.Name+op.Name2, "\n") {
			nl = true
		}
	}
	cls := func(s string) string {
		if nl {
			return c10newlineSig
		}
		return s
	}
	label := ""
	var first *c10run
	bad := false
	// the three thresholds, then the smallest one again with a left-over temporary compaction file
	for ti, thr := range append(append([]int{}, c10thresholds...), c10thresholds[0], c10thresholds[0]) {
		c10stale = ti == len(c10thresholds)
		c10blocked = ti == len(c10thresholds)+1
		r := c10exec(hist, thr, false)
		c10stale, c10blocked = false, false
		if r.Err != "" {
			ctx.Violation(scn.Name, cls("snapshotter-failed"), fmt.Sprintf("history %v, minCompactSize=%d: %s", hist, thr, r.Err), rp)
			bad = true
			continue
		}
		if len(r.Obs) != len(exp) {
			ctx.Fail("C10: %d observations for %d restarts (history %v)", len(r.Obs), len(exp), hist)
			return "harness", false
		}
		for i := range exp {
			where := "final restart"
			if i < len(exp)-1 {
				where = fmt.Sprintf("restart #%d", i+1)
			}
			pre := fmt.Sprintf("history %v, minCompactSize=%d (%d compactions), %s:\n expected %s\n restored %s\n snapshot file: %q", hist, thr, r.Compactions, where, exp[i], r.Obs[i], r.Image[c10path])
			switch {
			case !c10sameMap(exp[i].Alive, r.Obs[i].Alive):
				ctx.Violation(scn.Name, cls("rejoin-set-mismatch"), pre, rp)
				bad = true
			case exp[i].Clock != r.Obs[i].Clock:
				ctx.Violation(scn.Name, cls("clock-mismatch"), pre, rp)
				bad = true
			case exp[i].Ev != r.Obs[i].Ev:
				ctx.Violation(scn.Name, cls("event-clock-mismatch"), pre, rp)
				bad = true
			case exp[i].Q != r.Obs[i].Q:
				ctx.Violation(scn.Name, cls("query-clock-mismatch"), pre, rp)
				bad = true
			}
		}
		if ti == 0 {
			first = r
		} else if first != nil && !bad {
			// differential form (implied by both matching the model; kept as a direct statement)
			for i := range r.Obs {
				if !c10sameMap(first.Obs[i].Alive, r.Obs[i].Alive) || first.Obs[i].Clock != r.Obs[i].Clock || first.Obs[i].Ev != r.Obs[i].Ev || first.Obs[i].Q != r.Obs[i].Q {
					ctx.Violation(scn.Name, cls("compaction-threshold-differential"), fmt.Sprintf("history %v: minCompactSize=%d restores %s, minCompactSize=%d restores %s", hist, c10thresholds[0], first.Obs[i], thr, r.Obs[i]), rp)
					bad = true
				}
			}
		}
		b := r.Compactions
		if b > 2 {
			b = 3
		}
		label += fmt.Sprintf("%d", b)
	}
	fin := exp[len(exp)-1]
	bits := 0
	if fin.Clock != 0 {
		bits |= 1
	}
	if fin.Ev != 0 {
		bits |= 2
	}
	if fin.Q != 0 {
		bits |= 4
	}
	out := fmt.Sprintf("alive=%d clocks=%d compactions=%s", len(fin.Alive), bits, label)
	if bad {
		out = "MISMATCH"
	}
	scn.Case(out, nontrivial)
	scn.Transitions += len(h)
	scn.AddState(fmt.Sprintf("%+v", fin)) // canonical restored state (members, addresses, clocks)
	return out, true
}
