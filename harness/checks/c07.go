package checks

import (
	"fmt"
	"sort"
	"strings"
	"time"

	"verifharness/vc"
	"verifharness/world"

	"github.com/hashicorp/serf/serf"
	"github.com/hashicorp/serf/zzverif/vsched"
)

// C07: Query replies are routed to their query exactly once and never after close.

type c07query struct {
	name     string
	resp     *serf.QueryResponse
	ltime    uint64
	id       uint32
	ready    bool
	deadline int64 // virtual ns at which the query times out
	acks     []string
	resps    []serf.NodeResponse
	ackOpen  bool
	respOpen bool
	err      error
}

// c07reply is one scripted reply; q selects the query it is addressed to.
type c07reply struct {
	q        int
	from     string
	ack      bool
	payload  string
	wrongID  bool
	wrongLT  bool
	late     bool // delivered after the deadline
	sentAt   int64
	finished bool // Finished() could be observed true when delivery began
}

func (r c07reply) String() string {
	k := "resp"
	if r.ack {
		k = "ack"
	}
	s := fmt.Sprintf("%s(q%d,%s", k, r.q, r.from)
	if r.payload != "" {
		s += "," + r.payload
	}
	if r.wrongID {
		s += ",wrong-id"
	}
	if r.wrongLT {
		s += ",wrong-ltime"
	}
	if r.late {
		s += ",late"
	}
	return s + ")"
}

func init() {
	vc.Register(&vc.Check{
		ID:    "C07",
		Level: "exploration",
		Rule: "schedules: all executions within the deviation bound (quick 3, thorough 4; a deviation = preempting a runnable thread, firing the query-timeout timer early, departing from the scripted arrival order, or a non-default thread pick) of 1-2 application threads issuing Serf.Query (acks requested) while a network thread delivers a scripted list of replies (matching ack/response, duplicates, wrong id, wrong Lamport time, reply for the other query, replies after the deadline) and virtual time runs the timeout; every reply is a Delegate.NotifyMsg on the real node; non-trivial = at least one non-default choice",
		Assumptions: []string{
			"replies are delivered serially (memberlist's single packet handler)",
			"the node's memberlist knows 2 peers (learnt through a real Join against an in-memory push/pull responder), which sizes the result channels",
			"a send on or a second close of a closed channel surfaces as a panic of the delivering or closing thread and is reported",
		},
		Run: c07run,
	})
}

func c07run(ctx *vc.Ctx) {
	bound := 3
	if ctx.Thorough() {
		bound = 4
	}
	one := []c07reply{
		{q: 0, from: "b", ack: true}, {q: 0, from: "b", payload: "x"}, {q: 0, from: "b", ack: true}, {q: 0, from: "b", payload: "y"},
		{q: 0, from: "c", ack: true, wrongID: true}, {q: 0, from: "c", payload: "z", wrongLT: true}, {q: 0, from: "c", payload: "w"},
		{q: 0, from: "d", payload: "late", late: true}, {q: 0, from: "d", ack: true, late: true},
	}
	c07explore(ctx, "1query/9replies", 1, one, bound)
	two := []c07reply{
		{q: 0, from: "b", ack: true}, {q: 1, from: "b", ack: true}, {q: 1, from: "b", payload: "p1"}, {q: 0, from: "b", payload: "p0"},
		{q: 0, from: "c", payload: "c0"}, {q: 1, from: "c", payload: "c1", wrongID: true}, {q: 1, from: "b", payload: "dup"},
		{q: 0, from: "c", ack: true, late: true}, {q: 1, from: "c", payload: "late", late: true},
	}
	c07explore(ctx, "2queries/9replies", 2, two, bound)
	// more distinct responders than the result channels hold (3 = members known to memberlist) while nobody
	// reads: whatever the node does with the overflow, nothing may reach a stream after the close
	over := []c07reply{
		{q: 0, from: "b", payload: "1"}, {q: 0, from: "c", payload: "2"}, {q: 0, from: "d", payload: "3"}, {q: 0, from: "e", payload: "4"}, {q: 0, from: "f", payload: "5"},
		{q: 0, from: "b", ack: true}, {q: 0, from: "c", ack: true}, {q: 0, from: "d", ack: true}, {q: 0, from: "e", ack: true},
		{q: 0, from: "g", payload: "late", late: true},
	}
	c07explore(ctx, "1query/overflow", 1, over, bound-1)
	c07afterRefused(ctx, bound-1)
}

// c07afterRefused: a query that is refused (over the size limit, short timeout) leaves nothing behind:
// the node's next query (longer timeout) stays open until ITS deadline, replies that arrive before it
// are delivered, and its streams are closed once, at its own deadline.
func c07afterRefused(ctx *vc.Ctx, bound int) {
	var refusedErr, qerr error
	var openAtMid, inWindow bool
	var deadline int64
	var acks []string
	var resps []serf.NodeResponse
	var ackOpen, respOpen bool
	body := func() {
		vsched.Branching(false)
		refusedErr, qerr, openAtMid, inWindow, deadline, acks, resps = nil, nil, false, false, 0, nil, nil
		vsched.SetHorizon(int64(10 * time.Second))
		n, err := world.NewNode("a", 0)
		if err != nil {
			panic(err)
		}
		meta := serf.VEncodeTags(n.S, nil)
		if _, err := n.KnowPeers([]world.Peer{world.AlivePeer("b", 1, meta), world.AlivePeer("c", 2, meta)}, nil); err != nil {
			panic(err)
		}
		vsched.Quiesce()
		n.Outbox()
		// timers fire in time order only (no early firing here): the delivery at 500 ms then lies
		// inside the second query's window for certain, so its arrival can be demanded
		vsched.Branching(true)
		var resp *serf.QueryResponse
		ready := false
		app := vsched.Spawn("app", func() {
			_, refusedErr = n.S.Query("too-big", make([]byte, 4000), &serf.QueryParam{RequestAck: true, Timeout: 200 * time.Millisecond})
			deadline = vsched.Elapsed() + int64(time.Second)
			resp, qerr = n.S.Query("q1", []byte("p"), &serf.QueryParam{RequestAck: true, Timeout: time.Second})
			ready = true
		})
		net := vsched.Spawn("network", func() {
			vsched.Point(vsched.KJoin, "wait-query", func() bool { return ready })
			if qerr != nil {
				return
			}
			vsched.Sleep(int64(500*time.Millisecond), "until-mid-window")
			// (an explored early firing of a timer moves virtual time forward: only a delivery that
			// really happens before the query's own deadline is required to arrive)
			inWindow = vsched.Elapsed() < deadline
			openAtMid = !resp.Finished()
			lt, id := serf.VQueryInfo(resp)
			for _, ack := range []bool{true, false} {
				m := serf.VMessageQueryResponse{LTime: serf.LamportTime(lt), ID: id, From: "b", Payload: []byte("x")}
				if ack {
					m.Flags, m.Payload = serf.VQueryFlagAck, nil
				}
				n.Delegate().NotifyMsg(serf.VEncode(serf.VMsgQueryResponse, &m))
			}
		})
		app.Join()
		net.Join()
		vsched.TimerChoice(false)
		vsched.Branching(false)
		vsched.Advance(int64(3 * time.Second))
		if resp != nil {
			ackOpen = c07drain(resp.AckCh(), func(s string) { acks = append(acks, s) })
			respOpen = c07drain(resp.ResponseCh(), func(r serf.NodeResponse) { resps = append(resps, r) })
		}
		n.S.Shutdown()
	}
	check := func(x *vsched.Exec) (string, string, string) {
		if len(x.Panics) > 0 {
			p := x.Panics[0]
			return "panic", "panic " + p.Value + " in " + p.Frame, p.Value + "\n" + p.Stack
		}
		if !x.RootDone {
			return "stuck", "deadlock", fmt.Sprintf("blocked: %+v", x.Blocked)
		}
		if refusedErr == nil {
			return "harness", "harness: the oversize query was not refused", "a 4000-byte query was accepted"
		}
		if qerr != nil {
			return "query-error", "query-after-refused-query-failed", fmt.Sprintf("the query issued after a refused one returned %v", qerr)
		}
		if !inWindow {
			if ackOpen || respOpen {
				return "not-closed", "streams-not-closed-after-timeout", fmt.Sprintf("ack stream open=%v response stream open=%v after 3 s", ackOpen, respOpen)
			}
			return "delivery-after-deadline (timer fired early)", "", ""
		}
		if !openAtMid {
			return "closed-early", "query-finished-before-its-deadline", "a query with a 1 s timeout, issued right after a refused query with a 200 ms timeout, reports Finished() after 500 ms"
		}
		hasAck, hasResp := false, false
		for _, a := range acks {
			if a == "b" {
				hasAck = true
			}
		}
		for _, r := range resps {
			if r.From == "b" {
				hasResp = true
			}
		}
		if !hasAck || !hasResp {
			return "reply-lost", "reply-before-deadline-not-delivered", fmt.Sprintf("ack and response from b arrived 500 ms into a 1 s query (issued after a refused query); streams carried acks %v, responses %v", acks, resps)
		}
		if ackOpen || respOpen {
			return "not-closed", "streams-not-closed-after-timeout", fmt.Sprintf("ack stream open=%v response stream open=%v after 3 s", ackOpen, respOpen)
		}
		return fmt.Sprintf("acks=%v resps=%d", acks, len(resps)), "", ""
	}
	ctx.Explore(vc.ExploreOpts{Name: "query-after-refused-query", Bound: bound, MaxSteps: 50000}, body, check)
}

func c07explore(ctx *vc.Ctx, name string, nq int, script []c07reply, bound int) {
	const timeout = time.Second
	var qs []*c07query
	var sent []c07reply
	var n *world.Node
	body := func() {
		vsched.Branching(false)
		qs, sent = nil, nil
		vsched.SetHorizon(int64(10 * time.Second))
		var err error
		n, err = world.NewNode("a", 0)
		if err != nil {
			panic(err)
		}
		meta := serf.VEncodeTags(n.S, nil)
		if _, err := n.KnowPeers([]world.Peer{world.AlivePeer("b", 1, meta), world.AlivePeer("c", 2, meta)}, nil); err != nil {
			panic(err)
		}
		vsched.Quiesce()
		n.Outbox()
		n.Tr.TakeSent()
		for i := 0; i < nq; i++ {
			qs = append(qs, &c07query{name: fmt.Sprintf("q%d", i)})
		}
		vsched.TimerChoice(true)
		vsched.Branching(true)
		var hs []vsched.Handle
		for _, q := range qs {
			q := q
			hs = append(hs, vsched.Spawn("app-"+q.name, func() {
				q.deadline = vsched.Elapsed() + int64(timeout)
				q.resp, q.err = n.S.Query(q.name, []byte("payload"), &serf.QueryParam{RequestAck: true, Timeout: timeout})
				if q.err != nil {
					q.ready = true
					return
				}
				q.ltime, q.id = serf.VQueryInfo(q.resp)
				q.ready = true
			}))
		}
		hs = append(hs, vsched.Spawn("network", func() {
			vsched.Point(vsched.KJoin, "wait-queries", func() bool {
				for _, q := range qs {
					if !q.ready {
						return false
					}
				}
				return true
			})
			rest := append([]c07reply{}, script...)
			for len(rest) > 0 {
				// arrival order: default = script order; any other pending non-late reply is a deviation
				k := 0
				if !rest[0].late {
					cand := 0
					for cand < len(rest) && !rest[cand].late {
						cand++
					}
					if cand > 3 {
						cand = 3
					}
					k = vsched.Choose(cand, "arrival-order")
				}
				r := rest[k]
				rest = append(rest[:k:k], rest[k+1:]...)
				q := qs[r.q]
				if q.err != nil {
					continue
				}
				if r.late && vsched.Elapsed() <= q.deadline {
					vsched.Sleep(q.deadline-vsched.Elapsed()+1, "until-after-deadline")
				}
				m := serf.VMessageQueryResponse{LTime: serf.LamportTime(q.ltime), ID: q.id, From: r.from, Payload: []byte(r.payload)}
				if r.ack {
					m.Flags = serf.VQueryFlagAck
					m.Payload = nil
				}
				if r.wrongID {
					m.ID = q.id + 1000
				}
				if r.wrongLT {
					m.LTime = serf.LamportTime(q.ltime + 50)
				}
				r.sentAt = vsched.Elapsed()
				r.finished = q.resp.Finished()
				n.Delegate().NotifyMsg(serf.VEncode(serf.VMsgQueryResponse, &m))
				sent = append(sent, r)
			}
		}))
		for _, h := range hs {
			h.Join()
		}
		vsched.TimerChoice(false)
		vsched.Branching(false)
		vsched.Advance(int64(3 * timeout))
		for _, q := range qs {
			if q.resp == nil {
				continue
			}
			q.acks, q.resps = nil, nil
			q.ackOpen, q.respOpen = c07drain(q.resp.AckCh(), func(s string) { q.acks = append(q.acks, s) }), c07drain(q.resp.ResponseCh(), func(r serf.NodeResponse) { q.resps = append(q.resps, r) })
		}
		n.S.Shutdown()
	}
	check := func(x *vsched.Exec) (string, string, string) {
		if len(x.Panics) > 0 {
			p := x.Panics[0]
			return "panic", "panic " + p.Value + " in " + p.Frame, p.Value + "\n" + p.Stack
		}
		if !x.RootDone {
			return "stuck", "deadlock", fmt.Sprintf("blocked: %+v", x.Blocked)
		}
		var out []string
		for qi, q := range qs {
			if q.err != nil {
				return "query-error", "query-failed", fmt.Sprintf("Query returned %v", q.err)
			}
			if q.ackOpen || q.respOpen {
				return "not-closed", "streams-not-closed-after-timeout", fmt.Sprintf("%s: 3x the timeout has passed but ack stream open=%v, response stream open=%v", q.name, q.ackOpen, q.respOpen)
			}
			okAck := map[string]bool{"a": true} // the node acknowledges its own query
			okResp := map[string]map[string]bool{}
			mustNot := map[string]bool{}
			for _, r := range sent {
				if r.q != qi || r.wrongID || r.wrongLT {
					continue
				}
				key := r.from + "/" + r.payload
				if r.ack {
					key = "ack:" + r.from
				}
				if r.finished {
					if _, was := mustNot[key]; !was {
						mustNot[key] = true
					}
					continue
				}
				mustNot[key] = false
				if r.ack {
					okAck[r.from] = true
				} else {
					if okResp[r.from] == nil {
						okResp[r.from] = map[string]bool{}
					}
					okResp[r.from][r.payload] = true
				}
			}
			seenAck := map[string]bool{}
			for _, a := range q.acks {
				if seenAck[a] {
					return "dup-ack", "duplicate-ack", fmt.Sprintf("%s: two acknowledgements from %q on the ack stream %v; replies delivered: %v", q.name, a, q.acks, sent)
				}
				seenAck[a] = true
				if !okAck[a] {
					if mustNot["ack:"+a] {
						return "after-finish", "reply-after-finish-delivered", fmt.Sprintf("%s: ack from %q was delivered although it arrived when the query had finished; replies %v", q.name, a, sent)
					}
					return "foreign-ack", "ack-not-addressed-to-query", fmt.Sprintf("%s: ack stream carries %q, which no reply addressed to this query acknowledged; replies delivered: %v", q.name, a, sent)
				}
			}
			seenResp := map[string]bool{}
			for _, r := range q.resps {
				if seenResp[r.From] {
					return "dup-resp", "duplicate-response", fmt.Sprintf("%s: two responses from %q on the response stream; replies delivered: %v", q.name, r.From, sent)
				}
				seenResp[r.From] = true
				if !okResp[r.From][string(r.Payload)] {
					if mustNot[r.From+"/"+string(r.Payload)] {
						return "after-finish", "reply-after-finish-delivered", fmt.Sprintf("%s: response %q from %q was delivered although it arrived when the query had finished; replies %v", q.name, r.Payload, r.From, sent)
					}
					return "foreign-resp", "response-not-addressed-to-query", fmt.Sprintf("%s: response stream carries %q from %q, which is not a reply addressed to this query; replies delivered: %v", q.name, r.Payload, r.From, sent)
				}
			}
			a := append([]string{}, q.acks...)
			sort.Strings(a)
			var rs []string
			for _, r := range q.resps {
				rs = append(rs, r.From+"="+string(r.Payload))
			}
			sort.Strings(rs)
			out = append(out, fmt.Sprintf("%s acks=%v resps=%v", q.name, a, rs))
		}
		return strings.Join(out, "; "), "", ""
	}
	ctx.Explore(vc.ExploreOpts{Name: name, Bound: bound, MaxSteps: 50000}, body, check)
}

// c07drain empties a result channel without blocking and reports whether it is still open.
func c07drain[T any](ch <-chan T, f func(T)) (open bool) {
	if ch == nil {
		return false
	}
	for {
		select {
		case v, ok := <-ch:
			if !ok {
				return false
			}
			f(v)
		default:
			return true
		}
	}
}
