package checks

import (
	"fmt"
	"os"

	"verifharness/conform"
	"verifharness/vc"
)

// CONFORM: conformance of the memberlist contract of DESIGN.md §2.3 (the only
// modelled part of C01/C02) against LIVE hashicorp/memberlist. Auxiliary check:
// it runs real goroutines and real (short) timers outside the controlled
// scheduler, writes conform/REPORT.json and always exits 0 unless the harness
// itself fails: a contradicted clause is a finding about the model, an
// expected state not reached within its deadline is "inconclusive".
func init() {
	vc.Register(&vc.Check{
		ID: "CONFORM", Level: "other", Serial: true,
		Rule: "scripted scenarios on 2-4 live memberlist v0.5.4 instances over an in-memory transport (join chain, graceful leave, crash, join of a holder of a crashed node, partition/heal late and early, reconnect through a third node, leave during partition, the same after memberlist forgot the dead node, quick restart with same/new meta, restart after death, restart after leave, user broadcast incl. a short cut, periodic push/pull); every per-node callback trace is checked for inclusion in the contract language (a)-(d), (e)/(f) are answered from the scenario outcomes; quick: each scenario once, thorough: 5 times; a case = one scenario run",
		Assumptions: []string{
			"timing: ProbeInterval 50ms, GossipInterval 20ms, PushPullInterval 200ms, SuspicionMult 3; waits are retry-until-deadline (10s); a missed deadline is inconclusive, never a mismatch",
			"dead notifications for a node that was up and reachable all the time are SWIM false positives (load) and are listed apart from mismatches",
		},
		Run: func(ctx *vc.Ctx) {
			rep, err := conform.Run(ctx.Tier, vc.Root, os.Stdout)
			if rep != nil {
				for _, s := range rep.Scenarios {
					scn := ctx.Scn(s.Scenario, "cases")
					for i := 0; i < s.Conclusive; i++ {
						scn.Case("conclusive", true)
					}
					for range s.Inconclusive {
						scn.Case("inconclusive", false)
					}
					if len(s.Inconclusive) > 0 {
						scn.Exhaustive = false
						scn.StopReason = "inconclusive run: " + s.Inconclusive[0].Reason
					}
					if len(s.Mismatches) > 0 {
						ctx.Note("%s: %d callbacks outside the contract language (model finding, see conform/REPORT.json)", s.Scenario, len(s.Mismatches))
					}
				}
				for _, v := range rep.Verdicts {
					ctx.Note("clause (%s): %s", v.Clause, v.Verdict)
				}
			}
			if err != nil {
				ctx.Fail("conform: %v", err)
			}
			fmt.Println()
		},
	})
}
