package checks

import (
	"fmt"
	"os"
	"runtime"
	"time"

	"verifharness/vc"
)

func init() {
	vc.Register(&vc.Check{ID: "SMOKE", Level: "exploration", Serial: true, Run: func(ctx *vc.Ctx) {
		m := clusterModel{}
		hist := []string{"join 1 0", "join 2 0", "leave 0", "pushpull 0 1", "tick"}
		full := hist
		for k := 0; k <= len(full); k++ {
			hist = full[:k]
			scn := "N=3;L=3;faults=0"
			t0 := time.Now()
			var st vc.BFSState
			for i := 0; i < 1500; i++ {
				st = m.Exec(scn, hist)
			}
			var ms runtime.MemStats
			runtime.ReadMemStats(&ms)
			fmt.Printf("heap=%dMB objs=%d gc=%d goroutines=%d %s %v: %v per exec (closure=%s); enabled=%d err=%q viol=%d\n", ms.HeapAlloc>>20, ms.HeapObjects, ms.NumGC, runtime.NumGoroutine(), scn, hist, time.Since(t0)/1500, os.Getenv("CL_NOCLOSURE"), len(st.Enabled), st.Err, len(st.Violations))
		}
	}})
}
