package checks

import (
	"fmt"

	"verifharness/vc"
	"verifharness/world"

	"github.com/hashicorp/serf/serf"
	"github.com/hashicorp/serf/zzverif/vsched"
)

func init() {
	vc.Register(&vc.Check{ID: "SMOKE", Level: "exploration", Serial: true, Run: func(ctx *vc.Ctx) {
		x := vsched.Run(vsched.RunOpts{MaxSteps: 100000}, func() {
			n, err := world.NewNode("a", 0)
			if err != nil {
				panic(err)
			}
			meta := serf.VEncodeTags(n.S, map[string]string{"role": "web"})
			k, err := n.KnowPeers([]world.Peer{world.AlivePeer("b", 1, meta), world.AlivePeer("c", 2, meta)}, nil)
			fmt.Println("join", k, err, "mlmembers", n.S.Memberlist().NumMembers())
			vsched.Quiesce()
			fmt.Println("members", n.SortedMembers())
			n.S.UserEvent("deploy", []byte("x"), false)
			n.Delegate().NotifyMsg(serf.VEncode(serf.VMsgLeave, &serf.VMessageLeave{LTime: 5, Node: "b"}))
			vsched.Quiesce()
			for _, e := range n.DrainEvents() {
				fmt.Println("event", world.DescribeEvent(e))
			}
			for _, b := range n.Outbox() {
				fmt.Printf("outbox type=%d len=%d\n", b[0], len(b))
			}
			fmt.Printf("%+v\n", serf.VDump(n.S))
			n.S.Shutdown()
		})
		fmt.Printf("steps=%d points=%d panics=%v blocked=%v rootdone=%v\n", x.Steps, len(x.Points), x.Panics, x.Blocked, x.RootDone)
	}})
}
