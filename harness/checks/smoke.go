package checks

import (
	"fmt"
	"os"
	"strings"

	"verifharness/vc"
)

func init() {
	vc.Register(&vc.Check{ID: "SMOKE", Level: "exploration", Serial: true, Run: func(ctx *vc.Ctx) {
		m := clusterModel{}
		scn := os.Getenv("SMOKE_SCN")
		hist := strings.Split(os.Getenv("SMOKE_HIST"), ",")
		if os.Getenv("SMOKE_HIST") == "" {
			hist = nil
		}
		st := m.Exec(scn, hist)
		fmt.Printf("key: %s\nenabled: %v\nerr=%q\n", st.Key, st.Enabled, st.Err)
		for _, v := range st.Violations {
			fmt.Printf("VIOL %s: %s\n", v.Signature, v.Message)
		}
	}})
}
