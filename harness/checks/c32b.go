package checks

import (
	"bytes"
	"fmt"
	"net"
	"sort"
	"strings"
	"time"

	"verifharness/vc"
	"verifharness/world"

	"github.com/hashicorp/serf/serf"
	"github.com/hashicorp/serf/zzverif/vsched"
)

// C32, relay/concurrent-replies: the application answers query A (Query.Respond) while the
// packet handler acknowledges query B; both replies are relayed (relay factor 1, two
// relay-capable peers) and the two queries come from different origins. Every packet the node
// puts on the wire must be one of the replies, whole: a direct reply goes to the origin of the
// query it answers, and a relay envelope carries exactly the bytes of a direct reply together
// with the origin of that same reply. Scheduling points before every statement of the reply
// path, so that the two encodings and their sends interleave in every way within the bound.
func c32relayConcurrent(ctx *vc.Ctx) {
	bound := 2
	if ctx.Thorough() {
		bound = 3
	}
	origin := func(i int) (string, net.IP) { return fmt.Sprintf("origin%d", i), net.IPv4(10, 9, 0, byte(i)) }
	var sent []world.Packet
	var rerr error
	var setup string
	body := func() {
		vsched.Branching(false)
		vsched.StepsIn("serf.(*Serf).relayResponse", "serf.(*Query).Respond", "serf.(*Query).respondWithMessageAndResponse", "serf.encodeRelayMessage", "serf.(*Serf).handleQuery")
		sent, rerr, setup = nil, nil, ""
		n, err := world.NewNode("a", 0)
		if err != nil {
			panic(err)
		}
		n.Events().NotifyJoin(n.MLNode("b", 1, nil))
		n.Events().NotifyJoin(n.MLNode("c", 2, nil))
		vsched.Quiesce()
		n.DrainEvents()
		mkQuery := func(i int, flags uint32) []byte {
			name, ip := origin(i)
			return serf.VEncode(serf.VMsgQuery, &serf.VMessageQuery{LTime: serf.LamportTime(4 + i), ID: uint32(100 + i), Addr: ip, Port: 7946, SourceNode: name,
				Name: fmt.Sprintf("q%d", i), Flags: flags, RelayFactor: 1, Timeout: 10 * time.Second, Payload: []byte("ask")})
		}
		n.Delegate().NotifyMsg(mkQuery(1, 0))
		vsched.Quiesce()
		var qa *serf.Query
		for _, e := range n.DrainEvents() {
			if q, ok := e.(*serf.Query); ok {
				qa = q
			}
		}
		if qa == nil {
			setup = "query A was not delivered"
			n.S.Shutdown()
			return
		}
		n.Tr.TakeSent()
		n.Outbox()
		vsched.Branching(true)
		t1 := vsched.Spawn("application", func() { rerr = qa.Respond([]byte("answer-to-A-answer-to-A-answer-to-A")) })
		t2 := vsched.Spawn("packet-handler", func() { n.Delegate().NotifyMsg(mkQuery(2, serf.VQueryFlagAck)) })
		t1.Join()
		t2.Join()
		vsched.Branching(false)
		vsched.Quiesce()
		sent = n.Tr.TakeSent()
		n.S.Shutdown()
	}
	check := func(x *vsched.Exec) (string, string, string) {
		if len(x.Panics) > 0 {
			return "panic", "panic " + x.Panics[0].Frame, x.Panics[0].Value + "\n" + x.Panics[0].Stack
		}
		if !x.RootDone {
			return "stuck", "deadlock", fmt.Sprintf("blocked %+v", x.Blocked)
		}
		if setup != "" {
			return "setup", "harness: " + setup, setup
		}
		if rerr != nil {
			return "respond-error", "respond-failed", fmt.Sprintf("Query.Respond returned %v", rerr)
		}
		// which query a reply answers, by its ID
		originOf := map[uint32]string{}
		for i := 1; i <= 2; i++ {
			name, ip := origin(i)
			originOf[uint32(100+i)] = name + "/" + (&net.UDPAddr{IP: ip, Port: 7946}).String()
		}
		direct := map[uint32][]byte{}
		var relays []world.Packet
		for _, p := range sent {
			switch {
			case len(p.User) > 0 && p.User[0] == serf.VMsgQueryResponse:
				var r serf.VMessageQueryResponse
				if err := serf.VDecode(p.User[1:], &r); err != nil {
					return "direct-undecodable", "relay: a direct reply does not decode", fmt.Sprintf("packet to %q: %v (%x)", p.To, err, p.User)
				}
				if originOf[r.ID] != p.To {
					return "direct-misrouted", "relay: a direct reply went to another query's origin", fmt.Sprintf("reply to query id %d was sent to %q, its origin is %q", r.ID, p.To, originOf[r.ID])
				}
				if prev, dup := direct[r.ID]; dup && !bytes.Equal(prev, p.User) {
					return "direct-differs", "relay: two different direct replies to one query", fmt.Sprintf("query id %d: %x and %x", r.ID, prev, p.User)
				}
				direct[r.ID] = p.User
			case len(p.User) > 0 && p.User[0] == serf.VMsgRelay:
				relays = append(relays, p)
			}
		}
		if len(direct) != 2 {
			return "direct-missing", "relay: a direct reply is missing", fmt.Sprintf("direct replies seen for query ids %v, want 101 and 102; packets: %s", c32ids(direct), c32packets(sent))
		}
		var outs []string
		for _, p := range relays {
			var h serf.VRelayHeader
			if err := serf.VDecode(p.User[1:], &h); err != nil {
				return "relay-undecodable", "relay: envelope header does not decode", fmt.Sprintf("envelope to %q: %v (%x)", p.To, err, p.User)
			}
			hl := len(serf.VEncode(0, &h)) - 1
			inner := p.User[1+hl:]
			dest := h.DestName + "/" + h.DestAddr.String()
			match := uint32(0)
			for id, d := range direct {
				if bytes.Equal(inner, d) {
					match = id
				}
			}
			if match == 0 {
				return "relay-altered", "relay: relayed bytes are not the bytes of a reply", fmt.Sprintf("envelope to %q for %q carries %x, the replies are %x and %x", p.To, dest, inner, direct[101], direct[102])
			}
			if originOf[match] != dest {
				return "relay-misrouted", "relay: a relayed reply is addressed to another query's origin", fmt.Sprintf("envelope to %q carries the reply to query id %d (origin %q) but names %q as destination", p.To, match, originOf[match], dest)
			}
			outs = append(outs, fmt.Sprintf("%d via %s", match, strings.SplitN(p.To, "/", 2)[0]))
		}
		sort.Strings(outs)
		return strings.Join(outs, ", "), "", ""
	}
	ctx.Explore(vc.ExploreOpts{Name: "relay/concurrent-replies", Bound: bound, MaxSteps: 50000}, body, check)
}

func c32ids(m map[uint32][]byte) []int {
	var ids []int
	for id := range m {
		ids = append(ids, int(id))
	}
	sort.Ints(ids)
	return ids
}

func c32packets(ps []world.Packet) string {
	var s []string
	for _, p := range ps {
		s = append(s, fmt.Sprintf("to %s type %d (%d bytes)", p.To, p.MsgType, len(p.Raw)))
	}
	return strings.Join(s, "; ")
}

// C32, codec/no-aliasing: the bytes an encoder returned stay what they were when the same
// encoder is called again (a caller may still be holding them: relayResponse sends the same
// envelope to several peers, broadcasts sit in the queue). Every ordered pair of inputs per encoder.
func c32noAliasing(g *c32gen) {
	scn := g.ctx.Scn("codec/no-aliasing", "cases")
	type encoder struct {
		name string
		n    int
		enc  func(i int) []byte
	}
	var node *world.Node
	resp := func(i int) *serf.VMessageQueryResponse {
		return &serf.VMessageQueryResponse{LTime: serf.LamportTime(i + 1), ID: uint32(i), From: strings.Repeat("n", i+1), Payload: bytes.Repeat([]byte{byte('a' + i)}, 3*i)}
	}
	tagSets := []map[string]string{{}, {"role": "a"}, {"role": "bb", "dc": "x"}, {"k": strings.Repeat("v", 40)}}
	encs := []encoder{
		{"message", 5, func(i int) []byte { return c32mustEnc(serf.VMsgQueryResponse, resp(i), false) }},
		{"relay-envelope", 5, func(i int) []byte {
			b, err := serf.VEncodeRelay(serf.VMsgQueryResponse, net.UDPAddr{IP: net.IPv4(10, 0, 0, byte(i)), Port: 7000 + i}, strings.Repeat("d", i+1), resp(i))
			if err != nil {
				panic(err)
			}
			return b
		}},
		{"node-filter", 4, func(i int) []byte { return serf.VEncodeFilter(serf.VFilterNodeType, serf.VFilterNode(strings.Split(strings.Repeat("x,", i+1), ","))) }},
		{"tag-filter", 4, func(i int) []byte { return serf.VEncodeFilter(serf.VFilterTagType, &serf.VFilterTag{Tag: strings.Repeat("t", i+1), Expr: strings.Repeat("e", 2*i)}) }},
		{"tags", len(tagSets), func(i int) []byte { return serf.VEncodeTags(node.S, tagSets[i]) }},
	}
	for _, e := range encs {
		e := e
		if !g.mine() {
			continue
		}
		c32exec(g.ctx, scn.Name, nil, e.name, func() {
			vsched.Branching(false)
			node = c32must(world.NewNode("enc", 0))
			for i := 0; i < e.n; i++ {
				for j := 0; j < e.n; j++ {
					first := e.enc(i)
					keep := append([]byte{}, first...)
					second := e.enc(j)
					out := "stable"
					if !bytes.Equal(first, keep) {
						out = "overwritten"
						g.ctx.Violation(scn.Name, "codec: an encoder's earlier result is overwritten by its next call", fmt.Sprintf("%s encoder: the bytes returned for input #%d were %x; after encoding input #%d the same slice reads %x", e.name, i, keep, j, first), map[string]interface{}{"encoder": e.name, "first": i, "second": j})
					}
					_ = second // (two encodings of one value may differ: msgpack writes a map in Go's iteration order)
					scn.Case(out, true)
				}
			}
			node.S.Shutdown()
		})
	}
}

// C32, codec/received-values-stay: a value the node decoded and handed to the application (a
// query response on ResponseCh, a user event, a query) still reads the same after the NEXT message
// of that kind has been received and decoded: "decodes to an equivalent value" must not hold only
// until the decoder is used again. Every ordered pair of payloads (lengths 0..4 x two fillers).
func c32receivedStay(g *c32gen) {
	scn := g.ctx.Scn("codec/received-values-stay", "cases")
	if !g.mine() {
		return
	}
	var payloads [][]byte
	for _, n := range []int{0, 1, 3, 8, 40} {
		payloads = append(payloads, bytes.Repeat([]byte{'A'}, n), bytes.Repeat([]byte{'b'}, n))
	}
	c32exec(g.ctx, scn.Name, nil, "received-values-stay", func() {
		vsched.Branching(false)
		vsched.SetHorizon(0)
		node := c32must(world.NewNode("rcv", 0))
		vsched.Quiesce()
		node.DrainEvents()
		ctr := 0
		for i, p1 := range payloads {
			for j, p2 := range payloads {
				if i == j {
					continue
				}
				ctr++
				bad := func(kind string, got []byte) {
					g.ctx.Violation(scn.Name, "codec: a received "+kind+" changes after the next one is received", fmt.Sprintf("%s #1 was sent with payload %q and delivered to the application; after %s #2 with payload %q had been received, the payload of #1 held by the application reads %q", kind, p1, kind, p2, got), map[string]interface{}{"kind": kind, "first": string(p1), "second": string(p2)})
				}
				out := "stable"
				// query responses of two nodes to one open query
				qr, err := node.S.Query(fmt.Sprintf("q%d", ctr), nil, &serf.QueryParam{Timeout: 10 * time.Second})
				if err != nil {
					panic("verifharness/ query: " + err.Error())
				}
				lt, id := serf.VQueryInfo(qr)
				vsched.Quiesce()
				node.DrainEvents()
				take := func() *serf.NodeResponse {
					select {
					case r, ok := <-qr.ResponseCh():
						if ok {
							return &r
						}
					default:
					}
					return nil
				}
				node.Delegate().NotifyMsg(c32mustEnc(serf.VMsgQueryResponse, &serf.VMessageQueryResponse{LTime: serf.LamportTime(lt), ID: id, From: "b", Payload: append([]byte{}, p1...)}, false))
				vsched.Quiesce()
				r1 := take()
				node.Delegate().NotifyMsg(c32mustEnc(serf.VMsgQueryResponse, &serf.VMessageQueryResponse{LTime: serf.LamportTime(lt), ID: id, From: "c", Payload: append([]byte{}, p2...)}, false))
				vsched.Quiesce()
				r2 := take()
				if r1 == nil || r2 == nil {
					panic("verifharness/ a query response was not delivered")
				}
				if !bytes.Equal(r1.Payload, p1) {
					bad("query response", r1.Payload)
					out = "changed"
				}
				if !bytes.Equal(r2.Payload, p2) {
					g.ctx.Violation(scn.Name, "codec: a received query response differs from what was sent", fmt.Sprintf("sent %q, delivered %q", p2, r2.Payload), nil)
					out = "changed"
				}
				qr.Close()
				// user events and queries received from the network
				var held []serf.Event
				for k, p := range [][]byte{p1, p2} {
					node.Delegate().NotifyMsg(c32mustEnc(serf.VMsgUserEvent, &serf.VMessageUserEvent{LTime: serf.LamportTime(1000 + 2*ctr + k), Name: "u", Payload: append([]byte{}, p...)}, false))
					node.Delegate().NotifyMsg(c32mustEnc(serf.VMsgQuery, &serf.VMessageQuery{LTime: serf.LamportTime(100000 + 2*ctr + k), ID: uint32(2*ctr + k), Addr: world.NodeIP(7), Port: 7946, SourceNode: "o", Flags: uint32(serf.VQueryFlagNoBroadcast), Timeout: time.Second, Name: "x", Payload: append([]byte{}, p...)}, false))
					vsched.Quiesce()
					held = append(held, node.DrainEvents()...)
				}
				nu, nq := 0, 0
				for _, ev := range held {
					switch e := ev.(type) {
					case serf.UserEvent:
						want := [][]byte{p1, p2}[nu%2]
						nu++
						if !bytes.Equal(e.Payload, want) {
							bad("user event", e.Payload)
							out = "changed"
						}
					case *serf.Query:
						want := [][]byte{p1, p2}[nq%2]
						nq++
						if !bytes.Equal(e.Payload, want) {
							bad("query", e.Payload)
							out = "changed"
						}
					}
				}
				if nu != 2 || nq != 2 {
					panic(fmt.Sprintf("verifharness/ %d user events and %d queries were delivered, want 2 and 2", nu, nq))
				}
				scn.Case(out, true)
			}
		}
		node.S.Shutdown()
	})
}
