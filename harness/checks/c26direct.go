package checks

import "github.com/hashicorp/serf/cmd/serf/command/agent"

func init() { c26direct = agent.VFilterMembers }
