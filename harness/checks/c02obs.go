package checks

import (
	"fmt"
	"sort"
	"strconv"
	"strings"

	"verifharness/vc"
	"verifharness/world"

	"github.com/hashicorp/serf/serf"
	"github.com/hashicorp/serf/zzverif/vsched"
)

// C02, one observer: every history (up to a depth, states merged by the observer's
// complete membership state) of what ONE real node can be told about one other member x:
// memberlist reports x up / down, join and leave intents about x with older and newer
// Lamport times arrive (also before the node knows x, so that they are buffered), and
// state syncs list x as alive or left. After every single step the second sentence of the
// property is checked on the node's private state: the recorded status time of x never
// decreases, and an intent that is not newer than the recorded time changes nothing.
//
// scenario "observer;T=<k>": intent times are drawn from {4+1, 4+3, ... } (k values per kind).

func obsEnabled(k int, mlUp bool) []string {
	var acts []string
	if mlUp {
		acts = append(acts, "down")
	} else {
		acts = append(acts, "up")
	}
	for i := 0; i < k; i++ {
		acts = append(acts, fmt.Sprintf("join@%d", 5+3*i), fmt.Sprintf("leave@%d", 6+3*i))
	}
	for i := 0; i < k; i++ {
		acts = append(acts, fmt.Sprintf("sync-alive@%d", 5+3*i), fmt.Sprintf("sync-left@%d", 7+3*i))
	}
	// ties: a leave with the Lamport time of the first join, a join with that of the first leave
	acts = append(acts, "leave@5", "join@6")
	return acts
}

func obsExec(scenario string, hist []string) vc.BFSState {
	var st vc.BFSState
	k := 2
	for _, f := range strings.Split(scenario, ";") {
		if strings.HasPrefix(f, "T=") {
			k, _ = strconv.Atoi(f[2:])
		}
	}
	x := vsched.Run(vsched.RunOpts{MaxSteps: 1000000}, func() {
		vsched.SetHorizon(0)
		n, err := world.NewNode("a", 0)
		if err != nil {
			st.Err = err.Error()
			return
		}
		vsched.Quiesce()
		mlUp := false
		look := func() (status string, lt uint64, known bool) {
			for _, m := range serf.VDump(n.S).Members {
				if m.Name == "x" {
					return m.Status, m.StatusLTime, true
				}
			}
			return "", 0, false
		}
		viol := func(sig, msg string) {
			for _, v := range st.Violations {
				if v.Signature == sig {
					return
				}
			}
			st.Violations = append(st.Violations, vc.BFSViolation{Signature: sig, Class: "step", Message: msg})
		}
		firstKind := map[uint64]string{} // per Lamport time: kind of the first intent about x received while x was unknown
		heard := uint64(0)               // newest gossiped intent about x received while the node did not know x yet
		for i, a := range hist {
			s0, l0, k0 := look()
			op, t := a, uint64(0)
			if j := strings.IndexByte(a, '@'); j >= 0 {
				op = a[:j]
				v, _ := strconv.Atoi(a[j+1:])
				t = uint64(v)
			}
			switch op {
			case "up":
				if mlUp {
					st.Err = "up while up"
					return
				}
				mlUp = true
				n.Events().NotifyJoin(n.MLNode("x", 1, nil))
			case "down":
				if !mlUp {
					st.Err = "down while down"
					return
				}
				mlUp = false
				n.Events().NotifyLeave(n.MLNode("x", 1, nil))
			case "join":
				n.Delegate().NotifyMsg(serf.VEncode(serf.VMsgJoin, &serf.VMessageJoin{LTime: serf.LamportTime(t), Node: "x"}))
			case "leave":
				n.Delegate().NotifyMsg(serf.VEncode(serf.VMsgLeave, &serf.VMessageLeave{LTime: serf.LamportTime(t), Node: "x"}))
			case "sync-alive", "sync-left":
				pp := serf.VMessagePushPull{LTime: 1, EventLTime: 1, QueryLTime: 1, StatusLTimes: map[string]serf.LamportTime{"x": serf.LamportTime(t)}, LeftMembers: []string{}}
				if op == "sync-left" {
					pp.LeftMembers = []string{"x"}
				}
				n.Delegate().MergeRemoteState(serf.VEncode(serf.VMsgPushPull, &pp), false)
			default:
				st.Err = "unknown action " + a
				return
			}
			vsched.Quiesce()
			s1, l1, k1 := look()
			if !k0 && !k1 && (op == "join" || op == "leave") && t > heard {
				heard = t
			}
			if !k0 && !k1 && t != 0 {
				// every source of a buffered intent, first come first kept on equal times
				kind := "join"
				if op == "leave" || op == "sync-left" {
					kind = "leave"
				}
				te := t
				if op == "sync-left" {
					te = t + 1 // MergeRemoteState turns a left-list entry into a leave intent at status time + 1
				}
				if _, was := firstKind[te]; !was {
					firstKind[te] = kind
				}
			}
			if fk, was := firstKind[l1]; !k0 && k1 && was && ((fk == "join") != (s1 == "alive")) {
				viol("tie-between-buffered-intents-resolved-for-the-later-one", fmt.Sprintf("history %v: step %d (%s) created the record of x as %s with status time %d, but the first intent with that time received while x was unknown was a %s: an intent that is not newer replaced the buffered one", hist[:i+1], i, a, s1, l1, fk))
			}
			if !k0 && k1 && l1 < heard {
				// nothing expires here (no time passes): the newest buffered intent decides the new record
				viol("record-created-older-than-buffered-intent", fmt.Sprintf("history %v: step %d (%s) created the record of x as %s with status time %d although an intent with time %d about x had been received (and buffered) before: an older intent overrode a newer one", hist[:i+1], i, a, s1, l1, heard))
			}
			if k0 && !k1 {
				viol("member-record-vanished", fmt.Sprintf("history %v: step %d (%s) removed the record of x although nothing was reaped or pruned", hist[:i+1], i, a))
			}
			if k0 && k1 && l1 < l0 {
				viol("status-time-decreased", fmt.Sprintf("history %v: step %d (%s) moved the recorded status time of x backwards, %d -> %d (status %s -> %s)", hist[:i+1], i, a, l0, l1, s0, s1))
			}
			if k0 && k1 && t != 0 && t <= l0 && s1 != s0 {
				viol("stale-intent-changed-status", fmt.Sprintf("history %v: step %d (%s) carries time %d, not newer than the recorded status time %d of x, but changed its status %s -> %s", hist[:i+1], i, a, t, l0, s0, s1))
			}
			if k0 && k1 && t == 0 && s1 != s0 {
				// memberlist up/down: the only legal moves
				ok := (op == "up" && s1 == "alive") || (op == "up" && s0 == "leaving" && s1 == "leaving") ||
					(op == "down" && s0 == "alive" && s1 == "failed") || (op == "down" && s0 == "leaving" && s1 == "left")
				if !ok {
					viol("illegal-status-move", fmt.Sprintf("history %v: memberlist %s moved x from %s to %s", hist[:i+1], op, s0, s1))
				}
			}
		}
		d := serf.VDump(n.S)
		var parts []string
		for _, m := range d.Members {
			if m.Name == "x" {
				parts = append(parts, fmt.Sprintf("x=%s@%d", m.Status, m.StatusLTime))
			}
		}
		var in []string
		for _, it := range d.Intents {
			in = append(in, fmt.Sprintf("%s/%d@%d", it.Node, it.Type, it.LTime))
		}
		sort.Strings(in)
		f := append([]string{}, d.Failed...)
		l := append([]string{}, d.Left...)
		sort.Strings(f)
		sort.Strings(l)
		st.Key = fmt.Sprintf("ml=%v %s intents=%v failed=%v left=%v clock=%d", mlUp, strings.Join(parts, " "), in, f, l, d.Clock)
		if _, _, known := look(); !known {
			// the oracle's own memory is part of the state while it is still needed: two histories
			// that leave the node in the same state but differ in what was heard first have
			// different obligations
			maxT := uint64(0)
			for t := range firstKind {
				if t > maxT {
					maxT = t
				}
			}
			st.Key += fmt.Sprintf(" heard=%d first=%d/%s", heard, maxT, firstKind[maxT])
		}
		st.Note = st.Key
		st.Enabled = obsEnabled(k, mlUp)
		n.S.Shutdown()
	})
	if len(x.Panics) > 0 {
		st.Violations = append(st.Violations, vc.BFSViolation{Signature: "panic " + x.Panics[0].Frame, Class: "panic", Message: x.Panics[0].Value + "\n" + x.Panics[0].Stack})
		if st.Key == "" {
			st.Key = "panic:" + strings.Join(hist, ",")
			st.Terminal = true
		}
	}
	if x.CapHit && st.Err == "" {
		st.Err = "step cap hit"
	}
	if st.Key == "" && st.Err == "" {
		st.Err = fmt.Sprintf("execution ended early: blocked %+v", x.Blocked)
	}
	return st
}
