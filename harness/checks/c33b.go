package checks

import (
	"fmt"
	"strings"

	"verifharness/world"

	"github.com/hashicorp/memberlist"
	"github.com/hashicorp/serf/serf"
	"github.com/hashicorp/serf/zzverif/vsched"
)

// C33, response/internal: the responses serf itself generates are query responses too. The
// key-listing reply is the one whose size depends on the node's state and which is cut to fit:
// for a keyring too large for one reply, every QueryResponseSizeLimit of a window longer than one
// encoded key (so that every residue of "space left modulo key size" occurs) -- whatever the
// node sends for the query must be within the limit.
func c33internalResponses(g *c32gen) {
	scn := g.ctx.Scn("response/internal-list-keys", "cases")
	counts := []int{20, 41}
	window := 50
	if g.thorough {
		counts = []int{3, 20, 41, 60}
		window = 120
	}
	for _, n := range counts {
		for _, prof := range c23profiles {
			for _, nameLen := range []int{1, 64} {
				for limit := 600; limit < 600+window; limit++ {
					if !g.mine() {
						continue
					}
					name := strings.Repeat("n", nameLen)
					ring := c23ring(n, prof.lens)
					what := fmt.Sprintf("QueryResponseSizeLimit=%d, %d keys (%s), node name of %d bytes: list-keys query", limit, n, prof.name, nameLen)
					c32exec(g.ctx, scn.Name, nil, what, func() {
						vsched.Branching(false)
						kr, err := memberlist.NewKeyring(ring, ring[0])
						if err != nil {
							panic(err)
						}
						nd := c32must(world.NewNode(name, 0, c22keyringOpt(kr, ""), func(c *serf.Config) { c.QueryResponseSizeLimit = limit }))
						vsched.Quiesce()
						nd.Tr.TakeSent()
						nd.Delegate().NotifyMsg(serf.VEncode(serf.VMsgQuery, &serf.VMessageQuery{
							LTime: 7, ID: 123456, Addr: world.NodeIP(1), Port: 7946, SourceNode: "b",
							Timeout: 1e9, Name: serf.VInternalQueryName("list-keys"), Payload: serf.VEncode(serf.VMsgKeyRequest, &serf.VKeyRequest{}),
						}))
						vsched.Quiesce()
						out := "nothing sent"
						for _, p := range nd.Tr.TakeSent() {
							if len(p.User) < 1 || p.User[0] != serf.VMsgQueryResponse {
								continue
							}
							out = "within limit"
							if len(p.User) > limit {
								out = "over limit"
								g.ctx.Violation(scn.Name, "response: internal key-listing response larger than the response size limit was sent", fmt.Sprintf("%s: a %d byte response went to %s", what, len(p.User), p.To), map[string]interface{}{"limit": limit, "keys": n, "key_lengths": prof.name, "name_len": nameLen})
							}
						}
						scn.Case(out, true)
						nd.S.Shutdown()
					})
				}
			}
		}
	}
	g.sample(scn, "limit 600..649 x 20/41 keys x {16B,32B,mixed} x name {1,64}: the truncated list-keys reply is never larger than the limit")
}
