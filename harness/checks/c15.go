package checks

import (
	"fmt"
	"sort"
	"strings"
	"time"

	"verifharness/vc"
	"verifharness/world"

	"github.com/hashicorp/serf/serf"
	"github.com/hashicorp/serf/zzverif/vsched"
)

// C15: Member bookkeeping stays consistent and reaping is exact.

const (
	c15R   = int64(10 * time.Millisecond) // reap interval
	c15F   = int64(40 * time.Millisecond) // reconnect timeout (failed members)
	c15L   = int64(60 * time.Millisecond) // tombstone timeout (left members)
	c15BT  = int64(1 * time.Millisecond)  // broadcast timeout
	c15LPD = int64(3 * time.Millisecond)  // leave propagate delay
	c15S   = c15BT + c15LPD               // handlePrune's sleep for a leaving member
)

// c15override is the per-member timeout override: 0 same, 1 half, 2 double.
type c15override struct {
	factor map[string]int
	calls  *[]int64 // virtual times at which the reaper consulted the override
}

func (o c15override) ReconnectTimeout(m *serf.Member, t time.Duration) time.Duration {
	*o.calls = append(*o.calls, vsched.Elapsed())
	return time.Duration(c15adjust(o.factor[m.Name], int64(t)))
}

func c15adjust(f int, t int64) int64 {
	switch f {
	case 1:
		return t / 2
	case 2:
		return 2 * t
	}
	return t
}

type c15act struct {
	kind  string // join | fail | update | leave | joinint | forceleave | adv
	node  string
	lt    uint64
	prune bool
	d     int64
}

func (a c15act) String() string {
	switch a.kind {
	case "adv":
		return fmt.Sprintf("advance(%s)", c15dur(a.d))
	case "leave":
		return fmt.Sprintf("leave-intent(%s,lt=%d,prune=%v)", a.node, a.lt, a.prune)
	case "joinint":
		return fmt.Sprintf("join-intent(%s,lt=%d)", a.node, a.lt)
	case "forceleave":
		return fmt.Sprintf("force-leave(%s,prune=%v)", a.node, a.prune)
	}
	return a.kind + "(" + a.node + ")"
}

func c15dur(d int64) string {
	if d%c15R == 0 {
		return fmt.Sprintf("%dR", d/c15R)
	}
	if (d+1)%c15R == 0 {
		return fmt.Sprintf("%dR-1ns", (d+1)/c15R)
	}
	return time.Duration(d).String()
}

type c15family struct {
	name     string
	override map[string]int // nil: no override configured
	start    string         // alive | down | mixed | empty
	alpha    string         // membership-small | membership | membership-large | timing | timing-large
	depth    int
}

func c15alphabet(f c15family) []c15act {
	var acts []c15act
	adv := func(ds ...int64) {
		for _, d := range ds {
			acts = append(acts, c15act{kind: "adv", d: d})
		}
	}
	switch f.alpha {
	case "timing", "timing-large":
		for _, m := range []string{"b", "c"} {
			acts = append(acts,
				c15act{kind: "fail", node: m},
				c15act{kind: "leave", node: m, lt: 2},
				c15act{kind: "forceleave", node: m},
			)
		}
		acts = append(acts, c15act{kind: "join", node: "b"})
		if f.alpha == "timing-large" {
			adv(1, c15R-1, c15R, 2*c15R, 4*c15R)
		} else {
			adv(c15R-1, c15R, 4*c15R)
		}
	default:
		small, large := f.alpha == "membership-small", f.alpha == "membership-large"
		for _, m := range []string{"b", "c"} {
			acts = append(acts,
				c15act{kind: "fail", node: m},
				c15act{kind: "leave", node: m, lt: 2},
				c15act{kind: "forceleave", node: m, prune: true},
			)
			if m == "b" || !small {
				acts = append(acts, c15act{kind: "join", node: m})
			}
			if m == "b" || large {
				acts = append(acts,
					c15act{kind: "leave", node: m, lt: 6, prune: true},
					c15act{kind: "joinint", node: m, lt: 4},
					c15act{kind: "forceleave", node: m},
				)
			}
		}
		if large {
			acts = append(acts,
				c15act{kind: "update", node: "b"},
				c15act{kind: "leave", node: "b", lt: 2, prune: true},
				c15act{kind: "leave", node: "c", lt: 6},
			)
		}
		if small {
			adv(c15R, 3*c15R, 13*c15R)
		} else {
			adv(c15R-1, c15R, 3*c15R, 13*c15R)
		}
	}
	return acts
}

func init() {
	vc.Register(&vc.Check{
		ID:    "C15",
		Level: "model_checking",
		Rule: "histories: every sequence (membership alphabets of 13-21 symbols: length 3-4 quick, 4-5 thorough; timing alphabets of 10-12 symbols: length 4 quick, 4-5 thorough) of memberlist notifications (join, leave=failure, update), leave intents (Lamport time low/high, prune on/off), join intents, local force-leave with and without prune, and advances of virtual time {1ns, R-1ns, R, 2R, 3R, 4R, 13R} (R = reap interval 10ms; reconnect timeout 4R, tombstone timeout 6R) for members b and c of one real Serf node a, from the start states {b,c alive}, {b failed, c left} and (thorough) {b left, c failed}, {nobody}, under the override configurations {none, b same/c half, b double/c half}; " +
			"every advance is executed reaper pass by reaper pass; after every step and every pass: Stats failed/left == number of listed members with that status, names unique, private failed/left lists == listed statuses, exactly the failed/left members whose age exceeds their effective timeout at that pass are gone with exactly one member-reap event each and nobody else is gone, an effectively pruned member is absent from the member list and from both lists; a state is the canonical private state (statuses, status times, ages, intents, reaper phase) after a history; non-trivial = a history in which at least one member left the failed or left list (reaped, pruned, rejoined or converted failed->left)",
		Assumptions: []string{
			"one node over an inert real memberlist; notifications and intents are delivered serially by the harness thread (memberlist's single packet handler)",
			"the reaper is the periodic pass of Serf.handleReap: a pass is due every reap interval after the previous one finished; it is delayed while a prune of a leaving member sleeps holding the member lock (the model follows that; the schedule is cross-checked through the override callback)",
			"age of a failed member = time since memberlist reported it gone; for a left member that was failed before (force-leave of a failed node) the statement does not say whether the tombstone age runs from the failure or from the force-leave: passes at which the two readings differ are left open",
			"effective prune = a leave intent with the prune flag for a listed member other than the node itself whose Lamport time is newer than the member's status time (local force-leave -prune always is); prune flags on stale intents or for unknown members demand nothing",
			"inside a non-advance step that takes virtual time (force-leave waits for its broadcast, prune sleeps) reaping of the step's own target member is left open; other members are checked exactly",
			"the periodic reconnect and queue checks (30 s) never fire within a history (< 1 s of virtual time)",
		},
		Run: c15run,
	})
}

func c15run(ctx *vc.Ctx) {
	c15concurrent(ctx)
	half := map[string]int{"b": 0, "c": 1}
	dbl := map[string]int{"b": 2, "c": 1}
	var fams []c15family
	if !ctx.Thorough() {
		fams = []c15family{
			{name: "membership/override=none/start=alive", start: "alive", alpha: "membership-small", depth: 4},
			{name: "membership/override=b-same,c-half/start=down", override: half, start: "down", alpha: "membership-small", depth: 4},
			{name: "membership/override=b-double,c-half/start=alive", override: dbl, start: "alive", alpha: "membership", depth: 3},
			{name: "timing/override=none/start=alive", start: "alive", alpha: "timing-large", depth: 4},
			{name: "timing/override=b-double,c-half/start=down", override: dbl, start: "down", alpha: "timing-large", depth: 4},
		}
	} else {
		fams = []c15family{
			{name: "membership/override=none/start=alive", start: "alive", alpha: "membership-large", depth: 4},
			{name: "membership/override=b-same,c-half/start=down", override: half, start: "down", alpha: "membership-large", depth: 4},
			{name: "membership/override=b-double,c-half/start=alive", override: dbl, start: "alive", alpha: "membership", depth: 4},
			{name: "membership/override=none/start=mixed", start: "mixed", alpha: "membership", depth: 4},
			{name: "membership/override=b-double,c-half/start=empty", override: dbl, start: "empty", alpha: "membership", depth: 4},
			{name: "timing/override=none/start=alive", start: "alive", alpha: "timing", depth: 5},
			{name: "timing/override=b-double,c-half/start=down", override: dbl, start: "down", alpha: "timing", depth: 5},
			{name: "timing/override=b-same,c-half/start=mixed", override: half, start: "mixed", alpha: "timing-large", depth: 4},
			{name: "membership-deep/override=b-double,c-half/start=alive", override: dbl, start: "alive", alpha: "membership-small", depth: 5},
		}
	}
	idx := 0
	for _, f := range fams {
		depth := f.depth
		scn := ctx.Scn(f.name, "states")
		acts := c15alphabet(f)
		seq := make([]int, depth)
		for {
			idx++
			if ctx.Mine(idx) {
				c15one(ctx, scn, f, acts, seq)
			}
			k := depth - 1
			for k >= 0 {
				seq[k]++
				if seq[k] < len(acts) {
					break
				}
				seq[k] = 0
				k--
			}
			if k < 0 {
				break
			}
		}
	}
}

type c15mem struct {
	status    string
	since     int64 // virtual time at which memberlist reported the member gone
	leftSince int64 // virtual time at which the member became left
}

type c15obs struct {
	status map[string]string
	dup    string
	failed []string // names listed as failed / left (sorted)
	left   []string
	stF    string // Stats()["failed"], ["left"]
	stL    string
	dump   *serf.VState
	reaps  map[string]int
}

func c15observe(n *world.Node) *c15obs {
	o := &c15obs{status: map[string]string{}, reaps: map[string]int{}}
	for _, m := range n.S.Members() {
		if _, ok := o.status[m.Name]; ok {
			o.dup = m.Name
		}
		o.status[m.Name] = m.Status.String()
		switch m.Status {
		case serf.StatusFailed:
			o.failed = append(o.failed, m.Name)
		case serf.StatusLeft:
			o.left = append(o.left, m.Name)
		}
	}
	sort.Strings(o.failed)
	sort.Strings(o.left)
	st := n.S.Stats()
	o.stF, o.stL = st["failed"], st["left"]
	o.dump = serf.VDump(n.S)
	for _, e := range n.DrainEvents() {
		if me, ok := e.(serf.MemberEvent); ok && me.Type == serf.EventMemberReap {
			for _, m := range me.Members {
				o.reaps[m.Name]++
			}
		}
	}
	return o
}

type c15run1 struct {
	f        c15family
	n        *world.Node
	model    map[string]*c15mem
	nextReap int64
	passes   map[int64]bool // every modelled pass time
	hist     []string
	viol     string
	sig      string
	removed  bool // some member left the failed/left list
}

func (r *c15run1) fail(sig, format string, a ...interface{}) {
	if r.viol == "" {
		r.sig = sig
		r.viol = fmt.Sprintf("%s, history %v: ", r.f.name, r.hist) + fmt.Sprintf(format, a...)
	}
}

func (r *c15run1) eff(base int64, name string) int64 {
	if r.f.override == nil {
		return base
	}
	return c15adjust(r.f.override[name], base)
}

func (r *c15run1) ovr(name string) string {
	if r.f.override == nil {
		return "no override"
	}
	return [...]string{"override same", "override half", "override double"}[r.f.override[name]]
}

// invariants: the counting part of the statement, at one observation point.
func (r *c15run1) invariants(o *c15obs, where string) {
	if o.dup != "" {
		r.fail("duplicate-member-name", "member %q is listed twice", o.dup)
	}
	if o.stF != fmt.Sprint(len(o.failed)) {
		r.fail("count-mismatch failed after "+where, "Stats reports failed=%s but the member list has %d failed members %v (list %v)", o.stF, len(o.failed), o.failed, c15list(o.status))
	}
	if o.stL != fmt.Sprint(len(o.left)) {
		r.fail("count-mismatch left after "+where, "Stats reports left=%s but the member list has %d left members %v (list %v)", o.stL, len(o.left), o.left, c15list(o.status))
	}
	if strings.Join(o.dump.Failed, ",") != strings.Join(o.failed, ",") {
		r.fail("internal-list-mismatch failed after "+where, "private failed list %v but members listed as failed are %v", o.dump.Failed, o.failed)
	}
	if strings.Join(o.dump.Left, ",") != strings.Join(o.left, ",") {
		r.fail("internal-list-mismatch left after "+where, "private left list %v but members listed as left are %v", o.dump.Left, o.left)
	}
}

func c15list(st map[string]string) []string {
	var out []string
	for k, v := range st {
		out = append(out, k+":"+v)
	}
	sort.Strings(out)
	return out
}

// verdict of the reference model for member m over the given reaper passes.
func (r *c15run1) expired(name string, m *c15mem, passes []int64) (must, may bool) {
	for _, p := range passes {
		switch m.status {
		case "failed":
			if p-m.since > r.eff(c15F, name) {
				return true, true
			}
		case "left":
			a := p-m.since > r.eff(c15L, name)
			b := p-m.leftSince > r.eff(c15L, name)
			if a && b {
				return true, true
			}
			if a || b {
				may = true
			}
		}
	}
	return false, may
}

// reapCheck compares what disappeared over the given passes with the model.
// target (may be "") is the member the step itself acted on: left open.
func (r *c15run1) reapCheck(o *c15obs, passes []int64, target string, where string) {
	names := make([]string, 0, len(r.model))
	for name := range r.model {
		names = append(names, name)
	}
	sort.Strings(names)
	for _, name := range names {
		m := r.model[name]
		_, present := o.status[name]
		if name == target {
			continue
		}
		must, may := r.expired(name, m, passes)
		age := ""
		if len(passes) > 0 && (m.status == "failed" || m.status == "left") {
			p := passes[len(passes)-1]
			age = fmt.Sprintf(" (reaper pass at t=%v, member %s since t=%v", time.Duration(p), m.status, time.Duration(m.since))
			if m.leftSince != m.since && m.status == "left" {
				age += fmt.Sprintf(", left since t=%v", time.Duration(m.leftSince))
			}
			base := c15F
			if m.status == "left" {
				base = c15L
			}
			age += fmt.Sprintf(", effective timeout %v, %s)", time.Duration(r.eff(base, name)), r.ovr(name))
		}
		switch {
		case must && present:
			r.fail("not-reaped-past-timeout "+m.status+" ["+r.ovr(name)+"]", "%s: %s member %q is past its timeout but is still listed as %s%s", where, m.status, name, o.status[name], age)
		case !may && !present && (m.status == "failed" || m.status == "left"):
			if len(passes) == 0 {
				r.fail("member-vanished "+m.status, "%s: %s member %q disappeared from the member list although no reaper pass ran and it was not pruned", where, m.status, name)
			} else {
				r.fail("reaped-before-timeout "+m.status+" ["+r.ovr(name)+"]", "%s: %s member %q was removed although its timeout has not passed%s", where, m.status, name, age)
			}
		case !present && m.status != "failed" && m.status != "left":
			r.fail("removed-while-"+m.status, "%s: member %q (status %s) disappeared from the member list; only failed/left members past their timeout may be reaped", where, name, m.status)
		}
		want := 0
		if !present {
			want = 1
		}
		if o.reaps[name] != want {
			r.fail(fmt.Sprintf("reap-event-count %d-for-%d", c15min(o.reaps[name], 2), want), "%s: %d member-reap events for %q, which %s", where, o.reaps[name], name, map[bool]string{true: "is still listed", false: "was removed from the list"}[present])
		}
	}
	for name, c := range o.reaps {
		if _, known := r.model[name]; !known && c > 0 {
			r.fail("reap-event-for-unlisted-member", "%s: member-reap event for %q, which was not listed", where, name)
		}
	}
}

func c15min(a, b int) int {
	if a < b {
		return a
	}
	return b
}

// adopt takes over the observed statuses; transitions into failed/left happened at time t.
func (r *c15run1) adopt(o *c15obs, t int64) {
	next := map[string]*c15mem{}
	for name, st := range o.status {
		p := r.model[name]
		m := &c15mem{status: st}
		switch st {
		case "failed":
			if p != nil && p.status == "failed" {
				m.since = p.since
			} else {
				m.since = t
			}
			m.leftSince = m.since
		case "left":
			switch {
			case p != nil && p.status == "left":
				m.since, m.leftSince = p.since, p.leftSince
			case p != nil && p.status == "failed":
				m.since, m.leftSince = p.since, t
			default:
				m.since, m.leftSince = t, t
			}
		}
		next[name] = m
	}
	for name, p := range r.model {
		if p.status == "failed" || p.status == "left" {
			if q := next[name]; q == nil || q.status != p.status {
				r.removed = true
			}
		}
	}
	r.model = next
}

func (r *c15run1) statusLTime(o *c15obs, name string) (uint64, bool) {
	for _, m := range o.dump.Members {
		if m.Name == name {
			return m.StatusLTime, true
		}
	}
	return 0, false
}

func c15one(ctx *vc.Ctx, scn *vc.Scenario, f c15family, acts []c15act, seq []int) {
	r := &c15run1{f: f, passes: map[int64]bool{}}
	var calls []int64
	var final string
	var harnessErr string
	x := vsched.Run(vsched.RunOpts{MaxSteps: 2000000}, func() {
		n, err := world.NewNode("a", 0, func(c *serf.Config) {
			c.ReapInterval = time.Duration(c15R)
			c.ReconnectTimeout = time.Duration(c15F)
			c.TombstoneTimeout = time.Duration(c15L)
			c.RecentIntentTimeout = 25 * time.Millisecond
			c.BroadcastTimeout = time.Duration(c15BT)
			c.LeavePropagateDelay = time.Duration(c15LPD)
			if f.override != nil {
				c.ReconnectTimeoutOverride = c15override{factor: f.override, calls: &calls}
			}
		})
		if err != nil {
			panic(err)
		}
		defer n.S.Shutdown()
		r.n = n
		r.nextReap = c15R
		nodes := map[string]int{"b": 1, "c": 2}
		switch f.start {
		case "alive":
			n.Events().NotifyJoin(n.MLNode("b", 1, nil))
			n.Events().NotifyJoin(n.MLNode("c", 2, nil))
		case "down":
			n.Events().NotifyJoin(n.MLNode("b", 1, nil))
			n.Events().NotifyJoin(n.MLNode("c", 2, nil))
			n.Events().NotifyLeave(n.MLNode("b", 1, nil))
			n.Delegate().NotifyMsg(serf.VEncode(serf.VMsgLeave, &serf.VMessageLeave{LTime: 1, Node: "c"}))
			n.Events().NotifyLeave(n.MLNode("c", 2, nil))
		case "mixed": // b left after a graceful leave, c failed
			n.Events().NotifyJoin(n.MLNode("b", 1, nil))
			n.Events().NotifyJoin(n.MLNode("c", 2, nil))
			n.Delegate().NotifyMsg(serf.VEncode(serf.VMsgLeave, &serf.VMessageLeave{LTime: 1, Node: "b"}))
			n.Events().NotifyLeave(n.MLNode("b", 1, nil))
			n.Events().NotifyLeave(n.MLNode("c", 2, nil))
		}
		vsched.Quiesce()
		o := c15observe(n)
		r.model = map[string]*c15mem{}
		r.adopt(o, 0)
		r.removed = false
		r.invariants(o, "set-up")
		if r.viol != "" {
			return
		}
		for _, ai := range seq {
			a := acts[ai]
			r.hist = append(r.hist, a.String())
			t0 := vsched.Elapsed()
			if a.kind == "adv" {
				target := t0 + a.d
				for r.nextReap <= target && r.viol == "" {
					p := r.nextReap
					vsched.Advance(p - vsched.Elapsed())
					vsched.Quiesce()
					r.nextReap = p + c15R
					r.passes[p] = true
					o = c15observe(n)
					where := fmt.Sprintf("reaper pass at t=%v", time.Duration(p))
					r.reapCheck(o, []int64{p}, "", where)
					r.invariants(o, "reaper pass")
					r.adopt(o, p)
				}
				if r.viol != "" {
					return
				}
				vsched.Advance(target - vsched.Elapsed())
				vsched.Quiesce()
				o = c15observe(n)
				r.reapCheck(o, nil, "", "end of advance")
				r.invariants(o, "advance")
				r.adopt(o, target)
			} else {
				pre := o
				stPre, known := pre.status[a.node]
				// does this step prune effectively, and does the prune sleep under the member lock?
				pruneFlag, effective := false, false
				switch a.kind {
				case "leave":
					pruneFlag = a.prune
					if lt, ok := r.statusLTime(pre, a.node); ok && known && a.prune && a.lt > lt {
						effective = true
					}
				case "forceleave":
					pruneFlag = a.prune
					effective = a.prune && known
				}
				lockUntil := t0
				if effective && (stPre == "alive" || stPre == "leaving") {
					lockUntil = t0 + c15S
				}
				vsched.SetHorizon(t0 + c15S + c15BT + c15R)
				ml := n.MLNode(a.node, nodes[a.node], nil)
				switch a.kind {
				case "join":
					n.Events().NotifyJoin(ml)
				case "fail":
					n.Events().NotifyLeave(ml)
				case "update":
					n.Events().NotifyUpdate(n.MLNode(a.node, nodes[a.node], map[string]string{"v": "2"}))
				case "leave":
					n.Delegate().NotifyMsg(serf.VEncode(serf.VMsgLeave, &serf.VMessageLeave{LTime: serf.LamportTime(a.lt), Node: a.node, Prune: a.prune}))
				case "joinint":
					n.Delegate().NotifyMsg(serf.VEncode(serf.VMsgJoin, &serf.VMessageJoin{LTime: serf.LamportTime(a.lt), Node: a.node}))
				case "forceleave":
					if a.prune {
						n.S.RemoveFailedNodePrune(a.node)
					} else {
						n.S.RemoveFailedNode(a.node)
					}
				}
				t1 := vsched.Elapsed()
				vsched.SetHorizon(t1)
				vsched.Quiesce()
				if t1 < lockUntil {
					harnessErr = fmt.Sprintf("history %v: step was expected to sleep until %v but returned at %v", r.hist, time.Duration(lockUntil), time.Duration(t1))
					return
				}
				var passes []int64
				for r.nextReap <= t1 {
					p := r.nextReap
					if p <= lockUntil {
						p = lockUntil
					}
					passes = append(passes, p)
					r.passes[p] = true
					r.nextReap = p + c15R
				}
				o = c15observe(n)
				where := "step " + a.String()
				target := ""
				if len(passes) > 0 || pruneFlag {
					target = a.node
				}
				r.reapCheck(o, passes, target, where)
				if effective {
					if st, listed := o.status[a.node]; listed {
						r.fail("pruned-member-still-listed (was "+stPre+")", "%s: member %q (%s before) was force-left with prune but is still listed as %s", where, a.node, stPre, st)
					}
					for _, l := range append(append([]string{}, o.dump.Failed...), o.dump.Left...) {
						if l == a.node {
							r.fail("pruned-member-still-in-lists (was "+stPre+")", "%s: member %q (%s before) was pruned but is still in the private failed/left lists (failed %v, left %v)", where, a.node, stPre, o.dump.Failed, o.dump.Left)
						}
					}
				}
				r.invariants(o, a.kind)
				r.adopt(o, t0)
			}
			if r.viol != "" {
				return
			}
			scn.Transitions++
		}
		// canonical state
		now := vsched.Elapsed()
		var sb strings.Builder
		for _, m := range o.dump.Members {
			fmt.Fprintf(&sb, "%s:%s:%d", m.Name, m.Status, m.StatusLTime)
			if mm := r.model[m.Name]; mm != nil && (mm.status == "failed" || mm.status == "left") {
				fmt.Fprintf(&sb, ":%d:%d", now-mm.since, now-mm.leftSince)
			}
			sb.WriteString(" ")
		}
		fmt.Fprintf(&sb, "|F%v|L%v|", o.dump.Failed, o.dump.Left)
		for _, in := range o.dump.Intents {
			fmt.Fprintf(&sb, "%s/%d/%d/%d ", in.Node, in.Type, in.LTime, in.Age)
		}
		fmt.Fprintf(&sb, "|phase=%d", r.nextReap-now)
		final = sb.String()
	})
	out := "ok"
	switch {
	case len(x.Panics) > 0:
		out = "panic"
		ctx.Violation(scn.Name, "panic "+x.Panics[0].Frame, fmt.Sprintf("%s, history %v: panic %s\n%s", f.name, r.hist, x.Panics[0].Value, x.Panics[0].Stack), map[string]interface{}{"family": f.name, "history": r.hist})
	case harnessErr != "":
		ctx.Fail("C15: %s", harnessErr)
	case !x.RootDone:
		out = "stuck"
		ctx.Violation(scn.Name, "deadlock", fmt.Sprintf("%s, history %v: the run did not finish (cap hit=%v): blocked %+v", f.name, r.hist, x.CapHit, x.Blocked), map[string]interface{}{"family": f.name, "history": r.hist})
	case r.viol != "":
		out = r.sig
		ctx.Violation(scn.Name, r.sig, r.viol, map[string]interface{}{"family": f.name, "history": r.hist})
	default:
		// cross-check of the modelled reaper schedule
		for _, c := range calls {
			if !r.passes[c] {
				ctx.Fail("C15: %s, history %v: the reaper consulted the override at t=%v, which is not a modelled pass time", f.name, r.hist, time.Duration(c))
				break
			}
		}
		scn.AddState(final)
	}
	if out == "ok" && r.removed {
		out = "ok (list removal)"
	}
	scn.Case(out, r.removed)
	if r.removed && len(scn.Samples) < 2 && len(r.passes) > 3 {
		scn.Sample(map[string]interface{}{"history": r.hist, "final_state": final})
	}
}
