package checks

import (
	"encoding/json"
	"fmt"
	"runtime/debug"
	"strings"
	"time"

	"verifharness/vc"

	"github.com/hashicorp/serf/zzverif/vos"
)

// C12: snapshot I/O failures never crash the node and recording resumes.
// Uses the alphabet, the reference model and the driver of c11.go.

func init() {
	vc.Register(&vc.Check{
		ID:    "C12",
		Level: "fault_enumeration",
		Rule: "faults: for every history over the 11-symbol alphabet of C11 (member a has a 200-byte name so that compactions happen) of length 1..3 plus the length-4 histories that start with the join of a (quick) / length 1..4 plus the length-5 histories that start with the join of a (thorough), for minCompactSize 1 and 64: the history is run once without fault to count the faultable file calls (open, write, sync, close, remove, rename, reopen; bufio flushes are the writes), then once per call index k with that call failing once (vos.ErrInjected; failing writes both as 'nothing written' and as 'first half written'). After the event in which the fault hit 31 s of virtual time pass, the rest of the history runs, then the local clock is incremented and a new member c joins, the snapshotter is shut down and a fresh real NewSnapshotter reads the directory back. Faults that fall into the final shutdown sequence are checked for panics only. " +
			"one case = one (history, k, write-variant); non-trivial = the fault hit inside a compaction (temp file involved or remove/rename/reopen) or was followed by at least one more history event; every case is run with the fault healing at once and healing 600 ms of virtual time later (past the flush interval)",
		Assumptions: []string{
			"a transient fault = exactly one failing call; every later call succeeds",
			"'later changes are recorded' oracle: the restart must equal the reference replay of the logical lines in which every line produced after the event during which the fault hit is present, while each line produced up to and including that event (and the clock line of the 31 s pause) may be present or absent; the added clock increment and join of c always come after the fault, so the recovered clock and the presence of c are always determined",
			"events are pushed at quiescent points; deterministic default schedule of the two snapshotter threads; a panic in a snapshotter thread is what would take the whole process down",
			"a fault on the very first open makes NewSnapshotter return an error (start-up, not a running node); the harness then calls it again and demands the complete reference state",
		},
		Run: c12run,
	})
}

func c12configs(ctx *vc.Ctx) []c11cfg {
	var out []c11cfg
	for _, mc := range []int{1, 64} {
		if !ctx.Thorough() {
			out = append(out, c11cfg{minCompact: mc, maxLen: 3, alpha: c11alphabet, name: fmt.Sprintf("fault/len<=3/minCompact=%d", mc)})
			out = append(out, c11cfg{minCompact: mc, maxLen: 4, alpha: c11alphabet, prefix: "a", name: fmt.Sprintf("fault/len=4,first=join-a/minCompact=%d", mc)})
		} else {
			out = append(out, c11cfg{minCompact: mc, maxLen: 4, alpha: c11alphabet, name: fmt.Sprintf("fault/len<=4/minCompact=%d", mc)})
			out = append(out, c11cfg{minCompact: mc, maxLen: 5, alpha: c11alphabet, prefix: "a", name: fmt.Sprintf("fault/len=5,first=join-a/minCompact=%d", mc)})
		}
	}
	return out
}

func c12run(ctx *vc.Ctx) {
	defer debug.SetGCPercent(debug.SetGCPercent(1600))
	if ctx.Replay != nil {
		var rp c11replay
		if json.Unmarshal(ctx.Replay, &rp) != nil || rp.Check != "C12" {
			return
		}
		c12history(ctx, ctx.Scn("replay", "faults"), rp.MinCompact, rp.History, rp.Point)
		return
	}
	idx := 0
	for _, cf := range c12configs(ctx) {
		scn := ctx.Scn(cf.name, "faults")
		stop := false
		c11histories(cf.alpha, cf.maxLen, func(h string) {
			if cf.prefix != "" && (len(h) != cf.maxLen || !strings.ContainsRune(cf.prefix, rune(h[0]))) {
				return
			}
			idx++
			if !ctx.Mine(idx) || stop {
				return
			}
			if idx%16 == 0 && time.Now().After(ctx.Deadline) {
				stop = true
				scn.Exhaustive = false
				scn.StopReason = "time budget"
				return
			}
			c12history(ctx, scn, cf.minCompact, h, 0)
		})
	}
}

func c12faultable(op *vos.Op) bool {
	switch op.Kind {
	case "open", "write", "sync", "close", "remove", "rename":
		return op.Err != "closed"
	}
	return false
}

// c12history injects a fault at every faultable call of one history (only: call number only > 0).
func c12history(ctx *vc.Ctx, scn *vc.Scenario, minCompact int, h string, only int) {
	base := c11exec(c11opts{minCompact: minCompact, syms: h})
	if len(base.x.Panics) > 0 || base.x.CapHit || !base.rootEnd {
		// a failure without any fault belongs to C11/C10; here it only prevents the enumeration
		ctx.Fail("C12: fault-free run of history %q minCompact=%d failed: panics=%v blocked=%+v", h, minCompact, base.x.Panics, base.x.Blocked)
		return
	}
	var fops []int // log index of the k-th faultable call
	for i := range base.fs.Log {
		if c12faultable(&base.fs.Log[i]) {
			fops = append(fops, i)
		}
	}
	fAll := base.fs.Faultable()
	if fAll != len(fops) {
		ctx.Fail("C12: faultable-call bookkeeping: vos counted %d, log has %d (history %q)", fAll, len(fops), h)
		return
	}
	fHist := base.evFault[len(h)-1]
	for k := 1; k <= fAll; k++ {
		if only > 0 && k != only {
			continue
		}
		bop := &base.fs.Log[fops[k-1]]
		variants := []bool{false}
		if bop.Kind == "write" {
			variants = append(variants, true)
		}
		for _, short := range variants {
			c12healFor = 0
			c12case(ctx, scn, minCompact, h, k, short, k <= fHist, base, fops[k-1], only > 0)
			// the same fault, but only 600 ms pass before the node goes on: a single transient fault
			// is repaired by the recovery compaction at once, it does not need the 30 s retry interval
			c12healFor = 600 * time.Millisecond
			c12case(ctx, scn, minCompact, h, k, short, k <= fHist, base, fops[k-1], only > 0)
			c12healFor = 0
		}
	}
}

// c12healFor: how long the node pauses after the event in which the fault hit (0 = 31 s).
var c12healFor time.Duration

func c12case(ctx *vc.Ctx, scn *vc.Scenario, minCompact int, h string, k int, short, inHistory bool, base *c11res, baseOp int, verbose bool) {
	extra := ""
	if inHistory {
		extra = "cx"
	}
	r := c11exec(c11opts{minCompact: minCompact, syms: h, extra: extra, failAt: k, shortWrite: short, heal: true, healFor: c12healFor})
	rp := c11replay{Check: "C12", MinCompact: minCompact, History: h, Point: k, ShortWrite: short}
	failed := r.fs.Failed
	if failed == nil || failed.Kind != base.fs.Log[baseOp].Kind || failed.Path != base.fs.Log[baseOp].Path {
		ctx.Fail("C12: history %q k=%d: the planned fault did not hit the expected call (%s), got %s", h, k, c11opName(&base.fs.Log[baseOp]), c11opName(failed))
		return
	}
	fop := c11opName(failed)
	prev := "none"
	if baseOp > 0 {
		prev = c11opName(&base.fs.Log[baseOp-1])
	}
	where := fmt.Sprintf("fault=%s after=%s", fop, prev)
	variant := ""
	if failed.Kind == "write" {
		variant = " (nothing written)"
		if short {
			variant = " (first half written)"
		}
	}
	inCompaction := failed.Path == c11tmp || failed.Kind == "remove" || failed.Kind == "rename" || (failed.Kind == "open" && prev != "none") ||
		(baseOp+1 < len(base.fs.Log) && base.fs.Log[baseOp+1].Kind == "remove") || (baseOp+2 < len(base.fs.Log) && base.fs.Log[baseOp+2].Kind == "remove")
	during := "start-up"
	switch {
	case r.faultEv >= 0:
		during = fmt.Sprintf("event %d (%q)", r.faultEv+1, h[r.faultEv])
	case !inHistory:
		during = "shutdown"
	}
	head := fmt.Sprintf("history %q minCompactSize=%d, faultable call %d = %s%s fails once (previous call %s), during %s", h, minCompact, k, fop, variant, prev, during)
	tail := func() string {
		lt := strings.TrimSpace(r.logText)
		if ls := strings.Split(lt, "\n"); len(ls) > 6 {
			lt = strings.Join(ls[len(ls)-6:], "\n")
		}
		return fmt.Sprintf("\noperations around the fault: %s\nsnapshotter log:\n%s", c11opList(r.fs.Log, baseOp-5, baseOp+6), c11short(lt))
	}
	nontrivial := inCompaction || (r.faultEv >= 0 && r.faultEv < len(h)-1) || r.faultEv == -2
	if verbose {
		fmt.Printf("  %s\n  pushed=%v delivered=%v rootEnd=%v panics=%d\n", head, r.pushed, r.delivered, r.rootEnd, len(r.x.Panics))
	}

	// 1. the node keeps running without panicking
	if len(r.x.Panics) > 0 {
		p := r.x.Panics[0]
		class := "panic"
		if strings.Contains(p.Value, "nil pointer dereference") {
			class = "nil-pointer panic"
		}
		sig := fmt.Sprintf("%s in %s %s", class, c11serfFrame(p.Stack), where)
		ctx.Violation(scn.Name, sig, fmt.Sprintf("%s: thread %s panics: %s%s\n%s", head, p.Thread, p.Value, tail(), c12trimStack(p.Stack)), rp)
		scn.Case(sig, nontrivial)
		return
	}
	if r.x.CapHit {
		ctx.Fail("C12: %s: step cap hit", head)
		return
	}
	if !inHistory {
		scn.Case("fault in shutdown sequence: no panic", false)
		return
	}
	if !r.rootEnd {
		sig := "snapshotter hung " + where
		ctx.Violation(scn.Name, sig, fmt.Sprintf("%s: the snapshotter never finished its shutdown; blocked threads %+v%s", head, r.x.Blocked, tail()), rp)
		scn.Case(sig, nontrivial)
		return
	}
	// 2. it keeps delivering events
	if strings.Join(r.pushed, ",") != strings.Join(r.delivered, ",") {
		sig := "event not delivered " + where
		ctx.Violation(scn.Name, sig, fmt.Sprintf("%s: pushed %v but the application channel received %v%s", head, r.pushed, r.delivered, tail()), rp)
		scn.Case(sig, nontrivial)
		return
	}
	// 3. changes made after the fault cleared are recorded: restart
	healAt := r.faultEv
	if healAt < 0 {
		healAt = 0 // start-up fault: the pause comes after the first event
	}
	syms := h[:healAt+1] + "t" + h[healAt+1:] + extra
	m := c11simulate(syms)
	rec := c11recover(r.fs.Image())
	full := m.states[len(m.lines)]
	ok := rec.fail == "" && rec.key == full
	outcome := "recorded: complete state"
	if !ok && rec.fail == "" && r.faultEv >= 0 {
		cut := healAt + 1 // lines of symbols 0..cut (the event of the fault and the pause) are not promised
		if c12subsetMatch(m, cut, rec.key) {
			ok = true
			outcome = "recorded: changes after the fault, some earlier line missing"
		}
	}
	if verbose {
		fmt.Printf("  restart=[%s] reference=[%s] %v\n", rec.key, full, ok)
	}
	if !ok {
		sig := "not recorded after the fault cleared " + where
		var ls []string
		for _, l := range m.lines {
			ls = append(ls, fmt.Sprintf("%s(ev%d)", l.String(), l.ev+1))
		}
		ctx.Violation(scn.Name, sig, fmt.Sprintf("%s; afterwards a pause (31 s, or 600 ms in the second run of the case), the rest of the history, clock+1, join c, shutdown.\nreference lines (symbols %q): %s\nrestart recovers [%s]%s\nreference final state [%s]; no choice of dropping lines produced up to the fault explains the difference\nfinal directory: %s%s",
			head, syms, strings.Join(ls, " / "), rec.key, rec.fail, full, c11imageText(r.fs.Image()), tail()), rp)
		scn.Case(sig, nontrivial)
		return
	}
	if len(scn.Samples) < 1 && inCompaction && r.faultEv >= 0 && r.faultEv < len(h)-1 {
		scn.Sample(map[string]interface{}{
			"history": h, "min_compact": minCompact, "fault": fmt.Sprintf("call %d %s%s, previous call %s, during %s", k, fop, variant, prev, during),
			"delivered": strings.Join(r.delivered, ", "), "restart": rec.key, "outcome": outcome,
		})
	}
	scn.Case(outcome, nontrivial)
}

// c12subsetMatch reports whether want is the replay of the model's lines with
// some subset of the lines of symbols 0..cut removed.
func c12subsetMatch(m *c11model, cut int, want string) bool {
	var opt []int
	for i, l := range m.lines {
		if l.ev <= cut {
			opt = append(opt, i)
		}
	}
	if len(opt) > 16 {
		opt = opt[len(opt)-16:]
	}
	drop := make([]bool, len(m.lines))
	for mask := 0; mask < 1<<len(opt); mask++ {
		for j, i := range opt {
			drop[i] = mask&(1<<j) != 0
		}
		st := c11newst()
		for i, l := range m.lines {
			if !drop[i] {
				l.apply(st)
			}
		}
		if st.key() == want {
			return true
		}
	}
	return false
}

func c12trimStack(st string) string {
	var out []string
	for _, l := range strings.Split(st, "\n") {
		// function lines only: file:line of the instrumented copy would mislead
		if strings.HasPrefix(l, "github.com/hashicorp/serf/serf.") || strings.HasPrefix(l, "bufio.") {
			if j := strings.LastIndex(l, "("); j > 0 {
				l = l[:j]
			}
			out = append(out, "  at "+strings.TrimPrefix(l, "github.com/hashicorp/serf/serf."))
		}
	}
	if len(out) > 12 {
		out = out[:12]
	}
	return strings.Join(out, "\n")
}
