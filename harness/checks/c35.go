package checks

import (
	"bytes"
	"fmt"
	"net"
	"runtime"
	"strings"
	"time"

	"verifharness/vc"
	"verifharness/world"

	"github.com/hashicorp/serf/serf"
	"github.com/hashicorp/serf/zzverif/vsched"
)

// C35: Query reply relays go to distinct eligible peers.

type c35class struct {
	status string // alive | leaving | left | failed
	pmax   uint8
}

func (c c35class) String() string { return fmt.Sprintf("%s/v%d", c.status, c.pmax) }

func (c c35class) eligible() bool { return c.status == "alive" && c.pmax >= 5 }

var c35classes8 = []c35class{{"alive", 5}, {"alive", 4}, {"failed", 5}, {"leaving", 5}, {"left", 5}, {"failed", 4}, {"leaving", 4}, {"left", 4}}

type c35member struct {
	name  string
	idx   int // address index (world.NodeIP)
	class c35class
}

type c35case struct {
	self    string
	others  []c35member
	variant string // plain | dupaddr | origin-member
	k       uint8
	path    string // respond | ack
	depth   int    // number of leading draws enumerated (0 = all 3n)
}

func (c c35case) String() string {
	var ms []string
	for _, m := range c.others {
		ms = append(ms, fmt.Sprintf("%s@%s:%s", m.name, world.NodeIP(m.idx), m.class))
	}
	return fmt.Sprintf("node %q knows [%s] (%s), relay factor %d, %s path", c.self, strings.Join(ms, " "), c.variant, c.k, c.path)
}

func (c c35case) origin() (string, net.IP) {
	if c.variant == "origin-member" && len(c.others) > 0 {
		return c.others[0].name, world.NodeIP(c.others[0].idx)
	}
	return "o", world.NodeIP(9)
}

var c35otherNames = []string{"n0", "n1", "n3", "n4"}

func c35lists(m int, classes []c35class) [][]c35class {
	if m == 0 {
		return [][]c35class{nil}
	}
	var out [][]c35class
	for _, p := range c35lists(m-1, classes) {
		for _, c := range classes {
			out = append(out, append(append([]c35class{}, p...), c))
		}
	}
	return out
}

func init() {
	vc.Register(&vc.Check{
		ID:    "C35",
		Level: "exploration",
		Rule:  "cases: every case is one reply of a real Serf node under one complete sequence of rand.Intn outcomes of the relay selection, enumerated in-run (vsched.Feed) and extended only as far as the code consumed it. (reply/*) the node (inert memberlist) knows m other members, each brought by the real handlers (alive notification, leave intent, dead notification) into a class from {alive, leaving, left, failed} x ProtocolMax {4,5}; variants: distinct addresses / all others on one address / the query origin is itself a member; relay factor k in {0,1,2,3,255}; both reply paths (Query.Respond on the delivered query; the acknowledgement sent by the query handler). members=1..3 (m<=2, up to 9 draws): every sequence (quick: 8 classes for m<=1, 3 classes for m=2, plus 5 classes x 3 variants on the first 5 draws; thorough: 8 classes, variants on 3 classes). members=4,5: every outcome of the first D draws (quick D=4, m=3, 5 classes; thorough D=5 for m=3 with 8 classes, D=4 for m=4 with 5 classes), later draws answer 0 = first member in name order, under two namings (node sorts first / in the middle). (select/*) the real kRandomMembers on every ordered list of <=3 (thorough 4) entries from 6 letters incl. duplicate names with different addresses/statuses, with the relay predicate and with none, k in 0..3: every Intn sequence for <=2 (thorough 3) entries, the first 5 draws for the longest lists. Oracle on the transport packets: exactly one direct reply to the origin; relayed copies r<=k, pairwise distinct names, each a known member that is alive with ProtocolMax>=5 and not the node, envelope header = origin, inner bytes = the direct reply; r=0 if the node knows fewer than k+1 members. (reply/…/ack-then-member-change-then-respond) a query with the acknowledgement flag and relay factor 1, 2 is delivered to a node that knows 2 (thorough also 3) alive members (every outcome of the first 3 draws of the acknowledgement's relay selection), then each member in turn fails or starts leaving, then the application calls Respond (every outcome of the first 3 draws): same oracle against the member table at the time of the answer. non-trivial = at least one random draw took place",
		Assumptions: []string{
			"map iteration in instrumented code is canonical (ascending keys), so Serf.Members() returns members in name order and a sequence of Intn outcomes determines the execution",
			"the reply is produced while no membership change is in flight (member classes are set up before the query arrives; virtual time does not advance)",
			"for 4 and 5 known members only the first D random draws are enumerated exhaustively (the full tree has n^(3n) leaves); the bound is part of the scenario name",
			"one node answers many queries in a row (fresh query, fresh Lamport time and id for every sequence); the member table does not change in between",
			"r == k is never demanded (the draw may fail to find k eligible members)",
		},
		Run: c35run,
	})
}

func c35run(ctx *vc.Ctx) {
	if ctx.Replay != nil {
		return
	}
	// controlled threads run strictly one at a time; a single P makes the baton
	// hand-over between their goroutines several times cheaper
	defer runtime.GOMAXPROCS(runtime.GOMAXPROCS(1))
	idx := 0
	ks := []uint8{0, 1, 2, 3, 255}
	paths := []string{"respond", "ack"}
	c5, c3 := c35classes8[:5], c35classes8[:3]
	type plan struct {
		m        int
		classes  []c35class
		variants []string
		selfs    []string
		depth    int
	}
	var plans []plan
	all3 := []string{"plain", "dupaddr", "origin-member"}
	if !ctx.Thorough() {
		plans = []plan{
			{0, c35classes8, []string{"plain"}, []string{"n2"}, 0},
			{1, c35classes8, []string{"plain", "origin-member"}, []string{"n2"}, 0},
			{2, c3, []string{"plain"}, []string{"n2"}, 0},
			{2, c5, all3, []string{"n2"}, 5},
			{3, c5, []string{"plain"}, []string{"n2", "a"}, 4},
		}
	} else {
		plans = []plan{
			{0, c35classes8, []string{"plain"}, []string{"n2"}, 0},
			{1, c35classes8, []string{"plain", "origin-member"}, []string{"n2"}, 0},
			{2, c35classes8, []string{"plain"}, []string{"n2"}, 0},
			{2, c3, []string{"dupaddr", "origin-member"}, []string{"n2"}, 0},
			{3, c35classes8, []string{"plain"}, []string{"n2", "a"}, 5},
			{3, c3, []string{"dupaddr", "origin-member"}, []string{"n2"}, 5},
			{4, c5, []string{"plain"}, []string{"n2", "a"}, 4},
		}
	}
	for _, pl := range plans {
		name := fmt.Sprintf("reply/members=%d/all-draws", pl.m+1)
		if pl.depth > 0 {
			name = fmt.Sprintf("reply/members=%d/first-%d-draws", pl.m+1, pl.depth)
		}
		scn := ctx.Scn(name, "cases")
		for _, self := range pl.selfs {
			for _, variant := range pl.variants {
				for _, l := range c35lists(pl.m, pl.classes) {
					var others []c35member
					for i, c := range l {
						a := i + 1
						if variant == "dupaddr" {
							a = 1
						}
						others = append(others, c35member{c35otherNames[i], a, c})
					}
					for _, k := range ks {
						for _, p := range paths {
							idx++
							if !ctx.Mine(idx) {
								continue
							}
							c35reply(ctx, scn, c35case{self: self, others: others, variant: variant, k: k, path: p, depth: pl.depth})
						}
					}
				}
			}
		}
	}
	c35ackThenChange(ctx, &idx)
	c35select(ctx, &idx)
}

// c35setup creates the node and brings every other member into its class through the real handlers.
func c35setup(cs c35case) (*world.Node, string) {
	n, err := world.NewNode(cs.self, 0)
	if err != nil {
		panic(err)
	}
	for i, m := range cs.others {
		ml := n.MLNode(m.name, m.idx, nil)
		ml.PMax = m.class.pmax
		n.Events().NotifyJoin(ml)
		intent := func() {
			n.Delegate().NotifyMsg(serf.VEncode(serf.VMsgLeave, &serf.VMessageLeave{LTime: serf.LamportTime(5 + i), Node: m.name}))
		}
		switch m.class.status {
		case "failed":
			n.Events().NotifyLeave(ml)
		case "leaving":
			intent()
		case "left":
			intent()
			n.Events().NotifyLeave(ml)
		}
	}
	vsched.Quiesce()
	n.DrainEvents()
	n.Tr.TakeSent()
	n.Outbox()
	got := map[string]serf.Member{}
	for _, m := range n.S.Members() {
		got[m.Name] = m
	}
	if len(got) != len(cs.others)+1 {
		return n, fmt.Sprintf("set-up: node knows %d members, want %d", len(got), len(cs.others)+1)
	}
	for _, m := range cs.others {
		g, ok := got[m.name]
		if !ok || g.Status.String() != m.class.status || g.ProtocolMax != m.class.pmax || !g.Addr.Equal(world.NodeIP(m.idx)) {
			return n, fmt.Sprintf("set-up: member %s is %s/v%d@%s, want %s@%s", m.name, g.Status, g.ProtocolMax, g.Addr, m.class, world.NodeIP(m.idx))
		}
	}
	return n, ""
}

// c35reply enumerates the Intn outcome sequences of one (member list, k, path) on one node.
func c35reply(ctx *vc.Ctx, scn *vc.Scenario, cs c35case) {
	n := len(cs.others) + 1
	L := 3 * n
	D := L
	if cs.depth > 0 && cs.depth < L {
		D = cs.depth
	}
	oname, oip := cs.origin()
	type leaf struct {
		seq  []int
		used int
		sig  string
		msg  string
		out  string
	}
	var bad *leaf
	var setupErr string
	leaves, nontrivial := 0, 0
	outcomes := map[string]int{}
	x := vsched.Run(vsched.RunOpts{MaxSteps: 1 << 40}, func() {
		vsched.Branching(false)
		node, e := c35setup(cs)
		if e != "" {
			setupErr = e
			return
		}
		c := make([]int, L)
		ctr := uint32(0)
		flags := uint32(serf.VQueryFlagNoBroadcast)
		if cs.path == "ack" {
			flags |= serf.VQueryFlagAck
		}
		wireOf := func(id uint32) []byte {
			return serf.VEncode(serf.VMsgQuery, &serf.VMessageQuery{LTime: serf.LamportTime(100 + uint64(id)), ID: id, Addr: oip, Port: 7946, SourceNode: oname,
				Flags: flags, RelayFactor: cs.k, Timeout: 10 * time.Second, Name: "q", Payload: []byte("p")})
		}
		var pool []*serf.Query // delivered queries not yet answered (respond path)
		for {
			used := 0
			var rerr error
			var pk []world.Packet
			window := func(f func()) {
				vsched.Forget()
				vsched.Branching(true)
				vsched.Feed(c)
				before := vsched.Consumed()
				vsched.Atomic(f)
				used = vsched.Consumed() - before
				vsched.Feed(nil)
				vsched.Branching(false)
				pk = node.Tr.TakeSent()
			}
			var wantFlags uint32
			var wantPayload []byte
			var lt uint64
			var id uint32
			if cs.path == "ack" {
				ctr++
				id, lt = ctr, 100+uint64(ctr)
				wantFlags = serf.VQueryFlagAck
				wire := wireOf(id)
				window(func() { node.Delegate().NotifyMsg(wire) })
				if ctr%256 == 0 {
					vsched.Quiesce()
					node.DrainEvents()
				}
			} else {
				if len(pool) == 0 {
					// deliver a batch of fresh queries to the application
					batch := 64
					if ctr == 0 {
						batch = 2
					}
					first := ctr + 1
					for i := 0; i < batch; i++ {
						ctr++
						node.Delegate().NotifyMsg(wireOf(ctr))
					}
					vsched.Quiesce()
					for _, ev := range node.DrainEvents() {
						if g, ok := ev.(*serf.Query); ok && serf.VQueryID(g) >= first {
							pool = append(pool, g)
						}
					}
					if pre := node.Tr.TakeSent(); len(pool) != batch || len(pre) != 0 {
						setupErr = fmt.Sprintf("%d of %d queries were delivered to the application, %d packets were sent before Respond", len(pool), batch, len(pre))
						return
					}
				}
				q := pool[0]
				pool = pool[1:]
				id, lt = serf.VQueryID(q), uint64(q.LTime)
				wantPayload = []byte("r")
				window(func() { rerr = q.Respond([]byte("r")) })
			}
			out, sig, msg := c35judge(cs, lt, id, wantFlags, wantPayload, pk, rerr)
			leaves++
			if used > 0 {
				nontrivial++
			}
			outcomes[out]++
			if sig != "" && bad == nil {
				bad = &leaf{seq: append([]int{}, c[:used]...), used: used, sig: sig, msg: msg, out: out}
			}
			// next sequence: the code consumed c[:used]; later answers are irrelevant
			j := used
			if j > D {
				j = D
			}
			j--
			for j >= 0 {
				c[j]++
				if c[j] < n {
					break
				}
				c[j] = 0
				j--
			}
			if j < 0 {
				break
			}
			for i := j + 1; i < L; i++ {
				c[i] = 0
			}
		}
		node.S.Shutdown()
	})
	if setupErr != "" {
		ctx.Fail("C35 %v: %s", cs, setupErr)
		return
	}
	for o, cnt := range outcomes {
		scn.Outcomes[o] += cnt
	}
	scn.Evaluations += leaves
	scn.Nontrivial += nontrivial
	if len(x.Panics) > 0 {
		ctx.Violation(scn.Name, "panic "+x.Panics[0].Frame, fmt.Sprintf("%v: panic %s\n%s", cs, x.Panics[0].Value, x.Panics[0].Stack), map[string]interface{}{"case": cs.String()})
		return
	}
	if !x.RootDone {
		ctx.Fail("C35 %v: enumeration did not finish (cap=%v blocked=%+v)", cs, x.CapHit, x.Blocked)
		return
	}
	if bad != nil {
		ctx.Violation(scn.Name, bad.sig, fmt.Sprintf("%v, rand.Intn(%d) answers %v (indexes into the members in name order): %s", cs, n, bad.seq, bad.msg),
			map[string]interface{}{"case": cs.String(), "intn": bad.seq})
	}
	if len(scn.Samples) < 2 && nontrivial > 3 && cs.k == 2 {
		scn.Sample(map[string]interface{}{"case": cs.String(), "draw_sequences": leaves, "outcomes": outcomes})
	}
}

// c35judge is the oracle over the packets one reply put on the transport.
func c35judge(cs c35case, lt uint64, id uint32, wantFlags uint32, wantPayload []byte, pk []world.Packet, rerr error) (out, sig, msg string) {
	oname, oip := cs.origin()
	originTo := oname + "/" + (&net.UDPAddr{IP: oip, Port: 7946}).String()
	var direct [][]byte
	var relays []world.Packet
	for _, p := range pk {
		switch {
		case len(p.User) > 0 && p.User[0] == serf.VMsgQueryResponse:
			if p.To != originTo {
				return "misaddressed", "direct-reply-not-to-origin", fmt.Sprintf("an unwrapped reply was sent to %q, the origin is %q", p.To, originTo)
			}
			direct = append(direct, p.User)
		case len(p.User) > 0 && p.User[0] == serf.VMsgRelay:
			relays = append(relays, p)
		default:
			return "foreign-packet", "unexpected-packet", fmt.Sprintf("packet of memberlist type %d to %q is neither a reply nor a relay envelope", p.MsgType, p.To)
		}
	}
	if len(direct) != 1 {
		return "direct!=1", "direct-reply-count", fmt.Sprintf("%d direct replies to the origin, want exactly 1 (reply error: %v; %d relay envelopes)", len(direct), rerr, len(relays))
	}
	var r serf.VMessageQueryResponse
	if err := serf.VDecode(direct[0][1:], &r); err != nil || uint64(r.LTime) != lt || r.ID != id || r.From != cs.self || r.Flags != wantFlags || !bytes.Equal(r.Payload, wantPayload) {
		return "direct-altered", "direct-reply-altered", fmt.Sprintf("direct reply decodes to %+v (err %v), want ltime=%d id=%d from=%q flags=%d payload=%q", r, err, lt, id, cs.self, wantFlags, wantPayload)
	}
	k := int(cs.k)
	n := len(cs.others) + 1
	out = fmt.Sprintf("k=%d r=%d", k, len(relays))
	if len(relays) > 0 && n < k+1 {
		return out, "relayed-although-fewer-than-k+1-members", fmt.Sprintf("%d relayed copies although the node knows %d members and the relay factor is %d", len(relays), n, k)
	}
	if len(relays) > k {
		return out, "more-relays-than-factor", fmt.Sprintf("%d relayed copies, relay factor %d", len(relays), k)
	}
	seen := map[string]bool{}
	for _, p := range relays {
		name := p.To
		addr := ""
		if i := strings.Index(p.To, "/"); i >= 0 {
			name, addr = p.To[:i], p.To[i+1:]
		}
		if seen[name] {
			return out, "relay-target-repeated", fmt.Sprintf("two relayed copies through %q (targets %v)", name, c35targets(relays))
		}
		seen[name] = true
		if name == cs.self {
			return out, "relayed-through-itself", fmt.Sprintf("a relayed copy was sent to the node itself (targets %v)", c35targets(relays))
		}
		var mem *c35member
		for i := range cs.others {
			if cs.others[i].name == name {
				mem = &cs.others[i]
			}
		}
		if mem == nil || addr != (&net.UDPAddr{IP: world.NodeIP(mem.idx), Port: 7946}).String() {
			return out, "relay-target-not-a-member", fmt.Sprintf("relayed copy sent to %q, which is not a known member at its address", p.To)
		}
		if mem.class.status != "alive" {
			return out, "relay-target-not-alive", fmt.Sprintf("relayed copy through %q whose status is %s", name, mem.class.status)
		}
		if mem.class.pmax < 5 {
			return out, "relay-target-without-relay-support", fmt.Sprintf("relayed copy through %q whose ProtocolMax is %d", name, mem.class.pmax)
		}
		var h serf.VRelayHeader
		if err := serf.VDecode(p.User[1:], &h); err != nil {
			return out, "relay-header-undecodable", fmt.Sprintf("relay envelope to %q: %v", p.To, err)
		}
		if h.DestName != oname || !h.DestAddr.IP.Equal(oip) || h.DestAddr.Port != 7946 {
			return out, "relay-header-not-origin", fmt.Sprintf("relay envelope to %q names %q at %s, the origin is %q", p.To, h.DestName, h.DestAddr.String(), originTo)
		}
		hl := len(serf.VEncode(0, &h)) - 1
		if inner := p.User[1:]; len(inner) != hl+len(direct[0]) || !bytes.Equal(inner[hl:], direct[0]) {
			return out, "relay-inner-differs-from-direct-reply", fmt.Sprintf("relay envelope to %q carries %x after a %d-byte header, the direct reply is %x", p.To, inner, hl, direct[0])
		}
	}
	return out, "", ""
}

func c35targets(relays []world.Packet) []string {
	var t []string
	for _, p := range relays {
		t = append(t, p.To)
	}
	return t
}

// ---------------------------------------------------------------------------
// select/*: the member selection itself on ordered lists with duplicates.

func c35select(ctx *vc.Ctx, idx *int) {
	ip := func(i int) net.IP { return world.NodeIP(i) }
	letters := []serf.Member{
		{Name: "s", Addr: ip(0), Port: 7946, Status: serf.StatusAlive, ProtocolMax: 5},
		{Name: "x", Addr: ip(1), Port: 7946, Status: serf.StatusAlive, ProtocolMax: 5},
		{Name: "x", Addr: ip(2), Port: 7946, Status: serf.StatusAlive, ProtocolMax: 5},
		{Name: "x", Addr: ip(1), Port: 7946, Status: serf.StatusFailed, ProtocolMax: 5},
		{Name: "y", Addr: ip(1), Port: 7946, Status: serf.StatusAlive, ProtocolMax: 5},
		{Name: "y", Addr: ip(3), Port: 7946, Status: serf.StatusAlive, ProtocolMax: 4},
	}
	relayPred := func(m serf.Member) bool { return m.Status != serf.StatusAlive || m.ProtocolMax < 5 || m.Name == "s" }
	maxN, depth := 3, map[int]int{3: 5}
	if ctx.Thorough() {
		maxN, depth = 4, map[int]int{4: 5}
	}
	for n := 1; n <= maxN; n++ {
		name := fmt.Sprintf("select/entries=%d/all-draws", n)
		D := 3 * n
		if d := depth[n]; d > 0 {
			name = fmt.Sprintf("select/entries=%d/first-%d-draws", n, d)
			D = d
		}
		scn := ctx.Scn(name, "cases")
		sel := make([]int, n)
		for {
			for _, withPred := range []bool{true, false} {
				*idx++
				if ctx.Mine(*idx) {
					var list []serf.Member
					for _, li := range sel {
						list = append(list, letters[li])
					}
					var pred func(serf.Member) bool
					if withPred {
						pred = relayPred
					}
					c35selectOne(ctx, scn, list, pred, D)
				}
			}
			j := n - 1
			for j >= 0 {
				sel[j]++
				if sel[j] < len(letters) {
					break
				}
				sel[j] = 0
				j--
			}
			if j < 0 {
				break
			}
		}
	}
}

func c35selectOne(ctx *vc.Ctx, scn *vc.Scenario, list []serf.Member, pred func(serf.Member) bool, D int) {
	n := len(list)
	L := 3 * n
	var desc []string
	for _, m := range list {
		desc = append(desc, fmt.Sprintf("%s@%s:%s/v%d", m.Name, m.Addr, m.Status, m.ProtocolMax))
	}
	what := fmt.Sprintf("list [%s], predicate=%v", strings.Join(desc, " "), pred != nil)
	var sig, msg string
	var badSeq []int
	badK := 0
	leaves, nontrivial := 0, 0
	outcomes := map[string]int{}
	x := vsched.Run(vsched.RunOpts{MaxSteps: 1 << 40}, func() {
		vsched.Branching(false)
		for k := 0; k <= 3; k++ {
			c := make([]int, L)
			for {
				vsched.Forget()
				vsched.Branching(true)
				vsched.Feed(c)
				before := vsched.Consumed()
				var res []serf.Member
				vsched.Atomic(func() { res = serf.VKRandomMembers(k, list, pred) })
				used := vsched.Consumed() - before
				vsched.Feed(nil)
				vsched.Branching(false)
				leaves++
				if used > 0 {
					nontrivial++
				}
				s, m := c35judgeSelection(k, list, pred, res)
				outcomes[fmt.Sprintf("k=%d r=%d", k, len(res))]++
				if s != "" && sig == "" {
					sig, msg, badSeq, badK = s, m, append([]int{}, c[:used]...), k
				}
				j := used
				if j > D {
					j = D
				}
				j--
				for j >= 0 {
					c[j]++
					if c[j] < n {
						break
					}
					c[j] = 0
					j--
				}
				if j < 0 {
					break
				}
				for i := j + 1; i < L; i++ {
					c[i] = 0
				}
			}
		}
	})
	for o, cnt := range outcomes {
		scn.Outcomes[o] += cnt
	}
	scn.Evaluations += leaves
	scn.Nontrivial += nontrivial
	if len(x.Panics) > 0 {
		ctx.Violation(scn.Name, "select: panic "+x.Panics[0].Frame, fmt.Sprintf("%s: panic %s\n%s", what, x.Panics[0].Value, x.Panics[0].Stack), map[string]interface{}{"list": desc})
		return
	}
	if !x.RootDone {
		ctx.Fail("C35 select %s: enumeration did not finish (cap=%v)", what, x.CapHit)
		return
	}
	if sig != "" {
		ctx.Violation(scn.Name, "select: "+sig, fmt.Sprintf("%s, k=%d, rand.Intn(%d) answers %v: %s", what, badK, n, badSeq, msg), map[string]interface{}{"list": desc, "k": badK, "intn": badSeq})
	}
	if len(scn.Samples) < 1 && n >= 3 && pred != nil && outcomes["k=2 r=2"] > 0 {
		scn.Sample(map[string]interface{}{"list": desc, "draw_sequences": leaves, "outcomes": outcomes})
	}
}

func c35judgeSelection(k int, list []serf.Member, pred func(serf.Member) bool, res []serf.Member) (string, string) {
	if len(res) > k {
		return "more-than-k-selected", fmt.Sprintf("%d members selected", len(res))
	}
	seen := map[string]bool{}
	for _, m := range res {
		if seen[m.Name] {
			return "member-selected-twice", fmt.Sprintf("%q selected twice: %v", m.Name, c35names(res))
		}
		seen[m.Name] = true
		if pred != nil && pred(m) {
			return "ineligible-member-selected", fmt.Sprintf("%s@%s (%s, ProtocolMax %d) selected although it is not alive, cannot relay or is the node itself", m.Name, m.Addr, m.Status, m.ProtocolMax)
		}
		found := false
		for _, l := range list {
			if l.Name == m.Name && l.Addr.Equal(m.Addr) && l.Status == m.Status && l.ProtocolMax == m.ProtocolMax {
				found = true
			}
		}
		if !found {
			return "selected-member-not-in-list", fmt.Sprintf("%s@%s is not an entry of the list", m.Name, m.Addr)
		}
	}
	return "", ""
}

func c35names(ms []serf.Member) []string {
	var out []string
	for _, m := range ms {
		out = append(out, m.Name+"@"+m.Addr.String())
	}
	return out
}
