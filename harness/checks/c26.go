package checks

import (
	"fmt"
	"regexp"
	"sort"
	"strings"

	"verifharness/vc"
	"verifharness/world"

	"github.com/hashicorp/serf/cmd/serf/command/agent"
	"github.com/hashicorp/serf/serf"
	"github.com/hashicorp/serf/zzverif/vsched"
)

// C26: Filtered member listings match whole names, statuses and tag values.
//
// Reference: a pattern is invalid iff regexp.Compile(p) fails on the bare
// pattern; a valid pattern p accepts a string s iff p has a match that spans
// the whole of s. An empty name / status pattern means "not requested" (the
// members command documents all filters as "if provided"); a requested tag
// whose member has no such tag is matched against "".

// c26pat is one pattern of the alphabet with the syntactic class used in
// failure signatures.
type c26pat struct {
	p     string
	class string // plain | alternation | quoted | trailing-backslash | invalid
}

var c26namePats = []c26pat{
	{"", "plain"},
	{"a", "plain"},
	{"a|b", "alternation"},
	{"b|a", "alternation"},
	{"a|", "alternation"},
	{"|b", "alternation"},
	{".*", "plain"},
	{"a.", "plain"},
	{"a.*", "plain"},
	{"[ab]", "plain"},
	{"a?b", "plain"},
	{"(a|b)", "plain"},
	{`a\|b`, "plain"},
	{"(?i)a", "plain"},
	{`\Qa`, "quoted"},
	{"(a", "invalid"},
	{"[", "invalid"},
	{")(", "invalid"},
	{"a)|(b", "invalid"},
	{`a\`, "trailing-backslash"},
}

var c26statusPats = []c26pat{
	{"", "plain"},
	{"alive", "plain"},
	{"none", "plain"},
	{"alive|left", "alternation"},
	{"al|ft", "alternation"},
	{"l|d", "alternation"},
	{"failed|", "alternation"},
	{"l.*", "plain"},
	{".*", "plain"},
	{"(alive|failed)", "plain"},
	{`alive\|left`, "plain"},
	{"(?i)ALIVE", "plain"},
	{"ALIVE", "plain"},
	{"(alive", "invalid"},
	{"[", "invalid"},
	{`leaving\`, "trailing-backslash"},
}

var c26classOf = map[string]string{}

// c26direct is the member filter called directly; set by c26direct.go (left out when the accessor
// does not compile against a changed tree).
var c26direct func(members []serf.Member, tags map[string]string, status, name string) ([]serf.Member, error)

func init() {
	for _, l := range [][]c26pat{c26namePats, c26statusPats} {
		for _, p := range l {
			c26classOf[p.p] = p.class
		}
	}
}

type c26filter struct {
	name, status string
	tags         map[string]string
}

func (f c26filter) String() string {
	var ks []string
	for k := range f.tags {
		ks = append(ks, k)
	}
	sort.Strings(ks)
	s := fmt.Sprintf("name=%q status=%q tags={", f.name, f.status)
	for i, k := range ks {
		if i > 0 {
			s += ","
		}
		s += fmt.Sprintf("%s:%q", k, f.tags[k])
	}
	return s + "}"
}

// c26member is the part of a member the property talks about.
type c26member struct {
	name, status string
	tags         map[string]string
	k            string // canonical rendering, computed once
}

func c26mk(name, status string, tags map[string]string) c26member {
	m := c26member{name: name, status: status, tags: tags}
	m.k = m.render()
	return m
}

func (m c26member) key() string { return m.k }

func (m c26member) render() string {
	var ks []string
	for k := range m.tags {
		ks = append(ks, k)
	}
	sort.Strings(ks)
	s := fmt.Sprintf("%q/%s/", m.name, m.status)
	for _, k := range ks {
		s += fmt.Sprintf("%s=%q,", k, m.tags[k])
	}
	return s
}

// ---- reference model -------------------------------------------------------

type c26re struct {
	re  *regexp.Regexp
	err error
}

var c26cache = map[string]*c26re{}

func c26compile(p string) *c26re {
	if r, ok := c26cache[p]; ok {
		return r
	}
	re, err := regexp.Compile(p)
	if err == nil {
		re.Longest()
	}
	r := &c26re{re, err}
	c26cache[p] = r
	return r
}

// whole reports whether the pattern has a match spanning all of s: with
// leftmost-longest semantics such a match, if it exists, is the one found.
func (r *c26re) whole(s string) bool {
	loc := r.re.FindStringIndex(s)
	return loc != nil && loc[0] == 0 && loc[1] == len(s)
}

type c26field struct {
	kind, tag, pat string
}

// requested lists the constraints a filter actually imposes.
func (f c26filter) requested() []c26field {
	var out []c26field
	var ks []string
	for k := range f.tags {
		ks = append(ks, k)
	}
	sort.Strings(ks)
	for _, k := range ks {
		out = append(out, c26field{"tag", k, f.tags[k]})
	}
	if f.status != "" {
		out = append(out, c26field{"status", "", f.status})
	}
	if f.name != "" {
		out = append(out, c26field{"name", "", f.name})
	}
	return out
}

func (fd c26field) value(m c26member) string {
	switch fd.kind {
	case "tag":
		return m.tags[fd.tag] // missing counts as empty
	case "status":
		return m.status
	}
	return m.name
}

// c26expect returns the invalid requested patterns, or the accepted members.
func c26expect(f c26filter, ms []c26member) (invalid []string, want []int) {
	req := f.requested()
	for _, fd := range req {
		if c26compile(fd.pat).err != nil {
			invalid = append(invalid, fd.pat)
		}
	}
	if invalid != nil {
		return invalid, nil
	}
	for i, m := range ms {
		ok := true
		for _, fd := range req {
			if !c26compile(fd.pat).whole(fd.value(m)) {
				ok = false
				break
			}
		}
		if ok {
			want = append(want, i)
		}
	}
	return nil, want
}

// ---- real code -------------------------------------------------------------

func c26serfMembers(ms []c26member) []serf.Member {
	out := make([]serf.Member, len(ms))
	for i, m := range ms {
		var st serf.MemberStatus
		for _, s := range []serf.MemberStatus{serf.StatusNone, serf.StatusAlive, serf.StatusLeaving, serf.StatusLeft, serf.StatusFailed} {
			if s.String() == m.status {
				st = s
			}
		}
		// Port carries the position in the input so that the canonical rendering can be reused
		out[i] = serf.Member{Name: m.name, Tags: m.tags, Status: st, Port: uint16(i + 1)}
	}
	return out
}

func c26sameTags(a, b map[string]string) bool {
	if len(a) != len(b) {
		return false
	}
	for k, v := range a {
		if w, ok := b[k]; !ok || w != v {
			return false
		}
	}
	return true
}

// c26fromSerf converts returned members; in is the input list (may be nil).
func c26fromSerf(ms []serf.Member, in []c26member) []c26member {
	out := make([]c26member, len(ms))
	for i, m := range ms {
		if j := int(m.Port) - 1; j >= 0 && j < len(in) && in[j].name == m.Name && in[j].status == m.Status.String() && c26sameTags(in[j].tags, m.Tags) {
			out[i] = in[j]
			continue
		}
		out[i] = c26mk(m.Name, m.Status.String(), m.Tags)
	}
	return out
}

var c26probeCache = map[string]bool{}
var c26reported = map[string]bool{} // signatures already written out (formatting is the expensive part)

// c26probe asks the real filter about one constraint on one member.
func c26probe(fd c26field, m c26member) (accepted bool) {
	k := fd.kind + "\x00" + fd.tag + "\x00" + fd.pat + "\x00" + fd.value(m)
	if _, present := m.tags[fd.tag]; fd.kind == "tag" && !present {
		k += "\x00absent"
	}
	if v, ok := c26probeCache[k]; ok {
		return v
	}
	var f c26filter
	switch fd.kind {
	case "tag":
		f.tags = map[string]string{fd.tag: fd.pat}
	case "status":
		f.status = fd.pat
	default:
		f.name = fd.pat
	}
	if c26direct == nil {
		return false
	}
	got, err := c26direct(c26serfMembers([]c26member{m}), f.tags, f.status, f.name)
	v := err == nil && len(got) == 1
	c26probeCache[k] = v
	return v
}

func c26classes(ps []string) string {
	set := map[string]bool{}
	for _, p := range ps {
		c := c26classOf[p]
		if c == "" {
			c = "plain"
		}
		set[c] = true
	}
	var l []string
	for c := range set {
		l = append(l, c)
	}
	sort.Strings(l)
	return "[" + strings.Join(l, ",") + "]"
}

// c26judge compares what the real code returned (gotErr / got) with the
// reference and reports violations. It returns the outcome label and whether
// the case is non-trivial.
func c26judge(ctx *vc.Ctx, scn string, f c26filter, ms []c26member, gotErr error, hasList bool, got []c26member) (string, bool) {
	invalid, want := c26expect(f, ms)
	replay := map[string]interface{}{"filter": f.String(), "members": len(ms)}
	if invalid != nil {
		switch {
		case gotErr == nil:
			ctx.Violation(scn, "invalid-pattern-accepted "+c26classes(invalid),
				fmt.Sprintf("filter %v: pattern(s) %q are not valid regular expressions (regexp.Compile fails) but the filter returned a list of %d members instead of an error", f, invalid, len(got)), replay)
			return "invalid:accepted", true
		case hasList:
			ctx.Violation(scn, "error-with-list", fmt.Sprintf("filter %v: error %q together with a member list of %d", f, gotErr, len(got)), replay)
			return "invalid:error+list", true
		}
		return "invalid:error", true
	}
	if gotErr != nil {
		var ps []string
		for _, fd := range f.requested() {
			ps = append(ps, fd.pat)
		}
		ctx.Violation(scn, "valid-pattern-rejected "+c26classes(ps), fmt.Sprintf("filter %v: all patterns are valid but the filter failed: %v", f, gotErr), replay)
		return "valid:error", true
	}
	wantN := map[string]int{}
	for _, i := range want {
		wantN[ms[i].key()]++
	}
	gotN := map[string]int{}
	for _, m := range got {
		gotN[m.key()]++
	}
	out := "ok"
	known := map[string]bool{}
	for _, m := range ms {
		k := m.key()
		known[k] = true
		if gotN[k] == wantN[k] {
			continue
		}
		// blame: the constraints on which the real filter and the reference disagree for this member
		var blamed []string
		for _, fd := range f.requested() {
			if c26probe(fd, m) != c26compile(fd.pat).whole(fd.value(m)) {
				blamed = append(blamed, fd.pat)
			}
		}
		cls := "[interaction]"
		if blamed != nil {
			cls = c26classes(blamed)
		}
		if gotN[k] > wantN[k] {
			out = "extra"
			if c26reported[scn+"extra-member "+cls] {
				continue
			}
			c26reported[scn+"extra-member "+cls] = true
			ctx.Violation(scn, "extra-member "+cls,
				fmt.Sprintf("filter %v: member %s is returned %d time(s) but must appear %d time(s): a requested pattern does not match its whole value (disagreeing patterns %q)", f, k, gotN[k], wantN[k], blamed), replay)
		} else {
			out = "missing"
			if c26reported[scn+"missing-member "+cls] {
				continue
			}
			c26reported[scn+"missing-member "+cls] = true
			ctx.Violation(scn, "missing-member "+cls,
				fmt.Sprintf("filter %v: member %s matches every requested pattern over the whole string but is returned %d time(s) instead of %d (disagreeing patterns %q)", f, k, gotN[k], wantN[k], blamed), replay)
		}
	}
	for k := range gotN {
		if !known[k] {
			out = "invented"
			ctx.Violation(scn, "unknown-member-returned", fmt.Sprintf("filter %v: returned member %s is not in the input", f, k), replay)
		}
	}
	return out + fmt.Sprintf(":%d", len(want)), len(want) > 0 && len(want) < len(ms)
}

func init() {
	vc.Register(&vc.Check{
		ID:    "C26",
		Level: "exploration",
		Rule: "cases: every filter (name pattern x status pattern x tag filter; 20 name/tag patterns incl. alternations at top level and in groups, empty alternatives, escapes, classes, flags, \\Q literals and 5 invalid forms; 16 status patterns; tag filters on 0, 1 or 2 keys) applied by the real filterMembers to (quick) the empty list and the full universe of 720 members (6 names x 5 statuses x 8 values/absence of tag t x 3 of tag u), (thorough) additionally every member list of size <=2, in both orders, drawn from a 12-member sub-universe; " +
			"plus the same kind of filters sent as members-filtered requests through the real IPC request dispatcher of an agent whose real Serf instance holds members in every status, and the unfiltered members request. " +
			"non-trivial = a pattern is invalid (error expected) or the expected list is a non-empty proper subset of the members",
		Assumptions: []string{
			"reference semantics: Go regexp (RE2) syntax; a pattern is invalid iff regexp.Compile fails on the pattern as given; it matches iff some match spans the whole string (cross-checked against ^(?:p)$ wherever that compiles)",
			"an empty name or status pattern means the filter was not provided (documented: 'if provided'); an empty pattern for a requested tag requires an empty or missing value",
			"'an error and no list': the filter returns a non-nil error and a nil list; at the RPC level the handler fails or answers with an error header, and no member list is written",
			"the RPC path is driven at handleRequest with in-memory buffers (no TCP, no handshake/auth exchange); the order of the returned members is not constrained",
		},
		Run: c26run,
	})
}

var c26values = []string{"a", "ab", "b", "a|b", "ba", "A"}
var c26statuses = []string{"none", "alive", "leaving", "left", "failed"}

func c26universe() []c26member {
	tvals := append([]string{"\x00missing", ""}, c26values...)
	uvals := []string{"\x00missing", "a", "b"}
	var out []c26member
	for _, n := range c26values {
		for _, s := range c26statuses {
			for _, t := range tvals {
				for _, u := range uvals {
					tags := map[string]string{}
					if t != "\x00missing" {
						tags["t"] = t
					}
					if u != "\x00missing" {
						tags["u"] = u
					}
					out = append(out, c26mk(n, s, tags))
				}
			}
		}
	}
	return out
}

func c26tagFilters() []map[string]string {
	out := []map[string]string{nil}
	for _, p := range c26namePats {
		out = append(out, map[string]string{"t": p.p})
	}
	red := []string{"", "a", "a|b", ".*", "(a", `\Qa`}
	for _, p := range red {
		for _, q := range red {
			out = append(out, map[string]string{"t": p, "u": q})
		}
	}
	return out
}

func c26selfcheck(ctx *vc.Ctx) bool {
	vals := append([]string{"", "a$", "aa", "alive", "left", "failed", "leaving", "none"}, c26values...)
	for p := range c26classOf {
		r := c26compile(p)
		w, werr := regexp.Compile("^(?:" + p + ")$")
		if r.err != nil {
			if c := c26classOf[p]; c != "invalid" && c != "trailing-backslash" {
				ctx.Fail("C26: pattern %q classified %s does not compile", p, c)
				return false
			}
			continue
		}
		if c := c26classOf[p]; c == "invalid" || c == "trailing-backslash" {
			ctx.Fail("C26: pattern %q classified %s compiles", p, c)
			return false
		}
		if werr != nil {
			continue // e.g. an unterminated \Q literal swallows the wrapper
		}
		for _, v := range vals {
			if w.MatchString(v) != r.whole(v) {
				ctx.Fail("C26: reference disagreement on %q vs %q", p, v)
				return false
			}
		}
	}
	return true
}

func c26run(ctx *vc.Ctx) {
	if ctx.Replay != nil {
		return
	}
	if c26direct == nil {
		ctx.Note("the direct accessor of filterMembers does not compile against this tree (its signature changed); only the RPC-path scenarios were run")
		idx := 0
		c26rpc(ctx, &idx)
		return
	}
	if !c26selfcheck(ctx) {
		return
	}
	uni := c26universe()
	lists := [][]c26member{nil, uni}
	if ctx.Thorough() {
		// 12-member sub-universe: every name, every status, every t value at least once
		var sub []c26member
		for i := 0; i < 12; i++ {
			sub = append(sub, uni[(i*61+7)%len(uni)])
		}
		for i := range sub {
			lists = append(lists, []c26member{sub[i]})
			for j := range sub {
				if i != j {
					lists = append(lists, []c26member{sub[i], sub[j]})
				}
			}
		}
	}
	serfLists := make([][]serf.Member, len(lists))
	for i, l := range lists {
		serfLists[i] = c26serfMembers(l)
	}
	scn := ctx.Scn("filter/direct", "cases")
	idx := 0
	for _, np := range c26namePats {
		for _, sp := range c26statusPats {
			for _, tf := range c26tagFilters() {
				f := c26filter{np.p, sp.p, tf}
				for li, l := range lists {
					idx++
					if !ctx.Mine(idx) {
						continue
					}
					in := append([]serf.Member{}, serfLists[li]...)
					got, err := c26direct(in, f.tags, f.status, f.name)
					out, nt := c26judge(ctx, scn.Name, f, l, err, got != nil, c26fromSerf(got, l))
					scn.Case(out, nt)
				}
			}
		}
	}
	scn.Sample(map[string]string{"filter": `name="a|b" status="" tags={}`, "members": "a, ab, b, a|b, ba, A (any status)", "expected": "exactly a and b"})
	scn.Sample(map[string]string{"filter": `name="" status="alive" tags={t:""}`, "expected": "alive members whose tag t is empty or absent"})
	scn.Sample(map[string]string{"filter": `name="(a"`, "expected": "error, no list"})
	c26rpc(ctx, &idx)
}

// c26rpc drives members / members-filtered through the IPC dispatcher of an
// agent over a real Serf instance.
func c26rpc(ctx *vc.Ctx, idx *int) {
	scn := ctx.Scn("rpc/members-filtered", "cases")
	tagFilters := []map[string]string{nil, {"t": "a|b"}, {"t": ""}, {"t": "a"}, {"t": "(a"}, {"t": ".*", "u": "a"}, {"t": `\Qa`}, {"u": `a\`}}
	var harnessErr string
	x := vsched.Run(vsched.RunOpts{MaxSteps: 50000000}, func() {
		n, err := world.NewNode("a", 0, func(c *serf.Config) { c.Tags = map[string]string{"t": "a"} })
		if err != nil {
			harnessErr = err.Error()
			return
		}
		defer n.S.Shutdown()
		peers := []struct {
			name string
			tags map[string]string
		}{
			{"ab", map[string]string{"t": "ab"}},
			{"b", map[string]string{"t": "b", "u": "a"}},
			{"a|b", map[string]string{"t": "a|b"}},
			{"ba", map[string]string{}},
			{"A", map[string]string{"t": "", "u": "b"}},
		}
		for i, p := range peers {
			n.Events().NotifyJoin(n.MLNode(p.name, i+1, p.tags))
		}
		// b fails; a|b leaves gracefully; ba announces its leave only
		n.Events().NotifyLeave(n.MLNode("b", 2, peers[1].tags))
		n.Delegate().NotifyMsg(serf.VEncode(serf.VMsgLeave, &serf.VMessageLeave{LTime: 5, Node: "a|b"}))
		n.Events().NotifyLeave(n.MLNode("a|b", 3, peers[2].tags))
		n.Delegate().NotifyMsg(serf.VEncode(serf.VMsgLeave, &serf.VMessageLeave{LTime: 6, Node: "ba"}))
		vsched.Quiesce()
		ms := c26fromSerf(n.S.Members(), nil)
		seen := map[string]bool{}
		for _, m := range ms {
			seen[m.status] = true
		}
		if len(ms) != 6 || !seen["alive"] || !seen["leaving"] || !seen["left"] || !seen["failed"] {
			harnessErr = fmt.Sprintf("C26: world set-up did not produce the intended member list: %v", n.SortedMembers())
			return
		}
		conv := func(l []agent.Member) []c26member {
			out := make([]c26member, len(l))
			for i, m := range l {
				out[i] = c26mk(m.Name, m.Status, m.Tags)
			}
			return out
		}
		// the unfiltered listing
		*idx++
		if ctx.Mine(*idx) {
			r := agent.VMembersRPC(n.S, "members", 3, nil, "", "")
			if r.HandlerErr != nil || !r.HasHeader || r.Seq != 3 || r.HeaderErr != "" || !r.HasBody {
				ctx.Violation(scn.Name, "rpc: members request failed", fmt.Sprintf("members: %+v", r), nil)
			}
			out, _ := c26judge(ctx, scn.Name, c26filter{}, ms, nil, true, conv(r.Members))
			scn.Case("members:"+out, false)
		}
		seq := uint64(10)
		for _, np := range c26namePats {
			for _, sp := range c26statusPats {
				for _, tf := range tagFilters {
					*idx++
					seq++
					if !ctx.Mine(*idx) {
						continue
					}
					f := c26filter{np.p, sp.p, tf}
					r := agent.VMembersRPC(n.S, "members-filtered", seq, f.tags, f.status, f.name)
					var gotErr error
					switch {
					case r.HandlerErr != nil:
						gotErr = r.HandlerErr
					case !r.HasHeader:
						gotErr = fmt.Errorf("no reply")
						ctx.Violation(scn.Name, "rpc: no reply and no handler error", fmt.Sprintf("filter %v: %+v", f, r), nil)
					case r.HeaderErr != "":
						gotErr = fmt.Errorf("%s", r.HeaderErr)
					case r.Seq != seq:
						ctx.Violation(scn.Name, "rpc: reply sequence number", fmt.Sprintf("filter %v: reply seq %d for request %d", f, r.Seq, seq), nil)
					}
					if gotErr == nil && !r.HasBody {
						ctx.Violation(scn.Name, "rpc: success header without member list", fmt.Sprintf("filter %v: %+v", f, r), nil)
					}
					out, nt := c26judge(ctx, scn.Name, f, ms, gotErr, r.HasBody, conv(r.Members))
					scn.Case(out, nt)
				}
			}
		}
		// several requests on ONE connection: every ordered pair (thorough: triple) of filters whose
		// tag sets are subsets / supersets / variations of each other; each reply is judged on its own
		// request, whatever the connection was asked before
		sc2 := ctx.Scn("rpc/same-connection", "cases")
		sess := []map[string]string{nil, {"t": "a"}, {"t": "a", "u": ""}, {"t": "a|b", "u": ""}, {"u": ""}, {"t": ".*", "u": "a"}, {"t": "(a"}, {"t": "ab"}}
		depth := 2
		if ctx.Thorough() {
			depth = 3
		}
		var rec func(hist []int)
		rec = func(hist []int) {
			if len(hist) == depth {
				*idx++
				if !ctx.Mine(*idx) {
					return
				}
				conn := agent.VNewMembersConn(n.S)
				for i, k := range hist {
					f := c26filter{"", "", sess[k]}
					r := conn.Request("members-filtered", uint64(100+i), f.tags, f.status, f.name)
					var gotErr error
					switch {
					case r.HandlerErr != nil:
						gotErr = r.HandlerErr
					case !r.HasHeader:
						gotErr = fmt.Errorf("no reply")
					case r.HeaderErr != "":
						gotErr = fmt.Errorf("%s", r.HeaderErr)
					}
					out, nt := c26judge(ctx, sc2.Name, f, ms, gotErr, r.HasBody, conv(r.Members))
					if i == len(hist)-1 {
						sc2.Case(out, nt)
					}
				}
				return
			}
			for k := range sess {
				rec(append(append([]int{}, hist...), k))
			}
		}
		rec(nil)
	})
	if harnessErr != "" {
		ctx.Fail("%s", harnessErr)
		return
	}
	if len(x.Panics) > 0 {
		ctx.Violation(scn.Name, "panic "+x.Panics[0].Frame, x.Panics[0].Value+"\n"+x.Panics[0].Stack, nil)
	}
	if !x.RootDone {
		ctx.Fail("C26: rpc scenario did not finish: blocked=%+v caphit=%v", x.Blocked, x.CapHit)
	}
	scn.Sample(map[string]string{"request": `members-filtered {Tags:{t:"a|b"}, Status:"", Name:""}`, "members": "a(t=a,alive) ab(t=ab,alive) b(t=b,failed) a|b(t=a|b,left) ba(leaving) A(t=\"\",alive)", "expected": "a and b"})
}
