package checks

import (
	"os"
	"crypto/sha1"
	"fmt"
	"net"
	"sort"
	"strconv"
	"strings"
	"time"

	"verifharness/vc"
	"verifharness/world"

	"github.com/hashicorp/memberlist"
	"github.com/hashicorp/serf/serf"
	"github.com/hashicorp/serf/zzverif/vsched"
)

// Cluster model shared by C01 and C02: N real Serf nodes, each over an inert
// memberlist; the harness plays memberlist and the network according to the
// contract of DESIGN.md §2.3. A state is an action history; every action calls
// real handlers.

type clNode struct {
	idx     int
	name    string
	n       *world.Node
	phase   string // run | leaving | left | crashed
	epoch   int
	view    map[string]int // memberlist view of this node: 1 alive, 2 dead, 3 left (dead by the member's own announcement)
	outbox  map[string]bool
	threads []vsched.Handle
	leaveTh *vsched.Handle
	knows   map[string]bool // leave facts ("x@ltime") this node has been handed
	sawUp   map[string]int  // per member: 1 + the newest incarnation (epoch) of it that this node's memberlist held alive
}

func (c *clNode) up() bool { return c.phase == "run" || c.phase == "leaving" }

// mlAlive: memberlist can still present the node as alive to its peers. Once a
// leaving node has done its memberlist-level leave (it then lists itself as left)
// its own "dead" message wins over any later alive claim.
func (c *clNode) mlAlive() bool {
	if c.phase == "run" {
		return true
	}
	if c.phase != "leaving" {
		return false
	}
	for _, m := range serf.VDump(c.n.S).Members {
		if m.Name == c.name {
			return m.Status != "left"
		}
	}
	return false
}

type cluster struct {
	nodes   []*clNode
	side    map[int]int // partition side per node index (all 0 = healed)
	faults  bool
	budget  int
	used    int
	joinLT  map[string]uint64 // newest join intent a node broadcast about itself
	leaveLT map[string]uint64 // newest leave / force-leave intent about a node
	graceful map[string]bool  // the node completed a graceful Leave in its current incarnation
	claimedUp map[string]bool // somebody force-left the member while it was in fact up (a wrong claim)
	viol    []vc.BFSViolation
	log     []string
}

// clPreKind: 0 = singleton nodes; 1 = formed, converged cluster; 2 = formed cluster whose last node has
// crashed and been detected everywhere; 3 = formed cluster whose last node has left gracefully (its
// intent delivered everywhere, its memberlist departure seen everywhere).
func clPreKind(scn string) int {
	for _, kv := range strings.Split(scn, ";") {
		if strings.HasPrefix(kv, "pre=") {
			v, _ := strconv.Atoi(kv[4:])
			return v
		}
	}
	return 0
}

func clPre(scn string) bool { return clPreKind(scn) > 0 }

// clPreHist is the part of the pre-state's construction that matters to root-cause attribution.
func clPreHist(scn string) []string {
	n, _, _ := clParse(scn)
	switch clPreKind(scn) {
	case 2:
		return []string{fmt.Sprintf("crash %d", n-1)}
	case 3:
		return []string{fmt.Sprintf("leave %d", n-1)}
	}
	return nil
}

// applyAll applies enabled actions with the given prefix until none is left (at most 50).
func (cl *cluster) applyAll(prefix string) {
	for i := 0; i < 50; i++ {
		done := true
		for _, a := range cl.enabled() {
			if strings.HasPrefix(a, prefix) && cl.apply(a) {
				done = false
				break
			}
		}
		if done {
			return
		}
	}
}

func clParse(scn string) (n, budget int, faults bool) {
	n, budget = 2, 3
	for _, kv := range strings.Split(scn, ";") {
		p := strings.SplitN(kv, "=", 2)
		if len(p) != 2 {
			continue
		}
		v, _ := strconv.Atoi(p[1])
		switch p[0] {
		case "N":
			n = v
		case "L":
			budget = v
		case "faults":
			faults = v != 0
		}
	}
	return
}

func clName(i int) string { return fmt.Sprintf("n%d", i) }

func (cl *cluster) newNode(i, epoch int) *clNode {
	nd, err := world.NewNode(clName(i), i, func(c *serf.Config) {
		c.ReapInterval = 24 * time.Hour
		c.ReconnectInterval = 24 * time.Hour
		c.QueueCheckInterval = 24 * time.Hour
	})
	if err != nil {
		panic(err)
	}
	return &clNode{idx: i, name: clName(i), n: nd, phase: "run", epoch: epoch, view: map[string]int{}, outbox: map[string]bool{}, knows: map[string]bool{}}
}

func (cl *cluster) reachable(a, b *clNode) bool { return cl.side[a.idx] == cl.side[b.idx] }

func (cl *cluster) byName(s string) *clNode {
	for _, n := range cl.nodes {
		if n.name == s {
			return n
		}
	}
	return nil
}

func (cl *cluster) mlnode(on *clNode, about *clNode) *memberlist.Node {
	return on.n.MLNode(about.name, about.idx, nil)
}

// learnAlive makes k's memberlist view hold x alive (NotifyJoin if it was not).
func (cl *cluster) learnAlive(k, x *clNode) {
	if k == x || k.view[x.name] == 1 {
		return
	}
	k.view[x.name] = 1
	if k.sawUp == nil {
		k.sawUp = map[string]int{}
	}
	k.sawUp[x.name] = x.epoch + 1
	k.n.Events().NotifyJoin(cl.mlnode(k, x))
}

func (cl *cluster) learnDead(k, x *clNode) {
	if k == x || k.view[x.name] != 1 {
		return
	}
	k.view[x.name] = 2
	if !x.mlAlive() && (x.phase == "leaving" || x.phase == "left") {
		k.view[x.name] = 3 // x announced its own departure at the memberlist level
	}
	k.n.Events().NotifyLeave(cl.mlnode(k, x))
}

// mergeTable is the node-table half of a state exchange as live memberlist does it
// (conformance harness, DESIGN.md 2.3 (c)): alive entries are adopted, except that a
// receiver which holds the SENDER itself dead ignores the sender's unchanged alive
// claim -- the sender refutes once it sees itself listed dead in the reply, so that
// alive notification arrives after the exchange (the sender is returned as deferred);
// an entry listed as left makes the receiver declare that node dead inside the exchange.
func (cl *cluster) mergeTable(from, to *clNode) (deferred bool) {
	for _, x := range cl.aliveKnown(from) {
		if x == from && to.view[from.name] >= 2 {
			deferred = true
			continue
		}
		cl.learnAlive(to, x)
	}
	for _, x := range cl.nodes {
		if x != to && x != from && from.view[x.name] == 3 && to.view[x.name] == 1 && !x.mlAlive() {
			cl.learnDead(to, x)
		}
	}
	return deferred
}

// settle runs the system to quiescence and finishes lifecycle calls that returned.
func (cl *cluster) settle() {
	for round := 0; round < 4; round++ {
		vsched.Quiesce()
		progress := false
		for _, k := range cl.nodes {
			if !k.up() {
				continue
			}
			if k.leaveTh != nil && k.leaveTh.Done() {
				k.leaveTh = nil
				k.phase = "left"
				cl.graceful[k.name] = true
				k.n.S.Shutdown()
				progress = true
			}
		}
		if !progress {
			return
		}
	}
}

// gossip is memberlist taking the node's queued broadcasts (which also completes
// "broadcast sent" notifications) and putting them on the network.
func (cl *cluster) gossip(k *clNode) bool {
	any := false
	for _, m := range k.n.Outbox() {
		s := string(m)
		if !k.outbox[s] {
			k.outbox[s] = true
		}
		any = true
		cl.noteIntent(k, m)
	}
	return any
}

// noteIntent records the Lamport times of intents a node originated or re-broadcast.
func (cl *cluster) noteIntent(k *clNode, m []byte) {
	switch m[0] {
	case serf.VMsgJoin:
		var j serf.VMessageJoin
		if serf.VDecode(m[1:], &j) == nil && j.Node == k.name && uint64(j.LTime) > cl.joinLT[j.Node] {
			cl.joinLT[j.Node] = uint64(j.LTime)
		}
	case serf.VMsgLeave:
		var l serf.VMessageLeave
		if serf.VDecode(m[1:], &l) == nil {
			if uint64(l.LTime) > cl.leaveLT[l.Node] {
				cl.leaveLT[l.Node] = uint64(l.LTime)
			}
			k.knows[fmt.Sprintf("%s@%d", l.Node, l.LTime)] = true
		}
	}
}

func clHash(m string) string {
	h := sha1.Sum([]byte(m))
	return fmt.Sprintf("%x", h[:3])
}

func clDescribe(m string) string {
	b := []byte(m)
	switch b[0] {
	case serf.VMsgJoin:
		var j serf.VMessageJoin
		serf.VDecode(b[1:], &j)
		return fmt.Sprintf("join(%s,%d)", j.Node, j.LTime)
	case serf.VMsgLeave:
		var l serf.VMessageLeave
		serf.VDecode(b[1:], &l)
		return fmt.Sprintf("leave(%s,%d)", l.Node, l.LTime)
	}
	return fmt.Sprintf("msg%d", b[0])
}

func (cl *cluster) sortedOutbox(k *clNode) []string {
	var out []string
	for m := range k.outbox {
		out = append(out, m)
	}
	sort.Slice(out, func(i, j int) bool { return clDescribe(out[i])+out[i] < clDescribe(out[j])+out[j] })
	return out
}

// pushPullExchange is memberlist's TCP state sync between a (initiator) and b.
func (cl *cluster) pushPull(a, b *clNode, join bool) {
	la := a.n.Delegate().LocalState(join)
	lb := b.n.Delegate().LocalState(join)
	// memberlist merges the node tables first (alive nodes only; it never declares
	// a node dead from a push/pull), then hands the user state to the delegate
	lateA := cl.mergeTable(a, b)
	b.n.Delegate().MergeRemoteState(la, join)
	cl.transfer(a, b)
	lateB := cl.mergeTable(b, a)
	a.n.Delegate().MergeRemoteState(lb, join)
	cl.transfer(b, a)
	if lateA {
		cl.learnAlive(b, a)
	}
	if lateB {
		cl.learnAlive(a, b)
	}
}

// transfer: a state sync from -> to carries what from knows about the members it
// lists (status times, left list); intents it merely buffers for unknown members
// are not part of the exchange.
func (cl *cluster) transfer(from, to *clNode) {
	lists := clSnapshot(from).status
	for f := range from.knows {
		if i := strings.Index(f, "@"); i > 0 {
			if _, ok := lists[f[:i]]; ok {
				to.knows[f] = true
			}
		}
	}
}

func (cl *cluster) aliveKnown(k *clNode) []*clNode {
	out := []*clNode{k}
	for _, x := range cl.nodes {
		if x != k && k.view[x.name] == 1 && x.mlAlive() {
			out = append(out, x)
		}
	}
	return out
}

type clSnap struct {
	status map[string]string
	ltime  map[string]uint64
}

func clSnapshot(k *clNode) clSnap {
	s := clSnap{map[string]string{}, map[string]uint64{}}
	if !k.up() {
		return s
	}
	for _, m := range serf.VDump(k.n.S).Members {
		s.status[m.Name] = m.Status
		s.ltime[m.Name] = m.StatusLTime
	}
	return s
}

func (cl *cluster) violate(sig, class, msg string) {
	for _, v := range cl.viol {
		if v.Signature == sig {
			return
		}
	}
	cl.viol = append(cl.viol, vc.BFSViolation{Signature: sig, Class: class, Message: msg})
}

// apply executes one action; it returns false if the action is not applicable.
func (cl *cluster) apply(act string) bool {
	f := strings.Fields(act)
	node := func(s string) *clNode {
		i, _ := strconv.Atoi(s)
		if i < 0 || i >= len(cl.nodes) {
			return nil
		}
		return cl.nodes[i]
	}
	pre := map[int]clSnap{}
	for _, k := range cl.nodes {
		pre[k.idx] = clSnapshot(k)
	}
	var intentTo *clNode
	var intentNode string
	var intentLT uint64
	switch f[0] {
	case "join":
		a, b := node(f[1]), node(f[2])
		if a == nil || b == nil || a.phase != "run" || !b.up() || !cl.reachable(a, b) {
			return false
		}
		cl.used++
		late := false
		a.n.Tr.Dial = func(ad memberlist.Address) (net.Conn, error) {
			return world.NewPushPullConn(func(req []byte) []byte {
				_, ustate, _, _ := world.DecodePushPullRequest(req)
				lb := b.n.Delegate().LocalState(true)
				late = cl.mergeTable(a, b)
				if len(ustate) > 0 {
					b.n.Delegate().MergeRemoteState(ustate, true)
				}
				cl.transfer(a, b)
				cl.mergeTable(b, a)
				cl.transfer(b, a)
				return world.EncodePushPull(nil, lb, true)
			}), nil
		}
		if _, err := a.n.S.Join([]string{b.name + "/" + world.NodeIP(b.idx).String() + ":7946"}, false); err != nil {
			cl.violate("harness: join failed", "harness", err.Error())
		}
		a.n.Tr.Dial = nil
		if late {
			cl.learnAlive(b, a) // a's refutation of "dead", gossiped right after the exchange
		}
	case "leave":
		a := node(f[1])
		if a == nil || a.phase != "run" {
			return false
		}
		cl.used++
		a.phase = "leaving"
		if lt := serf.VDump(a.n.S).Clock; lt > cl.leaveLT[a.name] {
			cl.leaveLT[a.name] = lt // the leave intent carries the clock value at the call
		}
		a.knows[fmt.Sprintf("%s@%d", a.name, cl.leaveLT[a.name])] = true
		h := vsched.Spawn("leave-"+a.name, func() { a.n.S.Leave() })
		a.leaveTh = &h
	case "crash":
		a := node(f[1])
		if a == nil || !a.up() {
			return false
		}
		cl.used++
		a.phase = "crashed"
		cl.graceful[a.name] = false
		if a.leaveTh == nil {
			a.n.S.Shutdown()
		} // else: the abandoned instance's Leave thread may still run; nothing it does is observed
		a.leaveTh = nil
	case "restart":
		a := node(f[1])
		if a == nil || a.up() || !cl.deathKnown(a) {
			return false
		}
		cl.used++
		nn := cl.newNode(a.idx, a.epoch+1)
		cl.nodes[a.idx] = nn
		cl.graceful[a.name] = false
		cl.claimedUp[a.name] = false
		cl.joinLT[a.name] = 0
	case "forceleave":
		a, x := node(f[1]), node(f[2])
		if a == nil || x == nil || a == x || a.phase != "run" {
			return false
		}
		if _, known := pre[a.idx].status[x.name]; !known {
			return false
		}
		cl.used++
		if x.up() {
			cl.claimedUp[x.name] = true
		}
		if lt := serf.VDump(a.n.S).Clock; lt > cl.leaveLT[x.name] {
			cl.leaveLT[x.name] = lt
		}
		a.knows[fmt.Sprintf("%s@%d", x.name, serf.VDump(a.n.S).Clock)] = true
		a.threads = append(a.threads, vsched.Spawn("forceleave-"+a.name, func() { a.n.S.RemoveFailedNode(x.name) }))
	case "cut":
		// partition: node f[1] alone against the rest
		a := node(f[1])
		if a == nil || cl.side[a.idx] != 0 {
			return false
		}
		cl.used++
		cl.side[a.idx] = 1
	case "heal":
		any := false
		for i, s := range cl.side {
			if s != 0 {
				cl.side[i] = 0
				any = true
			}
		}
		if !any {
			return false
		}
	case "deliver":
		a, b := node(f[1]), node(f[2])
		if a == nil || b == nil || a == b || !b.up() || !cl.reachable(a, b) || a.view[b.name] != 1 {
			return false // memberlist gossips only to nodes it holds alive
		}
		var msg string
		for m := range a.outbox {
			if clHash(m) == f[3] {
				msg = m
			}
		}
		if msg == "" {
			return false
		}
		raw := []byte(msg)
		switch raw[0] {
		case serf.VMsgJoin:
			var j serf.VMessageJoin
			serf.VDecode(raw[1:], &j)
			intentTo, intentNode, intentLT = b, j.Node, uint64(j.LTime)
		case serf.VMsgLeave:
			var l serf.VMessageLeave
			serf.VDecode(raw[1:], &l)
			intentTo, intentNode, intentLT = b, l.Node, uint64(l.LTime)
			b.knows[fmt.Sprintf("%s@%d", l.Node, l.LTime)] = true
		}
		b.n.Delegate().NotifyMsg(raw)
	case "mljoin":
		k, x := node(f[1]), node(f[2])
		if k == nil || x == nil || !k.up() || !x.mlAlive() || k.view[x.name] == 1 || !cl.reachable(k, x) || !cl.connected(k, x) {
			return false
		}
		cl.learnAlive(k, x)
	case "mlleave":
		k, x := node(f[1]), node(f[2])
		if k == nil || x == nil || !k.up() || k.view[x.name] != 1 || (x.up() && cl.reachable(k, x)) {
			return false
		}
		cl.learnDead(k, x)
	case "pushpull":
		a, b := node(f[1]), node(f[2])
		if a == nil || b == nil || !a.up() || !b.up() || a.view[b.name] != 1 || !cl.reachable(a, b) {
			return false
		}
		cl.pushPull(a, b, false)
	case "gossip":
		a := node(f[1])
		if a == nil || !a.up() || serf.VDump(a.n.S).IntentQueue == 0 {
			return false
		}
		cl.gossip(a)
	case "tick":
		vsched.Advance(int64(1500 * time.Millisecond))
	default:
		return false
	}
	cl.settle()
	// step invariants (C02): status times only grow; a stale intent changes no status
	for _, k := range cl.nodes {
		if !k.up() {
			continue
		}
		post := clSnapshot(k)
		for name, lt := range pre[k.idx].ltime {
			if plt, still := post.ltime[name]; still && plt < lt {
				cl.violate("status-time-decreased", "step", fmt.Sprintf("after %q: node %s recorded status time %d for %s, before it was %d", act, k.name, plt, name, lt))
			}
		}
		if k == intentTo {
			if lt, known := pre[k.idx].ltime[intentNode]; known && intentLT <= lt {
				if post.status[intentNode] != pre[k.idx].status[intentNode] {
					cl.violate("stale-intent-changed-status", "step", fmt.Sprintf("after %q: node %s held %s as %s with status time %d; an intent with Lamport time %d (not newer) changed it to %s", act, k.name, intentNode, pre[k.idx].status[intentNode], lt, intentLT, post.status[intentNode]))
				}
			}
		}
	}
	return true
}

// connected: k and x are linked through mutually reachable live nodes whose views hold each other alive.
func (cl *cluster) connected(k, x *clNode) bool {
	seen := map[int]bool{k.idx: true}
	q := []*clNode{k}
	for len(q) > 0 {
		c := q[0]
		q = q[1:]
		for _, y := range cl.nodes {
			if seen[y.idx] || !y.up() || !cl.reachable(c, y) {
				continue
			}
			if c.view[y.name] == 1 || y.view[c.name] == 1 {
				seen[y.idx] = true
				q = append(q, y)
			}
		}
	}
	return seen[x.idx]
}

func (cl *cluster) enabled() []string {
	var out []string
	budget := cl.used < cl.budget
	for _, a := range cl.nodes {
		for _, b := range cl.nodes {
			if a == b {
				continue
			}
			if budget && a.phase == "run" && b.up() && cl.reachable(a, b) && a.view[b.name] != 1 {
				out = append(out, fmt.Sprintf("join %d %d", a.idx, b.idx))
			}
			if budget && a.phase == "run" {
				if st, known := clSnapshot(a).status[b.name]; known && (st == "failed" || st == "leaving" || (cl.faults && st == "alive" && !b.up())) {
					out = append(out, fmt.Sprintf("forceleave %d %d", a.idx, b.idx))
				}
			}
			if a.up() && b.mlAlive() && a.view[b.name] != 1 && cl.reachable(a, b) && cl.connected(a, b) {
				out = append(out, fmt.Sprintf("mljoin %d %d", a.idx, b.idx))
			}
			if a.up() && a.view[b.name] == 1 && (!b.up() || !cl.reachable(a, b)) {
				out = append(out, fmt.Sprintf("mlleave %d %d", a.idx, b.idx))
			}
			if a.idx < b.idx && a.up() && b.up() && cl.reachable(a, b) && (a.view[b.name] == 1 || b.view[a.name] == 1) {
				x, y := a, b
				if x.view[y.name] != 1 {
					x, y = b, a
				}
				out = append(out, fmt.Sprintf("pushpull %d %d", x.idx, y.idx))
			}
			if b.up() && cl.reachable(a, b) && a.view[b.name] == 1 {
				for _, m := range cl.sortedOutbox(a) {
					out = append(out, fmt.Sprintf("deliver %d %d %s", a.idx, b.idx, clHash(m)))
				}
			}
		}
		if budget && a.phase == "run" {
			out = append(out, fmt.Sprintf("leave %d", a.idx))
		}
		if a.up() && serf.VDump(a.n.S).IntentQueue > 0 {
			out = append(out, fmt.Sprintf("gossip %d", a.idx))
		}
		if budget && cl.faults && a.up() {
			out = append(out, fmt.Sprintf("crash %d", a.idx))
		}
		if budget && cl.faults && !a.up() && a.epoch == 0 && cl.deathKnown(a) {
			out = append(out, fmt.Sprintf("restart %d", a.idx))
		}
		if budget && cl.faults && a.up() && len(cl.nodes) > 2 && cl.side[a.idx] == 0 && cl.allHealed() {
			out = append(out, fmt.Sprintf("cut %d", a.idx))
		}
	}
	if !cl.allHealed() {
		out = append(out, "heal")
	}
	if cl.pending() {
		out = append(out, "tick")
	}
	return out
}

func (cl *cluster) pending() bool {
	for _, a := range cl.nodes {
		if a.up() && a.leaveTh != nil {
			return true
		}
		for _, t := range a.threads {
			if a.up() && !t.Done() {
				return true
			}
		}
	}
	return false
}

// deathKnown: memberlist has reported the node dead at every live node that held
// it alive (a restart is modelled only after failure detection has run).
func (cl *cluster) deathKnown(a *clNode) bool {
	for _, k := range cl.nodes {
		if k != a && k.up() && k.view[a.name] == 1 {
			return false
		}
	}
	return true
}

func (cl *cluster) allHealed() bool {
	for _, s := range cl.side {
		if s != 0 {
			return false
		}
	}
	return true
}

func (cl *cluster) key() string {
	var sb strings.Builder
	for _, k := range cl.nodes {
		fmt.Fprintf(&sb, "[%s %s e%d side%d ", k.name, k.phase, k.epoch, cl.side[k.idx])
		if k.up() {
			d := serf.VDump(k.n.S)
			fmt.Fprintf(&sb, "st=%s clk=%d q=%d ", d.State, d.Clock, d.IntentQueue)
			for _, m := range d.Members {
				fmt.Fprintf(&sb, "%s:%s:%d ", m.Name, m.Status, m.StatusLTime)
			}
			fmt.Fprintf(&sb, "F%v L%v ", d.Failed, d.Left)
			for _, in := range d.Intents {
				fmt.Fprintf(&sb, "I%s:%d:%d ", in.Node, in.Type, in.LTime)
			}
			var vs []string
			for n, v := range k.view {
				vs = append(vs, fmt.Sprintf("%s=%d", n, v))
			}
			sort.Strings(vs)
			fmt.Fprintf(&sb, "view%v ", vs)
			if k.leaveTh != nil {
				fmt.Fprintf(&sb, "leave@%s ", k.leaveTh.Where())
			}
			for _, t := range k.threads {
				if !t.Done() {
					fmt.Fprintf(&sb, "fl@%s ", t.Where())
				}
			}
			var kn []string
			for f := range k.knows {
				kn = append(kn, f)
			}
			sort.Strings(kn)
			fmt.Fprintf(&sb, "kn%v ", kn)
		}
		var ms []string
		for m := range k.outbox {
			ms = append(ms, clDescribe(m))
		}
		sort.Strings(ms)
		fmt.Fprintf(&sb, "out%v] ", ms)
	}
	fmt.Fprintf(&sb, "used=%d", cl.used)
	return sb.String()
}

// closure heals the network, lets memberlist converge and syncs all connected
// pairs until nothing changes (messages still in flight are lost); then the convergence
// predicate of C01/C02 is evaluated.
func (cl *cluster) closure() {
	for i := range cl.side {
		cl.side[i] = 0
	}
	prev := ""
	for round := 0; round < 12; round++ {
		// queued broadcasts go out; lifecycle calls finish
		for _, k := range cl.nodes {
			if k.up() {
				cl.gossip(k)
			}
		}
		cl.settle()
		for t := 0; t < 4 && cl.pending(); t++ {
			vsched.Advance(int64(1500 * time.Millisecond))
			cl.settle()
		}
		// memberlist converges
		for _, k := range cl.nodes {
			for _, x := range cl.nodes {
				if k == x || !k.up() {
					continue
				}
				if !x.up() {
					cl.learnDead(k, x)
				} else if k.view[x.name] != 1 && x.mlAlive() && cl.connected(k, x) {
					cl.learnAlive(k, x)
				}
			}
		}
		// a node that still lists a peer as failed keeps trying to reconnect (serf's reconnect loop)
		for _, k := range cl.nodes {
			if !k.up() {
				continue
			}
			for name, st := range clSnapshot(k).status {
				x := cl.byName(name)
				if st == "failed" && x != nil && x.up() && k.view[x.name] != 1 {
					cl.pushPull(k, x, true)
				}
			}
		}
		cl.settle()
		// Intents about members that are down and still in flight are lost: for departed
		// members the statement promises agreement after a state sync whatever was
		// delivered before. Claims about a member that is up do arrive (at it and at the
		// others): serf's refutation of a wrong leave relies on gossip reaching its subject.
		for _, a := range cl.nodes {
			for _, m := range cl.sortedOutbox(a) {
				subj := ""
				switch m[0] {
				case serf.VMsgJoin:
					var j serf.VMessageJoin
					serf.VDecode([]byte(m)[1:], &j)
					subj = j.Node
				case serf.VMsgLeave:
					var l serf.VMessageLeave
					serf.VDecode([]byte(m)[1:], &l)
					subj = l.Node
				}
				x := cl.byName(subj)
				if x == nil || !x.up() {
					continue
				}
				for _, b := range cl.nodes {
					if b.up() {
						b.n.Delegate().NotifyMsg([]byte(m))
					}
				}
			}
		}
		cl.settle()
		for _, a := range cl.nodes {
			for _, b := range cl.nodes {
				if a.idx < b.idx && a.up() && b.up() && (a.view[b.name] == 1 || b.view[a.name] == 1) {
					cl.pushPull(a, b, false)
				}
			}
		}
		cl.settle()
		k := cl.key()
		if k == prev {
			break
		}
		prev = k
	}
}

func (cl *cluster) oracle(hist []string) {
	var live []*clNode
	for _, k := range cl.nodes {
		if k.phase == "run" {
			live = append(live, k)
		}
	}
	for _, k := range live {
		snap := clSnapshot(k)
		if snap.status[k.name] != "alive" {
			cl.violate("self-not-alive", "self", fmt.Sprintf("running node %s lists itself as %s", k.name, snap.status[k.name]))
		}
		for name, got := range snap.status {
			x := cl.byName(name)
			if x == nil || x == k {
				continue
			}
			var want []string
			switch {
			case x.phase == "run":
				if k.view[x.name] == 1 {
					want = []string{"alive"}
				} else {
					continue // never (re)connected to x: nothing demanded
				}
			case x.phase == "leaving":
				want = []string{"alive", "leaving"}
			default: // down
				if k.sawUp[name] < x.epoch+1 {
					// k's memberlist never held this incarnation of the member alive (it went down
					// before its refutation of "dead/left" reached k): what k reports is the fate of
					// the previous incarnation, which is all it can know
					continue
				}
				left := cl.graceful[name] || cl.leaveLT[name] > cl.joinLT[name]
				if cl.claimedUp[name] {
					// the member was force-left while it was up and the claim may never have reached it
					// (it would have refuted it); memberlist brought it back as alive meanwhile. Whether
					// its later departure counts as left or failed is not settled by the statement.
					want = []string{"left", "failed"}
				} else if left {
					want = []string{"left"}
					// the intent must have been handed to a node that is still running
					handed := false
					for _, y := range live {
						if y != k && !cl.connected(k, y) {
							continue
						}
						if _, lists := clSnapshot(y).status[name]; !lists {
							// y only buffers the intent for a member it never learnt of; buffered
							// intents are not part of state sync, so y cannot pass it on
							continue
						}
						for f := range y.knows {
							if strings.HasPrefix(f, name+"@") {
								lt, _ := strconv.ParseUint(f[len(name)+1:], 10, 64)
								if lt > cl.joinLT[name] {
									handed = true
								}
							}
						}
					}
					if !handed {
						want = []string{"left", "failed"}
					}
				} else if !cl.graceful[name] && cl.leaveLT[name] > 0 && cl.leaveLT[name] == cl.joinLT[name] {
					// a force-leave concurrent with the join (equal Lamport times): unordered, both accepted
					want = []string{"left", "failed"}
				} else {
					want = []string{"failed"}
				}
			}
			ok := false
			for _, w := range want {
				if w == got {
					ok = true
				}
			}
			if !ok {
				truth := strings.Join(want, "|")
				cl.violate(fmt.Sprintf("settled: truth=%s reported=%s member=%d", truth, got, x.idx), fmt.Sprintf("truth=%s reported=%s member=%d", truth, got, x.idx),
					fmt.Sprintf("after healing, delivering everything and syncing until nothing changes, running node %s reports %s as %s; %s is %s (epoch %d, newest own join %d, newest leave intent %d, graceful leave completed: %v) so it should be %s.\nstates: %s", k.name, name, got, name, x.phase, x.epoch, cl.joinLT[name], cl.leaveLT[name], cl.graceful[name], truth, cl.key()))
			}
		}
	}
}

type clusterModel struct{}

func (clusterModel) Exec(scenario string, hist []string) vc.BFSState {
	if strings.HasPrefix(scenario, "observer") {
		return obsExec(scenario, hist)
	}
	var st vc.BFSState
	x := vsched.Run(vsched.RunOpts{MaxSteps: 3000000}, func() {
		n, budget, faults := clParse(scenario)
		cl := &cluster{side: map[int]int{}, faults: faults, budget: budget, joinLT: map[string]uint64{}, leaveLT: map[string]uint64{}, graceful: map[string]bool{}, claimedUp: map[string]bool{}}
		vsched.SetHorizon(0)
		for i := 0; i < n; i++ {
			cl.nodes = append(cl.nodes, cl.newNode(i, 0))
		}
		cl.settle()
		for _, k := range cl.nodes {
			k.n.DrainEvents()
		}
		if clPre(scenario) {
			// start from a formed, converged cluster: everybody joined n0, all join
			// intents delivered, memberlist views complete, one round of push/pull
			for i := 1; i < n; i++ {
				if !cl.apply(fmt.Sprintf("join %d 0", i)) {
					st.Err = "pre-join failed"
					return
				}
			}
			for _, a := range cl.nodes {
				for _, b := range cl.nodes {
					if a != b {
						cl.learnAlive(a, b)
					}
				}
			}
			for round := 0; round < 2; round++ {
				for _, a := range cl.nodes {
					cl.gossip(a)
				}
				for _, a := range cl.nodes {
					for _, m := range cl.sortedOutbox(a) {
						for _, b := range cl.nodes {
							if a != b {
								b.n.Delegate().NotifyMsg([]byte(m))
							}
						}
					}
				}
				cl.settle()
			}
			for _, a := range cl.nodes {
				for _, b := range cl.nodes {
					if a.idx < b.idx {
						cl.pushPull(a, b, false)
					}
				}
			}
			for _, a := range cl.nodes {
				cl.gossip(a)
				a.outbox = map[string]bool{}
			}
			cl.settle()
			cl.used = 0
			cl.viol = nil
			last := n - 1
			switch clPreKind(scenario) {
			case 2:
				if !cl.apply(fmt.Sprintf("crash %d", last)) {
					st.Err = "pre: crash failed"
					return
				}
				cl.applyAll("mlleave ")
			case 3:
				if !cl.apply(fmt.Sprintf("leave %d", last)) || !cl.apply(fmt.Sprintf("gossip %d", last)) {
					st.Err = "pre: leave failed"
					return
				}
				cl.applyAll(fmt.Sprintf("deliver %d ", last))
				for t := 0; t < 8 && cl.pending(); t++ {
					cl.apply("tick")
				}
				cl.applyAll("mlleave ")
				if cl.nodes[last].phase != "left" {
					st.Err = "pre: leave did not complete"
					return
				}
			}
			if clPreKind(scenario) > 1 {
				for _, a := range cl.nodes {
					if a.up() {
						cl.gossip(a)
					}
					a.outbox = map[string]bool{}
				}
				cl.settle()
				cl.used = 0
				if len(cl.viol) > 0 {
					st.Err = "pre: violation while building the start state: " + cl.viol[0].Message
					return
				}
			}
		}
		for _, a := range hist {
			if !cl.apply(a) {
				st.Err = fmt.Sprintf("action %q not applicable while replaying %v", a, hist)
				return
			}
		}
		st.Key = cl.key()
		st.Enabled = cl.enabled()
		st.Note = st.Key
		if os.Getenv("CL_NOCLOSURE") == "" {
			cl.closure()
			cl.oracle(hist)
		}
		st.Violations = cl.viol
		for _, k := range cl.nodes {
			if k.up() {
				k.n.S.Shutdown()
			}
		}
	})
	if len(x.Panics) > 0 {
		st.Violations = append(st.Violations, vc.BFSViolation{Signature: "panic " + x.Panics[0].Frame, Class: "panic", Message: x.Panics[0].Value + "\n" + x.Panics[0].Stack})
		if st.Key == "" {
			st.Key = "panic:" + strings.Join(hist, ",")
			st.Terminal = true
		}
	}
	if x.CapHit && st.Err == "" {
		st.Err = "step cap hit"
	}
	if st.Key == "" && st.Err == "" {
		st.Err = fmt.Sprintf("execution ended early: blocked %+v", x.Blocked)
	}
	return st
}
