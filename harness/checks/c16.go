package checks

import (
	"fmt"
	"io"
	"log"
	"strings"
	"time"

	"verifharness/vc"
	"verifharness/world"

	"github.com/hashicorp/serf/serf"
	"github.com/hashicorp/serf/zzverif/vos"
	"github.com/hashicorp/serf/zzverif/vsched"
)

// C16: Applications see each member's events in the order they happened.

func init() {
	vc.Register(&vc.Check{
		ID:    "C16",
		Level: "exploration",
		Rule: "schedules: all executions within the deviation bound (delay bounding, quick 2, thorough 3; coalescing timers firing early count as deviations) of a producer thread driving 8-9 member transitions of two members through the real handlers of a real Serf node while the real pipeline goroutines (snapshot tee and stream, internal-query filter, member coalescer, user coalescer) run, for the four configurations {snapshot on/off} x {coalescing on/off} and three transition scripts (flapping, graceful leave and rejoin, prune of a failed member); the application's channel is read at the end; non-trivial = at least one non-default choice; slow-application/member-events: the application does not read its (capacity 1) channel while two members change state, then reads everything (bound quick 1, thorough per tier)",
		Assumptions: []string{
			"memberlist's node notifications are serial (one producer thread), as under memberlist's node lock; gossip messages arrive on another thread (two-producers scenarios)",
			"the reference per-member sequence is the sequence of status changes the producer caused (one event kind per transition)",
			"buffers are large enough that no stage drops (checked: the last event must then match the member's current status)",
		},
		Run: c16run,
	})
}

type c16step struct {
	op   string // join | fail | leave (graceful: intent then memberlist leave) | prune (leave intent with the prune flag) | update | userev
	who  string
	kind string // expected event kind for who ("" = none)
}

func c16run(ctx *vc.Ctx) {
	bound := 2
	if ctx.Thorough() {
		bound = 3
	}
	scripts := map[string][]c16step{
		"flap": {
			{"join", "b", "member-join"}, {"join", "c", "member-join"}, {"fail", "b", "member-failed"}, {"userev", "", ""},
			{"join", "b", "member-join"}, {"leave", "c", "member-leave"}, {"update", "b", "member-update"}, {"fail", "b", "member-failed"}, {"join", "c", "member-join"},
		},
		"rejoin": {
			{"join", "b", "member-join"}, {"leave", "b", "member-leave"}, {"join", "b", "member-join"}, {"join", "c", "member-join"},
			{"update", "c", "member-update"}, {"update", "c", "member-update"}, {"fail", "c", "member-failed"}, {"fail", "b", "member-failed"},
		},
	}
	// prune: a leave intent with the prune flag for a failed member makes it leave and then erases it
	// (member-leave, then member-reap; the member is gone afterwards and may join again)
	scripts["prune"] = []c16step{
		{"join", "b", "member-join"}, {"join", "c", "member-join"}, {"fail", "b", "member-failed"}, {"prune", "b", "member-leave"},
		{"join", "b", "member-join"}, {"fail", "c", "member-failed"}, {"prune", "c", "member-leave"},
	}
	c16backpressure(ctx, bound)
	c16twoProducers(ctx, bound)
	c16slowApplication(ctx, bound-1)
	fb := 0
	if ctx.Thorough() {
		fb = 1
	}
	for _, sn := range []string{"flap", "rejoin", "prune"} {
		for _, snap := range []bool{false, true} {
			c16exploreF(ctx, sn, scripts[sn], snap, true, fb, true)
		}
	}
	for _, sn := range []string{"flap", "rejoin", "prune"} {
		for _, snap := range []bool{false, true} {
			for _, coal := range []bool{false, true} {
				c16explore(ctx, sn, scripts[sn], snap, coal, bound)
			}
		}
	}
}

func c16explore(ctx *vc.Ctx, sname string, script []c16step, snap, coal bool, bound int) {
	c16exploreF(ctx, sname, script, snap, coal, bound, false)
}

// flushes: after every transition the producer either goes on at once or lets 4 s of virtual time
// pass, which flushes the coalescers; every placement of these pauses is explored (they cost no
// deviation), so the batching stage sees the transitions split across batches in every way.
func c16exploreF(ctx *vc.Ctx, sname string, script []c16step, snap, coal bool, bound int, flushes bool) {
	var got map[string][]string
	var ref map[string][]string
	var status map[string]string
	var users int
	name := fmt.Sprintf("%s/snapshot=%v/coalesce=%v", sname, snap, coal)
	if flushes {
		name += "/every-flush-placement"
	}
	body := func() {
		vsched.Branching(false)
		got, ref, status, users = map[string][]string{}, map[string][]string{}, nil, 0
		if snap {
			vos.Install(vos.NewFS(nil))
			defer vos.Install(nil)
		}
		n, err := world.NewNode("a", 0, func(c *serf.Config) {
			if snap {
				c.SnapshotPath = "/snap/a"
			}
			if coal {
				c.CoalescePeriod = 3 * time.Second
				c.QuiescentPeriod = time.Second
				c.UserCoalescePeriod = 3 * time.Second
				c.UserQuiescentPeriod = time.Second
			}
		})
		if err != nil {
			panic(err)
		}
		vsched.Quiesce()
		vsched.Advance(int64(5 * time.Second))
		n.DrainEvents()
		idx := map[string]int{"b": 1, "c": 2}
		lt := uint64(10)
		vsched.SetHorizon(vsched.Elapsed() + int64(30*time.Second))
		if flushes {
			vsched.SetHorizon(vsched.Elapsed() + int64(120*time.Second))
		}
		if coal && !flushes {
			vsched.TimerChoice(true)
		}
		vsched.Branching(true)
		p := vsched.Spawn("memberlist", func() {
			for _, st := range script {
				switch st.op {
				case "join":
					n.Events().NotifyJoin(n.MLNode(st.who, idx[st.who], map[string]string{"v": "1"}))
				case "fail":
					n.Events().NotifyLeave(n.MLNode(st.who, idx[st.who], nil))
				case "leave":
					lt += 5
					n.Delegate().NotifyMsg(serf.VEncode(serf.VMsgLeave, &serf.VMessageLeave{LTime: serf.LamportTime(lt), Node: st.who}))
					n.Events().NotifyLeave(n.MLNode(st.who, idx[st.who], nil))
				case "prune":
					lt += 5
					n.Delegate().NotifyMsg(serf.VEncode(serf.VMsgLeave, &serf.VMessageLeave{LTime: serf.LamportTime(lt), Node: st.who, Prune: true}))
				case "update":
					lt++
					n.Events().NotifyUpdate(n.MLNode(st.who, idx[st.who], map[string]string{"v": fmt.Sprint(lt)}))
				case "userev":
					n.Delegate().NotifyMsg(serf.VEncode(serf.VMsgUserEvent, &serf.VMessageUserEvent{LTime: 3, Name: "deploy", CC: true}))
				}
				if st.kind != "" {
					ref[st.who] = append(ref[st.who], st.kind)
				}
				if st.op == "prune" {
					ref[st.who] = append(ref[st.who], "member-reap")
				}
				if flushes && vsched.Choose(2, "pause-after-transition") == 1 {
					vsched.Sleep(int64(4*time.Second), "producer-pause")
				}
			}
		})
		p.Join()
		vsched.TimerChoice(false)
		vsched.Branching(false)
		vsched.Advance(int64(20 * time.Second))
		vsched.Quiesce()
		for _, e := range n.DrainEvents() {
			switch t := e.(type) {
			case serf.MemberEvent:
				for _, m := range t.Members {
					got[m.Name] = append(got[m.Name], t.Type.String())
				}
			case serf.UserEvent:
				users++
			}
		}
		status = n.MemberStatus()
		n.S.Shutdown()
	}
	check := func(x *vsched.Exec) (string, string, string) {
		if len(x.Panics) > 0 {
			return "panic", "panic " + x.Panics[0].Frame, x.Panics[0].Value + "\n" + x.Panics[0].Stack
		}
		if !x.RootDone {
			return "stuck", "deadlock", fmt.Sprintf("blocked %+v", x.Blocked)
		}
		var out []string
		for _, who := range []string{"b", "c"} {
			g, r := got[who], ref[who]
			j := 0
			for _, k := range g {
				for j < len(r) && r[j] != k {
					j++
				}
				if j == len(r) {
					return "order", "member events out of order", fmt.Sprintf("%s: member %s changed status as %v but the application received %v, which is not an in-order subsequence", name, who, r, g)
				}
				j++
			}
			if len(g) == 0 {
				return "none", "no event for member", fmt.Sprintf("%s: no event at all for member %s (status changes %v)", name, who, r)
			}
			last := g[len(g)-1]
			want := map[string]string{"member-join": "alive", "member-update": "alive", "member-failed": "failed", "member-leave": "left", "member-reap": ""}[last]
			if want != status[who] {
				return "last", "last event does not match current status", fmt.Sprintf("%s: nothing was dropped, member %s is %s, but the last event the application received for it is %s (received %v, status changes %v)", name, who, status[who], last, g, r)
			}
			out = append(out, who+":"+strings.Join(g, ","))
		}
		return strings.Join(out, " "), "", ""
	}
	ctx.Explore(vc.ExploreOpts{Name: name, Bound: bound, MaxSteps: 100000, EnvFree: flushes}, body, check)
}

// c16backpressure drives the real Snapshotter stage alone with a 1-slot downstream
// channel and a consumer that takes events one at a time: a full downstream
// channel may make the stage drop events (allowed), never reorder them.
func c16backpressure(ctx *vc.Ctx, bound int) {
	kinds := []serf.EventType{serf.EventMemberJoin, serf.EventMemberFailed, serf.EventMemberJoin, serf.EventMemberLeave, serf.EventMemberJoin, serf.EventMemberFailed}
	var got []int
	body := func() {
		vsched.Branching(false)
		got = nil
		vos.Install(vos.NewFS(nil))
		defer vos.Install(nil)
		clock := &serf.LamportClock{}
		clock.Increment()
		out := make(chan serf.Event, 1)
		sh := make(chan struct{})
		in, snap, err := serf.NewSnapshotter("/snap/bp", 128*1024, false, log.New(io.Discard, "", 0), clock, out, sh)
		if err != nil {
			panic(err)
		}
		vsched.Quiesce()
		vsched.Branching(true)
		p := vsched.Spawn("producer", func() {
			for i, k := range kinds {
				in <- serf.MemberEvent{Type: k, Members: []serf.Member{{Name: "b", Port: uint16(i)}}}
				vsched.Yield("produced")
			}
		})
		c := vsched.Spawn("consumer", func() {
			for n := 0; n < 40; n++ {
				select {
				case e := <-out:
					got = append(got, int(e.(serf.MemberEvent).Members[0].Port))
				default:
				}
				vsched.Yield("consumer-poll")
			}
		})
		p.Join()
		c.Join()
		vsched.Branching(false)
		vsched.Quiesce()
		for {
			select {
			case e := <-out:
				got = append(got, int(e.(serf.MemberEvent).Members[0].Port))
				vsched.Quiesce()
				continue
			default:
			}
			break
		}
		close(sh)
		vsched.Quiesce()
		snap.Wait()
	}
	check := func(x *vsched.Exec) (string, string, string) {
		if len(x.Panics) > 0 {
			return "panic", "panic " + x.Panics[0].Frame, x.Panics[0].Value + "\n" + x.Panics[0].Stack
		}
		if !x.RootDone {
			return "stuck", "deadlock", fmt.Sprintf("blocked %+v", x.Blocked)
		}
		for i := 1; i < len(got); i++ {
			if got[i] <= got[i-1] {
				return "order", "snapshot stage reordered member events under back-pressure", fmt.Sprintf("transitions 0..%d of one member were pushed in order through the snapshot stage with a 1-slot downstream channel; the consumer received them as %v", len(kinds)-1, got)
			}
		}
		return fmt.Sprint(got), "", ""
	}
	ctx.Explore(vc.ExploreOpts{Name: "snapshot-stage/backpressure", Bound: bound, MaxSteps: 100000}, body, check)
}

// c16twoProducers: memberlist's node notifications and gossip messages are delivered by different
// goroutines. The failure notification for b (alive -> failed) races with a leave intent about b
// (alive -> leaving, or failed -> left), likewise an alive notification races with a leave intent.
// Whatever the interleaving, the events for b must be one of the orders in which b's status can
// have changed, and the last one must match b's status.
func c16twoProducers(ctx *vc.Ctx, bound int) {
	type prog struct {
		name    string
		pre     []string // before the race: "dead", "leave"
		t1, t2  string   // the two racing deliveries: dead | alive | leave | prune
		allowed [][]string
	}
	progs := []prog{
		{"dead(b) || leave-intent(b)", nil, "dead", "leave", [][]string{{"member-join", "member-failed", "member-leave"}, {"member-join", "member-leave"}}},
		{"alive(b) || leave-intent(b), b failed before", []string{"dead"}, "alive", "leave", [][]string{{"member-join", "member-failed", "member-leave", "member-join"}, {"member-join", "member-failed", "member-join"}}},
	}
	for _, p := range progs {
		p := p
		var got []string
		var status string
		body := func() {
			vsched.Branching(false)
			vsched.StepsIn("serf.(*Serf).handleNodeLeave", "serf.(*Serf).handleNodeJoin", "serf.(*Serf).handleNodeLeaveIntent", "serf.(*Serf).handleNodeUpdate")
			got, status = nil, ""
			n, err := world.NewNode("a", 0)
			if err != nil {
				panic(err)
			}
			vsched.SetHorizon(vsched.Elapsed() + int64(5*time.Second))
			lt := uint64(10)
			do := func(op string) {
				switch op {
				case "alive":
					n.Events().NotifyJoin(n.MLNode("b", 1, map[string]string{"v": "1"}))
				case "dead":
					n.Events().NotifyLeave(n.MLNode("b", 1, nil))
				case "update":
					n.Events().NotifyUpdate(n.MLNode("b", 1, map[string]string{"v": "2"}))
				case "leave":
					lt += 5
					n.Delegate().NotifyMsg(serf.VEncode(serf.VMsgLeave, &serf.VMessageLeave{LTime: serf.LamportTime(lt), Node: "b"}))
				}
			}
			do("alive")
			for _, op := range p.pre {
				do(op)
			}
			vsched.Quiesce()
			vsched.Branching(true)
			h1 := vsched.Spawn("memberlist", func() { do(p.t1) })
			h2 := vsched.Spawn("gossip", func() { do(p.t2) })
			h1.Join()
			h2.Join()
			vsched.Branching(false)
			vsched.Quiesce()
			for _, e := range n.DrainEvents() {
				if me, ok := e.(serf.MemberEvent); ok {
					for _, m := range me.Members {
						if m.Name == "b" {
							got = append(got, me.Type.String())
						}
					}
				}
			}
			status = n.MemberStatus()["b"]
			n.S.Shutdown()
		}
		check := func(x *vsched.Exec) (string, string, string) {
			if len(x.Panics) > 0 {
				return "panic", "two-producers: panic " + x.Panics[0].Frame, x.Panics[0].Value + "\n" + x.Panics[0].Stack
			}
			if !x.RootDone {
				return "stuck", "two-producers: deadlock", fmt.Sprintf("blocked %+v", x.Blocked)
			}
			g := strings.Join(got, ",")
			ok := false
			for _, a := range p.allowed {
				if strings.Join(a, ",") == g {
					ok = true
				}
			}
			if !ok {
				return "order:" + g, "two-producers: member events in an order in which the member's status cannot have changed", fmt.Sprintf("%s: the application received %v for b (status now %s); possible orders of b's status changes: %v", p.name, got, status, p.allowed)
			}
			last := got[len(got)-1]
			want := map[string]string{"member-join": "alive", "member-update": "alive", "member-failed": "failed", "member-leave": "left"}[last]
			if want != status && !(want == "alive" && status == "leaving") { // a leave intent alone changes the status to leaving without an event
				return "last:" + g, "two-producers: last event does not match current status", fmt.Sprintf("%s: the application received %v for b, b is %s", p.name, got, status)
			}
			return g + "|" + status, "", ""
		}
		ctx.Explore(vc.ExploreOpts{Name: "two-producers/" + p.name, Bound: bound, MaxSteps: 100000}, body, check)
	}
}

// c16slowApplication: the coalescing stage alone (real coalesceLoop, member coalescer, coalesce
// period 3 s, quiescent period 1 s) feeding an application that stops reading for a while. A
// pass-through user event then blocks the stage in its send while further member events queue up
// behind it and the coalescing timers expire; when the application resumes, the stage finds
// expired timers AND queued events at once, and which it serves first is explored. The stage
// blocks rather than drops, so the last event the application receives for the member must be its
// latest one, and the events must come in an order in which the status can have changed.
func c16slowApplication(ctx *vc.Ctx, bound int) { c16slowApp(ctx, bound, false) }

// c16slowApp: user=false: member events through the member coalescer (pass-through: user events);
// user=true: coalescable user events "deploy" with Lamport times 1, 2, 3 through the user coalescer
// (pass-through: member events); the application must end up with the highest one.
func c16slowApp(ctx *vc.Ctx, bound int, user bool) {
	type win struct{ from, to time.Duration }
	for _, w := range []win{{3550 * time.Millisecond, 7 * time.Second}, {3550 * time.Millisecond, 6500 * time.Millisecond}, {3550 * time.Millisecond, 4800 * time.Millisecond}, {50 * time.Millisecond, 3200 * time.Millisecond}} {
		w := w
		var got []string
		body := func() {
			vsched.Branching(false)
			got = nil
			vsched.SetHorizon(int64(30 * time.Second))
			out := make(chan serf.Event, 1) // one slot: the stage's second send blocks until the application reads
			shut := make(chan struct{})
			co := serf.VNewMemberCoalescer()
			if user {
				co = serf.VNewUserCoalescer()
			}
			in := serf.VCoalescedEventCh(out, shut, 3*time.Second, time.Second, co)
			vsched.Quiesce()
			n := 0
			member := func(t serf.EventType) serf.Event {
				if user {
					n++
					return serf.UserEvent{Name: "deploy", LTime: serf.LamportTime(n), Coalesce: true}
				}
				return serf.MemberEvent{Type: t, Members: []serf.Member{{Name: "b"}}}
			}
			pass := func(i int) serf.Event {
				if user {
					return serf.MemberEvent{Type: serf.EventMemberUpdate, Members: []serf.Member{{Name: fmt.Sprintf("p%d", i)}}}
				}
				return serf.UserEvent{Name: fmt.Sprintf("pass-through-%d", i), LTime: serf.LamportTime(i)}
			}
			vsched.Branching(true)
			p := vsched.Spawn("producer", func() {
				in <- member(serf.EventMemberJoin) // t=0; flushed at 1 s
				vsched.Sleep(int64(3500*time.Millisecond), "producer")
				in <- member(serf.EventMemberFailed) // t=3.5 s: a quantum starts, it ends at 6.5 s
				vsched.Sleep(int64(100*time.Millisecond), "producer")
				in <- pass(1) // not coalesced: sent on at once, fills the slot
				in <- pass(2) // the stage blocks in this send
				vsched.Sleep(int64(400*time.Millisecond), "producer")
				in <- member(serf.EventMemberJoin) // t=4 s: the member is alive again
			})
			a := vsched.Spawn("application", func() {
				for vsched.Elapsed() < int64(14*time.Second) {
					now := time.Duration(vsched.Elapsed())
					if now < w.from || now >= w.to {
						for more := true; more; {
							select {
							case e := <-out:
								if me, ok := e.(serf.MemberEvent); ok && !user {
									got = append(got, me.Type.String())
								}
								if ue, ok := e.(serf.UserEvent); ok && user {
									got = append(got, fmt.Sprint(ue.LTime))
								}
							default:
								more = false
							}
						}
					}
					vsched.Sleep(int64(250*time.Millisecond), "application-poll")
				}
			})
			p.Join()
			a.Join()
			vsched.Branching(false)
			close(shut)
			vsched.Quiesce()
		}
		check := func(x *vsched.Exec) (string, string, string) {
			if len(x.Panics) > 0 {
				return "panic", "slow-application: panic " + x.Panics[0].Frame, x.Panics[0].Value + "\n" + x.Panics[0].Stack
			}
			if !x.RootDone {
				return "stuck", "slow-application: deadlock", fmt.Sprintf("blocked %+v", x.Blocked)
			}
			g := strings.Join(got, ",")
			ok := g == "member-join,member-failed,member-join" || g == "member-join" // failed+join inside one quantum coalesce to join, which repeats the last reported kind
			if user {
				ok = g == "1,3" || g == "1,2,3"
			}
			if !ok {
				return "order:" + g, "slow-application: the application's last event for the member is not its latest", fmt.Sprintf("application not reading during [%v,%v): b joined (0 s), failed (3.5 s), joined again (4 s); the application received %v", w.from, w.to, got)
			}
			return g, "", ""
		}
		kind := "member-events"
		if user {
			kind = "user-events"
		}
		ctx.Explore(vc.ExploreOpts{Name: fmt.Sprintf("slow-application/%s/not-reading-%v-%v", kind, w.from, w.to), Bound: bound, MaxSteps: 100000}, body, check)
	}
}
