package world

import (
	"bytes"
	"io"
	"net"
	"time"

	"github.com/hashicorp/go-msgpack/v2/codec"
	"github.com/hashicorp/memberlist"
)

// Peer is one node state listed in a push/pull reply (memberlist wire format).
type Peer struct {
	Name        string
	Addr        []byte
	Port        uint16
	Meta        []byte
	Incarnation uint32
	State       int // 0 alive, 1 suspect, 2 dead, 3 left
	Vsn         []uint8
}

type ppHeader struct {
	Nodes        int
	UserStateLen int
	Join         bool
}

const mlPushPullMsg = 6

// AlivePeer describes node idx as alive with the given encoded tags.
func AlivePeer(name string, idx int, meta []byte) Peer {
	return Peer{Name: name, Addr: []byte(NodeIP(idx).To4()), Port: 7946, Meta: meta, Incarnation: 1, State: 0,
		Vsn: []uint8{memberlist.ProtocolVersionMin, memberlist.ProtocolVersionMax, 2, 2, 5, 5}}
}

// EncodePushPull renders a memberlist push/pull stream (no compression, encryption or label).
func EncodePushPull(peers []Peer, userState []byte, join bool) []byte {
	var buf bytes.Buffer
	buf.WriteByte(mlPushPullMsg)
	enc := codec.NewEncoder(&buf, &codec.MsgpackHandle{})
	if err := enc.Encode(&ppHeader{Nodes: len(peers), UserStateLen: len(userState), Join: join}); err != nil {
		panic(err)
	}
	for i := range peers {
		if err := enc.Encode(&peers[i]); err != nil {
			panic(err)
		}
	}
	buf.Write(userState)
	return buf.Bytes()
}

// ppConn is the in-memory stream a dial returns: writes are collected, the reply
// is computed when the dialer starts reading (i.e. after it has sent its state).
type ppConn struct {
	req    bytes.Buffer
	reply  func(req []byte) []byte
	out    *bytes.Reader
	closed bool
}

func (c *ppConn) Write(b []byte) (int, error) { return c.req.Write(b) }
func (c *ppConn) Read(b []byte) (int, error) {
	if c.out == nil {
		c.out = bytes.NewReader(c.reply(c.req.Bytes()))
	}
	n, err := c.out.Read(b)
	if err == io.EOF && n > 0 {
		err = nil
	}
	return n, err
}
func (c *ppConn) Close() error                       { c.closed = true; return nil }
func (c *ppConn) LocalAddr() net.Addr                { return &net.TCPAddr{IP: net.IPv4(10, 0, 0, 250), Port: 1} }
func (c *ppConn) RemoteAddr() net.Addr               { return &net.TCPAddr{IP: net.IPv4(10, 0, 0, 251), Port: 7946} }
func (c *ppConn) SetDeadline(t time.Time) error      { return nil }
func (c *ppConn) SetReadDeadline(t time.Time) error  { return nil }
func (c *ppConn) SetWriteDeadline(t time.Time) error { return nil }

// NewPushPullConn returns a connection whose reply is produced by reply(request).
func NewPushPullConn(reply func(req []byte) []byte) net.Conn { return &ppConn{reply: reply} }

// DecodePushPullRequest parses what a dialer wrote (its node states and user state).
func DecodePushPullRequest(req []byte) (peers []Peer, userState []byte, join bool, ok bool) {
	if len(req) == 0 || req[0] != mlPushPullMsg {
		return nil, nil, false, false
	}
	r := bytes.NewReader(req[1:])
	dec := codec.NewDecoder(r, &codec.MsgpackHandle{})
	var h ppHeader
	if dec.Decode(&h) != nil {
		return nil, nil, false, false
	}
	peers = make([]Peer, h.Nodes)
	for i := range peers {
		if dec.Decode(&peers[i]) != nil {
			return nil, nil, false, false
		}
	}
	userState = make([]byte, h.UserStateLen)
	// the decoder may have buffered; take the tail of the request
	if h.UserStateLen > 0 {
		userState = append([]byte{}, req[len(req)-h.UserStateLen:]...)
	}
	return peers, userState, h.Join, true
}

// KnowPeers makes the node's memberlist (and thereby serf) learn the given peers
// as alive through a real Join whose push/pull reply lists them. userState is the
// serf push/pull payload of the responder (may be nil).
func (n *Node) KnowPeers(peers []Peer, userState []byte) (int, error) {
	old := n.Tr.Dial
	n.Tr.Dial = func(a memberlist.Address) (net.Conn, error) {
		return NewPushPullConn(func(req []byte) []byte { return EncodePushPull(peers, userState, false) }), nil
	}
	defer func() { n.Tr.Dial = old }()
	return n.S.Memberlist().Join([]string{peers[0].Name + "/" + net.IP(peers[0].Addr).String() + ":7946"})
}
