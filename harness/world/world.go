// Package world closes the system around real Serf instances: an inert real
// memberlist (custom transport that records and never delivers, no tickers) and
// helpers that play memberlist's role at the delegate interface.
package world

import (
	"fmt"
	"io"
	"net"
	"os"
	"sort"
	"sync"
	"time"

	"github.com/hashicorp/memberlist"
	"github.com/hashicorp/serf/serf"
	"github.com/hashicorp/serf/zzverif/vsched"
)

// Packet is one recorded transport write.
type Packet struct {
	To      string
	Raw     []byte
	User    []byte // payload of a memberlist user message ([userMsg][payload]), nil otherwise
	MsgType byte
}

// Transport implements memberlist.NodeAwareTransport without any network.
type Transport struct {
	mu       sync.Mutex
	Sent     []Packet
	packetCh chan *memberlist.Packet
	streamCh chan net.Conn
	// Dial, if set, answers stream dials (push/pull responder); default: refuse.
	Dial  func(addr memberlist.Address) (net.Conn, error)
	Dials []string
}

func NewTransport() *Transport {
	return &Transport{packetCh: make(chan *memberlist.Packet), streamCh: make(chan net.Conn)}
}

func (t *Transport) FinalAdvertiseAddr(ip string, port int) (net.IP, int, error) {
	return net.ParseIP(ip), port, nil
}

func (t *Transport) WriteTo(b []byte, addr string) (time.Time, error) {
	return t.WriteToAddress(b, memberlist.Address{Addr: addr})
}

const (
	mlUserMsg   = 8
	mlHasCrcMsg = 12
	mlCompound  = 7
)

func (t *Transport) WriteToAddress(b []byte, a memberlist.Address) (time.Time, error) {
	t.mu.Lock()
	defer t.mu.Unlock()
	raw := append([]byte{}, b...)
	p := Packet{To: a.Name + "/" + a.Addr, Raw: raw}
	body := raw
	if len(body) >= 5 && body[0] == mlHasCrcMsg {
		body = body[5:]
	}
	if len(body) >= 1 {
		p.MsgType = body[0]
		if body[0] == mlUserMsg {
			p.User = body[1:]
		}
	}
	t.Sent = append(t.Sent, p)
	return time.Time{}, nil
}

func (t *Transport) PacketCh() <-chan *memberlist.Packet { return t.packetCh }
func (t *Transport) StreamCh() <-chan net.Conn           { return t.streamCh }
func (t *Transport) Shutdown() error                     { return nil }

func (t *Transport) DialTimeout(addr string, timeout time.Duration) (net.Conn, error) {
	return t.DialAddressTimeout(memberlist.Address{Addr: addr}, timeout)
}

func (t *Transport) DialAddressTimeout(a memberlist.Address, timeout time.Duration) (net.Conn, error) {
	t.mu.Lock()
	t.Dials = append(t.Dials, a.Name+"/"+a.Addr)
	d := t.Dial
	t.mu.Unlock()
	if d == nil {
		return nil, fmt.Errorf("world: connection refused: %s", a.Addr)
	}
	return d(a)
}

// TakeSent returns and clears the recorded packets.
func (t *Transport) TakeSent() []Packet {
	t.mu.Lock()
	defer t.mu.Unlock()
	s := t.Sent
	t.Sent = nil
	return s
}

// Node is one real Serf instance over an inert memberlist.
type Node struct {
	Name    string
	IP      net.IP
	Port    int
	Conf    *serf.Config
	S       *serf.Serf
	EventCh chan serf.Event
	Tr      *Transport
}

// Opt customises the configuration before serf.Create.
type Opt func(c *serf.Config)

var logOut io.Writer = io.Discard

func init() {
	if os.Getenv("VERIF_LOG") != "" {
		logOut = os.Stderr
	}
}

// NodeIP is the deterministic address of the i-th node.
func NodeIP(i int) net.IP { return net.IPv4(10, 0, 0, byte(1+i)) }

// NewConfig builds the inert configuration for a node.
func NewConfig(name string, idx int, tr *Transport, evCh chan serf.Event) *serf.Config {
	mc := memberlist.DefaultLANConfig()
	mc.Name = name
	mc.BindAddr = NodeIP(idx).String()
	mc.BindPort = 7946
	mc.AdvertiseAddr = NodeIP(idx).String()
	mc.AdvertisePort = 7946
	mc.Transport = tr
	mc.ProbeInterval = 0
	mc.PushPullInterval = 0
	mc.GossipInterval = 100 * time.Millisecond
	mc.GossipNodes = 0
	mc.TCPTimeout = 50 * time.Millisecond
	mc.EnableCompression = false
	mc.RetransmitMult = 1
	mc.LogOutput = logOut
	mc.DeadNodeReclaimTime = 0
	mc.RequireNodeNames = false
	c := serf.DefaultConfig()
	c.Init()
	c.NodeName = name
	c.MemberlistConfig = mc
	c.EventCh = evCh
	c.LogOutput = logOut
	c.BroadcastTimeout = time.Millisecond
	c.LeavePropagateDelay = time.Second
	c.Tags = map[string]string{}
	c.ValidateNodeNames = false
	return c
}

// NewNode creates a real Serf instance. Call inside a vsched run.
func NewNode(name string, idx int, opts ...Opt) (*Node, error) {
	tr := NewTransport()
	ev := make(chan serf.Event, 4096)
	c := NewConfig(name, idx, tr, ev)
	for _, o := range opts {
		o(c)
	}
	s, err := serf.Create(c)
	if err != nil {
		return nil, err
	}
	return &Node{Name: name, IP: NodeIP(idx), Port: 7946, Conf: c, S: s, EventCh: ev, Tr: tr}, nil
}

// MLNode builds the memberlist.Node another node would be announced as.
func (n *Node) MLNode(name string, idx int, tags map[string]string) *memberlist.Node {
	if tags == nil {
		tags = map[string]string{}
	}
	return &memberlist.Node{
		Name: name, Addr: NodeIP(idx), Port: 7946, Meta: serf.VEncodeTags(n.S, tags),
		PMin: memberlist.ProtocolVersionMin, PMax: memberlist.ProtocolVersionMax, PCur: 2,
		DMin: serf.ProtocolVersionMin, DMax: serf.ProtocolVersionMax, DCur: n.Conf.ProtocolVersion,
	}
}

func (n *Node) Delegate() memberlist.Delegate         { return n.Conf.MemberlistConfig.Delegate }
func (n *Node) Events() memberlist.EventDelegate      { return n.Conf.MemberlistConfig.Events }
func (n *Node) Conflict() memberlist.ConflictDelegate { return n.Conf.MemberlistConfig.Conflict }
func (n *Node) Ping() memberlist.PingDelegate         { return n.Conf.MemberlistConfig.Ping }

// Outbox drains every queued broadcast (intents, queries, events).
func (n *Node) Outbox() [][]byte {
	var out [][]byte
	// atomic: memberlist's queue calls Serf.NumNodes (a lock = scheduling point)
	// while holding its own real mutex
	vsched.Atomic(func() {
		for i := 0; i < 64; i++ {
			m := n.Delegate().GetBroadcasts(2, 1400)
			if len(m) == 0 {
				break
			}
			for _, b := range m {
				out = append(out, append([]byte{}, b...))
			}
		}
	})
	return out
}

// DrainEvents returns everything currently on the application's event channel.
func (n *Node) DrainEvents() []serf.Event {
	var out []serf.Event
	for {
		select {
		case e := <-n.EventCh:
			out = append(out, e)
		default:
			return out
		}
	}
}

// MemberStatus returns name->status of the node's public member list.
func (n *Node) MemberStatus() map[string]string {
	m := map[string]string{}
	for _, x := range n.S.Members() {
		m[x.Name] = x.Status.String()
	}
	return m
}

// SortedMembers returns "name:status" sorted.
func (n *Node) SortedMembers() []string {
	var out []string
	for _, x := range n.S.Members() {
		out = append(out, x.Name+":"+x.Status.String())
	}
	sort.Strings(out)
	return out
}

// DescribeEvent renders an event compactly.
func DescribeEvent(e serf.Event) string {
	switch t := e.(type) {
	case serf.MemberEvent:
		s := t.Type.String() + "("
		for i, m := range t.Members {
			if i > 0 {
				s += ","
			}
			s += m.Name
		}
		return s + ")"
	case serf.UserEvent:
		return fmt.Sprintf("user(%d,%s,%q)", t.LTime, t.Name, t.Payload)
	case *serf.Query:
		return fmt.Sprintf("query(%d,%s,%q)", t.LTime, t.Name, t.Payload)
	}
	return fmt.Sprintf("%T", e)
}
