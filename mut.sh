#!/bin/bash
# usage: mut.sh <patch.diff> <ID> [tier]   — apply a patch to the repo under test, run the check, revert.
set -u
P=$(readlink -f "$1"); ID=$2; T=${3:-quick}
REPO=${VERIF_REPO:-/repo}; ROOT=${VERIF_ROOT:-/verif}
cd $REPO && git diff --quiet || { echo "repo dirty"; exit 3; }
git apply "$P" || { echo "patch does not apply"; exit 3; }
$ROOT/check $ID $T; rc=$?
git -C $REPO checkout -- .
echo "mut rc=$rc"
exit $rc
