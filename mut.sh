#!/bin/bash
# usage: mut.sh <patch.diff> <ID> [tier]   — apply a patch to /repo, run the check, revert.
set -u
P=$1; ID=$2; T=${3:-quick}
cd /repo && git diff --quiet || { echo "repo dirty"; exit 3; }
git apply "$P" || { echo "patch does not apply"; exit 3; }
/verif/check $ID $T; rc=$?
git -C /repo checkout -- . 
echo "mut rc=$rc"
exit $rc
