#!/bin/bash
# usage: runmutants.sh <ID> [tier] [glob]  — applies every mutants/<glob or ID-*>.diff to /repo in turn, runs the check, reverts.
ID=$1; TIER=${2:-quick}; GLOB=${3:-$ID-*.diff}
cd /repo && git diff --quiet || { echo "repo dirty"; exit 3; }
for p in /verif/mutants/$GLOB; do
  git apply $p 2>/dev/null || { echo "$(basename $p): DOES NOT APPLY"; continue; }
  out=$(/verif/check $ID $TIER 2>&1); rc=$?
  sigs=$(echo "$out" | grep -c '^VIOLATION')
  first=$(echo "$out" | grep -A1 '^VIOLATION' | grep signature= | head -1 | sed 's/.*signature=//' | cut -c1-90)
  echo "$(basename $p .diff): rc=$rc violations=$sigs ${first}"
  git checkout -q -- .
done
