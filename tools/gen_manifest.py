#!/usr/bin/env python3
"""Regenerates /verif/MANIFEST.json from the table below (run after adding a check)."""
import json, os

ROOT = "/verif"
props = [json.loads(l) for l in open(f"{ROOT}/properties.jsonl")]

# id -> (category, technique, level text, level note, design ref)
CHECKS = {}

def add(id, cat, technique, text, note, ref):
    CHECKS[id] = dict(cat=cat, technique=technique, text=text, note=note, ref=ref)

E1 = "stateless model checking: exhaustive preemption-bounded DFS over the schedules of the real code under a controlled scheduler (vsched)"
E3 = "explicit-state model checking: breadth-first search whose every transition calls the real handlers; canonical-state dedup"
E4 = "exhaustive crash-point / single-fault enumeration over an in-memory file system behind the real snapshot code"
E5 = "bounded exhaustive enumeration of a finite input/operation-sequence space against a reference model"

add("C19", "exploration", E1 + " + " + E5,
    "Every interleaving (unbounded preemptions) of 2-3 threads x 2 clock operations at atomic-operation granularity on the real LamportClock, and the complete 8-bit width-reduced instance of the same source (all counter/witness pairs, all 3-op sequences) plus the 64-bit boundary set. Exhaustive within those bounds; catches lost updates, non-monotone witnesses and off-by-one comparisons.",
    "Sequentially consistent atomics; the width-reduced shim truncates stores to 8 bits so wrap-around is that of the 64-bit code. The wrap at the maximal value is a recorded known finding.",
    "DESIGN.md §4 C19")
add("C29", "exploration", E1,
    "All interleavings up to 2 (quick) / 3 (thorough) preemptions of concurrent writers with Flush on the real GatedWriter and with RegisterHandler on the real logWriter, with scheduling points at every lock operation and before every statement (field read-modify-writes split), checked against exactly-once / order oracles.",
    "Statement-level sequential consistency; sink and handler are atomic harness objects.",
    "DESIGN.md §4 C29")

NOT_YET = "check not built yet in this session (planned, see DESIGN.md §4)"

def main():
    checks = []
    na = []
    for p in props:
        id = p["id"]
        if id in CHECKS:
            c = CHECKS[id]
            checks.append({
                "property_id": id,
                "quick_cmd": f"./check {id} quick",
                "thorough_cmd": f"./check {id} thorough",
                "evidence_file": f"/verif/evidence/{id}.json",
                "replay_cmd_template": f"./check {id} quick --replay {{path}}",
                "engine": "vsched",
                "level_claimed": {"category": c["cat"], "text": c["text"], "design_ref": c["ref"]},
                "level_note": c["note"],
                "technique": c["technique"],
            })
        else:
            na.append({"property_id": id, "reason": NOT_YET})
    m = {
        "version": 1,
        "setup_cmd": "./setup.sh",
        "hooks": {
            "guard": "verif",
            "enable": "no source hooks in /repo: ./check regenerates an instrumented copy of the current working tree with engine/vinstr and builds it with `go build -overlay build/instr/overlay.json` (shim packages mounted as github.com/hashicorp/serf/zzverif/*; injected export files carry //go:build verif semantics by existing only in the overlay)",
            "baseline_off_cmd": "cd /repo && GOFLAGS=-mod=mod GOPROXY=off go test -vet=off -count=1 -timeout 25m ./...",
            "source_commits": [],
            "add_only": True,
        },
        "engines": [
            {"name": "vsched", "path": "engine/shims/vsched", "kind_free_text": "controlled cooperative scheduler + deviation-bounded DFS explorer (stateless model checking of the real code), virtual time"},
            {"name": "vinstr", "path": "engine/vinstr", "kind_free_text": "go/ast rewriter producing a go build overlay: import seams, channel/select/go rewriting, statement-level points"},
            {"name": "vc", "path": "harness/vc", "kind_free_text": "check driver: process sharding, merge, known findings, evidence, replay"},
        ],
        "checks": checks,
        "not_applicable": na,
        "notes": "All checks rebuild from /repo's working tree on every run (./check). Known findings: known_findings.jsonl.",
    }
    for e in m["engines"]:
        e["serves_properties"] = sorted(CHECKS.keys())
    json.dump(m, open(f"{ROOT}/MANIFEST.json", "w"), indent=1)
    print(f"claimed {len(checks)}, not claimed {len(na)}")

main()
